import CifModel.Lemmas.ParseCB
/-
  CifModel.Lemmas.ParseCBTrace — which handler answers a run of the parser model has seen: every production either saw
  only non-stopping answers (CONTINUE, SKIP_CURRENT, SKIP_SIBLINGS), or its very last callback answered something else
  (END or a code) and that answer is the production's result.
-/
namespace CifModel.Lemmas.ParseCB
open CifModel.ParseCB

/-- the handler callbacks of a chronological log -/
def hs (l : List Ev) : List Ev := l.filter Ev.isHandler

@[simp] theorem hs_nil : hs [] = [] := rfl
@[simp] theorem hs_append (a b : List Ev) : hs (a ++ b) = hs a ++ hs b := by simp [hs]

/-- an answer that ends the parse: END or an error code -/
def isStop (r : Int) : Prop := r ≠ CONTINUE ∧ r ≠ SKIP_CURRENT ∧ r ≠ SKIP_SIBLINGS
instance (r : Int) : Decidable (isStop r) := by unfold isStop; infer_instance

theorem isStop_ne_ok {r : Int} (h : isStop r) : r ≠ OK := h.1

/-- the answers of `p` to the handler callbacks `l`, delivered as invocations `n, n+1, …`, are all non-stopping -/
def Clean (p : Prog) : Nat → List Ev → Prop
  | _, [] => True
  | n, e :: l => ¬ isStop (p n e) ∧ Clean p (n + 1) l

theorem clean_append (p : Prog) : ∀ (a b : List Ev) (n : Nat),
    Clean p n (a ++ b) ↔ Clean p n a ∧ Clean p (n + a.length) b
  | [], b, n => by simp [Clean]
  | e :: a, b, n => by
    simp only [List.cons_append, Clean, List.length_cons, clean_append p a b (n + 1)]
    rw [show n + 1 + a.length = n + (a.length + 1) by omega]
    exact and_assoc.symm

theorem clean_get (p : Prog) : ∀ (l : List Ev) (n : Nat), Clean p n l →
    ∀ (i : Nat) (h : i < l.length), ¬ isStop (p (n + i) l[i])
  | [], _, _, i, h => by simp at h
  | e :: l, n, hc, 0, _ => by simpa using hc.1
  | e :: l, n, hc, i + 1, h => by
    have := clean_get p l (n + 1) hc.2 i (by simpa using h)
    simpa [show n + (i + 1) = n + 1 + i by omega] using this

/-- what happened between the states `s` and `s'` of a production with result `r`: the callbacks `l` were appended to
    the log and the handler count advanced by the number of handler callbacks among them; either all their answers were
    non-stopping, or the last callback of all is a handler callback whose answer is stopping and *is* `r`, all earlier
    answers being non-stopping -/
def Tr (p : Prog) (s s' : St) (r : Int) : Prop :=
  ∃ l : List Ev, s'.log = l.reverse ++ s.log ∧ s'.n = s.n + (hs l).length ∧
    (Clean p s.n (hs l) ∨
      ∃ l0 e, l = l0 ++ [e] ∧ e.isHandler = true ∧ Clean p s.n (hs l0) ∧ p (s.n + (hs l0).length) e = r ∧ isStop r)

/-- only syntax callbacks between `s` and `s'` -/
def Syn (s s' : St) : Prop :=
  ∃ l : List Ev, s'.log = l.reverse ++ s.log ∧ hs l = [] ∧ s'.n = s.n

theorem Syn.refl (s : St) : Syn s s := ⟨[], by simp, rfl, rfl⟩

theorem Syn.of_eq {s s' : St} (hl : s'.log = s.log) (hn : s'.n = s.n) : Syn s s' := ⟨[], by simp [hl], rfl, hn⟩

theorem Syn.trans {a b c : St} (h1 : Syn a b) (h2 : Syn b c) : Syn a c := by
  obtain ⟨l1, hl1, hh1, hn1⟩ := h1
  obtain ⟨l2, hl2, hh2, hn2⟩ := h2
  exact ⟨l1 ++ l2, by simp [hl2, hl1], by simp [hh1, hh2], by omega⟩

theorem Syn.tr {s s' : St} (h : Syn s s') (p : Prog) (r : Int) : Tr p s s' r := by
  obtain ⟨l, hl, hh, hn⟩ := h
  exact ⟨l, hl, by simp [hh, hn], Or.inl (by simp [hh, Clean])⟩

theorem Syn.note (s : St) (e : Ev) (he : e.isHandler = false) : Syn s (note s e) :=
  ⟨[e], by simp [ParseCB.note], by simp [hs, he], rfl⟩

/-- same log and count: the trace carries over (dec, inc, consume, setSkip …) -/
theorem Tr.state {p : Prog} {s s' s'' : St} {r : Int} (h : Tr p s s' r) (hl : s''.log = s'.log) (hn : s''.n = s'.n) :
    Tr p s s'' r := by
  obtain ⟨l, h1, h2, h3⟩ := h
  exact ⟨l, by rw [hl, h1], by rw [hn, h2], h3⟩

/-- a production that ended with CIF_OK did not see a stopping answer; its trace fits any result -/
theorem Tr.of_ok {p : Prog} {s s' : St} (h : Tr p s s' OK) (r : Int) : Tr p s s' r := by
  obtain ⟨l, h1, h2, h3⟩ := h
  refine ⟨l, h1, h2, Or.inl ?_⟩
  rcases h3 with h3 | ⟨l0, e, _, _, _, _, hstop⟩
  · exact h3
  · exact absurd rfl (isStop_ne_ok hstop)

/-- sequencing: a stretch that ended with CIF_OK followed by anything -/
theorem Tr.trans {p : Prog} {a b c : St} {r : Int} (h1 : Tr p a b OK) (h2 : Tr p b c r) : Tr p a c r := by
  obtain ⟨l1, hl1, hn1, hc1⟩ := h1
  obtain ⟨l2, hl2, hn2, hc2⟩ := h2
  have hclean1 : Clean p a.n (hs l1) := by
    rcases hc1 with h | ⟨_, _, _, _, _, _, hstop⟩
    · exact h
    · exact absurd rfl (isStop_ne_ok hstop)
  refine ⟨l1 ++ l2, by simp [hl2, hl1], by simp [hn2, hn1]; omega, ?_⟩
  rcases hc2 with h | ⟨l0, e, he, hh, hc0, hp0, hstop⟩
  · left
    simp only [hs_append]
    exact (clean_append p _ _ _).mpr ⟨hclean1, hn1 ▸ h⟩
  · right
    refine ⟨l1 ++ l0, e, by simp [he], hh, ?_, ?_, hstop⟩
    · simp only [hs_append]
      exact (clean_append p _ _ _).mpr ⟨hclean1, hn1 ▸ hc0⟩
    · rw [← hp0, hn1]; simp [Nat.add_assoc]

theorem Syn.then {p : Prog} {a b c : St} {r : Int} (h1 : Syn a b) (h2 : Tr p b c r) : Tr p a c r :=
  Tr.trans (h1.tr p OK) h2

/-- a handler call site -/
theorem site_tr (p : Prog) (s : St) (e : Ev) (cur sib : Option Int) (he : e.isHandler = true) :
    Tr p s (site p s e cur sib).2 (site p s e cur sib).1 := by
  have hlog : (site p s e cur sib).2.log = e :: s.log := by
    unfold site
    split
    · rfl
    · split
      · cases cur <;> rfl
      · split
        · cases sib <;> rfl
        · rfl
  have hn : (site p s e cur sib).2.n = s.n + 1 := by
    unfold site
    split
    · rfl
    · split
      · cases cur <;> rfl
      · split
        · cases sib <;> rfl
        · rfl
  refine ⟨[e], by simp [hlog], by simp [hs, he, hn], ?_⟩
  by_cases hst : isStop (p s.n e)
  · right
    refine ⟨[], e, rfl, he, trivial, ?_, ?_⟩
    · simp only [hs_nil, List.length_nil, Nat.add_zero]
      rw [site_stop p s e cur sib (p s.n e) rfl hst.1 hst.2.1 hst.2.2]
    · rw [site_stop p s e cur sib (p s.n e) rfl hst.1 hst.2.1 hst.2.2]; exact hst
  · left
    simp only [hs, he, List.filter_cons_of_pos, List.filter_nil, Clean, and_true]
    exact hst

-- ---- the productions ------------------------------------------------------------------------------------------------

theorem reportPre_syn : ∀ (l : List Seg) (s : St), Syn s (reportPre l s)
  | [], s => Syn.refl s
  | .ws t :: r, s => by
    simp only [reportPre]
    split
    · exact (Syn.note s (.ws t) rfl).trans (reportPre_syn r _)
    · exact reportPre_syn r s
  | .comment t :: r, s => by
    simp only [reportPre]
    exact (Syn.note s (.ws t) rfl).trans (reportPre_syn r _)

theorem nextToken_syn (s : St) : Syn s (nextToken s).2 := by
  unfold nextToken
  split
  · exact Syn.refl s
  · split
    · exact Syn.refl s
    · exact (reportPre_syn _ s).trans (Syn.of_eq rfl rfl)

theorem consume_syn (s : St) : Syn s (consume s) := Syn.of_eq rfl rfl

/-- values: only whitespace callbacks -/
theorem value_syn : ∀ (fuel : Nat),
    (∀ s, Syn s (parseValue fuel s).2.2) ∧ (∀ s acc, Syn s (listLoop fuel s acc).2.2) ∧ (∀ s acc, Syn s (tableLoop fuel s acc).2.2)
  | 0 => by simp [parseValue, listLoop, tableLoop, Syn.refl]
  | fuel + 1 => by
    obtain ⟨ihv, ihl, iht⟩ := value_syn fuel
    refine ⟨?_, ?_, ?_⟩
    · intro s
      simp only [parseValue]
      split
      · exact (nextToken_syn s).trans ((consume_syn _).trans (ihl _ _))
      · exact (nextToken_syn s).trans ((consume_syn _).trans (iht _ _))
      · exact (nextToken_syn s).trans (consume_syn _)
      · exact (nextToken_syn s).trans (consume_syn _)
      · exact (nextToken_syn s).trans (consume_syn _)
      · exact nextToken_syn s
    · intro s acc
      simp only [listLoop]
      split
      · split
        · exact (nextToken_syn s).trans ((ihv _).trans (ihl _ _))
        · exact (nextToken_syn s).trans (ihv _)
      · split
        · exact (nextToken_syn s).trans (consume_syn _)
        · exact nextToken_syn s
    · intro s acc
      simp only [tableLoop]
      split
      · split
        · split
          · exact (nextToken_syn s).trans ((consume_syn _).trans ((nextToken_syn _).trans ((ihv _).trans (iht _ _))))
          · exact (nextToken_syn s).trans ((consume_syn _).trans ((nextToken_syn _).trans (ihv _)))
        · exact (nextToken_syn s).trans ((consume_syn _).trans (nextToken_syn _))
      · split
        · exact (nextToken_syn s).trans (consume_syn _)
        · exact nextToken_syn s

theorem pv_syn (fuel : Nat) (s : St) : Syn s (parseValue fuel s).2.2 := (value_syn fuel).1 s

theorem inc_syn (s : St) : Syn s (inc s) := by unfold inc; split <;> exact Syn.of_eq rfl rfl
theorem dec_syn (s : St) : Syn s (dec s) := by unfold dec; split <;> exact Syn.of_eq rfl rfl
theorem dec_log (s : St) : (dec s).log = s.log := by unfold dec; split <;> rfl
theorem dec_n (s : St) : (dec s).n = s.n := by unfold dec; split <;> rfl

theorem item_tr (p : Prog) (fuel : Nat) (cont : Bool) (name : Option Str) (s : St) :
    Tr p s (parseItem p fuel cont name s).2.1 (parseItem p fuel cont name s).1 := by
  unfold parseItem
  dsimp only
  have h1 : Syn s (inc (nextToken s).2) := (nextToken_syn s).trans (inc_syn _)
  split
  · exact (h1.trans (dec_syn _)).tr p _
  · have h2 := h1.trans (pv_syn fuel (inc (nextToken s).2))
    split
    · cases name with
      | none => exact (h2.trans (dec_syn _)).tr p _
      | some nm =>
        dsimp only [scalarItemStep]
        exact h2.then ((site_tr p _ (.item nm _) none (some 2) rfl).state (dec_log _) (dec_n _))
    · exact (h2.trans (dec_syn _)).tr p _

theorem header_syn : ∀ (fuel : Nat) (s : St) (acc : List Str), Syn s (headerLoop fuel s acc).2.2
  | 0, s, acc => Syn.refl s
  | fuel + 1, s, acc => by
    simp only [headerLoop]
    split
    · refine (nextToken_syn s).trans (Syn.trans ?_ (header_syn fuel _ _))
      split
      · exact (Syn.note _ _ rfl).trans (consume_syn _)
      · exact consume_syn _
    · exact nextToken_syn s

theorem pktStart_tr (p : Prog) (s : St) : Tr p s (pktStartStep p s).2 (pktStartStep p s).1 := by
  unfold pktStartStep
  split
  · exact (Syn.of_eq rfl rfl).tr p _
  · exact site_tr p s .pktStart _ _ rfl

theorem pktEnd_tr (p : Prog) (items : List (Str × V)) (s : St) :
    Tr p s (pktEndStep p items s).2.1 (pktEndStep p items s).1 := by
  unfold pktEndStep
  split
  · exact (Syn.of_eq rfl rfl).tr p _
  · exact site_tr p s (.pktEnd items) _ _ rfl

/-- the packet loop.  (When parse_value fails inside a packet, its result — not a handler's — is returned.) -/
theorem packets_tr (p : Prog) (loopH : Bool) (names : List Str) : ∀ (fuel : Nat) (s : St) (k : PkSt),
    Tr p s (packetsLoop p loopH names fuel s k).2.1 (packetsLoop p loopH names fuel s k).1
  | 0, s, k => (Syn.refl s).tr p _
  | fuel + 1, s, k => by
    have ih := packets_tr p loopH names fuel
    unfold packetsLoop
    have hnt := nextToken_syn s
    by_cases hval : isValueStart (nextToken s).1 = true
    · simp only [hval, if_true]
      have hs1 : Tr p s (if k.col = 0 then pktStartStep p (nextToken s).2 else (OK, (nextToken s).2)).2
          (if k.col = 0 then pktStartStep p (nextToken s).2 else (OK, (nextToken s).2)).1 := by
        split
        · exact hnt.then (pktStart_tr p _)
        · exact hnt.tr p _
      generalize (if k.col = 0 then pktStartStep p (nextToken s).2 else (OK, (nextToken s).2)) = s1 at hs1 ⊢
      by_cases h1 : s1.1 = OK
      · simp only [h1, ne_eq, not_true_eq_false, if_false]
        rw [h1] at hs1
        have hpv := pv_syn fuel s1.2
        generalize parseValue fuel s1.2 = pv at hpv ⊢
        -- the item step
        have hit : Tr p s (itemStep p (names.getD k.col []) pv.1 pv.2.1 pv.2.2).2
            (itemStep p (names.getD k.col []) pv.1 pv.2.1 pv.2.2).1 := by
          refine Tr.trans hs1 (hpv.then ?_)
          unfold itemStep
          split
          · exact site_tr p _ (.item _ _) _ _ rfl
          · exact (Syn.refl _).tr p _
        generalize itemStep p (names.getD k.col []) pv.1 pv.2.1 pv.2.2 = it at hit ⊢
        by_cases h2 : it.1 = OK
        · simp only [h2, ne_eq, not_true_eq_false, if_false]
          rw [h2] at hit
          by_cases hcol : (k.col + 1) % names.length = 0
          · simp only [hcol, if_true]
            have hpe := pktEnd_tr p (List.zip names (k.row ++ [pv.2.1])) it.2
            generalize pktEndStep p (List.zip names (k.row ++ [pv.2.1])) it.2 = pe at hpe ⊢
            by_cases h3 : pe.1 = OK
            · simp only [h3, ne_eq, not_true_eq_false, if_false]
              rw [h3] at hpe
              exact Tr.trans (Tr.trans hit hpe) (ih _ _)
            · simp only [h3, ne_eq, not_false_eq_true, if_true]
              exact Tr.trans hit hpe
          · simp only [hcol, if_false]
            exact Tr.trans hit (ih _ _)
        · simp only [h2, ne_eq, not_false_eq_true, if_true]
          exact hit
      · simp only [h1, ne_eq, not_false_eq_true, if_true]
        exact hs1
    · simp only [hval, Bool.false_eq_true, if_false]
      split
      · exact hnt.tr p _
      · split
        · exact hnt.tr p _
        · split
          · exact hnt.tr p _
          · exact hnt.tr p _

theorem loopStart_tr (p : Prog) (cont : Bool) (names : List Str) (s : St) :
    Tr p s (loopStartStep p cont names s).2.1 (loopStartStep p cont names s).1 := by
  unfold loopStartStep
  split
  · exact site_tr p s (.loopStart names) _ _ rfl
  · exact (Syn.refl s).tr p _

theorem loopStart_body (p : Prog) (cont : Bool) (names : List Str) (s : St)
    (h : (loopStartStep p cont names s).2.2.2 = true) : (loopStartStep p cont names s).1 = OK := by
  unfold loopStartStep at h ⊢
  split
  · rename_i h0; simp only [h0, if_true] at h; simpa using h
  · rfl

/-- the loop_end step after a stretch with result `r` -/
theorem loopEnd_tr (p : Prog) (hd : Option (List Str)) (r : Int) (a s : St) (h : Tr p a s r) :
    Tr p a (loopEndStep p hd r s).2 (loopEndStep p hd r s).1 := by
  unfold loopEndStep
  split
  · exact h.state rfl rfl
  · split
    · rename_i hr
      rw [hr] at h
      exact Tr.trans h (site_tr p s (.loopEnd hd) _ _ rfl)
    · exact h

theorem loop_tr (p : Prog) (fuel : Nat) (cont : Bool) (s : St) :
    Tr p s (parseLoop p fuel cont s).2.1 (parseLoop p fuel cont s).1 := by
  unfold parseLoop
  have hhd : Syn s (headerLoop fuel (inc s) []).2.2 := (inc_syn s).trans (header_syn fuel _ _)
  generalize headerLoop fuel (inc s) [] = hd at hhd ⊢
  dsimp only
  split
  · exact loopEnd_tr p none hd.1 s hd.2.2 (hhd.tr p _)
  · split
    · exact loopEnd_tr p none MALFORMED s hd.2.2 (hhd.tr p _)
    · have hls := hhd.then (loopStart_tr p cont hd.2.1 hd.2.2)
      have hbody := loopStart_body p cont hd.2.1 hd.2.2
      generalize loopStartStep p cont hd.2.1 hd.2.2 = ls at hls hbody ⊢
      split
      · rename_i hb
        rw [hbody hb] at hls
        exact loopEnd_tr p _ _ s _ (Tr.trans hls (packets_tr p _ _ fuel _ _))
      · exact loopEnd_tr p _ _ s _ hls

theorem contStart_tr (p : Prog) (cont isBlock : Bool) (code : Str) (s : St) :
    Tr p s (contStartStep p cont isBlock code s).2 (contStartStep p cont isBlock code s).1 := by
  unfold contStartStep
  split
  · exact (inc_syn s).tr p _
  · refine site_tr p s _ _ _ ?_
    cases isBlock <;> rfl

theorem containerEnd_tr (p : Prog) (cont isBlock : Bool) (code : Str) (r : Int) (a s : St) (c : Content)
    (h : Tr p a s r) :
    Tr p a (containerEnd p cont isBlock code r s c).2.1 (containerEnd p cont isBlock code r s c).1 := by
  unfold containerEnd
  split
  · rename_i hr
    rw [hr.1] at h
    refine Tr.trans (h.state (dec_log s) (dec_n s)) (site_tr p (dec s) _ _ _ ?_)
    cases isBlock <;> rfl
  · exact h.state (dec_log s) (dec_n s)

/-- an element production followed by the rest of the element loop -/
theorem seq_tr (p : Prog) (a b : St) (x1 : Int) (cB : Content) (rest : Int × St × Content)
    (h1 : Tr p a b x1) (h2 : Tr p b rest.2.1 rest.1) :
    Tr p a (if x1 = OK then rest else (x1, b, cB)).2.1 (if x1 = OK then rest else (x1, b, cB)).1 := by
  by_cases h : x1 = OK
  · simp only [h, if_true]
    rw [h] at h1
    exact Tr.trans h1 h2
  · simp only [h, if_false]
    exact h1

theorem container_tr (p : Prog) (m : Int) : ∀ (fuel : Nat),
    (∀ cont isBlock code s, Tr p s (parseContainer p m fuel cont isBlock code s).2.1 (parseContainer p m fuel cont isBlock code s).1)
    ∧ (∀ cont isBlock s c, Tr p s (elemsLoop p m fuel cont isBlock s c).2.1 (elemsLoop p m fuel cont isBlock s c).1)
  | 0 => by
    constructor
    · intro cont isBlock code s; simp only [parseContainer]; exact (Syn.refl s).tr p _
    · intro cont isBlock s c; simp only [elemsLoop]; exact (Syn.refl s).tr p _
  | fuel + 1 => by
    obtain ⟨ihc, ihe⟩ := container_tr p m fuel
    constructor
    · intro cont isBlock code s
      unfold parseContainer
      dsimp only
      have hst := contStart_tr p cont isBlock code s
      generalize contStartStep p cont isBlock code s = st at hst ⊢
      split
      · exact containerEnd_tr p _ _ _ _ s _ _ hst
      · rename_i h1
        have h1' : st.1 = OK := by simpa using h1
        rw [h1'] at hst
        exact containerEnd_tr p _ _ _ _ s _ _ (Tr.trans hst (ihe _ _ _ _))
    · intro cont isBlock s0 c
      unfold elemsLoop
      dsimp only
      have hnt := nextToken_syn s0
      generalize nextToken s0 = nt at hnt ⊢
      split
      · split <;> exact hnt.tr p _
      · -- frameHead
        split
        · exact hnt.then (seq_tr p _ _ _ _ _ ((consume_syn _).then (ihc _ _ _ _)) (ihe _ _ _ _))
        · split
          · exact hnt.tr p _
          · split
            · exact hnt.tr p _
            · exact hnt.then (seq_tr p _ _ _ _ _ ((consume_syn _).then (ihc _ _ _ _)) (ihe _ _ _ _))
      · split <;> exact (hnt.trans (consume_syn _)).tr p _
      · -- loopKw
        refine hnt.then (seq_tr p _ _ _ _ _ ?_ (ihe _ _ _ _))
        refine Syn.then ?_ (loop_tr p fuel cont _)
        split
        · exact (Syn.note _ _ rfl).trans (consume_syn _)
        · exact consume_syn _
      · -- name
        split
        · exact hnt.then (seq_tr p _ _ _ _ _ ((consume_syn _).then (item_tr p fuel cont none _)) (ihe _ _ _ _))
        · exact hnt.then (seq_tr p _ _ _ _ _
            (((Syn.note _ _ rfl).trans (consume_syn _)).then (item_tr p fuel cont _ _)) (ihe _ _ _ _))
      · split <;> exact hnt.tr p _
      · exact hnt.tr p _

theorem blocks_tr (p : Prog) (m : Int) (cif : Bool) : ∀ (fuel : Nat) (s : St) (acc : List Container),
    Tr p s (blocksLoop p m cif fuel s acc).2.1 (blocksLoop p m cif fuel s acc).1
  | 0, s, acc => (Syn.refl s).tr p _
  | fuel + 1, s0, acc => by
    unfold blocksLoop
    dsimp only
    have hnt := nextToken_syn s0
    generalize nextToken s0 = nt at hnt ⊢
    split
    · have hb := (container_tr p m fuel).1 (cif && decide (nt.2.skip ≤ 0)) true (cur nt.2).text (consume nt.2)
      generalize parseContainer p m fuel (cif && decide (nt.2.skip ≤ 0)) true (cur nt.2).text (consume nt.2) = b at hb ⊢
      by_cases h1 : b.1 = OK
      · simp only [h1, if_true]
        rw [h1] at hb
        exact hnt.then (Tr.trans ((consume_syn _).then hb) (blocks_tr p m cif fuel _ _))
      · simp only [h1, if_false]
        exact hnt.then ((consume_syn _).then hb)
    · exact hnt.tr p _
    · exact hnt.tr p _

-- ---- the whole parse ----------------------------------------------------------------------------------------------------

/-- a plain handler call whose answer is the result -/
theorem call_tr (p : Prog) (s : St) (e : Ev) (he : e.isHandler = true) : Tr p s (push s e) (p s.n e) := by
  refine ⟨[e], by simp, by simp [hs, he], ?_⟩
  by_cases hst : isStop (p s.n e)
  · exact Or.inr ⟨[], e, rfl, he, trivial, by simp, hst⟩
  · left
    simp only [hs, he, List.filter_cons_of_pos, List.filter_nil, Clean, and_true]
    exact hst

/-- the verdict on a whole parse: the chronological log `l`; either no handler answer was a stopping one, or the last
    callback of all is a handler callback with a stopping answer `x`, and the return value is `x` if positive, else CIF_OK -/
def TopTr (p : Prog) (st : St) (rc : Int) : Prop :=
  ∃ l : List Ev, st.log = l.reverse ∧
    (Clean p 0 (hs l) ∨
      ∃ l0 e, l = l0 ++ [e] ∧ e.isHandler = true ∧ Clean p 0 (hs l0) ∧ isStop (p (hs l0).length e)
        ∧ rc = (if p (hs l0).length e > 0 then p (hs l0).length e else OK))

theorem top_of_tr (p : Prog) (toks : List Tok) (s' : St) (r : Int) (h : Tr p (St.init toks) s' r) :
    TopTr p s' (if r > OK then r else OK) := by
  obtain ⟨l, hl, _, hc⟩ := h
  refine ⟨l, by simpa [St.init] using hl, ?_⟩
  rcases hc with hc | ⟨l0, e, he, hh, hc0, hp0, hst⟩
  · exact Or.inl (by simpa [St.init] using hc)
  · right
    simp only [St.init, Nat.zero_add] at hc0 hp0
    exact ⟨l0, e, he, hh, hc0, hp0 ▸ hst, by rw [hp0]; rfl⟩

theorem cifEnd_top (p : Prog) (toks : List Tok) (cif : Bool) (r : Int) (s : St) (h : Tr p (St.init toks) s r) :
    TopTr p (cifEndStep p cif r s).2 (cifEndStep p cif r s).1 := by
  unfold cifEndStep
  split
  · rename_i hr
    rw [hr] at h
    exact top_of_tr p toks _ _ (Tr.trans (h.state (dec_log s) (dec_n s)) (call_tr p (dec s) (.cifEnd cif) rfl))
  · exact top_of_tr p toks _ _ (h.state (dec_log s) (dec_n s))

theorem cif_top (p : Prog) (m : Int) (cif : Bool) (fuel : Nat) (toks : List Tok) :
    TopTr p (parseCif p m cif fuel (St.init toks)).2.1 (parseCif p m cif fuel (St.init toks)).1 := by
  unfold parseCif
  split
  · rename_i hend
    refine ⟨[.cifStart cif], by simp [St.init], Or.inr ⟨[], .cifStart cif, rfl, rfl, trivial, ?_, ?_⟩⟩
    · simp only [St.init] at hend
      simp only [hs_nil, List.length_nil, hend]
      decide
    · simp only [St.init] at hend
      simp only [hs_nil, List.length_nil, hend]
      decide
  · have hst := site_tr p (St.init toks) (.cifStart cif) (some 1) (some 1) rfl
    generalize site p (St.init toks) (.cifStart cif) (some 1) (some 1) = st at hst ⊢
    dsimp only
    split
    · rename_i h1
      rw [h1] at hst
      exact cifEnd_top p toks cif _ _ (Tr.trans hst (blocks_tr p m cif fuel _ _))
    · exact cifEnd_top p toks cif _ _ hst

/-- a stopping answer (END, or any code) is the last callback of the whole parse and determines the return value;
    without one, nothing is claimed here -/
theorem stop_of_top (p : Prog) (st : St) (rc : Int) (h : TopTr p st rc) :
    ∀ (k : Nat) (hk : k < (hs st.log.reverse).length), isStop (p k (hs st.log.reverse)[k]) →
      k + 1 = (hs st.log.reverse).length ∧ st.log.head? = some (hs st.log.reverse)[k]
      ∧ rc = (if p k (hs st.log.reverse)[k] > 0 then p k (hs st.log.reverse)[k] else OK) := by
  obtain ⟨l, hl, hc⟩ := h
  simp only [hl, List.reverse_reverse]
  intro k hk hstop
  rcases hc with hc | ⟨l0, e, he, hh, hc0, hst, hrc⟩
  · have := clean_get p (hs l) 0 hc k hk
    simp only [Nat.zero_add] at this
    exact absurd hstop this
  · subst he
    have hhs : hs (l0 ++ [e]) = hs l0 ++ [e] := by simp [hs, hh]
    have hkk : k = (hs l0).length := by
      by_cases hlt : k < (hs l0).length
      · have := clean_get p (hs l0) 0 hc0 k hlt
        simp only [Nat.zero_add] at this
        have hget : (hs (l0 ++ [e]))[k] = (hs l0)[k] := by
          simp only [hhs]; exact List.getElem_append_left hlt
        rw [hget] at hstop
        exact absurd hstop this
      · simp only [hhs, List.length_append, List.length_singleton] at hk; omega
    subst hkk
    have hget : (hs (l0 ++ [e]))[(hs l0).length]'hk = e := by simp [hhs]
    refine ⟨by simp [hhs], ?_, ?_⟩
    · rw [hget]; simp
    · rw [hget]; exact hrc

end CifModel.Lemmas.ParseCB
