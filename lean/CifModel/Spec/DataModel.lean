import CifModel.Model.Types
import CifModel.Gen.ErrCodes
/-
  CifModel.Spec.DataModel — the DOCUMENTED data model of a managed CIF (cif.h, "data model" and the function
  descriptions), over `Cif` / `Container` / `Loop` of Model/Types.lean.  Written from the documentation, not from the C.

  Names are stored in their original spelling; `norm` (name normalisation, property C09's subject) is a parameter: two
  names denote the same item iff their normalised forms are equal.  Packets of the request are keyed by normalised name.

  This file gives the loop- and container-level operations that the property statement C04 singles out:
  add_packet, set_value, remove_item, set_category, and (group gX, for the composition with the parser) create_loop and prune.
  (`specStep` for whole histories, with object identities: Spec/StoreSpec.lean.)
-/
namespace CifModel
open Gen.ErrCodes

variable (norm : Str → Str)

def Loop.specHasItem (l : Loop) (key : Str) : Bool := l.names.any (fun n => norm n == key)
def Loop.specIsScalar (l : Loop) : Bool := l.category == some []

/-- cif_loop_add_packet: "The packet object is not required to provide data for all items in the loop (items without
    specified values get the explicit unknown value), but it must specify at least one value, and it must not provide
    data for any items not in the loop"; the scalar loop never holds more than one packet. -/
def Loop.specAddPacket (l : Loop) (pkt : List (Str × V)) : Except Code Loop :=
  if pkt.isEmpty then .error CIF_INVALID_PACKET
  else if l.specIsScalar && !l.packets.isEmpty then .error CIF_RESERVED_LOOP
  else if pkt.any (fun e => !l.specHasItem norm e.1) then .error CIF_WRONG_LOOP
  else .ok { l with packets := l.packets ++ [l.names.map (fun n => ((pkt.find? (fun e => e.1 == norm n)).map (·.2)).getD .unk)] }

/-- removing one item from a loop: its column goes, the packets stay; the loop goes with its last item -/
def Loop.specRemoveItem (l : Loop) (key : Str) : Option Loop :=
  let keep := (List.range l.names.length).filter (fun i => !(norm (l.names.getD i []) == key))
  if keep.isEmpty then none
  else some { l with names := keep.map (fun i => l.names.getD i []), packets := l.packets.map (fun p => keep.map (fun i => p.getD i .unk)) }

/-- cif_container_remove_item -/
def Container.specRemoveItem : Container → Str → Except Code Container
  | .mk code fs ls, key =>
    if ls.any (fun l => l.specHasItem norm key) then
      .ok (.mk code fs (ls.filterMap (fun l => if l.specHasItem norm key then l.specRemoveItem norm key else some l)))
    else .error CIF_NOSUCH_ITEM

/-- cif_container_set_value: "sets the value in every packet of the item's loop, or adds the item as a new scalar" -/
def Container.specSetValue : Container → Str → Str → V → Container
  | .mk code fs ls, key, orig, v =>
    if ls.any (fun l => l.specHasItem norm key) then
      .mk code fs (ls.map (fun l => if l.specHasItem norm key then
        { l with packets := l.packets.map (fun p => (List.range l.names.length).map (fun i =>
            if norm (l.names.getD i []) == key then v else p.getD i .unk)) } else l))
    else if ls.any Loop.specIsScalar then
      .mk code fs (ls.map (fun l => if l.specIsScalar then
        { l with names := l.names ++ [orig], packets := match l.packets with
            | [] => [l.names.map (fun _ => V.unk) ++ [v]]
            | ps => ps.map (· ++ [v]) } else l))
    else .mk code fs (ls ++ [{ category := some [], names := [orig], packets := [[v]] }])

/-- cif_loop_set_category: "No loop's category may be set to a zero-character string (unless that's what it already is),
    nor may a loop's category be changed if it is the zero-character string."  The parameter's description says "may be NULL, but
    must not be a zero-length string" without the exception; the library follows that reading (the scalar loop refuses every
    call, also the one that would set "" again), and so does this function. -/
def Loop.specSetCategory (l : Loop) (cat : Option Str) : Except Code Loop :=
  if l.specIsScalar then .error CIF_RESERVED_LOOP
  else if cat == some [] then .error CIF_RESERVED_LOOP
  else .ok { l with category := cat }


/-- cif_get_block: the block whose code matches (normalised), or CIF_NOSUCH_BLOCK -/
def specGetBlock (cif : Cif) (key : Str) : Except Code Container :=
  match cif.find? (fun c => norm c.code == key) with
  | some c => .ok c
  | none => .error CIF_NOSUCH_BLOCK

/-- cif_create_block: a new, empty block under the spelling given, unless the code is invalid or (normalised) already in use -/
def specCreateBlock (cif : Cif) (key orig : Str) (valid : Bool) : Except Code Cif :=
  if !valid then .error CIF_INVALID_BLOCKCODE
  else if cif.any (fun c => norm c.code == key) then .error CIF_DUP_BLOCKCODE
  else .ok (cif ++ [.mk orig [] []])

/-- cif_container_get_frame: the save frame of the container whose code matches (normalised); an invalid code is refused -/
def Container.specGetFrame (c : Container) (key : Str) (valid : Bool) : Except Code Container :=
  if !valid then .error CIF_INVALID_FRAMECODE
  else match c.frames.find? (fun f => norm f.code == key) with
    | some f => .ok f
    | none => .error CIF_NOSUCH_FRAME

/-- cif_container_create_frame: a new, empty save frame under the spelling given, last among the container's frames, unless the
    code is invalid or (normalised) already in use in this container -/
def Container.specCreateFrame (c : Container) (key orig : Str) (valid : Bool) : Except Code Container :=
  if !valid then .error CIF_INVALID_FRAMECODE
  else if c.frames.any (fun f => norm f.code == key) then .error CIF_DUP_FRAMECODE
  else .ok (.mk c.code (c.frames ++ [.mk orig [] []]) c.loops)

/-- the container has an item of that (normalised) name, in whichever loop -/
def Container.specHasItem (c : Container) (key : Str) : Bool := c.loops.any (fun l => l.specHasItem norm key)

/-- no two of the (normalised) names are equal -/
def specKeysDistinct : List Str → Bool
  | [] => true
  | k :: ks => !ks.contains k && specKeysDistinct ks

/-- cif_container_create_loop: "There must be at least one item name, and all item names given must initially be absent from the
    container.  All item names must be valid …  the empty category name is reserved for the loop containing all the scalar data in
    the container …  New loops initially contain zero packets": a new loop with the given category and names (as spelled) and no
    packet, last among the container's loops.  `valid` = cif_is_valid_name's verdict.  (A name given twice is "already present"
    when its second occurrence is added: CIF_DUP_ITEMNAME.) -/
def Container.specCreateLoop (c : Container) (cat : Option Str) (names : List Str) (valid : Str → Bool) : Except Code Container :=
  if names.isEmpty then .error CIF_NULL_LOOP
  else if names.any (fun n => !valid n) then .error CIF_INVALID_ITEMNAME
  else if cat == some [] && c.loops.any Loop.specIsScalar then .error CIF_RESERVED_LOOP
  else if names.any (fun n => c.specHasItem norm (norm n)) || !specKeysDistinct (names.map norm) then .error CIF_DUP_ITEMNAME
  else .ok (.mk c.code c.frames (c.loops ++ [{ category := cat, names := names, packets := [] }]))

/-- cif_container_prune: "removing all empty loops belonging directly to the specified container" — the loops without a packet go,
    the container's save frames are not visited -/
def Container.specPrune : Container → Container
  | .mk code fs ls => .mk code fs (ls.filter (fun l => !l.packets.isEmpty))

/-- cif_get_all_blocks: the codes, in their original spelling -/
def specBlockCodes (cif : Cif) : List Str := cif.map (·.code)

end CifModel
