import CifModel.Model.Types
namespace CifModel.Spec
end CifModel.Spec
