import CifModel.Spec.Lexical
/-
  CifModel.Spec.Grammar — abstract CIF documents, the content they denote, their token sequence and a layout-parametrised
  printer.  Written from the CIF 2.0 / CIF 1.1 grammars and the data model of cif.h — NOT from parser.c.
  (Python mirror used by the correspondence families: tools/gen/parsedoc.py.)

    Doc    = blocks;  a block = code + elements;  an element = item | loop | save frame; a save frame holds elements (frames nest)
    Val    = ? | . | string in a presentation | list | table
    a string is PRESENTED bare, '…', "…", '''…''', """…""" or as a text field; a text field may carry ANY raw body that
    the text-field protocols (line folding, prefixing) decode to the string — `enc text body`

  `denote`   : the content, in the documented data model `Cif` (scalars of a container in its scalar loop, category "")
  `tokensOf` : the token sequence (type, value text) — what a scanner owes the productions
  `render`   : the characters, given a `Layout` (the k-th separator is an arbitrary list of whitespace atoms)
-/
namespace CifModel.Spec.Grammar
open CifModel CifModel.Spec.Lexical

/-- values -/
inductive Val where
  | unk
  | na
  | str (text : Str) (p : Presentation)
  | enc (text : Str) (body : Str)            -- a text field whose raw body `body` decodes to `text`
  | lst (vs : List Val)
  | tbl (es : List (Str × Presentation × Val)) -- key, presentation of the key (quoted forms only), value
deriving Inhabited

inductive Item where
  | item (name : Str) (v : Val)
  | loop (names : List Str) (packets : List (List Val))
deriving Inhabited

inductive Elem where
  | plain (i : Item)
  | frame (code : Str) (body : List Elem)     -- save frames nest (whether the parser accepts that: its max_frame_depth option)
deriving Inhabited

structure Block where
  code : Str
  body : List Elem
deriving Inhabited

abbrev Doc := List Block

/-! ### content -/

def hasBracket (s : Str) : Bool := s.any fun c => c == 91 || c == 93 || c == 123 || c == 125

/-- table semantics of the data model: a key names one entry; a later entry under the same (normalised) key replaces it -/
def putEntry (nk : Str → Str) (es : List (Str × Str × V)) (key : Str) (v : V) : List (Str × Str × V) :=
  if es.any (fun e => e.1 == nk key) then es.map fun e => if e.1 == nk key then (nk key, key, v) else e
  else es ++ [(nk key, key, v)]

mutual
  /-- the value a `Val` denotes: quoted unless presented bare; in CIF 1.1 a bare string with brackets or braces is reported
      quoted (it could not be presented unquoted in CIF 2.0) -/
  def denoteVal (dia : Dialect) (nk : Str → Str) : Val → V
    | .unk => .unk
    | .na => .na
    | .str s .bare => .chr (dia == .cif1 && hasBracket s) s
    | .str s _ => .chr true s
    | .enc s _ => .chr true s
    | .lst vs => .lst (denoteVals dia nk vs)
    | .tbl es => .tbl (denoteEntries dia nk es [])
  def denoteVals (dia : Dialect) (nk : Str → Str) : List Val → List V
    | [] => []
    | v :: vs => denoteVal dia nk v :: denoteVals dia nk vs
  def denoteEntries (dia : Dialect) (nk : Str → Str) : List (Str × Presentation × Val) → List (Str × Str × V) → List (Str × Str × V)
    | [], acc => acc
    | (k, _, v) :: es, acc => denoteEntries dia nk es (putEntry nk acc k (denoteVal dia nk v))
end

def isScalarLoop (l : Loop) : Bool := l.category == some []

/-- a scalar item joins the scalar loop (category ""), which is created with the first scalar -/
def putScalar : List Loop → Str → V → List Loop
  | [], nm, v => [{ category := some [], names := [nm], packets := [[v]] }]
  | l :: ls, nm, v =>
    if isScalarLoop l then
      { l with names := l.names ++ [nm],
               packets := if l.packets.isEmpty then [l.names.map (fun _ => V.unk) ++ [v]] else l.packets.map (· ++ [v]) } :: ls
    else l :: putScalar ls nm v

def denoteItems (dia : Dialect) (nk : Str → Str) : List Item → List Loop → List Loop
  | [], acc => acc
  | .item n v :: r, acc => denoteItems dia nk r (putScalar acc n (denoteVal dia nk v))
  | .loop ns ps :: r, acc =>
    denoteItems dia nk r (acc ++ [{ category := none, names := ns, packets := ps.map (denoteVals dia nk) }])

mutual
  /-- one element added to the frames and loops collected so far -/
  def denoteElem (dia : Dialect) (nk : Str → Str) : Elem → List Container → List Loop → List Container × List Loop
    | .plain i, fs, ls => (fs, denoteItems dia nk [i] ls)
    | .frame c b, fs, ls => (fs ++ [Container.mk c (denoteElems dia nk b [] []).1 (denoteElems dia nk b [] []).2], ls)
  /-- frames and loops of a container body, in document order (`fs`, `ls`: what has been collected so far) -/
  def denoteElems (dia : Dialect) (nk : Str → Str) : List Elem → List Container → List Loop → List Container × List Loop
    | [], fs, ls => (fs, ls)
    | e :: r, fs, ls => denoteElems dia nk r (denoteElem dia nk e fs ls).1 (denoteElem dia nk e fs ls).2
end

theorem denoteElems_plain (dia : Dialect) (nk : Str → Str) (i : Item) (r : List Elem) (fs : List Container) (ls : List Loop) :
    denoteElems dia nk (.plain i :: r) fs ls = denoteElems dia nk r fs (denoteItems dia nk [i] ls) := by
  simp only [denoteElems, denoteElem]

theorem denoteElems_frame (dia : Dialect) (nk : Str → Str) (c : Str) (b r : List Elem) (fs : List Container) (ls : List Loop) :
    denoteElems dia nk (.frame c b :: r) fs ls =
      denoteElems dia nk r (fs ++ [Container.mk c (denoteElems dia nk b [] []).1 (denoteElems dia nk b [] []).2]) ls := by
  simp only [denoteElems, denoteElem]

def denoteBlock (dia : Dialect) (nk : Str → Str) (b : Block) : Container :=
  Container.mk b.code (denoteElems dia nk b.body [] []).1 (denoteElems dia nk b.body [] []).2

def denote (dia : Dialect) (nk : Str → Str) (d : Doc) : Cif := d.map (denoteBlock dia nk)

/-! ### tokens -/

abbrev TokSpec := TokType × Str

mutual
  def valToks : Val → List TokSpec
    | .unk => [(.value, [63])]
    | .na => [(.value, [46])]
    | .str s p => [(p.tokType, s)]
    | .enc _ body => [(.tvalue, body)]
    | .lst vs => (.olist, [91]) :: (valsToks vs ++ [(.clist, [93])])
    | .tbl es => (.otable, [123]) :: (entriesToks es ++ [(.ctable, [125])])
  def valsToks : List Val → List TokSpec
    | [] => []
    | v :: vs => valToks v ++ valsToks vs
  def entriesToks : List (Str × Presentation × Val) → List TokSpec
    | [] => []
    | (k, _, v) :: es => (.key, k) :: (valToks v ++ entriesToks es)
end

def packetsToks : List (List Val) → List TokSpec
  | [] => []
  | p :: ps => valsToks p ++ packetsToks ps

def itemToks : Item → List TokSpec
  | .item n v => (.name, n) :: valToks v
  | .loop ns ps => (.loopKw, []) :: (ns.map (fun n => (TokType.name, n)) ++ packetsToks ps)

def itemsToks : List Item → List TokSpec
  | [] => []
  | i :: r => itemToks i ++ itemsToks r

mutual
  def elemToks : Elem → List TokSpec
    | .plain i => itemToks i
    | .frame c b => (.frameHead, c) :: (elemsToks b ++ [(.frameTerm, [])])
  def elemsToks : List Elem → List TokSpec
    | [] => []
    | e :: r => elemToks e ++ elemsToks r
end

def blocksToks : List Block → List TokSpec
  | [] => []
  | b :: r => (.blockHead, b.code) :: (elemsToks b.body ++ blocksToks r)

/-- the token sequence of a document, END included -/
def tokensOf (d : Doc) : List TokSpec := blocksToks d ++ [(.end_, [])]

/-! ### printing -/

/-- the characters that present a key: the quoted presentations only -/
def renderKey (p : Presentation) (k : Str) : Str := renderValue p k ++ [58]

/-- pieces of a printed document: separators (numbered by the printer) and tokens (their characters) -/
inductive Piece where
  | sep (required : Bool) (bol : Bool)   -- required: whitespace must be there; bol: the next token must begin a line
  | tok (chars : Str)
deriving Inhabited

def isTextPres : Val → Bool
  | .str _ .text => true
  | .enc _ _ => true
  | _ => false

mutual
  /-- pieces of a value; the separator IN FRONT of it is the caller's -/
  def valPieces : Val → List Piece
    | .unk => [.tok [63]]
    | .na => [.tok [46]]
    | .str s p => [.tok (renderValue p s)]
    | .enc _ body => [.tok (renderValue .text body)]
    | .lst vs => .tok [91] :: (valsPieces vs ++ [.sep false false, .tok [93]])
    | .tbl es => .tok [123] :: (entriesPieces es ++ [.sep false false, .tok [125]])
  def valsPieces : List Val → List Piece
    | [] => []
    | v :: vs => .sep true (isTextPres v) :: (valPieces v ++ valsPieces vs)
  def entriesPieces : List (Str × Presentation × Val) → List Piece
    | [] => []
    | (k, p, v) :: es => .sep true false :: .tok (renderKey p k) :: (valPieces v ++ entriesPieces es)
end

def packetsPieces : List (List Val) → List Piece
  | [] => []
  | p :: ps => valsPieces p ++ packetsPieces ps

def kw (w : Str) : Str := w      -- keywords are printed in lower case (the scanner accepts any case: Props/C01 `C01_lex_keyword`)

def itemPieces : Item → List Piece
  | .item n v => [.sep true false, .tok n, .sep true (isTextPres v)] ++ valPieces v
  | .loop ns ps => [.sep true false, .tok (kw [108, 111, 111, 112, 95])] ++ (ns.map fun n => [Piece.sep true false, .tok n]).flatten ++ packetsPieces ps

def itemsPieces : List Item → List Piece
  | [] => []
  | i :: r => itemPieces i ++ itemsPieces r

mutual
  def elemPieces : Elem → List Piece
    | .plain i => itemPieces i
    | .frame c b => [.sep true false, .tok (kw [115, 97, 118, 101, 95] ++ c)] ++ elemsPieces b ++ [.sep true false, .tok (kw [115, 97, 118, 101, 95])]
  def elemsPieces : List Elem → List Piece
    | [] => []
    | e :: r => elemPieces e ++ elemsPieces r
end

theorem elemsPieces_eq : ∀ r : List Elem, elemsPieces r = (r.map elemPieces).flatten
  | [] => by simp [elemsPieces]
  | e :: r => by simp [elemsPieces, elemsPieces_eq r]

def blockPieces (b : Block) : List Piece :=
  [.sep true false, .tok (kw [100, 97, 116, 97, 95] ++ b.code)] ++ (b.body.map elemPieces).flatten

/-- pieces of a document: the very first separator is optional, a final optional separator ends it -/
def docPieces (d : Doc) : List Piece :=
  match (d.map blockPieces).flatten with
  | .sep _ _ :: r => .sep false false :: r ++ [.sep false false]
  | r => r ++ [.sep false false]

/-- a layout: the `k`-th separator of the document -/
abbrev Layout := Nat → List WsAtom

def renderPieces (l : Layout) : Nat → List Piece → Str
  | _, [] => []
  | k, .sep _ _ :: r => renderWs (l k) ++ renderPieces l (k + 1) r
  | k, .tok cs :: r => cs ++ renderPieces l k r

def render (d : Doc) (l : Layout) : Str := renderPieces l 0 (docPieces d)

/-- what a layout owes the printer: atoms are well-formed; a required separator is non-empty and does not begin with a comment
    (a `#` glued to a token would belong to it); a separator in front of a text field ends a line -/
def sepOk (dia : Dialect) (required bol : Bool) (ws : List WsAtom) : Bool :=
  ws.all (WsAtom.ok dia)
  && (!required || (match ws with | [] => false | .comment _ :: _ => false | _ => true))
  && (!bol || (match ws.getLast? with | some (.blank _) => false | none => false | _ => true))

def layoutOk (dia : Dialect) (l : Layout) : Nat → List Piece → Bool
  | _, [] => true
  | k, .sep rq bol :: r => sepOk dia rq bol (l k) && layoutOk dia l (k + 1) r
  | k, .tok _ :: r => layoutOk dia l k r

/-! ### elements that are items (the body of a save frame without frames inside, the items of a block) -/

theorem denoteElems_plains (dia : Dialect) (nk : Str → Str) : ∀ (its : List Item) (fs : List Container) (ls : List Loop),
    denoteElems dia nk (its.map Elem.plain) fs ls = (fs, denoteItems dia nk its ls)
  | [], fs, ls => by simp [denoteElems, denoteItems]
  | i :: r, fs, ls => by
    rw [List.map_cons, denoteElems_plain, denoteElems_plains dia nk r]
    cases i <;> simp [denoteItems]

theorem elemsToks_plains : ∀ its : List Item, elemsToks (its.map Elem.plain) = itemsToks its
  | [] => by simp [elemsToks, itemsToks]
  | i :: r => by simp [elemsToks, elemToks, itemsToks, elemsToks_plains r]

theorem elemsPieces_plains : ∀ its : List Item, elemsPieces (its.map Elem.plain) = itemsPieces its
  | [] => by simp [elemsPieces, itemsPieces]
  | i :: r => by simp [elemsPieces, elemPieces, itemsPieces, elemsPieces_plains r]

end CifModel.Spec.Grammar
