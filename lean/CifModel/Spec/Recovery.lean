import CifModel.Model.Types
import CifModel.Gen.ErrCodes
/-
  CifModel.Spec.Recovery — hand transcription of the documented error-recovery table of src/parser.c
  (`@page error_recovery`, lines 151-281): one constructor per row, its documented code and its documented recovery action.
  Written from the documentation, not from the productions.  The executable counterpart — planting functions per class and
  position, and the recovered content computed from the host document — is tools/gen/defect.py (family `defect`).
-/
namespace CifModel.Spec.Recovery
open CifModel CifModel.Gen.ErrCodes

inductive DefectClass
  | wrongEncoding | disallowedChar | missingSpace | invalidBlockCode | dupBlockCode | noBlockHeader | invalidFrameCode | dupFrameCode
  | frameNotAllowed | noFrameTerm | eofInFrame | unexpectedTerm | dupItemName | unexpectedValue | unexpectedDelim | missingValue
  | nullLoop | partialPacket | emptyLoop | missingDelim | missingKey | nullKey | unquotedKey | misquotedKey | missingPrefix
  | invalidBareValue | reservedWord | overlengthLine | missingEndquote | unclosedText | disallowedInitialChar
deriving DecidableEq, Repr

inductive Recovery
  | ignoreProblem          -- go on as if nothing had happened
  | substituteReplacement  -- a replacement character is substituted / the character is accepted
  | assumeWhitespace
  | useCodeAnyway
  | reopenContainer
  | anonymousBlock
  | acceptFrame
  | assumeTerminator
  | ignoreToken            -- the offending token is dropped
  | parseAndDrop           -- the item and its value(s) are parsed and dropped
  | syntheticUnknown       -- an unknown value stands in for the missing one
  | fillWithUnknown        -- the packet is filled out with unknown values
  | accept
  | assumeDelimiter
  | dropValue
  | nullKey
deriving DecidableEq, Repr

/-- column "Code" of the table -/
def DefectClass.code : DefectClass → Code
  | .wrongEncoding => CIF_WRONG_ENCODING | .disallowedChar => CIF_DISALLOWED_CHAR | .missingSpace => CIF_MISSING_SPACE
  | .invalidBlockCode => CIF_INVALID_BLOCKCODE | .dupBlockCode => CIF_DUP_BLOCKCODE | .noBlockHeader => CIF_NO_BLOCK_HEADER
  | .invalidFrameCode => CIF_INVALID_FRAMECODE | .dupFrameCode => CIF_DUP_FRAMECODE | .frameNotAllowed => CIF_FRAME_NOT_ALLOWED
  | .noFrameTerm => CIF_NO_FRAME_TERM | .eofInFrame => CIF_EOF_IN_FRAME | .unexpectedTerm => CIF_UNEXPECTED_TERM
  | .dupItemName => CIF_DUP_ITEMNAME | .unexpectedValue => CIF_UNEXPECTED_VALUE | .unexpectedDelim => CIF_UNEXPECTED_DELIM
  | .missingValue => CIF_MISSING_VALUE | .nullLoop => CIF_NULL_LOOP | .partialPacket => CIF_PARTIAL_PACKET
  | .emptyLoop => CIF_EMPTY_LOOP | .missingDelim => CIF_MISSING_DELIM | .missingKey => CIF_MISSING_KEY | .nullKey => CIF_NULL_KEY
  | .unquotedKey => CIF_UNQUOTED_KEY | .misquotedKey => CIF_MISQUOTED_KEY | .missingPrefix => CIF_MISSING_PREFIX
  | .invalidBareValue => CIF_INVALID_BARE_VALUE | .reservedWord => CIF_RESERVED_WORD | .overlengthLine => CIF_OVERLENGTH_LINE
  | .missingEndquote => CIF_MISSING_ENDQUOTE | .unclosedText => CIF_UNCLOSED_TEXT | .disallowedInitialChar => CIF_DISALLOWED_INITIAL_CHAR

/-- column "Recovery action" of the table -/
def DefectClass.recovery : DefectClass → Recovery
  | .wrongEncoding => .ignoreProblem | .disallowedChar => .substituteReplacement | .missingSpace => .assumeWhitespace
  | .invalidBlockCode => .useCodeAnyway | .dupBlockCode => .reopenContainer | .noBlockHeader => .anonymousBlock
  | .invalidFrameCode => .useCodeAnyway | .dupFrameCode => .reopenContainer | .frameNotAllowed => .acceptFrame
  | .noFrameTerm => .assumeTerminator | .eofInFrame => .assumeTerminator | .unexpectedTerm => .ignoreToken
  | .dupItemName => .parseAndDrop | .unexpectedValue => .ignoreToken | .unexpectedDelim => .ignoreToken
  | .missingValue => .syntheticUnknown | .nullLoop => .ignoreToken | .partialPacket => .fillWithUnknown
  | .emptyLoop => .accept | .missingDelim => .assumeDelimiter | .missingKey => .dropValue | .nullKey => .nullKey
  | .unquotedKey => .accept | .misquotedKey => .accept | .missingPrefix => .accept
  | .invalidBareValue => .accept | .reservedWord => .ignoreToken | .overlengthLine => .ignoreProblem
  | .missingEndquote => .assumeDelimiter | .unclosedText => .assumeDelimiter | .disallowedInitialChar => .accept

/-- Bool equality of contents (the data model has no `DecidableEq`: values are nested) -/
def loopEq (a b : Loop) : Bool := a.category == b.category && a.names == b.names && a.packets == b.packets

mutual
  def containerEq : Container → Container → Bool
    | .mk c fs ls, .mk c' fs' ls' => c == c' && containersEq fs fs' && (ls.length == ls'.length && (List.zip ls ls').all fun p => loopEq p.1 p.2)
  def containersEq : List Container → List Container → Bool
    | [], [] => true
    | a :: as, b :: bs => containerEq a b && containersEq as bs
    | _, _ => false
end

def cifEq (a b : Cif) : Bool := containersEq a b

end CifModel.Spec.Recovery
