import CifModel.Spec.TraversalEvents
/-
  Spec/TraversalEventsAll (C15, part 6) — WHICH callbacks are delivered, as a formula over the document tree, for EVERY handler program:
  any callback (start, item, end) may answer CONTINUE, SKIP_CURRENT, SKIP_SIBLINGS, END or an error code.  Generalises
  Spec/TraversalEvents.lean (programs that steer from the start callbacks only).

  The formula walks the document in document order; the only state is the number of handler callbacks delivered so far (derived from
  the callbacks listed).  An answer is CONTINUE / SKIP_CURRENT ("go on"), SKIP_SIBLINGS ("the later siblings are bypassed") or a
  stopping answer (END or any other code: nothing is delivered after it).  Per construct:
    * item of a packet: SKIP_SIBLINGS bypasses the rest of ITS PACKET — no packet_end for it; the next packet is delivered normally;
    * packet_start: CONTINUE delivers the items and packet_end; SKIP_CURRENT bypasses the packet; SKIP_SIBLINGS also the later packets
      and the loop's loop_end; packet_end: SKIP_SIBLINGS bypasses the later packets and loop_end;
    * loop_start: CONTINUE delivers the packets and loop_end; SKIP_CURRENT bypasses the loop (no loop_end); SKIP_SIBLINGS also the
      later elements of the container; loop_end / scalar item: SKIP_SIBLINGS bypasses the later elements of the container;
    * block / frame start: CONTINUE delivers the content and the end callback (also when an element inside asked to skip its
      siblings); SKIP_CURRENT bypasses the content, the end callback is delivered; SKIP_SIBLINGS: no end callback, later siblings
      bypassed; block / frame end: SKIP_SIBLINGS bypasses the later siblings;
    * cif_start: CONTINUE delivers the blocks and cif_end (also after a block asked to skip its siblings); SKIP_*: cif_end only;
    * data-name and keyword callbacks accompany the callbacks of their element (none inside a bypassed region).
  Return value: a stopping answer if positive, CIF_OK otherwise; without a stop the answer of cif_end if positive.
  Written from cif.h and the reading notes of DESIGN.md (C15), not from parser.c.
-/
namespace CifModel.Spec.Doc
open CifModel.ParseCB

inductive FlowR where
  | go
  | sib
  | stop (r : Int)
deriving DecidableEq, Inhabited

structure DelR where
  evs : List Ev
  flow : FlowR
deriving Inhabited

/-- how the walk goes on after an answer (for a start callback: an answer other than CONTINUE) -/
def ansFlow (r : Int) : FlowR :=
  if r = CONTINUE then .go else if r = SKIP_CURRENT then .go else if r = SKIP_SIBLINGS then .sib else .stop r

/-- the item callbacks of a packet from count `n` on -/
def gItems (p : Prog) : List (Str × V) → Nat → DelR
  | [], _ => ⟨[], .go⟩
  | (nm, v) :: is, n =>
    match ansFlow (p n (.item nm v)) with
    | .go => ⟨.item nm v :: (gItems p is (n + 1)).evs, (gItems p is (n + 1)).flow⟩
    | f => ⟨[.item nm v], f⟩

def gPacket (p : Prog) (names : List Str) (pk : List V) (n : Nat) : DelR :=
  if p n .pktStart = CONTINUE then
    match (gItems p (List.zip names pk) (n + 1)).flow with
    | .go => ⟨.pktStart :: ((gItems p (List.zip names pk) (n + 1)).evs ++ [.pktEnd (List.zip names pk)]),
              ansFlow (p (n + 1 + hc (gItems p (List.zip names pk) (n + 1)).evs) (.pktEnd (List.zip names pk)))⟩
    | .sib => ⟨.pktStart :: (gItems p (List.zip names pk) (n + 1)).evs, .go⟩          -- no packet_end
    | .stop r => ⟨.pktStart :: (gItems p (List.zip names pk) (n + 1)).evs, .stop r⟩
  else ⟨[.pktStart], ansFlow (p n .pktStart)⟩

def gPackets (p : Prog) (names : List Str) : List (List V) → Nat → DelR
  | [], _ => ⟨[], .go⟩
  | pk :: pks, n =>
    match (gPacket p names pk n).flow with
    | .go => ⟨(gPacket p names pk n).evs ++ (gPackets p names pks (n + hc (gPacket p names pk n).evs)).evs,
              (gPackets p names pks (n + hc (gPacket p names pk n).evs)).flow⟩
    | f => ⟨(gPacket p names pk n).evs, f⟩

/-- a loop behind its header callbacks -/
def gLoop (p : Prog) (storing : Bool) (names : List Str) (pks : List (List V)) (n : Nat) : DelR :=
  if p n (.loopStart names) = CONTINUE then
    match (gPackets p names pks (n + 1)).flow with
    | .go => ⟨.loopStart names :: ((gPackets p names pks (n + 1)).evs ++ [.loopEnd (if storing then some names else none)]),
              ansFlow (p (n + 1 + hc (gPackets p names pks (n + 1)).evs) (.loopEnd (if storing then some names else none)))⟩
    | .sib => ⟨.loopStart names :: (gPackets p names pks (n + 1)).evs, .go⟩           -- bypassed from a packet: no loop_end
    | .stop r => ⟨.loopStart names :: (gPackets p names pks (n + 1)).evs, .stop r⟩
  else ⟨[.loopStart names], ansFlow (p n (.loopStart names))⟩

/-- a data block / save frame (start `sEv`, end `eEv`) whose content, asked from `n + 1` on, delivers `body` -/
def wrapContG (p : Prog) (sEv eEv : Ev) (n : Nat) (body : DelR) : DelR :=
  if p n sEv = CONTINUE then
    match body.flow with
    | .stop r => ⟨sEv :: body.evs, .stop r⟩
    | _ => ⟨sEv :: (body.evs ++ [eEv]), ansFlow (p (n + 1 + hc body.evs) eEv)⟩
  else if p n sEv = SKIP_CURRENT then ⟨[sEv, eEv], ansFlow (p (n + 1) eEv)⟩
  else ⟨[sEv], ansFlow (p n sEv)⟩

mutual
  def gElem (p : Prog) (storing : Bool) : Elem → Nat → DelR
    | .item nm v, n => ⟨[.dataname nm, .item nm v], ansFlow (p n (.item nm v))⟩
    | .loop names pks, n =>
      ⟨.keyword [] :: (names.map Ev.dataname ++ (gLoop p storing names pks n).evs), (gLoop p storing names pks n).flow⟩
    | .frame code body, n =>
      wrapContG p (.frameStart (if storing then some code else none)) (.frameEnd (if storing then some code else none)) n
        (gElems p storing body (n + 1))
  def gElems (p : Prog) (storing : Bool) : List Elem → Nat → DelR
    | [], _ => ⟨[], .go⟩
    | e :: es, n =>
      match (gElem p storing e n).flow with
      | .go => ⟨(gElem p storing e n).evs ++ (gElems p storing es (n + hc (gElem p storing e n).evs)).evs,
                (gElems p storing es (n + hc (gElem p storing e n).evs)).flow⟩
      | f => ⟨(gElem p storing e n).evs, f⟩
end

def gBlock (p : Prog) (storing : Bool) (b : Block) (n : Nat) : DelR :=
  wrapContG p (.blockStart (if storing then some b.code else none)) (.blockEnd (if storing then some b.code else none)) n
    (gElems p storing b.body (n + 1))

def gBlocks (p : Prog) (storing : Bool) : List Block → Nat → DelR
  | [], _ => ⟨[], .go⟩
  | b :: bs, n =>
    match (gBlock p storing b n).flow with
    | .go => ⟨(gBlock p storing b n).evs ++ (gBlocks p storing bs (n + hc (gBlock p storing b n).evs)).evs,
              (gBlocks p storing bs (n + hc (gBlock p storing b n).evs)).flow⟩
    | f => ⟨(gBlock p storing b n).evs, f⟩

def posOr (r : Int) : Int := if r > OK then r else OK

/-- **the callbacks delivered** (handler, data-name and keyword callbacks, in order) and the return value of cif_parse, for every
    handler program -/
def gDoc (p : Prog) (storing : Bool) (d : Doc) : List Ev × Int :=
  if p 0 (.cifStart storing) = CONTINUE then
    match (gBlocks p storing d 1).flow with
    | .stop r => (.cifStart storing :: (gBlocks p storing d 1).evs, posOr r)
    | _ => (.cifStart storing :: ((gBlocks p storing d 1).evs ++ [.cifEnd storing]),
            posOr (p (1 + hc (gBlocks p storing d 1).evs) (.cifEnd storing)))
  else if p 0 (.cifStart storing) = SKIP_CURRENT ∨ p 0 (.cifStart storing) = SKIP_SIBLINGS then
    ([.cifStart storing, .cifEnd storing], posOr (p 1 (.cifEnd storing)))
  else ([.cifStart storing], posOr (p 0 (.cifStart storing)))

end CifModel.Spec.Doc
