import CifModel.Basic
/-
  CifModel.Spec.Analyze — what property C18 demands, written from the CIF 2.0 rules and from the documentation of
  `struct cif_string_analysis_s` (cif.h), independently of the C code.
-/
namespace CifModel.Spec

/-! ### lines -/

/-- put a unit in front of the first line -/
def consHead (c : CU) : List Str → List Str
  | [] => [[c]]
  | l :: ls => (c :: l) :: ls

/-- The lines of a string.  Line terminators are LF, CR LF and CR (cif.h: "the number of lines … is one more than the number of
    line terminators"; a CR directly followed by LF forms ONE terminator together with it, so it contributes nothing itself).
    The result is never empty; terminators are not part of the lines. -/
def splitLines : Str → List Str
  | [] => [[]]
  | c :: rest =>
    if c = 13 ∧ rest.head? = some 10 then splitLines rest
    else if c = 10 ∨ c = 13 then [] :: splitLines rest
    else consHead c (splitLines rest)

/-- length of the longest line -/
def maxLen (ls : List Str) : Nat := (ls.map List.length).foldr max 0

/-! ### runs of semicolons -/

/-- number of semicolons the string starts with -/
def leadRun : Str → Nat
  | [] => 0
  | c :: rest => if c = 59 then leadRun rest + 1 else 0

/-- the length of the longest run of consecutive semicolons: the greatest `leadRun` over all suffixes -/
def maxRun : Str → Nat
  | [] => 0
  | c :: rest => max (leadRun (c :: rest)) (maxRun rest)

/-! ### blanks at the end of a line -/

/-- in-line blanks.  SP and TAB are CIF's in-line whitespace; VT (U+000B) is not a CIF character at all — the library also looks
    for it, which is immaterial for any string that can be presented in CIF (theorem `C18_stats_exact` has both forms). -/
def isBlank (c : CU) : Bool := c == 32 || c == 9
def isBlankOrVT (c : CU) : Bool := c == 32 || c == 9 || c == 11

/-- the line ends in a unit satisfying `p` -/
def endsWith (p : CU → Bool) (l : Str) : Bool :=
  match l.getLast? with
  | some c => p c
  | none => false

/-- the line starts with a semicolon -/
def startsSemi (l : Str) : Bool := l.head? == some 59

/-! ### reserved forms and whitespace-delimited values of CIF 2.0 -/

/-- ASCII lower-casing (CIF keywords are case-insensitive in their ASCII letters) -/
def lowerAscii (c : CU) : CU := if 65 ≤ c ∧ c ≤ 90 then c + 32 else c

/-- `s` is the keyword `w` (given in lower case) in some mixture of cases -/
def ciEq (w s : Str) : Prop := s.map lowerAscii = w
/-- `s` starts with the keyword `w` in some mixture of cases -/
def ciPrefix (w s : Str) : Prop := (s.take w.length).map lowerAscii = w

/-- reserved words of CIF: `data_*`, `save_*` (block and frame headers, frame terminator), `loop_`, `stop_`, `global_` -/
def reservedWord (s : Str) : Prop :=
  ciPrefix (a!"data_") s ∨ ciPrefix (a!"save_") s ∨ ciEq (a!"loop_") s ∨ ciEq (a!"stop_") s ∨ ciEq (a!"global_") s

/-- first characters that cannot start a whitespace-delimited value: `_` (data name), `#` (comment), `$` (frame reference),
    `'` and `"` (quoted strings) -/
def reservedLead (c : CU) : Prop := c = 95 ∨ c = 35 ∨ c = 36 ∨ c = 39 ∨ c = 34

/-- what `cif_is_reserved_string` is documented to recognise -/
def reservedForm (s : Str) : Prop := (∃ c, s.head? = some c ∧ reservedLead c) ∨ reservedWord s

/-- units that end or cannot be part of a whitespace-delimited value in CIF 2.0: blanks, line terminators, brackets, braces -/
def wsOrBracket (c : CU) : Prop := c = 32 ∨ c = 9 ∨ c = 10 ∨ c = 13 ∨ c = 91 ∨ c = 93 ∨ c = 123 ∨ c = 125

/-- `wsdelim-string` of the CIF 2.0 grammar: non-empty, lead character not reserved, no blank / terminator / bracket / brace, not a
    reserved word.  (`?` and `.` satisfy this; they denote the unknown and not-applicable values, not strings.) -/
def cif2WsDelimitable (s : Str) : Prop :=
  s ≠ [] ∧ (∀ c, s.head? = some c → ¬ reservedLead c) ∧ (∀ c ∈ s, ¬ wsOrBracket c) ∧ ¬ reservedWord s

/-- a string that may be presented whitespace-delimited at ANY position of a line, and is read back as a string: additionally it
    does not start with `;` (a text field at the start of a line) and is not `?` or `.` -/
def wsDelimitableAnywhere (s : Str) : Prop :=
  cif2WsDelimitable s ∧ s.head? ≠ some 59 ∧ s ≠ [63] ∧ s ≠ [46]

end CifModel.Spec
