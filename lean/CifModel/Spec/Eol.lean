import CifModel.Basic
/-
  CifModel.Spec.Eol — what "the same whether lines end in LF, CR LF or CR" means (property C08), written from the
  property text and the CIF specifications, not from the C:

    * a CR LF pair is one line terminator, a CR not followed by LF is one line terminator, an LF not preceded by CR is
      one line terminator; the normal form of a character stream spells every terminator as a single LF;
    * the line number of a position is 1 + the number of terminators before it.

  `normalizeEOL` is a left fold with an explicit state, so that independence from any cutting of the stream into
  pieces is structural (`List.foldl_append`).
-/
namespace CifModel.Spec.Eol

/-- state of the normaliser: was the previous unit a CR?; output so far, reversed -/
structure EolSt where
  prevCR : Bool
  out : Str
deriving Repr, DecidableEq

def eolStep (s : EolSt) (c : CU) : EolSt :=
  if c = 13 then { prevCR := true, out := 10 :: s.out }
  else if c = 10 ∧ s.prevCR = true then { prevCR := false, out := s.out }
  else { prevCR := false, out := c :: s.out }

def run (s : EolSt) (l : Str) : EolSt := l.foldl eolStep s

/-- normal form of `l` when the unit before `l` was (`prevCR = true`) or was not a CR -/
def normFrom (prevCR : Bool) (l : Str) : Str := (run ⟨prevCR, []⟩ l).out.reverse

/-- flag after `l` -/
def flagAfter (prevCR : Bool) (l : Str) : Bool := (run ⟨prevCR, []⟩ l).prevCR

/-- CR LF ↦ LF, lone CR ↦ LF -/
def normalizeEOL (l : Str) : Str := normFrom false l

/-- the line number of the position just after `l` (first line = 1), terminators being the units `isEol` accepts
    (LF and CR always; the parse options may add more), a CR LF pair counting once -/
def lineAfter (isEol : CU → Bool) (l : Str) : Nat := 1 + ((normalizeEOL l).filter isEol).length

/-- re-spelling of the terminators of an LF-form document: the k-th LF is written in the k-th style
    (0 = LF, 1 = CR LF, 2 = CR; styles beyond the list: LF) -/
def respell : List Nat → Str → Str
  | _, [] => []
  | sty, c :: r =>
    if c = 10 then
      (if sty.head? = some 1 then [13, 10] else if sty.head? = some 2 then [13] else [10]) ++ respell sty.tail r
    else c :: respell sty r

/-- a re-spelling is unambiguous unless a terminator written as a bare CR is immediately followed by a terminator written
    as a bare LF (those two units *are* a CR LF pair, i.e. one terminator) -/
def admissible (afterBareCR : Bool) : List Nat → Str → Bool
  | _, [] => true
  | sty, c :: r =>
    if c = 10 then
      if sty.head? = some 1 then admissible false sty.tail r
      else if sty.head? = some 2 then admissible true sty.tail r
      else !afterBareCR && admissible false sty.tail r
    else admissible false sty r

end CifModel.Spec.Eol
