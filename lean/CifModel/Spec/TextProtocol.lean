import CifModel.Basic
/-
  CifModel.Spec.TextProtocol — the line-folding protocol and the text-prefix protocol of CIF text fields, as specified
  by CIF 1.1 (line folding: "Common semantic features", §26) and CIF 2.0 ("Text fields": line-folding protocol and
  text-prefix protocol), written from the specifications and independent of the C code.

  Vocabulary.  The *body* of a text field is what lies between the opening `<EOL>;` and the closing `<EOL>;`.  Its first
  physical line (the rest of the line that carries the opening semicolon) may be a *marker*:
      `\<blanks>`              the field is line-folded
      `<prefix>\<blanks>`      every following line carries `<prefix>`, which is not content   (prefix: non-empty, no
      `<prefix>\\<blanks>`     both                                                            backslash, no EOL)
  After the marker line come the *physical lines*.  Decoding:
    1. (prefix protocol) the prefix is removed from the start of every physical line;
    2. (folding protocol) in a folded field a physical line whose last non-blank unit is a backslash is joined to the
       next one: the backslash, the blanks behind it and the line terminator are not content;
    3. the content is the remaining lines joined by single LF terminators (the terminator before the closing
       delimiter is not content).
-/
namespace CifModel.Spec.TextProtocol

/-- blank: space or tab (what may follow a fold separator on its line) -/
def isBlank (c : CU) : Bool := c == 32 || c == 9

/-- the last unit of the line that is not a blank is a backslash -/
def endsBslBlank : Str → Bool
  | [] => false
  | c :: r => endsBslBlank r || (r.all isBlank && c == 92)

/-- a line whose last non-blank unit is a backslash, without that backslash and the blanks behind it -/
def dropFold : Str → Str
  | [] => []
  | c :: r => if endsBslBlank r then c :: dropFold r else []

/-- what one physical line that is followed by a line terminator contributes to the content -/
def lineContent (folded : Bool) (l : Str) : Str :=
  if folded && endsBslBlank l then dropFold l else l ++ [10]

/-- step 2 and 3: the content of the physical lines `ls` (prefix already removed); the last line has no terminator
    that belongs to the content -/
def unfoldLines (folded : Bool) : List Str → Str
  | [] => []
  | [l] => l
  | l :: l' :: ls => lineContent folded l ++ unfoldLines folded (l' :: ls)

/-- step 1, strictly: every physical line must carry the prefix -/
def unprefix (pre : Str) (l : Str) : Option Str :=
  if pre.isPrefixOf l then some (l.drop pre.length) else none

/-- the decoded content of a text field with the given prefix (`[]` = not prefixed), folding flag and physical lines;
    `none` when a line lacks the prefix (CIF 2.0: an error) -/
def decode (pre : Str) (folded : Bool) (lines : List Str) : Option Str :=
  (lines.mapM (unprefix pre)).map (unfoldLines folded)

/-- logical lines joined by LF -/
def joinLines : List Str → Str
  | [] => []
  | [l] => l
  | l :: l' :: ls => l ++ 10 :: joinLines (l' :: ls)

/-- an admissible prefix: non-empty, without backslash and line terminators, not starting with the semicolon that would
    close the field -/
def admissiblePrefix (pre : Str) : Bool :=
  !pre.isEmpty && pre.all (fun c => c != 92 && c != 10 && c != 13) && pre.head? != some 59

end CifModel.Spec.TextProtocol
