import CifModel.Basic
/-
  CifModel.Spec.Rounding — what property C10 demands, written from IEEE 754 / the CIF number syntax, not from the C.

  * `rne num den` : the double nearest to the positive rational `num/den`, ties to even, as if the exponent range were
    unbounded (IEEE 754 roundTiesToEven at precision 53), as a pair `(m, e)` with `2^52 ≤ m < 2^53`, value `m·2^e`.
    Defined by exact integer comparisons only.  `InNormalRange` says when that pair is a normal double.
  * `roundHalfEven X Y` : the integer nearest to `X/Y`, ties to even.
  * `NumberSyntax` : CIF's numeric syntax as an inductive predicate on code-unit strings, with the quantities a
    number text denotes.
-/
namespace CifModel.Spec.Rounding

/-- the integer nearest to `X / Y`, ties to the even neighbour -/
def roundHalfEven (X Y : Nat) : Nat :=
  let q := X / Y
  if 2 * (X % Y) < Y then q
  else if 2 * (X % Y) = Y then (if q % 2 = 0 then q else q + 1)
  else q + 1

/-- `BinadeOf num den e`: `2^52 ≤ (num/den)/2^e < 2^53`, written without division: `2^e` is `2^e.toNat / 2^(-e).toNat`
    (one of the two powers is `1`) -/
def BinadeOf (num den : Nat) (e : Int) : Prop :=
  den * 2 ^ e.toNat * 2 ^ 52 ≤ num * 2 ^ (-e).toNat ∧ num * 2 ^ (-e).toNat < den * 2 ^ e.toNat * 2 ^ 53

instance (num den : Nat) (e : Int) : Decidable (BinadeOf num den e) := by unfold BinadeOf; exact inferInstance

/-- `(num/den)/2^e` rounded to an integer, ties to even -/
def roundAt (num den : Nat) (e : Int) : Nat := roundHalfEven (num * 2 ^ (-e).toNat) (den * 2 ^ e.toNat)

/-- rounding up to `2^53` moves to the next binade -/
def carry (m : Nat) (e : Int) : Nat × Int := if m = 2 ^ 53 then (2 ^ 52, e + 1) else (m, e)

/-- IEEE 754 roundTiesToEven at precision 53 with unbounded exponent, as a relation: `p = (m, e')` is the rounding of
    `num/den` when, for the exponent `e` that puts the quotient into `[2^52, 2^53)`, `m·2^e'` is the half-even rounding
    of the quotient at `2^e` -/
def IsRne (num den : Nat) (p : Nat × Int) : Prop := ∃ e, BinadeOf num den e ∧ p = carry (roundAt num den e) e

/-- the binary exponent `e` with `2^52 ≤ (num/den)/2^e < 2^53`, found from the bit lengths and corrected by exact
    comparison (for positive `num`, `den` the estimate is off by at most one) -/
def binadeExp (num den : Nat) : Int :=
  let e0 : Int := ((Nat.log2 num : Nat) : Int) - ((Nat.log2 den : Nat) : Int) - 52
  if BinadeOf num den e0 then e0 else if BinadeOf num den (e0 - 1) then e0 - 1 else e0 + 1

/-- `num/den` rounded to 53 significant bits, ties to even (computable form of `IsRne`):
    `(m, e)`, value `m·2^e`, `2^52 ≤ m < 2^53` -/
def rne (num den : Nat) : Nat × Int :=
  let e := binadeExp num den
  carry (roundAt num den e) e

/-- `(m, e)` with `2^52 ≤ m < 2^53` is a normal finite double: `DBL_MIN = 2^52·2^-1074 ≤ m·2^e ≤ DBL_MAX = (2^53-1)·2^971` -/
def InNormalRange (p : Nat × Int) : Prop := -1074 ≤ p.2 ∧ p.2 ≤ 971

instance (p : Nat × Int) : Decidable (InNormalRange p) := by unfold InNormalRange; exact inferInstance

/-! ### the numeric syntax -/

def IsDigit (c : Nat) : Prop := 48 ≤ c ∧ c ≤ 57
instance (c : Nat) : Decidable (IsDigit c) := by unfold IsDigit; exact inferInstance

def AllDigits (s : Str) : Prop := ∀ c ∈ s, IsDigit c

/-- optional sign -/
inductive SignText : Str → Bool → Prop
  | none : SignText [] false
  | plus : SignText [43] false
  | minus : SignText [45] true

/-- digits with at most one decimal point and at least one digit: `(integer part, fraction part)` -/
inductive MantText : Str → Str → Str → Prop
  | int (ip : Str) : AllDigits ip → ip ≠ [] → MantText ip ip []
  | point (ip fp : Str) : AllDigits ip → AllDigits fp → ip ++ fp ≠ [] → MantText (ip ++ 46 :: fp) ip fp

/-- optional exponent `e`/`E`, optional sign, at least one digit: `(negative, digits)` -/
inductive ExpText : Str → Option (Bool × Str) → Prop
  | none : ExpText [] none
  | some (c : Nat) (sg : Str) (neg : Bool) (ds : Str) : (c = 69 ∨ c = 101) → SignText sg neg → AllDigits ds → ds ≠ [] →
      ExpText (c :: sg ++ ds) (some (neg, ds))

/-- optional parenthesised digit string -/
inductive SuText : Str → Option Str → Prop
  | none : SuText [] none
  | some (ds : Str) : AllDigits ds → ds ≠ [] → SuText (40 :: ds ++ [41]) (some ds)

/-- the parts of a number text -/
structure Parts where
  neg : Bool
  ip : Str
  fp : Str
  exp : Option (Bool × Str)
  su : Option Str

/-- `s` is a number text with the given parts -/
inductive NumberParts : Str → Parts → Prop
  | mk (sg m x u : Str) (neg : Bool) (ip fp : Str) (ex : Option (Bool × Str)) (su : Option Str) :
      SignText sg neg → MantText m ip fp → ExpText x ex → SuText u su →
      NumberParts (sg ++ m ++ x ++ u) ⟨neg, ip, fp, ex, su⟩

/-- CIF's numeric syntax: optional sign, digits with at most one decimal point and at least one digit, optional
    exponent with digits, optional parenthesised digit string -/
def NumberSyntax (s : Str) : Prop := ∃ p, NumberParts s p

/-- value of a string of digit characters -/
def digitsValue (s : Str) : Nat := s.foldl (fun acc c => acc * 10 + (c - 48)) 0

/-- the decimal exponent written in the text -/
def Parts.expValue (p : Parts) : Int :=
  match p.exp with
  | none => 0
  | some (neg, ds) => if neg then -(digitsValue ds : Int) else (digitsValue ds : Int)

/-- The number denoted is `±mantissa·10^-scale` with `mantissa = digitsValue (ip ++ fp)` and
    `scale = |fp| − exponent`; the uncertainty denoted is `digitsValue su · 10^-scale`. -/
def Parts.mantissa (p : Parts) : Nat := digitsValue (p.ip ++ p.fp)
def Parts.scale (p : Parts) : Int := (p.fp.length : Int) - p.expValue

end CifModel.Spec.Rounding
