import CifModel.Basic
/-
  CifModel.Spec.ErrWords — what it means for a message to "describe that very condition" (property C20).

  Written from the documentation of each result code in cif.h, independently of cif.c.  For every code name the
  spec lists groups of alternative keywords; a message describes the condition when, lower-cased, it contains at
  least one keyword of every group.  A group whose first word is `!` is a NEGATIVE group: none of its other words may
  occur (used where the documented condition of one code is a strict refinement of another's wording, e.g. a loop
  "with no data" against a loop "with no data names").  The groups are chosen so that no message of the pinned header
  describes the condition of another code (`C20_discriminates`).  A name the table does not know (a code added later) falls back to "contains
  one of the words of the name that has ≥ 4 letters".
-/
namespace CifModel.Spec.ErrWords
open CifModel

/-- ASCII lower-casing of one character code -/
def lower (c : Nat) : Nat := if 65 ≤ c ∧ c ≤ 90 then c + 32 else c

def isInfix : Str → Str → Bool
  | [], _ => true
  | _ :: _, [] => false
  | p, c :: cs => p.isPrefixOf (c :: cs) || isInfix p cs

def containsWord (msg : Str) (w : Str) : Bool := isInfix w (msg.map lower)

/-- groups of alternatives: every group must be hit by at least one of its words -/
def table : List (Str × List (List Str)) := [
  (a!"CIF_OK", [[a!"no error", a!"success"]]),
  (a!"CIF_FINISHED", [[a!"finished", a!"complete"]]),
  (a!"CIF_ERROR", [[a!"unspecified", a!"general", a!"generic"]]),
  (a!"CIF_MEMORY_ERROR", [[a!"memory"]]),
  (a!"CIF_INVALID_HANDLE", [[a!"handle"]]),
  (a!"CIF_INTERNAL_ERROR", [[a!"internal"]]),
  (a!"CIF_ARGUMENT_ERROR", [[a!"argument"]]),
  (a!"CIF_MISUSE", [[a!"improper", a!"misuse"]]),
  (a!"CIF_NOT_SUPPORTED", [[a!"support"]]),
  (a!"CIF_ENVIRONMENT_ERROR", [[a!"environment"]]),
  (a!"CIF_CLIENT_ERROR", [[a!"application", a!"client"]]),
  (a!"CIF_DUP_BLOCKCODE", [[a!"duplicate"], [a!"block"]]),
  (a!"CIF_INVALID_BLOCKCODE", [[a!"invalid"], [a!"block"]]),
  (a!"CIF_NOSUCH_BLOCK", [[a!"no data block", a!"no block", a!"no such block", a!"block does not exist"]]),
  (a!"CIF_DUP_FRAMECODE", [[a!"duplicate"], [a!"frame"]]),
  (a!"CIF_INVALID_FRAMECODE", [[a!"invalid"], [a!"frame"]]),
  (a!"CIF_NOSUCH_FRAME", [[a!"no save frame", a!"no frame", a!"no such frame", a!"frame does not exist"]]),
  (a!"CIF_CAT_NOT_UNIQUE", [[a!"categor"], [a!"uniqu"]]),
  (a!"CIF_INVALID_CATEGORY", [[a!"categor"], [a!"invalid"]]),
  (a!"CIF_NOSUCH_LOOP", [[a!"no loop", a!"no such loop", a!"loop does not exist"]]),
  (a!"CIF_RESERVED_LOOP", [[a!"scalar", a!"reserved"], [a!"loop"]]),
  (a!"CIF_WRONG_LOOP", [[a!"loop"], [a!"belong", a!"wrong"]]),
  (a!"CIF_EMPTY_LOOP", [[a!"loop"], [a!"no data", a!"empty", a!"no packets"], [a!"!", a!"names", a!"items"]]),
  (a!"CIF_NULL_LOOP", [[a!"loop"], [a!"no data names", a!"no names", a!"no items"]]),
  (a!"CIF_DUP_ITEMNAME", [[a!"duplicate"], [a!"item", a!"name"]]),
  (a!"CIF_INVALID_ITEMNAME", [[a!"invalid"], [a!"item", a!"name"]]),
  (a!"CIF_NOSUCH_ITEM", [[a!"no "], [a!"item"]]),
  (a!"CIF_AMBIGUOUS_ITEM", [[a!"several", a!"ambiguous", a!"multiple"]]),
  (a!"CIF_INVALID_PACKET", [[a!"packet"], [a!"not valid", a!"invalid"]]),
  (a!"CIF_PARTIAL_PACKET", [[a!"packet"], [a!"too few", a!"partial"]]),
  (a!"CIF_DISALLOWED_VALUE", [[a!"value"], [a!"type", a!"kind", a!"disallowed", a!"not allowed"]]),
  (a!"CIF_INVALID_NUMBER", [[a!"number"]]),
  (a!"CIF_INVALID_INDEX", [[a!"index"], [a!"valid"]]),
  (a!"CIF_INVALID_BARE_VALUE", [[a!"bare", a!"without quot"], [a!"value"]]),
  (a!"CIF_INVALID_CHAR", [[a!"invalid"], [a!"character"]]),
  (a!"CIF_UNMAPPED_CHAR", [[a!"unmappable", a!"unmapped"]]),
  (a!"CIF_DISALLOWED_CHAR", [[a!"character"], [a!"not allowed", a!"disallowed"], [a!"!", a!"first", a!"initial"]]),
  (a!"CIF_MISSING_SPACE", [[a!"space"], [a!"missing"]]),
  (a!"CIF_MISSING_ENDQUOTE", [[a!"quote"], [a!"terminat", a!"missing", a!"closing", a!"unclosed"]]),
  (a!"CIF_UNCLOSED_TEXT", [[a!"terminated", a!"unclosed"], [a!"multi-line", a!"text"]]),
  (a!"CIF_OVERLENGTH_LINE", [[a!"line"], [a!"length", a!"long"]]),
  (a!"CIF_DISALLOWED_INITIAL_CHAR", [[a!"first", a!"initial"], [a!"character"]]),
  (a!"CIF_WRONG_ENCODING", [[a!"encoding"]]),
  (a!"CIF_NO_BLOCK_HEADER", [[a!"block"], [a!"outside", a!"header"]]),
  (a!"CIF_FRAME_NOT_ALLOWED", [[a!"frame"], [a!"disabled", a!"not allowed"]]),
  (a!"CIF_NO_FRAME_TERM", [[a!"terminator"], [a!"missing"]]),
  (a!"CIF_UNEXPECTED_TERM", [[a!"terminator"], [a!"expected"]]),
  (a!"CIF_EOF_IN_FRAME", [[a!"end of"], [a!"frame"], [a!"inside", a!"within", a!"unterminated"]]),
  (a!"CIF_RESERVED_WORD", [[a!"reserved"]]),
  (a!"CIF_MISSING_VALUE", [[a!"missing"], [a!"value"]]),
  (a!"CIF_UNEXPECTED_VALUE", [[a!"unexpected"], [a!"value"]]),
  (a!"CIF_UNEXPECTED_DELIM", [[a!"delimiter"], [a!"misplaced", a!"unexpected"]]),
  (a!"CIF_MISSING_DELIM", [[a!"delimiter"], [a!"missing"]]),
  (a!"CIF_MISSING_KEY", [[a!"key"], [a!"missing"]]),
  (a!"CIF_UNQUOTED_KEY", [[a!"key"], [a!"unquoted"]]),
  (a!"CIF_MISQUOTED_KEY", [[a!"key"], [a!"text block", a!"misquoted"]]),
  (a!"CIF_NULL_KEY", [[a!"key"], [a!"null"]]),
  (a!"CIF_MISSING_PREFIX", [[a!"prefix"]])
]

/-- fallback for a code name the table does not list: the words of the name with at least four letters -/
def nameWords (name : Str) : List Str :=
  (name.map lower).splitOn 95 |>.filter (fun w => w.length ≥ 4)

def groupsFor (name : Str) : List (List Str) :=
  match table.find? (fun r => r.1 == name) with
  | some r => r.2
  | none => [nameWords name]

/-- `!` -/
def NEG : Str := [33]

def groupHolds (msg : Str) (alts : List Str) : Bool :=
  match alts with
  | w :: rest => if w == NEG then !(rest.any (containsWord msg)) else alts.any (containsWord msg)
  | [] => false

def describes (name : Str) (msg : Str) : Bool :=
  (groupsFor name).all (groupHolds msg)

end CifModel.Spec.ErrWords
