import CifModel.Model.Walk
import CifModel.Model.ParseCB
/-
  CifModel.Spec.Traversal (part 1, C14) — what the property demands of a traversal, written from the property text and
  the handler documentation of cif.h, not from the five C functions:

  * the *event tree* of a CIF: an element is a start callback, its children, an end callback; an item is a single
    callback.  The children of a container come in two groups, save frames then loops, because "loops are not siblings
    of save frames"; every other element has one group of children.
  * `fullTraversal`: the depth-first flattening of that tree — parents before children, frames before loops, start
    before end, every element exactly once.
  * the pruning semantics `run`: one uniform rule for every element kind.  An answer is classified as
      go   (CONTINUE, SKIP_CURRENT)   sib  (SKIP_SIBLINGS)   stop r  (END or any other code)
    SKIP_CURRENT / SKIP_SIBLINGS / stop at a start callback suppress the element's children and its end callback;
    `sib` additionally suppresses the not-yet-visited siblings *of the same group* and the end callback of the parent
    (reading note of DESIGN.md C14 — unless the skipped siblings were frames, whose parent still gets its loops walked
    and its end callback delivered); `stop` suppresses everything that follows.
-/
namespace CifModel.Spec.Traversal
open CifModel.Walk

/-- the event tree -/
inductive ETree where
  | leaf (e : Ev)
  | node (s : Ev) (first second : List ETree) (e : Ev)
  /-- not an element: entering here makes the walk fail with CIF_EMPTY_LOOP without any callback (a loop without packets
      cannot be walked: `cif_loop_get_packets` answers CIF_EMPTY_LOOP; the property makes no claim about such CIFs, the tree
      says what the code does so that the statements about END / error codes need no restriction) -/
  | fail
deriving Inhabited

def itemTree (i : Str × V) : ETree := .leaf (.item i.1 i.2)
def packetTree (pk : List (Str × V)) : ETree := .node (.pktStart pk) [] (pk.map itemTree) (.pktEnd pk)
def loopTree (l : WLoop) : ETree :=
  .node (.loopStart l.category l.names) []
    (if l.packets.isEmpty then [.fail] else l.packets.map packetTree) (.loopEnd l.category l.names)

mutual
  def contTree (depth : Nat) : WCont → ETree
    | .mk code frames loops =>
      .node (if depth = 0 then .blockStart code else .frameStart code)
        (contTrees (depth + 1) frames) (loops.map loopTree)
        (if depth = 0 then .blockEnd code else .frameEnd code)
  def contTrees (depth : Nat) : List WCont → List ETree
    | [] => []
    | c :: cs => contTree depth c :: contTrees depth cs
end

def cifTree (c : WCif) : ETree := .node .cifStart [] (contTrees 0 c) .cifEnd

mutual
  /-- depth-first flattening: start, first group, second group, end -/
  def flatten : ETree → List Ev
    | .leaf e => [e]
    | .node s g1 g2 e => s :: (flattenList g1 ++ (flattenList g2 ++ [e]))
    | .fail => []
  def flattenList : List ETree → List Ev
    | [] => []
    | t :: ts => flatten t ++ flattenList ts
end

/-- every callback of an undisturbed walk, in order -/
def fullTraversal (c : WCif) : List Ev := flatten (cifTree c)

/-- classification of a handler answer -/
inductive Out where
  | go | sib | stop (r : Int)
deriving Inhabited, DecidableEq

def classify (r : Int) : Out :=
  if r = CONTINUE ∨ r = SKIP_CURRENT then .go else if r = SKIP_SIBLINGS then .sib else .stop r

def isStop (r : Int) : Prop := ¬ (r = CONTINUE ∨ r = SKIP_CURRENT ∨ r = SKIP_SIBLINGS)
instance (r : Int) : Decidable (isStop r) := by unfold isStop; infer_instance

/-- after the second (or only) group of children: deliver the end callback unless a child skipped its siblings (the
    parent's end callback is then not delivered — reading note) or stopped the walk -/
def finish (p : Prog) (e : Ev) : Out × W → Out × W
  | (.stop r, w) => (.stop r, w)
  | (.sib, w) => (.go, w)
  | (.go, w) => (classify (p w.n e), (call p w e).2)

mutual
  /-- the pruning semantics of one element -/
  def run (p : Prog) : ETree → W → Out × W
    | .leaf e, w => (classify (p w.n e), (call p w e).2)
    | .fail, w => (.stop EMPTY_LOOP, w)
    | .node s g1 g2 e, w =>
      if p w.n s = CONTINUE then
        match runList p g1 (call p w s).2 with
        | (.stop r, w1) => (.stop r, w1)
        | (.go, w1) => finish p e (runList p g2 w1)
        | (.sib, w1) => finish p e (runList p g2 w1)      -- the second group is not a sibling of the first
      else (classify (p w.n s), (call p w s).2)
  /-- the children of one group, in order, until one of them asks to skip its siblings or stops the walk -/
  def runList (p : Prog) : List ETree → W → Out × W
    | [], w => (.go, w)
    | t :: ts, w =>
      match run p t w with
      | (.go, w1) => runList p ts w1
      | (.sib, w1) => (.sib, w1)
      | (.stop r, w1) => (.stop r, w1)
end

/-- result code of a whole traversal: navigation answers are not errors -/
def finalCode : Out → Int
  | .stop r => if r = END then OK else r
  | _ => OK

/-- what C14 demands of `cif_walk`: the callbacks delivered and the return value -/
def walkSpec (p : Prog) (c : WCif) : List Ev × Int :=
  let (o, w) := run p (cifTree c) W.init
  (w.log.reverse, finalCode o)

mutual
  /-- no failure point in the tree -/
  def noFail : ETree → Bool
    | .leaf _ => true
    | .node _ g1 g2 _ => noFailList g1 && noFailList g2
    | .fail => false
  def noFailList : List ETree → Bool
    | [] => true
    | t :: ts => noFail t && noFailList ts
end

-- no loop without packets (`cif_walk` is specified only for such CIFs)
mutual
  def noEmptyLoop : WCont → Bool
    | .mk _ frames loops => noEmptyLoops frames && loops.all (fun l => !l.packets.isEmpty)
  def noEmptyLoops : List WCont → Bool
    | [] => true
    | c :: cs => noEmptyLoop c && noEmptyLoops cs
end

end CifModel.Spec.Traversal

/-
  Part 2 (C15) — abstract documents: what a well-formed CIF text denotes and which callbacks, in which order, an
  undisturbed parse of it owes the application.  Written from the CIF grammar / cif.h, not from parser.c.
-/
namespace CifModel.Spec.Doc
open CifModel.ParseCB

/-- an element of a container body, in document order -/
inductive Elem where
  | item (name : Str) (v : V)
  | loop (names : List Str) (packets : List (List V))
  | frame (code : Str) (body : List Elem)
deriving Inhabited

structure Block where
  code : Str
  body : List Elem
deriving Inhabited

abbrev Doc := List Block

-- value tokens of a value (lists and tables bracketed, scalars as one decoded token), layout-free
mutual
  def valueToks : V → List Tok
    | .lst vs => { ty := .olist, pre := [], text := [], v := .unk } :: (valuesToks vs ++ [{ ty := .clist, pre := [], text := [], v := .unk }])
    | .tbl es => { ty := .otable, pre := [], text := [], v := .unk } :: (entriesToks es ++ [{ ty := .ctable, pre := [], text := [], v := .unk }])
    | .chr true t => [{ ty := .qvalue, pre := [], text := [], v := .chr true t }]
    | v => [{ ty := .value, pre := [], text := [], v := v }]
  def valuesToks : List V → List Tok
    | [] => []
    | v :: vs => valueToks v ++ valuesToks vs
  def entriesToks : List (Str × Str × V) → List Tok
    | [] => []
    | (_, k, v) :: es => { ty := .key, pre := [], text := k, v := .unk } :: (valueToks v ++ entriesToks es)
end

mutual
  def elemToks : Elem → List Tok
    | .item n v => { ty := .name, pre := [], text := n, v := .unk } :: valueToks v
    | .loop ns pks =>
      { ty := .loopKw, pre := [], text := [], v := .unk }
        :: (ns.map (fun n => { ty := .name, pre := [], text := n, v := .unk }) ++ (pks.map valuesToks).flatten)
    | .frame c body =>
      { ty := .frameHead, pre := [], text := c, v := .unk } :: (elemsToks body ++ [{ ty := .frameTerm, pre := [], text := [], v := .unk }])
  def elemsToks : List Elem → List Tok
    | [] => []
    | e :: es => elemToks e ++ elemsToks es
end

/-- the token sequence of a document (without layout) -/
def tokensOf (d : Doc) : List Tok :=
  (d.map (fun b => { ty := .blockHead, pre := [], text := b.code, v := .unk } :: elemsToks b.body)).flatten
    ++ [{ ty := .end_, pre := [], text := [], v := .unk }]

-- the handler and data-name / keyword callbacks an undisturbed storing parse owes, in document order
mutual
  def elemEvents (storing : Bool) : Elem → List Ev
    | .item n v => [.dataname n, .item n v]
    | .loop ns pks =>
      .keyword [] :: (ns.map .dataname ++ (.loopStart ns ::
        ((pks.map (fun p => .pktStart :: ((List.zip ns p).map (fun x => Ev.item x.1 x.2) ++ [.pktEnd (List.zip ns p)]))).flatten
          ++ [.loopEnd (if storing then some ns else none)])))
    | .frame c body =>
      .frameStart (if storing then some c else none) :: (elemsEvents storing body ++ [.frameEnd (if storing then some c else none)])
  def elemsEvents (storing : Bool) : List Elem → List Ev
    | [] => []
    | e :: es => elemEvents storing e ++ elemsEvents storing es
end

def docEvents (storing : Bool) (d : Doc) : List Ev :=
  .cifStart storing :: ((d.map (fun b => .blockStart (if storing then some b.code else none)
      :: (elemsEvents storing b.body ++ [.blockEnd (if storing then some b.code else none)]))).flatten ++ [.cifEnd storing])

-- what the document denotes in the data model: scalars in the scalar loop (category ""), loops without category
mutual
  def denoteElem : Elem → Content → Content
    | .item n v, c => c.setScalar n v
    | .loop ns pks, c => c.addLoop { category := none, names := ns, packets := pks }
    | .frame code body, c =>
      c.addFrame (.mk code (denoteBody body .empty).frames (denoteBody body .empty).loops)
  def denoteBody : List Elem → Content → Content
    | [], c => c
    | e :: es, c => denoteBody es (denoteElem e c)
end

def denote (d : Doc) : Cif :=
  d.map (fun b => let c := denoteBody b.body .empty; Container.mk b.code c.frames c.loops)

end CifModel.Spec.Doc

/-
  Part 3 (C15, skip semantics) — "bypassed", declaratively over the document tree.  A handler program that only continues
  or skips is run over the *document* (no tokens, no depth counter): the only state is the number `n` of handler callbacks
  delivered so far.  The sub-tree below an element whose start answered SKIP_CURRENT is bypassed; after SKIP_SIBLINGS (at a
  start, an end or an item) so are the following siblings.  `prunedDoc p d` is the document with the bypassed sub-trees
  removed, with the documented conventions of the parser:
    * a block / frame whose start answered SKIP_* still exists (empty); its end callback is delivered after SKIP_CURRENT (and
      after a child asked to skip its siblings), not after SKIP_SIBLINGS;
    * a loop whose start answered SKIP_* is not created and gets no loop_end; a loop bypassed from inside (packet_start /
      packet_end answering SKIP_SIBLINGS) gets no loop_end either;
    * a scalar item answered SKIP_* is not stored; a loop item answered SKIP_CURRENT stays in its packet; SKIP_SIBLINGS from a
      loop item drops the whole packet (no packet_end); a packet whose start answered SKIP_* or whose end did not answer
      CONTINUE is not stored; a loop left without packets stays in `prunedDoc` as a loop without packets and is removed by
      the store when its container ends (`denoteP` below = `denote` followed by that removal in every container).
-/
namespace CifModel.Spec.Doc
open CifModel.ParseCB

/-- the items of a packet from the current one on: (handler count after, an item asked to skip its siblings) -/
def dItems (p : Prog) : List (Str × V) → Nat → Nat × Bool
  | [], n => (n, false)
  | (nm, v) :: is, n => if p n (.item nm v) = SKIP_SIBLINGS then (n + 1, true) else dItems p is (n + 1)

/-- one packet: (handler count after, packet stored, later packets bypassed) -/
def dPacket (p : Prog) (names : List Str) (pk : List V) (n : Nat) : Nat × Bool × Bool :=
  if p n .pktStart = CONTINUE then
    let it := dItems p (List.zip names pk) (n + 1)
    if it.2 then (it.1, false, false)
    else (it.1 + 1, decide (p it.1 (.pktEnd (List.zip names pk)) = CONTINUE), decide (p it.1 (.pktEnd (List.zip names pk)) = SKIP_SIBLINGS))
  else (n + 1, false, decide (p n .pktStart = SKIP_SIBLINGS))

/-- the packets of a loop: (handler count after, stored packets, the loop was bypassed from inside) -/
def dPackets (p : Prog) (names : List Str) : List (List V) → Nat → Nat × List (List V) × Bool
  | [], n => (n, [], false)
  | pk :: pks, n =>
    let r := dPacket p names pk n
    if r.2.2 then (r.1, if r.2.1 then [pk] else [], true)
    else
      let rest := dPackets p names pks r.1
      (rest.1, (if r.2.1 then [pk] else []) ++ rest.2.1, rest.2.2)

/-- a loop: (handler count after, what is stored of it, following siblings bypassed) -/
def dLoop (p : Prog) (storing : Bool) (names : List Str) (pks : List (List V)) (n : Nat) : Nat × List Elem × Bool :=
  if p n (.loopStart names) = CONTINUE then
    let b := dPackets p names pks (n + 1)
    if b.2.2 then (b.1, [.loop names b.2.1], false)
    else (b.1 + 1, [.loop names b.2.1], decide (p b.1 (.loopEnd (if storing then some names else none)) = SKIP_SIBLINGS))
  else (n + 1, [], decide (p n (.loopStart names) = SKIP_SIBLINGS))

mutual
  /-- an element that is not bypassed: (handler count after, what is stored of it, following siblings bypassed) -/
  def dElem (p : Prog) (storing : Bool) : Elem → Nat → Nat × List Elem × Bool
    | .item nm v, n => (n + 1, if p n (.item nm v) = CONTINUE then [.item nm v] else [], decide (p n (.item nm v) = SKIP_SIBLINGS))
    | .loop names pks, n => dLoop p storing names pks n
    | .frame code body, n =>
      let h := if storing then some code else none
      if p n (.frameStart h) = CONTINUE then
        let b := dElems p storing body (n + 1)
        (b.1 + 1, [.frame code b.2], decide (p b.1 (.frameEnd h) = SKIP_SIBLINGS))
      else if p n (.frameStart h) = SKIP_CURRENT then
        (n + 2, [.frame code []], decide (p (n + 1) (.frameEnd h) = SKIP_SIBLINGS))
      else (n + 1, [.frame code []], true)
  /-- the elements of a container body until one asks to skip its siblings: (handler count after, what is stored) -/
  def dElems (p : Prog) (storing : Bool) : List Elem → Nat → Nat × List Elem
    | [], n => (n, [])
    | e :: es, n =>
      let r := dElem p storing e n
      if r.2.2 then (r.1, r.2.1)
      else ((dElems p storing es r.1).1, r.2.1 ++ (dElems p storing es r.1).2)
end

/-- a data block: (handler count after, what is stored of it, following blocks bypassed) -/
def dBlock (p : Prog) (storing : Bool) (b : Block) (n : Nat) : Nat × Block × Bool :=
  let h := if storing then some b.code else none
  if p n (.blockStart h) = CONTINUE then
    let r := dElems p storing b.body (n + 1)
    (r.1 + 1, { code := b.code, body := r.2 }, decide (p r.1 (.blockEnd h) = SKIP_SIBLINGS))
  else if p n (.blockStart h) = SKIP_CURRENT then
    (n + 2, { code := b.code, body := [] }, decide (p (n + 1) (.blockEnd h) = SKIP_SIBLINGS))
  else (n + 1, { code := b.code, body := [] }, true)

def dBlocks (p : Prog) (storing : Bool) : List Block → Nat → List Block
  | [], _ => []
  | b :: bs, n =>
    let r := dBlock p storing b n
    if r.2.2 then [r.2.1] else r.2.1 :: dBlocks p storing bs r.1

-- the denotation with the container-end removal of packet-less loops (`cif_container_prune`)
mutual
  def denotePElem : Elem → Content → Content
    | .item n v, c => c.setScalar n v
    | .loop ns pks, c => c.addLoop { category := none, names := ns, packets := pks }
    | .frame code body, c =>
      c.addFrame (.mk code (denotePBody body .empty).prune.frames (denotePBody body .empty).prune.loops)
  def denotePBody : List Elem → Content → Content
    | [], c => c
    | e :: es, c => denotePBody es (denotePElem e c)
end

def denoteP (d : Doc) : Cif :=
  d.map (fun b => Container.mk b.code (denotePBody b.body .empty).prune.frames (denotePBody b.body .empty).prune.loops)

/-- the document with the bypassed sub-trees removed -/
def prunedDoc (p : Prog) (storing : Bool) (d : Doc) : Doc :=
  if p 0 (.cifStart storing) = CONTINUE then dBlocks p storing d 1 else []

end CifModel.Spec.Doc

/-
  Part 4 (C15, stop semantics of the store) — ANY handler program: besides continuing and skipping a handler may answer
  CIF_TRAVERSE_END or an error code (anything that is not one of the three directives), which ends the parse at once.
  `cutDoc p d` runs the program over the document tree as part 3 does (the only state is the number of handler callbacks
  delivered) and returns what the store holds when the parse ends: the document with the bypassed sub-trees removed AND cut at
  the stopping point — everything stored before the stop stays, nothing after it is stored — together with the stopping answer.
  What happens to the construct in progress (read off parser.c, restated here):
    * stop at a scalar item: the item is not stored;
    * stop at loop_start: the loop is not created; at packet_start / at an item of a packet / at packet_end: the open packet is
      not recorded, the loop stays with the packets recorded before — also when there are none (see the next point);
      at loop_end: the loop stays as it is;
    * stop at block / frame start: the block / frame has been created and stays, empty; inside the body: it stays with what was
      stored so far; at block / frame end: it is complete;
    * `cif_container_prune` (removal of packet-less loops) runs when a container reaches its end with CIF_OK, just before its
      end handler.  The containers that are open at the stopping point never get there: they KEEP their packet-less loops.
      Closed containers have lost theirs: `stripL`.  So the stored CIF is the plain denotation `denote (cutDoc …).kept`.
    * no block_end / frame_end / loop_end / cif_end callback is delivered for the constructs open at the stopping point.
  Return value of cif_parse: the stopping answer if positive, CIF_OK otherwise (END and the other non-positive answers);
  without a stop: the answer of cif_end if positive, else CIF_OK (`cutResult`).
-/
namespace CifModel.Spec.Doc
open CifModel.ParseCB

/-- the answer ends the parse: `some r` unless `r` is one of the three traversal directives -/
def stopOf (r : Int) : Option Int :=
  if r = CONTINUE then none else if r = SKIP_CURRENT then none else if r = SKIP_SIBLINGS then none else some r

/-- outcome of running the program over a construct -/
structure Cut (α : Type) where
  n : Nat             -- handler callbacks delivered so far
  kept : α            -- what the store holds of the construct
  sib : Bool          -- the following siblings are bypassed (SKIP_SIBLINGS)
  stop : Option Int   -- the answer that ended the parse, if one did

/-- `cif_container_prune`: the loops without packets go -/
def stripL (es : List Elem) : List Elem :=
  es.filter (fun e => match e with | .loop _ [] => false | _ => true)

def cItems (p : Prog) : List (Str × V) → Nat → Cut Unit
  | [], n => ⟨n, (), false, none⟩
  | (nm, v) :: is, n =>
    if p n (.item nm v) = CONTINUE then cItems p is (n + 1)
    else if p n (.item nm v) = SKIP_CURRENT then cItems p is (n + 1)
    else if p n (.item nm v) = SKIP_SIBLINGS then ⟨n + 1, (), true, none⟩
    else ⟨n + 1, (), false, some (p n (.item nm v))⟩

/-- one packet; `kept` = it is recorded -/
def cPacket (p : Prog) (names : List Str) (pk : List V) (n : Nat) : Cut Bool :=
  if p n .pktStart = CONTINUE then
    let it := cItems p (List.zip names pk) (n + 1)
    if it.stop.isSome then ⟨it.n, false, false, it.stop⟩
    else if it.sib then ⟨it.n, false, false, none⟩
    else ⟨it.n + 1, decide (p it.n (.pktEnd (List.zip names pk)) = CONTINUE),
          decide (p it.n (.pktEnd (List.zip names pk)) = SKIP_SIBLINGS), stopOf (p it.n (.pktEnd (List.zip names pk)))⟩
  else if p n .pktStart = SKIP_CURRENT then ⟨n + 1, false, false, none⟩
  else if p n .pktStart = SKIP_SIBLINGS then ⟨n + 1, false, true, none⟩
  else ⟨n + 1, false, false, some (p n .pktStart)⟩

/-- the packets of a loop; `kept` = the recorded ones; `sib` = the loop was bypassed from inside -/
def cPackets (p : Prog) (names : List Str) : List (List V) → Nat → Cut (List (List V))
  | [], n => ⟨n, [], false, none⟩
  | pk :: pks, n =>
    let r := cPacket p names pk n
    if r.stop.isSome then ⟨r.n, [], false, r.stop⟩
    else if r.sib then ⟨r.n, if r.kept then [pk] else [], true, none⟩
    else
      let rest := cPackets p names pks r.n
      ⟨rest.n, (if r.kept then [pk] else []) ++ rest.kept, rest.sib, rest.stop⟩

def cLoop (p : Prog) (storing : Bool) (names : List Str) (pks : List (List V)) (n : Nat) : Cut (List Elem) :=
  if p n (.loopStart names) = CONTINUE then
    let b := cPackets p names pks (n + 1)
    if b.stop.isSome then ⟨b.n, [.loop names b.kept], false, b.stop⟩
    else if b.sib then ⟨b.n, [.loop names b.kept], false, none⟩
    else ⟨b.n + 1, [.loop names b.kept], decide (p b.n (.loopEnd (if storing then some names else none)) = SKIP_SIBLINGS),
          stopOf (p b.n (.loopEnd (if storing then some names else none)))⟩
  else if p n (.loopStart names) = SKIP_CURRENT then ⟨n + 1, [], false, none⟩
  else if p n (.loopStart names) = SKIP_SIBLINGS then ⟨n + 1, [], true, none⟩
  else ⟨n + 1, [], false, some (p n (.loopStart names))⟩

mutual
  def cElem (p : Prog) (storing : Bool) : Elem → Nat → Cut (List Elem)
    | .item nm v, n =>
      ⟨n + 1, if p n (.item nm v) = CONTINUE then [.item nm v] else [], decide (p n (.item nm v) = SKIP_SIBLINGS),
       stopOf (p n (.item nm v))⟩
    | .loop names pks, n => cLoop p storing names pks n
    | .frame code body, n =>
      let h := if storing then some code else none
      if p n (.frameStart h) = CONTINUE then
        let b := cElems p storing body (n + 1)
        if b.stop.isSome then ⟨b.n, [.frame code b.kept], false, b.stop⟩             -- open: keeps its packet-less loops
        else ⟨b.n + 1, [.frame code (stripL b.kept)], decide (p b.n (.frameEnd h) = SKIP_SIBLINGS), stopOf (p b.n (.frameEnd h))⟩
      else if p n (.frameStart h) = SKIP_CURRENT then
        ⟨n + 2, [.frame code []], decide (p (n + 1) (.frameEnd h) = SKIP_SIBLINGS), stopOf (p (n + 1) (.frameEnd h))⟩
      else if p n (.frameStart h) = SKIP_SIBLINGS then ⟨n + 1, [.frame code []], true, none⟩
      else ⟨n + 1, [.frame code []], false, some (p n (.frameStart h))⟩
  /-- the elements of a container body until one asks to skip its siblings or ends the parse -/
  def cElems (p : Prog) (storing : Bool) : List Elem → Nat → Cut (List Elem)
    | [], n => ⟨n, [], false, none⟩
    | e :: es, n =>
      let r := cElem p storing e n
      if r.stop.isSome then ⟨r.n, r.kept, false, r.stop⟩
      else if r.sib then ⟨r.n, r.kept, false, none⟩
      else ⟨(cElems p storing es r.n).n, r.kept ++ (cElems p storing es r.n).kept, false, (cElems p storing es r.n).stop⟩
end

def cBlock (p : Prog) (storing : Bool) (b : Block) (n : Nat) : Cut Block :=
  let h := if storing then some b.code else none
  if p n (.blockStart h) = CONTINUE then
    let r := cElems p storing b.body (n + 1)
    if r.stop.isSome then ⟨r.n, { code := b.code, body := r.kept }, false, r.stop⟩
    else ⟨r.n + 1, { code := b.code, body := stripL r.kept }, decide (p r.n (.blockEnd h) = SKIP_SIBLINGS), stopOf (p r.n (.blockEnd h))⟩
  else if p n (.blockStart h) = SKIP_CURRENT then
    ⟨n + 2, { code := b.code, body := [] }, decide (p (n + 1) (.blockEnd h) = SKIP_SIBLINGS), stopOf (p (n + 1) (.blockEnd h))⟩
  else if p n (.blockStart h) = SKIP_SIBLINGS then ⟨n + 1, { code := b.code, body := [] }, true, none⟩
  else ⟨n + 1, { code := b.code, body := [] }, false, some (p n (.blockStart h))⟩

def cBlocks (p : Prog) (storing : Bool) : List Block → Nat → Cut (List Block)
  | [], n => ⟨n, [], false, none⟩
  | b :: bs, n =>
    let r := cBlock p storing b n
    if r.stop.isSome then ⟨r.n, [r.kept], false, r.stop⟩
    else if r.sib then ⟨r.n, [r.kept], false, none⟩
    else ⟨(cBlocks p storing bs r.n).n, r.kept :: (cBlocks p storing bs r.n).kept, false, (cBlocks p storing bs r.n).stop⟩

/-- the document as the store holds it when the parse ends, and the answer that ended it -/
def cutDoc (p : Prog) (storing : Bool) (d : Doc) : Cut Doc :=
  if p 0 (.cifStart storing) = CONTINUE then cBlocks p storing d 1
  else if p 0 (.cifStart storing) = SKIP_CURRENT then ⟨1, [], false, none⟩
  else if p 0 (.cifStart storing) = SKIP_SIBLINGS then ⟨1, [], false, none⟩
  else ⟨1, [], false, some (p 0 (.cifStart storing))⟩

/-- the return value of cif_parse -/
def cutResult (p : Prog) (storing : Bool) (c : Cut Doc) : Int :=
  match c.stop with
  | some r => if r > OK then r else OK
  | none => if p c.n (.cifEnd storing) > OK then p c.n (.cifEnd storing) else OK

end CifModel.Spec.Doc
