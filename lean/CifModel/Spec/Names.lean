import CifModel.Basic
/-
  CifModel.Spec.Names — validity of data names and block / frame codes, written from the CIF 2.0 rules in terms of CODE POINTS
  (the C works on UTF-16 code units): a data name is `_` followed by at least one more character, a code is non-empty; every
  character is a CIF character other than whitespace (no C0 controls, no SP, no U+007F–U+009F, no U+FDD0–U+FDEF, no
  U+xxFFFE / U+xxFFFF in any plane; an unpaired surrogate is no character at all); at most 2048 characters for a name, 2043 for a
  code (so that `data_<code>` / `save_<code>` fits the 2048-character line).
-/
namespace CifModel.Spec

/-- UTF-16 decoding: `some cp` per character, `none` for an unpaired surrogate -/
def decode : Str → List (Option Nat)
  | [] => []
  | c :: rest =>
    if 0xd800 ≤ c ∧ c ≤ 0xdbff then
      match rest with
      | [] => [none]
      | d :: rest' =>
        if 0xdc00 ≤ d ∧ d ≤ 0xdfff then some (0x10000 + (c - 0xd800) * 1024 + (d - 0xdc00)) :: decode rest'
        else none :: decode (d :: rest')
    else if 0xdc00 ≤ c ∧ c ≤ 0xdfff then none :: decode rest
    else some c :: decode rest

/-- a character allowed in a name or code -/
def nameChar (cp : Nat) : Prop :=
  cp > 0x20 ∧ ¬ (0x7f ≤ cp ∧ cp ≤ 0x9f) ∧ ¬ (0xfdd0 ≤ cp ∧ cp ≤ 0xfdef) ∧ cp % 0x10000 < 0xfffe

def validName (forItem : Bool) (s : Str) : Prop :=
  (∀ x ∈ decode s, ∃ cp, x = some cp ∧ nameChar cp) ∧
  (if forItem then (decode s).head? = some (some 95) ∧ 2 ≤ (decode s).length else 1 ≤ (decode s).length) ∧
  (decode s).length ≤ (if forItem then 2048 else 2043)

/-- no unit is a surrogate (the string consists of BMP characters only) -/
def noSurrogates (s : Str) : Prop := ∀ c ∈ s, c < 0xd800 ∨ (0xe000 ≤ c ∧ c < 0x10000)

end CifModel.Spec
