import CifModel.Spec.Traversal
import CifModel.Model.ParseCBDup
/-
  Spec/TraversalDup (C15, duplicates under callbacks) — what an all-continue parse with an ACCEPTING error callback owes a
  document in which block codes, frame codes and scalar data names may repeat (names and codes compared after `norm`).
  The walk goes through the document in document order and threads what the container holds (`Content`): that is what
  "duplicate" refers to.  As the recovery table of src/parser.c prescribes:

    * a scalar item whose name the container already holds: data-name callback, error callback CIF_DUP_ITEMNAME, NO item
      handler; the value is dropped, the container is unchanged;
    * a save frame whose code the container already has: error callback CIF_DUP_FRAMECODE, then the EXISTING frame is
      reopened: frame_start / frame_end carry its handle (its code in its first spelling), its items are checked against and
      added to what it already holds, it is pruned again at its end; it keeps its place among the frames;
    * a data block whose code the CIF already has: CIF_DUP_BLOCKCODE, likewise.
  Loop headers are required to be new to their container and free of repeats (`dupOK…`); the model and the correspondence run
  cover duplicate header names as well (Model/ParseCBDup.lean).
-/
namespace CifModel.Spec.Doc
open CifModel.ParseCB
open CifModel.Gen.ErrCodes (CIF_DUP_ITEMNAME CIF_DUP_BLOCKCODE CIF_DUP_FRAMECODE)

mutual
  /-- callbacks owed by an element (document order) and the content of the container afterwards -/
  def dupElem (norm : Str → Str) : Elem → Content → List Ev × Content
    | .item nm v, c =>
      if hasName norm c nm then ([.dataname nm, errEv CIF_DUP_ITEMNAME], c)
      else ([.dataname nm, .item nm v], c.setScalar nm v)
    | .loop ns pks, c => (elemEvents true (.loop ns pks), c.addLoop { category := none, names := ns, packets := pks })
    | .frame code body, c =>
      match findC norm c.frames code with
      | some old =>
        (errEv CIF_DUP_FRAMECODE :: .frameStart (some old.code)
            :: ((dupElems norm body ⟨old.frames, old.loops⟩).1 ++ [.frameEnd (some old.code)]),
         { c with frames := (replaceC norm c.frames code
             (Container.mk old.code (dupElems norm body ⟨old.frames, old.loops⟩).2.prune.frames
               (dupElems norm body ⟨old.frames, old.loops⟩).2.prune.loops)) })
      | none =>
        (.frameStart (some code) :: ((dupElems norm body .empty).1 ++ [.frameEnd (some code)]),
         c.addFrame (.mk code (dupElems norm body .empty).2.prune.frames (dupElems norm body .empty).2.prune.loops))
  def dupElems (norm : Str → Str) : List Elem → Content → List Ev × Content
    | [], c => ([], c)
    | e :: es, c => ((dupElem norm e c).1 ++ (dupElems norm es (dupElem norm e c).2).1, (dupElems norm es (dupElem norm e c).2).2)
end

/-- the blocks: callbacks owed and the CIF afterwards -/
def dupBlocks (norm : Str → Str) : List Block → List Container → List Ev × List Container
  | [], acc => ([], acc)
  | b :: bs, acc =>
    match findC norm acc b.code with
    | some old =>
      let r := dupElems norm b.body ⟨old.frames, old.loops⟩
      let rest := dupBlocks norm bs (replaceC norm acc b.code (.mk old.code r.2.prune.frames r.2.prune.loops))
      (errEv CIF_DUP_BLOCKCODE :: .blockStart (some old.code) :: (r.1 ++ .blockEnd (some old.code) :: rest.1), rest.2)
    | none =>
      let r := dupElems norm b.body .empty
      let rest := dupBlocks norm bs (acc ++ [.mk b.code r.2.prune.frames r.2.prune.loops])
      (.blockStart (some b.code) :: (r.1 ++ .blockEnd (some b.code) :: rest.1), rest.2)

def dupEvents (norm : Str → Str) (d : Doc) : List Ev := .cifStart true :: ((dupBlocks norm d []).1 ++ [.cifEnd true])

/-- the CIF a document with duplicates leaves in the store -/
def dupDenote (norm : Str → Str) (d : Doc) : Cif := (dupBlocks norm d []).2

-- ---- the documents covered: values well-formed, loops rectangular, their headers new to the container and free of repeats -----

def headerNew (norm : Str → Str) (c : Content) : List Str → List Str → Bool
  | [], _ => true
  | n :: ns, seen => !hasName norm c n && !seen.any (fun m => norm m == norm n) && headerNew norm c ns (seen ++ [n])

end CifModel.Spec.Doc
