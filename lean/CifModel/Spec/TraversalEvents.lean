import CifModel.Spec.Traversal
/-
  Spec/TraversalEvents (C15, part 5) — WHICH callbacks are delivered, as a formula over the document tree, for handler programs that
  steer the parse from the START callbacks only: cif_start, block_start, frame_start, loop_start and packet_start answer one of
  CONTINUE / SKIP_CURRENT / SKIP_SIBLINGS / END, every other callback (items, end callbacks) answers CONTINUE (`StartOnly`).

  The formula walks the document in document order and decides, element by element, from the answer of its start callback:
    CONTINUE       the start callback, the callbacks of the children (same rule), the end callback;
    SKIP_CURRENT   the start callback only — for a data block / save frame also its end callback; nothing of the content;
    SKIP_SIBLINGS  the start callback only, and nothing of the later siblings in the same parent (the parent's end callback IS
                   delivered — but a loop bypassed from one of its packets gets no loop_end);
    END            the start callback, and nothing at all after it.
  The only state is the number of handler callbacks delivered so far (the index at which the program is asked), which the formula
  derives from the callbacks it has listed.  Data-name and keyword callbacks accompany the callbacks of their element.
  Written from cif.h and the reading notes of DESIGN.md (C15), not from parser.c.
-/
namespace CifModel.Spec.Doc
open CifModel.ParseCB

/-- how the walk goes on after an element -/
inductive Flow where
  | go      -- normally
  | sib     -- the later siblings of the element are bypassed
  | stop    -- the parse is over
deriving DecidableEq, Inhabited

/-- callbacks delivered for a construct, and how the walk goes on -/
structure Del where
  evs : List Ev
  flow : Flow
deriving Inhabited

def isStart : Ev → Bool
  | .cifStart _ | .blockStart _ | .frameStart _ | .loopStart _ | .pktStart => true
  | _ => false

/-- the program steers from the start callbacks only, with the four traversal directives -/
def StartOnly (p : Prog) : Prop :=
  ∀ k e, (isStart e = false → p k e = CONTINUE)
    ∧ (p k e = CONTINUE ∨ p k e = SKIP_CURRENT ∨ p k e = SKIP_SIBLINGS ∨ p k e = END)

/-- the number of handler callbacks among `l` -/
def hc (l : List Ev) : Nat := (l.filter Ev.isHandler).length

/-- a start callback answered something else than CONTINUE -/
def flowOf (r : Int) : Flow := if r = SKIP_CURRENT then .go else if r = SKIP_SIBLINGS then .sib else .stop

def ePacket (p : Prog) (names : List Str) (pk : List V) (n : Nat) : Del :=
  if p n .pktStart = CONTINUE then
    ⟨.pktStart :: ((List.zip names pk).map (fun x => Ev.item x.1 x.2) ++ [.pktEnd (List.zip names pk)]), .go⟩
  else ⟨[.pktStart], flowOf (p n .pktStart)⟩

def ePackets (p : Prog) (names : List Str) : List (List V) → Nat → Del
  | [], _ => ⟨[], .go⟩
  | pk :: pks, n =>
    match (ePacket p names pk n).flow with
    | .go => ⟨(ePacket p names pk n).evs ++ (ePackets p names pks (n + hc (ePacket p names pk n).evs)).evs,
              (ePackets p names pks (n + hc (ePacket p names pk n).evs)).flow⟩
    | f => ⟨(ePacket p names pk n).evs, f⟩

/-- a loop after its header callbacks (keyword, data names) -/
def eLoop (p : Prog) (storing : Bool) (names : List Str) (pks : List (List V)) (n : Nat) : Del :=
  if p n (.loopStart names) = CONTINUE then
    match (ePackets p names pks (n + 1)).flow with
    | .go => ⟨.loopStart names :: ((ePackets p names pks (n + 1)).evs ++ [.loopEnd (if storing then some names else none)]), .go⟩
    | .sib => ⟨.loopStart names :: (ePackets p names pks (n + 1)).evs, .go⟩     -- bypassed from a packet: no loop_end
    | .stop => ⟨.loopStart names :: (ePackets p names pks (n + 1)).evs, .stop⟩
  else ⟨[.loopStart names], flowOf (p n (.loopStart names))⟩

/-- a data block / save frame with start callback `sEv`, end callback `eEv`, whose content (asked from `n + 1` on) delivers `body` -/
def wrapCont (p : Prog) (sEv eEv : Ev) (n : Nat) (body : Del) : Del :=
  if p n sEv = CONTINUE then
    match body.flow with
    | .stop => ⟨sEv :: body.evs, .stop⟩
    | _ => ⟨sEv :: (body.evs ++ [eEv]), .go⟩             -- also after a child asked to skip its siblings
  else if p n sEv = SKIP_CURRENT then ⟨[sEv, eEv], .go⟩
  else ⟨[sEv], flowOf (p n sEv)⟩

mutual
  def eElem (p : Prog) (storing : Bool) : Elem → Nat → Del
    | .item nm v, _ => ⟨[.dataname nm, .item nm v], .go⟩
    | .loop names pks, n =>
      ⟨.keyword [] :: (names.map Ev.dataname ++ (eLoop p storing names pks n).evs), (eLoop p storing names pks n).flow⟩
    | .frame code body, n =>
      wrapCont p (.frameStart (if storing then some code else none)) (.frameEnd (if storing then some code else none)) n
        (eElems p storing body (n + 1))
  def eElems (p : Prog) (storing : Bool) : List Elem → Nat → Del
    | [], _ => ⟨[], .go⟩
    | e :: es, n =>
      match (eElem p storing e n).flow with
      | .go => ⟨(eElem p storing e n).evs ++ (eElems p storing es (n + hc (eElem p storing e n).evs)).evs,
                (eElems p storing es (n + hc (eElem p storing e n).evs)).flow⟩
      | f => ⟨(eElem p storing e n).evs, f⟩
end

def eBlock (p : Prog) (storing : Bool) (b : Block) (n : Nat) : Del :=
  wrapCont p (.blockStart (if storing then some b.code else none)) (.blockEnd (if storing then some b.code else none)) n
    (eElems p storing b.body (n + 1))

def eBlocks (p : Prog) (storing : Bool) : List Block → Nat → Del
  | [], _ => ⟨[], .go⟩
  | b :: bs, n =>
    match (eBlock p storing b n).flow with
    | .go => ⟨(eBlock p storing b n).evs ++ (eBlocks p storing bs (n + hc (eBlock p storing b n).evs)).evs,
              (eBlocks p storing bs (n + hc (eBlock p storing b n).evs)).flow⟩
    | f => ⟨(eBlock p storing b n).evs, f⟩

/-- **the callbacks delivered** (handler, data-name and keyword callbacks, in order) by the parse of document `d` under a program that
    steers from the start callbacks only -/
def evDoc (p : Prog) (storing : Bool) (d : Doc) : List Ev :=
  if p 0 (.cifStart storing) = CONTINUE then
    match (eBlocks p storing d 1).flow with
    | .stop => .cifStart storing :: (eBlocks p storing d 1).evs
    | _ => .cifStart storing :: ((eBlocks p storing d 1).evs ++ [.cifEnd storing])
  else if p 0 (.cifStart storing) = END then [.cifStart storing]
  else [.cifStart storing, .cifEnd storing]

end CifModel.Spec.Doc
