import CifModel.Model.StoreStep
/-
  Spec/StoreSpec — the documented data model WITH OBJECT IDENTITIES, as the state an API history acts on.

  A handle of the API denotes an object (a container, a loop); the documented model of Spec/DataModel (`Cif`: trees of containers)
  has no identities, so a history cannot be interpreted on it directly.  `AState` keeps the container / data_block / save_frame
  tables as they are (they ARE the documented model of the container tree: ids, parent, code in both spellings) and replaces the
  three tables loop / loop_item / item_value, the row counters, the transactions and the savepoints by what the documentation talks
  about: a loop is a category, a list of items (normalised name, spelling) and a list of packets, each packet one value per item.
  The tree `abs` of Model/StoreStep is a projection of `absS` (`AState.tree`; `absS_tree`, Lemmas/StoreSpecWorld).

  `specStep`-functions below say what a call does to an `AState`; Lemmas/StoreSpecRefine proves, op by op, that the model's call
  commutes with `absS` and returns the same code, for a `Good` store and a valid handle (what `WOk` / `inContract` give).
-/
namespace CifModel.Store
open Gen.ErrCodes

structure ALoop where
  cid : Nat
  num : Nat
  category : Option Str
  /-- (normalised name, spelling as given), in the loop's order -/
  items : List (Str × Str)
  /-- one value per item, in the items' order -/
  packets : List (List V)
deriving Inhabited

structure AState where
  containers : List ContainerRow := []
  blocks : List BlockRow := []
  frames : List FrameRow := []
  nextId : Nat := 1
  loops : List ALoop := []
deriving Inhabited

def absALoop (d : Db) (x : LoopRow) : ALoop :=
  { cid := x.cid, num := x.loopNum, category := x.category,
    items := (d.loopItems x.cid x.loopNum).map (fun i => (i.name, i.nameOrig)),
    packets := (absLoop d x).packets }

/-- the managed CIF as the documented model with identities -/
def absS (d : Db) : AState :=
  { containers := d.containers, blocks := d.blocks, frames := d.frames, nextId := d.nextId, loops := d.loops.map (absALoop d) }

namespace AState

def findLoop (a : AState) (cid num : Nat) : Option ALoop := a.loops.find? (fun x => x.cid == cid && x.num == num)

def onLoop (a : AState) (cid num : Nat) (f : ALoop → ALoop) : AState :=
  { a with loops := a.loops.map (fun y => if y.cid == cid && y.num == num then f y else y) }

end AState

/-- a loop of the identity model as the tree model shows it: category, item names as spelled, packets -/
def ALoop.toLoop (y : ALoop) : Loop := { category := y.category, names := y.items.map (·.2), packets := y.packets }

mutual
  /-- the container tree below `cid` (fuel bounds the nesting depth, as in `absContainer`) -/
  def AState.treeContainer (a : AState) : Nat → Nat → Str → Container
    | 0, _, code => .mk code [] []
    | fuel + 1, cid, code =>
      .mk code (AState.treeFrames a fuel (a.frames.filter (fun f => f.parent == cid)))
               ((a.loops.filter (fun y => y.cid == cid)).map ALoop.toLoop)
  def AState.treeFrames (a : AState) : Nat → List FrameRow → List Container
    | _, [] => []
    | fuel, f :: fs => AState.treeContainer a fuel f.cid f.nameOrig :: AState.treeFrames a fuel fs
end

/-- the tree-shaped documented model (`Cif` of Model/Types: what a dump through the public query API shows) as a projection of
    the identity model: `(absS d).tree = abs d` (`absS_tree`, Lemmas/StoreSpecWorld) -/
def AState.tree (a : AState) : Cif := a.blocks.map (fun b => a.treeContainer (a.frames.length + 1) b.cid b.nameOrig)

def ALoop.hasItem (x : ALoop) (k : Str) : Bool := x.items.any (fun it => it.1 == k)

/-- the packet the documentation describes: the given value for an item the packet names, the unknown value for the others -/
def ALoop.packetOf (x : ALoop) (pkt : List (Str × V)) : List V :=
  x.items.map (fun it => ((pkt.find? (fun e => e.1 == it.1)).map (·.2)).getD .unk)

/-- cif_loop_add_packet: "must specify at least one value, and it must not provide data for any items not in the loop; items
    without specified values get the explicit unknown value"; the scalar loop holds at most one packet -/
def specAddPacket (a : AState) (l : LH) (pkt : List (Str × V)) : AState × Except Code Unit :=
  if pkt.isEmpty then (a, .error CIF_INVALID_PACKET)
  else match a.findLoop l.cid l.loopNum with
    | none => (a, .error CIF_INTERNAL_ERROR)
    | some x =>
      if x.category == some [] && !x.packets.isEmpty then (a, .error CIF_RESERVED_LOOP)
      else if pkt.any (fun e => !x.hasItem e.1) then (a, .error CIF_WRONG_LOOP)
      else (a.onLoop l.cid l.loopNum (fun y => { y with packets := y.packets ++ [y.packetOf pkt] }), .ok ())

/-- cif_loop_set_category: "" can be neither given nor taken -/
def specSetCategory (a : AState) (l : LH) (cat : Option Str) : AState × LH × Except Code Unit :=
  match a.findLoop l.cid l.loopNum with
  | none => (a, l, .error CIF_INVALID_HANDLE)
  | some x =>
    if x.category == some [] || cat == some [] then (a, l, .error CIF_RESERVED_LOOP)
    else (a.onLoop l.cid l.loopNum (fun y => { y with category := cat }), { l with category := cat }, .ok ())

/-- cif_loop_destroy: the loop goes, with its items and packets; nothing else changes -/
def specDestroyLoop (a : AState) (l : LH) : AState × Except Code Unit :=
  match a.findLoop l.cid l.loopNum with
  | none => (a, .error CIF_INVALID_HANDLE)
  | some _ => ({ a with loops := a.loops.filter (fun y => !(y.cid == l.cid && y.num == l.loopNum)) }, .ok ())

/-- cif_get_block: the block whose normalised code matches, or CIF_NOSUCH_BLOCK -/
def specGetBlockH (a : AState) (name : Name) : Except Code CH :=
  match a.blocks.find? (fun b => b.name == name.key) with
  | some b => .ok { id := b.cid, code := b.nameOrig, isBlock := true }
  | none => .error CIF_NOSUCH_BLOCK

/-- cif_get_all_blocks -/
def specAllBlocks (a : AState) : Except Code (List CH) :=
  .ok (a.blocks.map (fun b => { id := b.cid, code := b.nameOrig, isBlock := true }))

/-- cif_container_get_frame -/
def specGetFrameH (a : AState) (h : CH) (name : Option Name) : Except Code CH :=
  match name with
  | none => .error CIF_INVALID_FRAMECODE
  | some n =>
    if !n.valid then .error CIF_INVALID_FRAMECODE
    else match a.frames.find? (fun f => f.parent == h.id && f.name == n.key) with
      | some f => .ok { id := f.cid, code := f.nameOrig, isBlock := false }
      | none => .error CIF_NOSUCH_FRAME

/-- cif_container_get_all_frames -/
def specAllFrames (a : AState) (h : CH) : Except Code (List CH) :=
  .ok ((a.frames.filter (fun f => f.parent == h.id)).map (fun f => { id := f.cid, code := f.nameOrig, isBlock := false }))

/-- cif_container_destroy: the container goes, with its loops; the save frames directly under it lose their place in the tree.
    NOTE (review rA, A.9): cif.h says "removes the associated container and all its contents"; this state-level function keeps the
    container rows and loops of the frames NESTED in the destroyed container as unreachable garbage (as the store does: only the
    save_frame rows cascade).  They are not part of the CIF: the tree view `AState.tree` — what every dump, walk and query from a
    block shows — does not contain them, and the contract (`CH.okB` / `LH.okB`, Model/StoreContract `Db.inCif`) rejects every handle on
    them, so no in-contract history reads or writes them.  The state itself is not pruned (tools/props/C04.py PARTIAL). -/
def specDestroyContainer (a : AState) (h : CH) : AState × Except Code Unit :=
  if (a.containers.filter (fun c => c.id == h.id)).length == 0 then (a, .error CIF_INVALID_HANDLE)
  else ({ a with containers := a.containers.filter (fun c => !(c.id == h.id)),
                 blocks := a.blocks.filter (fun b => !(b.cid == h.id)),
                 frames := a.frames.filter (fun f => !(f.cid == h.id) && !(f.parent == h.id)),
                 loops := a.loops.filter (fun y => !(y.cid == h.id)) }, .ok ())

/-- cif_loop_get_names: (normalised name, spelling) of the loop's items, in the loop's order; a loop without items does not exist -/
def specGetNames (a : AState) (l : LH) : Except Code (List (Str × Str)) :=
  match a.findLoop l.cid l.loopNum with
  | none => .error CIF_INVALID_HANDLE
  | some x => match x.items with
    | [] => .error CIF_INVALID_HANDLE
    | is => .ok is

/-- cif_container_get_category_loop: the one loop of the container with that category -/
def specGetCategoryLoop (a : AState) (h : CH) (cat : Option Str) : Except Code LH :=
  match cat with
  | none => .error CIF_INVALID_CATEGORY
  | some c =>
    match a.loops.filter (fun y => y.cid == h.id && y.category == some c) with
    | [] => .error CIF_NOSUCH_LOOP
    | [y] => .ok { cid := h.id, loopNum := y.num, category := some c }
    | _ => .error CIF_CAT_NOT_UNIQUE

/-- cif_container_get_item_loop: the loop of the container that has the item -/
def specGetItemLoop (a : AState) (h : CH) (name : Option Name) : Except Code LH :=
  match name with
  | none => .error CIF_NOSUCH_ITEM
  | some n =>
    if !n.valid then .error CIF_NOSUCH_ITEM
    else match a.loops.filter (fun y => y.cid == h.id && y.hasItem n.key) with
      | [] => .error CIF_NOSUCH_ITEM
      | [y] => .ok { cid := h.id, loopNum := y.num, category := y.category }
      | _ => .error CIF_INTERNAL_ERROR

/-- cif_container_prune: the loops of the container that have no packet go -/
def specPrune (a : AState) (h : CH) : AState × Except Code Unit :=
  ({ a with loops := a.loops.filter (fun y => !(y.cid == h.id && y.packets.isEmpty)) }, .ok ())

/-- cif_create_block: a new, empty block under the spelling given, unless the code is invalid or (normalised) already in use.
    `lenient` (cif_create_block_internal, the parser's call after its error callback accepted CIF_INVALID_BLOCKCODE, and for the
    anonymous block): the validity of the code is not examined; everything else as documented -/
def specCreateBlock (a : AState) (name : Option Name) (lenient : Bool := false) : AState × Except Code CH :=
  match name with
  | none => (a, .error CIF_ARGUMENT_ERROR)
  | some n =>
    if !lenient && !n.valid then (a, .error CIF_INVALID_BLOCKCODE)
    else if a.blocks.any (fun b => b.name == n.key) then (a, .error CIF_DUP_BLOCKCODE)
    else ({ a with containers := a.containers ++ [{ id := a.nextId, nextLoopNum := 0 }], nextId := a.nextId + 1,
                   blocks := a.blocks ++ [{ cid := a.nextId, name := n.key, nameOrig := n.orig }] },
          .ok { id := a.nextId, code := n.orig, isBlock := true })

/-- cif_container_create_frame: a new, empty save frame in the container, unless the code is invalid or (normalised) already in use
    in this container; `lenient` (cif_container_create_frame_internal with lenient = 1): the validity of the code is not examined -/
def specCreateFrameH (a : AState) (h : CH) (name : Option Name) (lenient : Bool := false) : AState × Except Code CH :=
  match name with
  | none => (a, .error CIF_INVALID_FRAMECODE)
  | some n =>
    if !lenient && !n.valid then (a, .error CIF_INVALID_FRAMECODE)
    else if a.frames.any (fun f => f.parent == h.id && f.name == n.key) then (a, .error CIF_DUP_FRAMECODE)
    else ({ a with containers := a.containers ++ [{ id := a.nextId, nextLoopNum := 0 }], nextId := a.nextId + 1,
                   frames := a.frames ++ [{ cid := a.nextId, parent := h.id, name := n.key, nameOrig := n.orig }] },
          .ok { id := a.nextId, code := n.orig, isBlock := false })

/-- the container has an item of that (normalised) name, in whichever loop -/
def AState.hasItem (a : AState) (cid : Nat) (k : Str) : Bool := a.loops.any (fun y => y.cid == cid && y.hasItem k)

/-- the names are new to the container and pairwise distinct ("each item name … may appear only once in a container") -/
def AState.namesFresh (a : AState) (cid : Nat) : List Name → Bool
  | [] => true
  | n :: ns => !a.hasItem cid n.key && !ns.any (fun m => m.key == n.key) && namesFresh a cid ns

/-- the part of cif_container_create_loop behind the checks of the name list (cif_container_create_loop_internal): a new loop with the
    given category and items and no packet, last among the container's loops; refused for a second scalar loop and for a name the
    container already has -/
def specCreateLoopI (a : AState) (h : CH) (cat : Option Str) (names : List Name) : AState × Except Code LH :=
  if cat == some [] && a.loops.any (fun y => y.cid == h.id && y.category == some []) then (a, .error CIF_RESERVED_LOOP)
  else match a.containers.find? (fun c => c.id == h.id) with
    | none => (a, .error CIF_INVALID_HANDLE)
    | some c =>
      if !a.namesFresh h.id names then (a, .error CIF_DUP_ITEMNAME)
      else ({ a with containers := a.containers.map (fun r => if r.id == h.id then { r with nextLoopNum := r.nextLoopNum + 1 } else r),
                     loops := a.loops ++ [{ cid := h.id, num := c.nextLoopNum, category := cat,
                                            items := names.map (fun n => (n.key, n.orig)), packets := [] }] },
            .ok { cid := h.id, loopNum := c.nextLoopNum, category := cat })

/-- cif_container_create_loop: a new loop with the given category and items and no packet, last among the container's loops;
    refused without names, with an invalid name, for a second scalar loop, and for a name the container already has -/
def specCreateLoop (a : AState) (h : CH) (cat : Option Str) (names : List Name) : AState × Except Code LH :=
  if names.isEmpty then (a, .error CIF_NULL_LOOP)
  else if names.any (fun n => !n.valid) then (a, .error CIF_INVALID_ITEMNAME)
  else specCreateLoopI a h cat names

/-- cif_loop_add_item: the loop gains the item, last, with the given value in every packet; refused for an invalid name and for a
    name the container already has -/
def specAddItem (a : AState) (l : LH) (name : Option Name) (val : Option V) : AState × Except Code Unit :=
  match name with
  | none => (a, .error CIF_INVALID_ITEMNAME)
  | some n =>
    if !n.valid then (a, .error CIF_INVALID_ITEMNAME)
    else if a.hasItem l.cid n.key then (a, .error CIF_DUP_ITEMNAME)
    else (a.onLoop l.cid l.loopNum (fun y => { y with items := y.items ++ [(n.key, n.orig)], packets := y.packets.map (· ++ [val.getD .unk]) }), .ok ())

/-- the values of item `k` in the loop's packets, in packet order -/
def ALoop.column (x : ALoop) (k : Str) : List V :=
  x.packets.map (fun p => p.getD (x.items.findIdx (fun it => it.1 == k)) .unk)

/-- the column of item `k` of container `cid` (empty when the container has no such item) -/
def AState.columnOf (a : AState) (cid : Nat) (k : Str) : List V :=
  match a.loops.find? (fun y => y.cid == cid && y.hasItem k) with
  | some x => x.column k
  | none => []

/-- cif_container_get_value: the item's value; with several packets the first, and CIF_AMBIGUOUS_ITEM; CIF_NOSUCH_ITEM when the
    container has no such item or its loop has no packet -/
def specGetValue (a : AState) (h : CH) (name : Option Name) : Except Code (V × Bool) :=
  match name with
  | none => .error CIF_NOSUCH_ITEM
  | some n =>
    if !n.valid then .error CIF_NOSUCH_ITEM
    else match a.columnOf h.id n.key with
      | [] => .error CIF_NOSUCH_ITEM
      | [v] => .ok (v, false)
      | v :: _ => .ok (v, true)

/-- the loop of container `cid` that has item `k` -/
def AState.itemLoop (a : AState) (cid : Nat) (k : Str) : Option ALoop := a.loops.find? (fun y => y.cid == cid && y.hasItem k)

/-- the loop without item `k`: its name goes, and its value from every packet -/
def ALoop.dropItem (x : ALoop) (k : Str) : ALoop :=
  { x with items := x.items.filter (fun it => !(it.1 == k)),
           packets := x.packets.map (fun p => ((x.items.zip p).filter (fun e => !(e.1.1 == k))).map (·.2)) }

/-- cif_container_remove_item: the item goes from its loop, with its values; the loop goes with its last item -/
def specRemoveItem (a : AState) (h : CH) (name : Option Name) : AState × Except Code Unit :=
  match name with
  | none => (a, .error CIF_INVALID_ITEMNAME)
  | some n =>
    if !n.valid then (a, .error CIF_NOSUCH_ITEM)
    else match a.itemLoop h.id n.key with
      | none => (a, .error CIF_NOSUCH_ITEM)
      | some x =>
        if x.items.length == 1 then ({ a with loops := a.loops.filter (fun y => !(y.cid == x.cid && y.num == x.num)) }, .ok ())
        else (a.onLoop x.cid x.num (fun y => y.dropItem n.key), .ok ())

/-- the loop with value `v` for item `k` in every packet -/
def ALoop.setColumn (x : ALoop) (k : Str) (v : V) : ALoop :=
  { x with packets := x.packets.map (fun p => (x.items.zip p).map (fun e => if e.1.1 == k then v else e.2)) }

/-- "adds it as a scalar", first half: the container's scalar loop (the one loop with category ""), created — without items or
    packets yet — when the container has none -/
def specScalarLoopOf (a : AState) (h : CH) : AState × Except Code LH :=
  match specGetCategoryLoop a h (some []) with
  | .error c => if c == CIF_NOSUCH_LOOP then specCreateLoopI a h (some []) [] else (a, .error c)
  | .ok l => (a, .ok l)

/-- "adds it as a scalar", second half: the item joins the scalar loop (as cif_loop_add_item: last, with the given value in the
    loop's packet); a scalar loop that has no packet gets its one packet (as cif_loop_add_packet: the given value for the new item, the
    unknown value for the loop's other items) -/
def specAddScalarTail (a : AState) (l : LH) (n : Name) (v : V) : AState × Except Code Unit :=
  match a.findLoop l.cid l.loopNum with
  | none => (a, .error CIF_INTERNAL_ERROR)
  | some x =>
    match specAddItem a l (some n) (some v) with
    | (a2, .error c) => (a2, .error c)
    | (a2, .ok _) => if x.packets.isEmpty then specAddPacket a2 l [(n.key, v)] else (a2, .ok ())

/-- "adds it as a scalar" (cif_container_add_scalar): the scalar loop of the container — created when absent — gains the item -/
def specAddScalar (a : AState) (h : CH) (n : Name) (v : V) : AState × Except Code Unit :=
  match specScalarLoopOf a h with
  | (a1, .error c) => (a1, .error c)
  | (a1, .ok l) => specAddScalarTail a1 l n v

/-- cif_container_set_value: "Sets the value of the specified item in the specified container, or adds it as a scalar if it's not
    already present in the container.  The given value is set for the item in every packet of the loop to which it belongs."
    The loop to which the item belongs is what cif_container_get_item_loop finds (`specGetItemLoop`).  A NULL value stands for the
    unknown value; an invalid (or NULL) name is CIF_INVALID_ITEMNAME; a call that fails changes nothing. -/
def specSetValue (a : AState) (h : CH) (name : Option Name) (val : Option V) : AState × Except Code Unit :=
  match name with
  | none => (a, .error CIF_INVALID_ITEMNAME)
  | some n =>
    if !n.valid then (a, .error CIF_INVALID_ITEMNAME)
    else match specGetItemLoop a h (some n) with
      | .ok l => (a.onLoop l.cid l.loopNum (fun y => y.setColumn n.key (val.getD .unk)), .ok ())
      | .error c =>
        if c == CIF_NOSUCH_ITEM then
          match specAddScalar a h n (val.getD .unk) with
          | (a2, .ok _) => (a2, .ok ())
          | (_, .error c') => (a, .error c')
        else (a, .error c)

/-- cif_container_get_all_loops: a handle on every loop of the container, in the container's order -/
def specAllLoops (a : AState) (h : CH) : Except Code (List LH) :=
  if !a.containers.any (fun c => c.id == h.id) then .error CIF_INVALID_HANDLE
  else .ok ((a.loops.filter (fun y => y.cid == h.id)).map (fun y => { cid := h.id, loopNum := y.num, category := y.category }))

-- ---- packet iterators on the documented model ---------------------------------------------------------------------------------------

/-- an open packet iterator, as the documentation describes it: it walks the packets of one loop in order; `done` packets of the loop
    (as it is now) lie behind it, the last of them is its current packet unless that was removed (or none was delivered yet);
    `start` is the CIF as it was when the iterator was created — what cif_pktitr_abort brings back -/
structure AIter where
  cid : Nat
  num : Nat
  done : Nat
  hasCur : Bool
  start : AState
deriving Inhabited

structure AITE where
  cif : Nat
  lh : Nat
  it : AIter
deriving Inhabited

/-- row `r` of the loop is still to be delivered by the (concrete) iterator -/
def Iter.pend (it : Iter) (r : Nat) : Bool := it.rows.any (fun x => x.rowNum == r)

/-- the number of packets of the loop (as it is now) that the iterator has passed -/
def Iter.doneIn (it : Iter) (d : Db) : Nat := ((d.loopRows it.cid it.loopNum).filter (fun q => !it.pend q)).length

/-- the iterator as the documented model sees it -/
def absIter (it : Iter) (s : Store) : AIter :=
  { cid := it.cid, num := it.loopNum, done := it.doneIn s.db, hasCur := decide (0 < it.prev), start := absS (s.txn.getD s.db) }

/-- cif_loop_get_packets on a CIF without open iterator -/
def specItOpen (a : AState) (l : LH) : Except Code AIter :=
  match a.findLoop l.cid l.loopNum with
  | none => .error CIF_INVALID_HANDLE
  | some x =>
    if x.items.isEmpty then .error CIF_INVALID_HANDLE
    else if x.packets.isEmpty then .error CIF_EMPTY_LOOP
    else .ok { cid := l.cid, num := l.loopNum, done := 0, hasCur := false, start := a }

/-- cif_pktitr_next_packet: the next packet of the loop — one (name, value) pair per item, in the loop's order — or CIF_FINISHED -/
def specItNext (a : AState) (it : AIter) : AIter × Except Code (List (Str × V)) :=
  match a.findLoop it.cid it.num with
  | none => (it, .error CIF_INTERNAL_ERROR)
  | some x =>
    match x.packets[it.done]? with
    | some p => ({ it with done := it.done + 1, hasCur := true }, .ok ((x.items.map (·.1)).zip p))
    | none => (it, .error CIF_FINISHED)

/-- packet `idx` of the loop with the values `pkt` gives for its items, its other values unchanged -/
def ALoop.updAt (y : ALoop) (idx : Nat) (pkt : List (Str × V)) : ALoop :=
  match y.packets[idx]? with
  | some p =>
    let p' := (y.items.zip p).map (fun e => ((pkt.find? (fun q => q.1 == e.1.1)).map (·.2)).getD e.2)
    { y with packets := y.packets.set idx p' }
  | none => y

/-- cif_pktitr_update_packet: CIF_MISUSE without a current packet, CIF_WRONG_LOOP for an item of another loop; else the current
    packet gets the given values, its other values stay -/
def specItUpdate (a : AState) (it : AIter) (pkt : List (Str × V)) : AState × Except Code Unit :=
  if !it.hasCur then (a, .error CIF_MISUSE)
  else match a.findLoop it.cid it.num with
    | none => (a, .error CIF_INTERNAL_ERROR)
    | some x =>
      if pkt.any (fun e => !x.hasItem e.1) then (a, .error CIF_WRONG_LOOP)
      else (a.onLoop it.cid it.num (fun y => y.updAt (it.done - 1) pkt), .ok ())

/-- cif_pktitr_remove_packet: CIF_MISUSE without a current packet; else the current packet goes, and there is no current packet -/
def specItRemove (a : AState) (it : AIter) : AState × AIter × Except Code Unit :=
  if !it.hasCur then (a, it, .error CIF_MISUSE)
  else (a.onLoop it.cid it.num (fun y => { y with packets := y.packets.eraseIdx (it.done - 1) }),
        { it with done := it.done - 1, hasCur := false }, .ok ())

-- ---- histories on the documented model -----------------------------------------------------------------------------------------------

/-- cif_loop_get_packets while another iterator is open on the same CIF: refused — "CIF_INVALID_HANDLE if the loop handle represents a
    loop that does not (any longer) exist … CIF_ERROR in most other cases" (one iterator at a time per CIF) -/
def specItOpenRefused (a : AState) (l : LH) : Code :=
  match a.findLoop l.cid l.loopNum with
  | none => CIF_INVALID_HANDLE
  | some x => if x.items.isEmpty then CIF_INVALID_HANDLE else CIF_ERROR

/-- the world of a history, every managed CIF as the documented model; the handle tables are the caller's (a handle names an object);
    an open iterator is the abstract iterator `AIter` (its loop, how many packets it has passed, whether it has a current packet, the
    CIF as it was when the iterator was created) -/
structure AWorld where
  cifs : List (Option AState) := []
  chs : List (Option CHE) := []
  lhs : List (Option LHE) := []
  its : List (Option AITE) := []
deriving Inhabited

/-- an iterator-table entry as the documented model sees it: the iterator abstracted against the store of its CIF -/
def absITE (cifs : List (Option Store)) (e : ITE) : AITE :=
  { cif := e.cif, lh := e.lh, it := absIter e.it ((cifs.getD e.cif none).getD {}) }

def absW (w : World) : AWorld :=
  { cifs := w.cifs.map (fun c => c.map (fun s => absS s.db)), chs := w.chs, lhs := w.lhs,
    its := w.its.map (fun e => e.map (absITE w.cifs)) }

namespace AWorld

def liveC (a : AWorld) (c : Nat) : Option AState := a.cifs.getD c none
def liveH (a : AWorld) (h : Nat) : Option (CHE × AState) :=
  match a.chs.getD h none with
  | none => none
  | some e => (a.liveC e.cif).map (fun s => (e, s))
def liveL (a : AWorld) (l : Nat) : Option (LHE × AState) :=
  match a.lhs.getD l none with
  | none => none
  | some e => match a.liveH e.ch with
    | none => none
    | some _ => (a.liveC e.cif).map (fun s => (e, s))
def liveI (a : AWorld) (i : Nat) : Option (AITE × AState) :=
  match a.its.getD i none with
  | none => none
  | some e => match a.liveL e.lh with
    | none => none
    | some _ => (a.liveC e.cif).map (fun s => (e, s))
def setCif (a : AWorld) (c : Nat) (s : AState) : AWorld := { a with cifs := a.cifs.set c (some s) }
/-- an iterator is open on CIF `c` -/
def cifBusy (a : AWorld) (c : Nat) : Bool := a.its.any (fun e => match e with | some e => e.cif == c | none => false)
def itOnCh (a : AWorld) (h : Nat) : Bool :=
  a.its.any (fun e => match e with
    | some e => (match a.lhs.getD e.lh none with | some le => le.ch == h | none => false)
    | none => false)
def itOnLh (a : AWorld) (l : Nat) : Bool := a.its.any (fun e => match e with | some e => e.lh == l | none => false)

end AWorld

open World in
/-- one call of a history on the documented model (always `some`: every one of the 31 ops has its case) -/
def specStep (a : AWorld) : Op → Option (AWorld × Result)
  | .addPkt l p =>
    match a.liveL l with
    | none => some (a, skipped)
    | some (e, st) =>
      let (st1, r) := specAddPacket st e.h p
      some (a.setCif e.cif st1, { rc := some (codeOf r) })
  | .setCat l cat =>
    match a.liveL l with
    | none => some (a, skipped)
    | some (e, st) =>
      let (st1, h', r) := specSetCategory st e.h cat
      some ({ (a.setCif e.cif st1) with lhs := a.lhs.set l (some { e with h := h' }) }, { rc := some (codeOf r) })
  | .ldestroy l =>
    match a.liveL l with
    | none => some (a, skipped)
    | some (e, st) =>
      if a.itOnLh l then some (a, skipped) else
      let (st1, r) := specDestroyLoop st e.h
      some ({ (a.setCif e.cif st1) with lhs := match r with | .ok _ => a.lhs.set l none | .error _ => a.lhs }, { rc := some (codeOf r) })
  | .cifNew => some ({ a with cifs := a.cifs ++ [some {}] }, { rc := some CIF_OK })
  | .cifDel c =>
    match a.liveC c with
    | none => some (a, skipped)
    | some _ =>
      some ({ cifs := a.cifs.set c none,
              chs := a.chs.map (fun e => match e with | some e => if e.cif == c then none else some e | none => none),
              lhs := a.lhs.map (fun e => match e with | some e => if e.cif == c then none else some e | none => none),
              its := a.its.map (fun e => match e with | some e => if e.cif == c then none else some e | none => none) },
            { rc := some CIF_OK })
  | .getBlock c n =>
    match a.liveC c with
    | none => some ({ a with chs := a.chs ++ [none] }, skipped)
    | some st =>
      let r := specGetBlockH st n
      some ({ (a.setCif c st) with chs := a.chs ++ [match r with | .ok h => some { cif := c, h := h } | .error _ => none] }, { rc := some (codeOf r) })
  | .blocks c =>
    match a.liveC c with
    | none => some (a, skipped)
    | some st =>
      let r := specAllBlocks st
      some (a.setCif c st, { rc := some (codeOf r), out := match r with | .ok hs => .strs (hs.map (·.code)) | .error _ => .unit })
  | .getFrame h n =>
    match a.liveH h with
    | none => some ({ a with chs := a.chs ++ [none] }, skipped)
    | some (e, st) =>
      let r := specGetFrameH st e.h n
      some ({ (a.setCif e.cif st) with chs := a.chs ++ [match r with | .ok h' => some { cif := e.cif, h := h' } | .error _ => none] }, { rc := some (codeOf r) })
  | .frames h =>
    match a.liveH h with
    | none => some (a, skipped)
    | some (e, st) =>
      let r := specAllFrames st e.h
      some (a.setCif e.cif st, { rc := some (codeOf r), out := match r with | .ok hs => .strs (hs.map (·.code)) | .error _ => .unit })
  | .code h =>
    match a.liveH h with
    | none => some (a, skipped)
    | some (e, _) => some (a, { rc := some CIF_OK, out := .str (some e.h.code) })
  | .isBlock h =>
    match a.liveH h with
    | none => some (a, skipped)
    | some (e, _) => some (a, { rc := some (if e.h.isBlock then CIF_OK else CIF_ARGUMENT_ERROR) })
  | .getCat l =>
    match a.liveL l with
    | none => some (a, skipped)
    | some (e, _) => some (a, { rc := some CIF_OK, out := .str (getCategory e.h) })
  | .cdestroy h =>
    match a.liveH h with
    | none => some (a, skipped)
    | some (e, st) =>
      if a.itOnCh h then some (a, skipped) else
      let (st1, r) := specDestroyContainer st e.h
      some ({ (a.setCif e.cif st1) with
                chs := a.chs.set h none,
                lhs := a.lhs.map (fun le => match le with | some le => if le.ch == h then none else some le | none => none) },
            { rc := some (codeOf r) })
  | .names l =>
    match a.liveL l with
    | none => some (a, skipped)
    | some (e, st) =>
      let r := specGetNames st e.h
      some (a.setCif e.cif st, { rc := some (codeOf r), out := match r with | .ok ns => .strs (ns.map (·.2)) | .error _ => .unit })
  | .catLoop h cat =>
    match a.liveH h with
    | none => some ({ a with lhs := a.lhs ++ [none] }, skipped)
    | some (e, st) =>
      let r := specGetCategoryLoop st e.h cat
      some ({ (a.setCif e.cif st) with lhs := a.lhs ++ [match r with | .ok l => some { cif := e.cif, ch := h, h := l } | .error _ => none] }, { rc := some (codeOf r) })
  | .itemLoop h n =>
    match a.liveH h with
    | none => some ({ a with lhs := a.lhs ++ [none] }, skipped)
    | some (e, st) =>
      let r := specGetItemLoop st e.h n
      some ({ (a.setCif e.cif st) with lhs := a.lhs ++ [match r with | .ok l => some { cif := e.cif, ch := h, h := l } | .error _ => none] },
            { rc := some (codeOf r), out := match r with | .ok l => .str l.category | .error _ => .unit })
  | .prune h =>
    match a.liveH h with
    | none => some (a, skipped)
    | some (e, st) =>
      let (st1, r) := specPrune st e.h
      some (a.setCif e.cif st1, { rc := some (codeOf r) })
  | .mkBlock c n lenient =>
    match a.liveC c with
    | none => some ({ a with chs := a.chs ++ [none] }, skipped)
    | some st =>
      let (st1, r) := specCreateBlock st n lenient
      some ({ (a.setCif c st1) with chs := a.chs ++ [match r with | .ok h => some { cif := c, h := h } | .error _ => none] }, { rc := some (codeOf r) })
  | .mkFrame h n lenient =>
    match a.liveH h with
    | none => some ({ a with chs := a.chs ++ [none] }, skipped)
    | some (e, st) =>
      let (st1, r) := specCreateFrameH st e.h n lenient
      some ({ (a.setCif e.cif st1) with chs := a.chs ++ [match r with | .ok h' => some { cif := e.cif, h := h' } | .error _ => none] }, { rc := some (codeOf r) })
  | .mkLoop h cat names =>
    match a.liveH h with
    | none => some ({ a with lhs := a.lhs ++ [none] }, skipped)
    | some (e, st) =>
      let (st1, r) := specCreateLoop st e.h cat names
      some ({ (a.setCif e.cif st1) with lhs := a.lhs ++ [match r with | .ok l => some { cif := e.cif, ch := h, h := l } | .error _ => none] }, { rc := some (codeOf r) })
  | .addItem l n v =>
    match a.liveL l with
    | none => some (a, skipped)
    | some (e, st) =>
      match n with
      | none => some (a, skipped)
      | some _ =>
        let (st1, r) := specAddItem st e.h n v
        some (a.setCif e.cif st1, { rc := some (codeOf r) })
  | .getVal h n =>
    match a.liveH h with
    | none => some (a, skipped)
    | some (e, st) =>
      match n with
      | none => some (a, skipped)
      | some _ =>
        match specGetValue st e.h n with
        | .ok (v, amb) => some (a.setCif e.cif st, { rc := some (if amb then CIF_AMBIGUOUS_ITEM else CIF_OK), out := .value v })
        | .error c => some (a.setCif e.cif st, { rc := some c })
  | .rmItem h n =>
    match a.liveH h with
    | none => some (a, skipped)
    | some (e, st) =>
      let (st1, r) := specRemoveItem st e.h n
      some (a.setCif e.cif st1, { rc := some (codeOf r) })
  | .loops h =>
    match a.liveH h with
    | none => some (a, skipped)
    | some (e, st) =>
      match specAllLoops st e.h with
      | .error c => some (a.setCif e.cif st, { rc := some c })
      | .ok ls =>
        -- the caller then asks each returned handle for its category and its names
        some (a.setCif e.cif st, { rc := some CIF_OK, out := .loops (ls.map (fun l =>
          match specGetNames st l with
          | .ok ns => (l.category, some (ns.map (·.2)))
          | .error _ => (l.category, none))) })
  | .setVal h n v =>
    match a.liveH h with
    | none => some (a, skipped)
    | some (e, st) =>
      let (st1, r) := specSetValue st e.h n v
      some (a.setCif e.cif st1, { rc := some (codeOf r) })
  | .itOpen l =>
    match a.liveL l with
    | none => some ({ a with its := a.its ++ [none] }, skipped)
    | some (e, st) =>
      -- one iterator at a time per CIF: a further cif_loop_get_packets is refused and changes nothing
      if a.cifBusy e.cif then some ({ (a.setCif e.cif st) with its := a.its ++ [none] }, { rc := some (specItOpenRefused st e.h) })
      else
        let r := specItOpen st e.h
        some ({ (a.setCif e.cif st) with its := a.its ++ [match r with | .ok it => some { cif := e.cif, lh := l, it := it } | .error _ => none] },
              { rc := some (codeOf r) })
  | .itNext i =>
    match a.liveI i with
    | none => some (a, skipped)
    | some (e, st) =>
      let (it', r) := specItNext st e.it
      some ({ a with its := a.its.set i (some { e with it := it' }) },
            { rc := some (codeOf r), out := match r with | .ok p => .packet p | .error _ => .unit })
  | .itUpd i p =>
    match a.liveI i with
    | none => some (a, skipped)
    | some (e, st) =>
      let (st1, r) := specItUpdate st e.it p
      some (a.setCif e.cif st1, { rc := some (codeOf r) })
  | .itRem i =>
    match a.liveI i with
    | none => some (a, skipped)
    | some (e, st) =>
      let (st1, it', r) := specItRemove st e.it
      some ({ (a.setCif e.cif st1) with its := a.its.set i (some { e with it := it' }) }, { rc := some (codeOf r) })
  | .itClose i =>
    -- cif_pktitr_close: what was done through the iterator stays; the iterator is gone
    match a.liveI i with
    | none => some (a, skipped)
    | some (e, st) => some ({ (a.setCif e.cif st) with its := a.its.set i none }, { rc := some CIF_OK })
  | .itAbort i =>
    -- cif_pktitr_abort: the CIF is what it was when the iterator was created; the iterator is gone
    match a.liveI i with
    | none => some (a, skipped)
    | some (e, _) => some ({ (a.setCif e.cif e.it.start) with its := a.its.set i none }, { rc := some CIF_OK })

/-- a whole history on the documented model -/
def specRun (a : AWorld) : List Op → Option (AWorld × List Result)
  | [] => some (a, [])
  | op :: ops =>
    match specStep a op with
    | none => none
    | some (a1, r) =>
      match specRun a1 ops with
      | none => none
      | some (a2, rs) => some (a2, r :: rs)

end CifModel.Store
