import CifModel.Model.StoreStep
/-
  Spec/StoreSpec — the documented data model WITH OBJECT IDENTITIES, as the state an API history acts on.

  A handle of the API denotes an object (a container, a loop); the documented model of Spec/DataModel (`Cif`: trees of containers)
  has no identities, so a history cannot be interpreted on it directly.  `AState` keeps the container / data_block / save_frame
  tables as they are (they ARE the documented model of the container tree: ids, parent, code in both spellings) and replaces the
  three tables loop / loop_item / item_value, the row counters, the transactions and the savepoints by what the documentation talks
  about: a loop is a category, a list of items (normalised name, spelling) and a list of packets, each packet one value per item.
  The tree `abs` of Model/StoreStep is a projection of `absS` (`absS_tree`, Lemmas/StoreSpecRefine).

  `specStep`-functions below say what a call does to an `AState`; Lemmas/StoreSpecRefine proves, op by op, that the model's call
  commutes with `absS` and returns the same code, for a `Good` store and a valid handle (what `WOk` / `inContract` give).
-/
namespace CifModel.Store
open Gen.ErrCodes

structure ALoop where
  cid : Nat
  num : Nat
  category : Option Str
  /-- (normalised name, spelling as given), in the loop's order -/
  items : List (Str × Str)
  /-- one value per item, in the items' order -/
  packets : List (List V)
deriving Inhabited

structure AState where
  containers : List ContainerRow := []
  blocks : List BlockRow := []
  frames : List FrameRow := []
  nextId : Nat := 1
  loops : List ALoop := []
deriving Inhabited

def absALoop (d : Db) (x : LoopRow) : ALoop :=
  { cid := x.cid, num := x.loopNum, category := x.category,
    items := (d.loopItems x.cid x.loopNum).map (fun i => (i.name, i.nameOrig)),
    packets := (absLoop d x).packets }

/-- the managed CIF as the documented model with identities -/
def absS (d : Db) : AState :=
  { containers := d.containers, blocks := d.blocks, frames := d.frames, nextId := d.nextId, loops := d.loops.map (absALoop d) }

namespace AState

def findLoop (a : AState) (cid num : Nat) : Option ALoop := a.loops.find? (fun x => x.cid == cid && x.num == num)

def onLoop (a : AState) (cid num : Nat) (f : ALoop → ALoop) : AState :=
  { a with loops := a.loops.map (fun y => if y.cid == cid && y.num == num then f y else y) }

end AState

def ALoop.hasItem (x : ALoop) (k : Str) : Bool := x.items.any (fun it => it.1 == k)

/-- the packet the documentation describes: the given value for an item the packet names, the unknown value for the others -/
def ALoop.packetOf (x : ALoop) (pkt : List (Str × V)) : List V :=
  x.items.map (fun it => ((pkt.find? (fun e => e.1 == it.1)).map (·.2)).getD .unk)

/-- cif_loop_add_packet: "must specify at least one value, and it must not provide data for any items not in the loop; items
    without specified values get the explicit unknown value"; the scalar loop holds at most one packet -/
def specAddPacket (a : AState) (l : LH) (pkt : List (Str × V)) : AState × Except Code Unit :=
  if pkt.isEmpty then (a, .error CIF_INVALID_PACKET)
  else match a.findLoop l.cid l.loopNum with
    | none => (a, .error CIF_INTERNAL_ERROR)
    | some x =>
      if x.category == some [] && !x.packets.isEmpty then (a, .error CIF_RESERVED_LOOP)
      else if pkt.any (fun e => !x.hasItem e.1) then (a, .error CIF_WRONG_LOOP)
      else (a.onLoop l.cid l.loopNum (fun y => { y with packets := y.packets ++ [y.packetOf pkt] }), .ok ())

/-- cif_loop_set_category: "" can be neither given nor taken -/
def specSetCategory (a : AState) (l : LH) (cat : Option Str) : AState × LH × Except Code Unit :=
  match a.findLoop l.cid l.loopNum with
  | none => (a, l, .error CIF_INVALID_HANDLE)
  | some x =>
    if x.category == some [] || cat == some [] then (a, l, .error CIF_RESERVED_LOOP)
    else (a.onLoop l.cid l.loopNum (fun y => { y with category := cat }), { l with category := cat }, .ok ())

/-- cif_loop_destroy: the loop goes, with its items and packets; nothing else changes -/
def specDestroyLoop (a : AState) (l : LH) : AState × Except Code Unit :=
  match a.findLoop l.cid l.loopNum with
  | none => (a, .error CIF_INVALID_HANDLE)
  | some _ => ({ a with loops := a.loops.filter (fun y => !(y.cid == l.cid && y.num == l.loopNum)) }, .ok ())

-- ---- histories on the documented model -----------------------------------------------------------------------------------------------

/-- the world of a history, every managed CIF as the documented model; the handle tables are the caller's (a handle names an object),
    the iterator table is carried along (the ops covered so far only ask it whether an iterator stands on a loop handle) -/
structure AWorld where
  cifs : List (Option AState) := []
  chs : List (Option CHE) := []
  lhs : List (Option LHE) := []
  its : List (Option ITE) := []
deriving Inhabited

def absW (w : World) : AWorld :=
  { cifs := w.cifs.map (fun c => c.map (fun s => absS s.db)), chs := w.chs, lhs := w.lhs, its := w.its }

namespace AWorld

def liveC (a : AWorld) (c : Nat) : Option AState := a.cifs.getD c none
def liveH (a : AWorld) (h : Nat) : Option (CHE × AState) :=
  match a.chs.getD h none with
  | none => none
  | some e => (a.liveC e.cif).map (fun s => (e, s))
def liveL (a : AWorld) (l : Nat) : Option (LHE × AState) :=
  match a.lhs.getD l none with
  | none => none
  | some e => match a.liveH e.ch with
    | none => none
    | some _ => (a.liveC e.cif).map (fun s => (e, s))
def setCif (a : AWorld) (c : Nat) (s : AState) : AWorld := { a with cifs := a.cifs.set c (some s) }
def itOnLh (a : AWorld) (l : Nat) : Bool := a.its.any (fun e => match e with | some e => e.lh == l | none => false)

end AWorld

/-- the ops `specStep` covers so far -/
def Op.covered : Op → Bool
  | .addPkt .. | .setCat .. | .ldestroy .. => true
  | _ => false

open World in
/-- one call of a history on the documented model; `none` for an op not yet covered -/
def specStep (a : AWorld) : Op → Option (AWorld × Result)
  | .addPkt l p =>
    match a.liveL l with
    | none => some (a, skipped)
    | some (e, st) =>
      let (st1, r) := specAddPacket st e.h p
      some (a.setCif e.cif st1, { rc := some (codeOf r) })
  | .setCat l cat =>
    match a.liveL l with
    | none => some (a, skipped)
    | some (e, st) =>
      let (st1, h', r) := specSetCategory st e.h cat
      some ({ (a.setCif e.cif st1) with lhs := a.lhs.set l (some { e with h := h' }) }, { rc := some (codeOf r) })
  | .ldestroy l =>
    match a.liveL l with
    | none => some (a, skipped)
    | some (e, st) =>
      if a.itOnLh l then some (a, skipped) else
      let (st1, r) := specDestroyLoop st e.h
      some ({ (a.setCif e.cif st1) with lhs := match r with | .ok _ => a.lhs.set l none | .error _ => a.lhs }, { rc := some (codeOf r) })
  | _ => none

/-- a whole history on the documented model (`none` as soon as an op is not covered) -/
def specRun (a : AWorld) : List Op → Option (AWorld × List Result)
  | [] => some (a, [])
  | op :: ops =>
    match specStep a op with
    | none => none
    | some (a1, r) =>
      match specRun a1 ops with
      | none => none
      | some (a2, rs) => some (a2, r :: rs)

end CifModel.Store
