import CifModel.Model.StoreStep
/-
  Spec/StoreSpec — the documented data model WITH OBJECT IDENTITIES, as the state an API history acts on.

  A handle of the API denotes an object (a container, a loop); the documented model of Spec/DataModel (`Cif`: trees of containers)
  has no identities, so a history cannot be interpreted on it directly.  `AState` keeps the container / data_block / save_frame
  tables as they are (they ARE the documented model of the container tree: ids, parent, code in both spellings) and replaces the
  three tables loop / loop_item / item_value, the row counters, the transactions and the savepoints by what the documentation talks
  about: a loop is a category, a list of items (normalised name, spelling) and a list of packets, each packet one value per item.
  The tree `abs` of Model/StoreStep is a projection of `absS` (`absS_tree`, Lemmas/StoreSpecRefine).

  `specStep`-functions below say what a call does to an `AState`; Lemmas/StoreSpecRefine proves, op by op, that the model's call
  commutes with `absS` and returns the same code, for a `Good` store and a valid handle (what `WOk` / `inContract` give).
-/
namespace CifModel.Store
open Gen.ErrCodes

structure ALoop where
  cid : Nat
  num : Nat
  category : Option Str
  /-- (normalised name, spelling as given), in the loop's order -/
  items : List (Str × Str)
  /-- one value per item, in the items' order -/
  packets : List (List V)
deriving Inhabited

structure AState where
  containers : List ContainerRow := []
  blocks : List BlockRow := []
  frames : List FrameRow := []
  nextId : Nat := 1
  loops : List ALoop := []
deriving Inhabited

def absALoop (d : Db) (x : LoopRow) : ALoop :=
  { cid := x.cid, num := x.loopNum, category := x.category,
    items := (d.loopItems x.cid x.loopNum).map (fun i => (i.name, i.nameOrig)),
    packets := (absLoop d x).packets }

/-- the managed CIF as the documented model with identities -/
def absS (d : Db) : AState :=
  { containers := d.containers, blocks := d.blocks, frames := d.frames, nextId := d.nextId, loops := d.loops.map (absALoop d) }

namespace AState

def findLoop (a : AState) (cid num : Nat) : Option ALoop := a.loops.find? (fun x => x.cid == cid && x.num == num)

def onLoop (a : AState) (cid num : Nat) (f : ALoop → ALoop) : AState :=
  { a with loops := a.loops.map (fun y => if y.cid == cid && y.num == num then f y else y) }

end AState

def ALoop.hasItem (x : ALoop) (k : Str) : Bool := x.items.any (fun it => it.1 == k)

/-- the packet the documentation describes: the given value for an item the packet names, the unknown value for the others -/
def ALoop.packetOf (x : ALoop) (pkt : List (Str × V)) : List V :=
  x.items.map (fun it => ((pkt.find? (fun e => e.1 == it.1)).map (·.2)).getD .unk)

/-- cif_loop_add_packet: "must specify at least one value, and it must not provide data for any items not in the loop; items
    without specified values get the explicit unknown value"; the scalar loop holds at most one packet -/
def specAddPacket (a : AState) (l : LH) (pkt : List (Str × V)) : AState × Except Code Unit :=
  if pkt.isEmpty then (a, .error CIF_INVALID_PACKET)
  else match a.findLoop l.cid l.loopNum with
    | none => (a, .error CIF_INTERNAL_ERROR)
    | some x =>
      if x.category == some [] && !x.packets.isEmpty then (a, .error CIF_RESERVED_LOOP)
      else if pkt.any (fun e => !x.hasItem e.1) then (a, .error CIF_WRONG_LOOP)
      else (a.onLoop l.cid l.loopNum (fun y => { y with packets := y.packets ++ [y.packetOf pkt] }), .ok ())

/-- cif_loop_set_category: "" can be neither given nor taken -/
def specSetCategory (a : AState) (l : LH) (cat : Option Str) : AState × LH × Except Code Unit :=
  match a.findLoop l.cid l.loopNum with
  | none => (a, l, .error CIF_INVALID_HANDLE)
  | some x =>
    if x.category == some [] || cat == some [] then (a, l, .error CIF_RESERVED_LOOP)
    else (a.onLoop l.cid l.loopNum (fun y => { y with category := cat }), { l with category := cat }, .ok ())

/-- cif_loop_destroy: the loop goes, with its items and packets; nothing else changes -/
def specDestroyLoop (a : AState) (l : LH) : AState × Except Code Unit :=
  match a.findLoop l.cid l.loopNum with
  | none => (a, .error CIF_INVALID_HANDLE)
  | some _ => ({ a with loops := a.loops.filter (fun y => !(y.cid == l.cid && y.num == l.loopNum)) }, .ok ())

/-- cif_get_block: the block whose normalised code matches, or CIF_NOSUCH_BLOCK -/
def specGetBlockH (a : AState) (name : Name) : Except Code CH :=
  match a.blocks.find? (fun b => b.name == name.key) with
  | some b => .ok { id := b.cid, code := b.nameOrig, isBlock := true }
  | none => .error CIF_NOSUCH_BLOCK

/-- cif_get_all_blocks -/
def specAllBlocks (a : AState) : Except Code (List CH) :=
  .ok (a.blocks.map (fun b => { id := b.cid, code := b.nameOrig, isBlock := true }))

/-- cif_container_get_frame -/
def specGetFrameH (a : AState) (h : CH) (name : Option Name) : Except Code CH :=
  match name with
  | none => .error CIF_INVALID_FRAMECODE
  | some n =>
    if !n.valid then .error CIF_INVALID_FRAMECODE
    else match a.frames.find? (fun f => f.parent == h.id && f.name == n.key) with
      | some f => .ok { id := f.cid, code := f.nameOrig, isBlock := false }
      | none => .error CIF_NOSUCH_FRAME

/-- cif_container_get_all_frames -/
def specAllFrames (a : AState) (h : CH) : Except Code (List CH) :=
  .ok ((a.frames.filter (fun f => f.parent == h.id)).map (fun f => { id := f.cid, code := f.nameOrig, isBlock := false }))

/-- cif_container_destroy: the container goes, with its loops; the save frames directly under it lose their place in the tree -/
def specDestroyContainer (a : AState) (h : CH) : AState × Except Code Unit :=
  if (a.containers.filter (fun c => c.id == h.id)).length == 0 then (a, .error CIF_INVALID_HANDLE)
  else ({ a with containers := a.containers.filter (fun c => !(c.id == h.id)),
                 blocks := a.blocks.filter (fun b => !(b.cid == h.id)),
                 frames := a.frames.filter (fun f => !(f.cid == h.id) && !(f.parent == h.id)),
                 loops := a.loops.filter (fun y => !(y.cid == h.id)) }, .ok ())

/-- cif_loop_get_names: (normalised name, spelling) of the loop's items, in the loop's order; a loop without items does not exist -/
def specGetNames (a : AState) (l : LH) : Except Code (List (Str × Str)) :=
  match a.findLoop l.cid l.loopNum with
  | none => .error CIF_INVALID_HANDLE
  | some x => match x.items with
    | [] => .error CIF_INVALID_HANDLE
    | is => .ok is

/-- cif_container_get_category_loop: the one loop of the container with that category -/
def specGetCategoryLoop (a : AState) (h : CH) (cat : Option Str) : Except Code LH :=
  match cat with
  | none => .error CIF_INVALID_CATEGORY
  | some c =>
    match a.loops.filter (fun y => y.cid == h.id && y.category == some c) with
    | [] => .error CIF_NOSUCH_LOOP
    | [y] => .ok { cid := h.id, loopNum := y.num, category := some c }
    | _ => .error CIF_CAT_NOT_UNIQUE

/-- cif_container_get_item_loop: the loop of the container that has the item -/
def specGetItemLoop (a : AState) (h : CH) (name : Option Name) : Except Code LH :=
  match name with
  | none => .error CIF_NOSUCH_ITEM
  | some n =>
    if !n.valid then .error CIF_NOSUCH_ITEM
    else match a.loops.filter (fun y => y.cid == h.id && y.hasItem n.key) with
      | [] => .error CIF_NOSUCH_ITEM
      | [y] => .ok { cid := h.id, loopNum := y.num, category := y.category }
      | _ => .error CIF_INTERNAL_ERROR

/-- cif_container_prune: the loops of the container that have no packet go -/
def specPrune (a : AState) (h : CH) : AState × Except Code Unit :=
  ({ a with loops := a.loops.filter (fun y => !(y.cid == h.id && y.packets.isEmpty)) }, .ok ())

/-- cif_create_block: a new, empty block under the spelling given, unless the code is invalid or (normalised) already in use -/
def specCreateBlock (a : AState) (name : Option Name) : AState × Except Code CH :=
  match name with
  | none => (a, .error CIF_ARGUMENT_ERROR)
  | some n =>
    if !n.valid then (a, .error CIF_INVALID_BLOCKCODE)
    else if a.blocks.any (fun b => b.name == n.key) then (a, .error CIF_DUP_BLOCKCODE)
    else ({ a with containers := a.containers ++ [{ id := a.nextId, nextLoopNum := 0 }], nextId := a.nextId + 1,
                   blocks := a.blocks ++ [{ cid := a.nextId, name := n.key, nameOrig := n.orig }] },
          .ok { id := a.nextId, code := n.orig, isBlock := true })

/-- cif_container_create_frame: a new, empty save frame in the container, unless the code is invalid or (normalised) already in use
    in this container -/
def specCreateFrameH (a : AState) (h : CH) (name : Option Name) : AState × Except Code CH :=
  match name with
  | none => (a, .error CIF_INVALID_FRAMECODE)
  | some n =>
    if !n.valid then (a, .error CIF_INVALID_FRAMECODE)
    else if a.frames.any (fun f => f.parent == h.id && f.name == n.key) then (a, .error CIF_DUP_FRAMECODE)
    else ({ a with containers := a.containers ++ [{ id := a.nextId, nextLoopNum := 0 }], nextId := a.nextId + 1,
                   frames := a.frames ++ [{ cid := a.nextId, parent := h.id, name := n.key, nameOrig := n.orig }] },
          .ok { id := a.nextId, code := n.orig, isBlock := false })

/-- the container has an item of that (normalised) name, in whichever loop -/
def AState.hasItem (a : AState) (cid : Nat) (k : Str) : Bool := a.loops.any (fun y => y.cid == cid && y.hasItem k)

/-- the names are new to the container and pairwise distinct ("each item name … may appear only once in a container") -/
def AState.namesFresh (a : AState) (cid : Nat) : List Name → Bool
  | [] => true
  | n :: ns => !a.hasItem cid n.key && !ns.any (fun m => m.key == n.key) && namesFresh a cid ns

/-- cif_container_create_loop: a new loop with the given category and items and no packet, last among the container's loops;
    refused without names, with an invalid name, for a second scalar loop, and for a name the container already has -/
def specCreateLoop (a : AState) (h : CH) (cat : Option Str) (names : List Name) : AState × Except Code LH :=
  if names.isEmpty then (a, .error CIF_NULL_LOOP)
  else if names.any (fun n => !n.valid) then (a, .error CIF_INVALID_ITEMNAME)
  else if cat == some [] && a.loops.any (fun y => y.cid == h.id && y.category == some []) then (a, .error CIF_RESERVED_LOOP)
  else match a.containers.find? (fun c => c.id == h.id) with
    | none => (a, .error CIF_INVALID_HANDLE)
    | some c =>
      if !a.namesFresh h.id names then (a, .error CIF_DUP_ITEMNAME)
      else ({ a with containers := a.containers.map (fun r => if r.id == h.id then { r with nextLoopNum := r.nextLoopNum + 1 } else r),
                     loops := a.loops ++ [{ cid := h.id, num := c.nextLoopNum, category := cat,
                                            items := names.map (fun n => (n.key, n.orig)), packets := [] }] },
            .ok { cid := h.id, loopNum := c.nextLoopNum, category := cat })

/-- cif_loop_add_item: the loop gains the item, last, with the given value in every packet; refused for an invalid name and for a
    name the container already has -/
def specAddItem (a : AState) (l : LH) (name : Option Name) (val : Option V) : AState × Except Code Unit :=
  match name with
  | none => (a, .error CIF_INVALID_ITEMNAME)
  | some n =>
    if !n.valid then (a, .error CIF_INVALID_ITEMNAME)
    else if a.hasItem l.cid n.key then (a, .error CIF_DUP_ITEMNAME)
    else (a.onLoop l.cid l.loopNum (fun y => { y with items := y.items ++ [(n.key, n.orig)], packets := y.packets.map (· ++ [val.getD .unk]) }), .ok ())

/-- the values of item `k` in the loop's packets, in packet order -/
def ALoop.column (x : ALoop) (k : Str) : List V :=
  x.packets.map (fun p => p.getD (x.items.findIdx (fun it => it.1 == k)) .unk)

/-- the column of item `k` of container `cid` (empty when the container has no such item) -/
def AState.columnOf (a : AState) (cid : Nat) (k : Str) : List V :=
  match a.loops.find? (fun y => y.cid == cid && y.hasItem k) with
  | some x => x.column k
  | none => []

/-- cif_container_get_value: the item's value; with several packets the first, and CIF_AMBIGUOUS_ITEM; CIF_NOSUCH_ITEM when the
    container has no such item or its loop has no packet -/
def specGetValue (a : AState) (h : CH) (name : Option Name) : Except Code (V × Bool) :=
  match name with
  | none => .error CIF_NOSUCH_ITEM
  | some n =>
    if !n.valid then .error CIF_NOSUCH_ITEM
    else match a.columnOf h.id n.key with
      | [] => .error CIF_NOSUCH_ITEM
      | [v] => .ok (v, false)
      | v :: _ => .ok (v, true)

/-- the loop of container `cid` that has item `k` -/
def AState.itemLoop (a : AState) (cid : Nat) (k : Str) : Option ALoop := a.loops.find? (fun y => y.cid == cid && y.hasItem k)

/-- the loop without item `k`: its name goes, and its value from every packet -/
def ALoop.dropItem (x : ALoop) (k : Str) : ALoop :=
  { x with items := x.items.filter (fun it => !(it.1 == k)),
           packets := x.packets.map (fun p => ((x.items.zip p).filter (fun e => !(e.1.1 == k))).map (·.2)) }

/-- cif_container_remove_item: the item goes from its loop, with its values; the loop goes with its last item -/
def specRemoveItem (a : AState) (h : CH) (name : Option Name) : AState × Except Code Unit :=
  match name with
  | none => (a, .error CIF_INVALID_ITEMNAME)
  | some n =>
    if !n.valid then (a, .error CIF_NOSUCH_ITEM)
    else match a.itemLoop h.id n.key with
      | none => (a, .error CIF_NOSUCH_ITEM)
      | some x =>
        if x.items.length == 1 then ({ a with loops := a.loops.filter (fun y => !(y.cid == x.cid && y.num == x.num)) }, .ok ())
        else (a.onLoop x.cid x.num (fun y => y.dropItem n.key), .ok ())

/-- cif_container_get_all_loops: a handle on every loop of the container, in the container's order -/
def specAllLoops (a : AState) (h : CH) : Except Code (List LH) :=
  if !a.containers.any (fun c => c.id == h.id) then .error CIF_INVALID_HANDLE
  else .ok ((a.loops.filter (fun y => y.cid == h.id)).map (fun y => { cid := h.id, loopNum := y.num, category := y.category }))

-- ---- packet iterators on the documented model ---------------------------------------------------------------------------------------

/-- an open packet iterator, as the documentation describes it: it walks the packets of one loop in order; `done` packets of the loop
    (as it is now) lie behind it, the last of them is its current packet unless that was removed (or none was delivered yet);
    `start` is the CIF as it was when the iterator was created — what cif_pktitr_abort brings back -/
structure AIter where
  cid : Nat
  num : Nat
  done : Nat
  hasCur : Bool
  start : AState
deriving Inhabited

structure AITE where
  cif : Nat
  lh : Nat
  it : AIter
deriving Inhabited

/-- row `r` of the loop is still to be delivered by the (concrete) iterator -/
def Iter.pend (it : Iter) (r : Nat) : Bool := it.rows.any (fun x => x.rowNum == r)

/-- the number of packets of the loop (as it is now) that the iterator has passed -/
def Iter.doneIn (it : Iter) (d : Db) : Nat := ((d.loopRows it.cid it.loopNum).filter (fun q => !it.pend q)).length

/-- the iterator as the documented model sees it -/
def absIter (it : Iter) (s : Store) : AIter :=
  { cid := it.cid, num := it.loopNum, done := it.doneIn s.db, hasCur := decide (0 < it.prev), start := absS (s.txn.getD s.db) }

/-- cif_loop_get_packets on a CIF without open iterator -/
def specItOpen (a : AState) (l : LH) : Except Code AIter :=
  match a.findLoop l.cid l.loopNum with
  | none => .error CIF_INVALID_HANDLE
  | some x =>
    if x.items.isEmpty then .error CIF_INVALID_HANDLE
    else if x.packets.isEmpty then .error CIF_EMPTY_LOOP
    else .ok { cid := l.cid, num := l.loopNum, done := 0, hasCur := false, start := a }

/-- cif_pktitr_next_packet: the next packet of the loop — one (name, value) pair per item, in the loop's order — or CIF_FINISHED -/
def specItNext (a : AState) (it : AIter) : AIter × Except Code (List (Str × V)) :=
  match a.findLoop it.cid it.num with
  | none => (it, .error CIF_INTERNAL_ERROR)
  | some x =>
    match x.packets[it.done]? with
    | some p => ({ it with done := it.done + 1, hasCur := true }, .ok ((x.items.map (·.1)).zip p))
    | none => (it, .error CIF_FINISHED)

/-- packet `idx` of the loop with the values `pkt` gives for its items, its other values unchanged -/
def ALoop.updAt (y : ALoop) (idx : Nat) (pkt : List (Str × V)) : ALoop :=
  match y.packets[idx]? with
  | some p =>
    let p' := (y.items.zip p).map (fun e => ((pkt.find? (fun q => q.1 == e.1.1)).map (·.2)).getD e.2)
    { y with packets := y.packets.set idx p' }
  | none => y

/-- cif_pktitr_update_packet: CIF_MISUSE without a current packet, CIF_WRONG_LOOP for an item of another loop; else the current
    packet gets the given values, its other values stay -/
def specItUpdate (a : AState) (it : AIter) (pkt : List (Str × V)) : AState × Except Code Unit :=
  if !it.hasCur then (a, .error CIF_MISUSE)
  else match a.findLoop it.cid it.num with
    | none => (a, .error CIF_INTERNAL_ERROR)
    | some x =>
      if pkt.any (fun e => !x.hasItem e.1) then (a, .error CIF_WRONG_LOOP)
      else (a.onLoop it.cid it.num (fun y => y.updAt (it.done - 1) pkt), .ok ())

/-- cif_pktitr_remove_packet: CIF_MISUSE without a current packet; else the current packet goes, and there is no current packet -/
def specItRemove (a : AState) (it : AIter) : AState × AIter × Except Code Unit :=
  if !it.hasCur then (a, it, .error CIF_MISUSE)
  else (a.onLoop it.cid it.num (fun y => { y with packets := y.packets.eraseIdx (it.done - 1) }),
        { it with done := it.done - 1, hasCur := false }, .ok ())

-- ---- histories on the documented model -----------------------------------------------------------------------------------------------

/-- the world of a history, every managed CIF as the documented model; the handle tables are the caller's (a handle names an object),
    the iterator table is carried along (the ops covered so far only ask it whether an iterator stands on a loop handle) -/
structure AWorld where
  cifs : List (Option AState) := []
  chs : List (Option CHE) := []
  lhs : List (Option LHE) := []
  its : List (Option ITE) := []
deriving Inhabited

def absW (w : World) : AWorld :=
  { cifs := w.cifs.map (fun c => c.map (fun s => absS s.db)), chs := w.chs, lhs := w.lhs, its := w.its }

namespace AWorld

def liveC (a : AWorld) (c : Nat) : Option AState := a.cifs.getD c none
def liveH (a : AWorld) (h : Nat) : Option (CHE × AState) :=
  match a.chs.getD h none with
  | none => none
  | some e => (a.liveC e.cif).map (fun s => (e, s))
def liveL (a : AWorld) (l : Nat) : Option (LHE × AState) :=
  match a.lhs.getD l none with
  | none => none
  | some e => match a.liveH e.ch with
    | none => none
    | some _ => (a.liveC e.cif).map (fun s => (e, s))
def setCif (a : AWorld) (c : Nat) (s : AState) : AWorld := { a with cifs := a.cifs.set c (some s) }
def itOnCh (a : AWorld) (h : Nat) : Bool :=
  a.its.any (fun e => match e with
    | some e => (match a.lhs.getD e.lh none with | some le => le.ch == h | none => false)
    | none => false)
def itOnLh (a : AWorld) (l : Nat) : Bool := a.its.any (fun e => match e with | some e => e.lh == l | none => false)

end AWorld

/-- the ops `specStep` covers so far -/
def Op.covered : Op → Bool
  | .addPkt .. | .setCat .. | .ldestroy .. => true
  | .names .. | .catLoop .. | .itemLoop .. | .prune .. | .mkBlock .. | .mkFrame .. | .mkLoop .. | .addItem .. | .getVal .. | .rmItem .. | .loops .. => true
  | .cifNew | .cifDel .. | .getBlock .. | .blocks .. | .getFrame .. | .frames .. | .code .. | .isBlock .. | .getCat .. | .cdestroy .. => true
  | _ => false

open World in
/-- one call of a history on the documented model; `none` for an op not yet covered -/
def specStep (a : AWorld) : Op → Option (AWorld × Result)
  | .addPkt l p =>
    match a.liveL l with
    | none => some (a, skipped)
    | some (e, st) =>
      let (st1, r) := specAddPacket st e.h p
      some (a.setCif e.cif st1, { rc := some (codeOf r) })
  | .setCat l cat =>
    match a.liveL l with
    | none => some (a, skipped)
    | some (e, st) =>
      let (st1, h', r) := specSetCategory st e.h cat
      some ({ (a.setCif e.cif st1) with lhs := a.lhs.set l (some { e with h := h' }) }, { rc := some (codeOf r) })
  | .ldestroy l =>
    match a.liveL l with
    | none => some (a, skipped)
    | some (e, st) =>
      if a.itOnLh l then some (a, skipped) else
      let (st1, r) := specDestroyLoop st e.h
      some ({ (a.setCif e.cif st1) with lhs := match r with | .ok _ => a.lhs.set l none | .error _ => a.lhs }, { rc := some (codeOf r) })
  | .cifNew => some ({ a with cifs := a.cifs ++ [some {}] }, { rc := some CIF_OK })
  | .cifDel c =>
    match a.liveC c with
    | none => some (a, skipped)
    | some _ =>
      some ({ cifs := a.cifs.set c none,
              chs := a.chs.map (fun e => match e with | some e => if e.cif == c then none else some e | none => none),
              lhs := a.lhs.map (fun e => match e with | some e => if e.cif == c then none else some e | none => none),
              its := a.its.map (fun e => match e with | some e => if e.cif == c then none else some e | none => none) },
            { rc := some CIF_OK })
  | .getBlock c n =>
    match a.liveC c with
    | none => some ({ a with chs := a.chs ++ [none] }, skipped)
    | some st =>
      let r := specGetBlockH st n
      some ({ (a.setCif c st) with chs := a.chs ++ [match r with | .ok h => some { cif := c, h := h } | .error _ => none] }, { rc := some (codeOf r) })
  | .blocks c =>
    match a.liveC c with
    | none => some (a, skipped)
    | some st =>
      let r := specAllBlocks st
      some (a.setCif c st, { rc := some (codeOf r), out := match r with | .ok hs => .strs (hs.map (·.code)) | .error _ => .unit })
  | .getFrame h n =>
    match a.liveH h with
    | none => some ({ a with chs := a.chs ++ [none] }, skipped)
    | some (e, st) =>
      let r := specGetFrameH st e.h n
      some ({ (a.setCif e.cif st) with chs := a.chs ++ [match r with | .ok h' => some { cif := e.cif, h := h' } | .error _ => none] }, { rc := some (codeOf r) })
  | .frames h =>
    match a.liveH h with
    | none => some (a, skipped)
    | some (e, st) =>
      let r := specAllFrames st e.h
      some (a.setCif e.cif st, { rc := some (codeOf r), out := match r with | .ok hs => .strs (hs.map (·.code)) | .error _ => .unit })
  | .code h =>
    match a.liveH h with
    | none => some (a, skipped)
    | some (e, _) => some (a, { rc := some CIF_OK, out := .str (some e.h.code) })
  | .isBlock h =>
    match a.liveH h with
    | none => some (a, skipped)
    | some (e, _) => some (a, { rc := some (if e.h.isBlock then CIF_OK else CIF_ARGUMENT_ERROR) })
  | .getCat l =>
    match a.liveL l with
    | none => some (a, skipped)
    | some (e, _) => some (a, { rc := some CIF_OK, out := .str (getCategory e.h) })
  | .cdestroy h =>
    match a.liveH h with
    | none => some (a, skipped)
    | some (e, st) =>
      if a.itOnCh h then some (a, skipped) else
      let (st1, r) := specDestroyContainer st e.h
      some ({ (a.setCif e.cif st1) with
                chs := a.chs.set h none,
                lhs := a.lhs.map (fun le => match le with | some le => if le.ch == h then none else some le | none => none) },
            { rc := some (codeOf r) })
  | .names l =>
    match a.liveL l with
    | none => some (a, skipped)
    | some (e, st) =>
      let r := specGetNames st e.h
      some (a.setCif e.cif st, { rc := some (codeOf r), out := match r with | .ok ns => .strs (ns.map (·.2)) | .error _ => .unit })
  | .catLoop h cat =>
    match a.liveH h with
    | none => some ({ a with lhs := a.lhs ++ [none] }, skipped)
    | some (e, st) =>
      let r := specGetCategoryLoop st e.h cat
      some ({ (a.setCif e.cif st) with lhs := a.lhs ++ [match r with | .ok l => some { cif := e.cif, ch := h, h := l } | .error _ => none] }, { rc := some (codeOf r) })
  | .itemLoop h n =>
    match a.liveH h with
    | none => some ({ a with lhs := a.lhs ++ [none] }, skipped)
    | some (e, st) =>
      let r := specGetItemLoop st e.h n
      some ({ (a.setCif e.cif st) with lhs := a.lhs ++ [match r with | .ok l => some { cif := e.cif, ch := h, h := l } | .error _ => none] },
            { rc := some (codeOf r), out := match r with | .ok l => .str l.category | .error _ => .unit })
  | .prune h =>
    match a.liveH h with
    | none => some (a, skipped)
    | some (e, st) =>
      let (st1, r) := specPrune st e.h
      some (a.setCif e.cif st1, { rc := some (codeOf r) })
  | .mkBlock c n =>
    match a.liveC c with
    | none => some ({ a with chs := a.chs ++ [none] }, skipped)
    | some st =>
      let (st1, r) := specCreateBlock st n
      some ({ (a.setCif c st1) with chs := a.chs ++ [match r with | .ok h => some { cif := c, h := h } | .error _ => none] }, { rc := some (codeOf r) })
  | .mkFrame h n =>
    match a.liveH h with
    | none => some ({ a with chs := a.chs ++ [none] }, skipped)
    | some (e, st) =>
      let (st1, r) := specCreateFrameH st e.h n
      some ({ (a.setCif e.cif st1) with chs := a.chs ++ [match r with | .ok h' => some { cif := e.cif, h := h' } | .error _ => none] }, { rc := some (codeOf r) })
  | .mkLoop h cat names =>
    match a.liveH h with
    | none => some ({ a with lhs := a.lhs ++ [none] }, skipped)
    | some (e, st) =>
      let (st1, r) := specCreateLoop st e.h cat names
      some ({ (a.setCif e.cif st1) with lhs := a.lhs ++ [match r with | .ok l => some { cif := e.cif, ch := h, h := l } | .error _ => none] }, { rc := some (codeOf r) })
  | .addItem l n v =>
    match a.liveL l with
    | none => some (a, skipped)
    | some (e, st) =>
      match n with
      | none => some (a, skipped)
      | some _ =>
        let (st1, r) := specAddItem st e.h n v
        some (a.setCif e.cif st1, { rc := some (codeOf r) })
  | .getVal h n =>
    match a.liveH h with
    | none => some (a, skipped)
    | some (e, st) =>
      match n with
      | none => some (a, skipped)
      | some _ =>
        match specGetValue st e.h n with
        | .ok (v, amb) => some (a.setCif e.cif st, { rc := some (if amb then CIF_AMBIGUOUS_ITEM else CIF_OK), out := .value v })
        | .error c => some (a.setCif e.cif st, { rc := some c })
  | .rmItem h n =>
    match a.liveH h with
    | none => some (a, skipped)
    | some (e, st) =>
      let (st1, r) := specRemoveItem st e.h n
      some (a.setCif e.cif st1, { rc := some (codeOf r) })
  | .loops h =>
    match a.liveH h with
    | none => some (a, skipped)
    | some (e, st) =>
      match specAllLoops st e.h with
      | .error c => some (a.setCif e.cif st, { rc := some c })
      | .ok ls =>
        -- the caller then asks each returned handle for its category and its names
        some (a.setCif e.cif st, { rc := some CIF_OK, out := .loops (ls.map (fun l =>
          match specGetNames st l with
          | .ok ns => (l.category, some (ns.map (·.2)))
          | .error _ => (l.category, none))) })
  | _ => none

/-- a whole history on the documented model (`none` as soon as an op is not covered) -/
def specRun (a : AWorld) : List Op → Option (AWorld × List Result)
  | [] => some (a, [])
  | op :: ops =>
    match specStep a op with
    | none => none
    | some (a1, r) =>
      match specRun a1 ops with
      | none => none
      | some (a2, rs) => some (a2, r :: rs)

end CifModel.Store
