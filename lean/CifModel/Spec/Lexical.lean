import CifModel.Model.Types
/-
  CifModel.Spec.Lexical — the lexical grammar of CIF 2.0 and CIF 1.1, written from the specifications
  (CIF 2.0: Bernstein et al., J. Appl. Cryst. 49 (2016), "Specification of the Crystallographic Information File format,
  version 2.0", EBNF productions `allchars`, `wsdelim-string`, `apostrophe-quoted-string`, `triple-quoted-string`,
  `text-field`, `wspace`, `comment`;  CIF 1.1: "CIF version 1.1 working specification", syntax paragraphs 15-25 and
  the formal grammar `<UnquotedString>`, `<SingleQuotedString>`, `<TextField>`),  NOT from the C.

  Strings are sequences of UTF-16 code units (`Str`), as the library sees them after decoding and after line
  terminators have been normalised to LF (property C08).  Everything here is a decidable (Bool-valued) predicate or a
  plain function, so the theorems of Props/C01 have explicit, checkable hypotheses.
-/
namespace CifModel.Spec.Lexical
open CifModel

/-! ### characters -/

def isLeadU (c : CU) : Bool := 0xD800 ≤ c && c ≤ 0xDBFF
def isTrailU (c : CU) : Bool := 0xDC00 ≤ c && c ≤ 0xDFFF

/-- characters of the Basic Multilingual Plane (surrogates excluded) that may occur in a CIF.
    CIF 2.0 `allchars` = U+0009 | U+000A | U+000D | U+0020–U+007E | U+00A0–U+D7FF | U+E000–U+FDCF | U+FDF0–U+FFFD
    (| U+10000–U+10FFFD except U+xFFFE, U+xFFFF), and U+FEFF is allowed only as the very first character of the file.
    CIF 1.1: the printable ASCII characters, HT and the line terminators.  (CR does not occur: terminators are LF here.) -/
def allowedBmp (dia : Dialect) (c : CU) : Bool :=
  c == 9 || c == 10 || (32 ≤ c && c ≤ 126)
  || (dia == .cif2 && ((0xA0 ≤ c && c ≤ 0xD7FF) || (0xE000 ≤ c && c ≤ 0xFDCF) || (0xFDF0 ≤ c && c ≤ 0xFFFD && c != 0xFEFF)))

/-- the surrogate pair `(l, t)` encodes U+xFFFE or U+xFFFF of a supplementary plane (not a character) -/
def nonCharPair (l t : CU) : Bool := (l - 0xD800) % 64 == 63 && (t == 0xDFFE || t == 0xDFFF)

/-- `okUnits dia pend s`: `s` is well-formed UTF-16 all of whose characters are allowed in dialect `dia`.
    `pend = some l` means the lead surrogate `l` has just been read and awaits its trail. -/
def okUnits (dia : Dialect) : Option CU → Str → Bool
  | none, [] => true
  | some _, [] => false
  | none, c :: r =>
    if isLeadU c then dia == .cif2 && okUnits dia (some c) r
    else !isTrailU c && allowedBmp dia c && okUnits dia none r
  | some l, c :: r => isTrailU c && !nonCharPair l c && okUnits dia none r

/-- UTF-16 encoding of a list of code points (for stating non-vacuity at the code-point level) -/
def utf16 : List Nat → Str
  | [] => []
  | cp :: r => if cp < 0x10000 then cp :: utf16 r
               else (0xD800 + (cp - 0x10000) / 1024) :: (0xDC00 + (cp - 0x10000) % 1024) :: utf16 r

/-- inline whitespace and line terminator (after normalisation) -/
def isBlank (c : CU) : Bool := c == 32 || c == 9
def isEol (c : CU) : Bool := c == 10
def isWs (c : CU) : Bool := isBlank c || isEol c

/-! ### reserved words -/

def lowerAscii (c : CU) : CU := if 65 ≤ c ∧ c ≤ 90 then c + 32 else c

def startsWithCI (w s : Str) : Bool := (s.take w.length).map lowerAscii == w

/-- whitespace-delimited strings that are not values: `data_<code>`, `save_<code>`, `save_`, `loop_`, `stop_`, `global_`
    (case-insensitive) -/
def isReservedWord (s : Str) : Bool :=
  startsWithCI [100, 97, 116, 97, 95] s            -- data_…
  || startsWithCI [115, 97, 118, 101, 95] s        -- save_…
  || s.map lowerAscii == [108, 111, 111, 112, 95]  -- loop_
  || s.map lowerAscii == [115, 116, 111, 112, 95]  -- stop_
  || s.map lowerAscii == [103, 108, 111, 98, 97, 108, 95]  -- global_

/-! ### presentations of a string value -/

inductive Presentation | bare | squote | dquote | tsquote | tdquote | text
deriving DecidableEq, Repr

def Presentation.delim : Presentation → CU
  | .dquote => 34 | .tdquote => 34 | _ => 39

/-- CIF 2.0 `wsdelim-string` / CIF 1.1 `<UnquotedString>`: non-empty, no whitespace, first character none of
    `" # $ ' _` (and in CIF 1.1 not `[` `]`; the rule for `;` depends on the position and is `semiOk` below), in CIF 2.0 no
    `[ ] { }` anywhere, not a reserved word -/
def bareOk (dia : Dialect) (s : Str) : Bool :=
  match s with
  | [] => false
  | c :: _ =>
    okUnits dia none s && s.all (fun x => !isWs x)
    && !(c == 34 || c == 35 || c == 36 || c == 39 || c == 95)
    && (match dia with
        | .cif2 => s.all (fun x => !(x == 91 || x == 93 || x == 123 || x == 125))
        | .cif1 => !(c == 91 || c == 93))
    && !isReservedWord s

/-- a whitespace-delimited string that begins with `;` must not begin a line -/
def semiOk (s : Str) (col : Nat) : Bool := !(s.head? == some 59 && col == 0)

/-- CIF 1.1 quoted strings may contain their delimiter, but not followed by whitespace -/
def noQuoteBlank (q : CU) : Str → Bool
  | [] => true
  | c :: r => !(c == q && (match r with | [] => false | d :: _ => isBlank d)) && noQuoteBlank q r

/-- `'…'` / `"…"`: one line; CIF 2.0: the delimiter does not occur inside -/
def quotedOk (dia : Dialect) (q : CU) (s : Str) : Bool :=
  okUnits dia none s && s.all (fun x => !isEol x)
  && (match dia with
      | .cif2 => s.all (fun x => x != q)
      | .cif1 => noQuoteBlank q s)

/-- body of a triple-quoted string, read with `cnt` delimiter characters immediately before it: never three
    delimiters in a row, and not ending in a delimiter  ( EBNF: `{ [ q, [ q ] ], not-q }` ) -/
def tripleBody (q : CU) : Nat → Str → Bool
  | cnt, [] => cnt == 0
  | cnt, c :: r => if c = q then cnt + 1 < 3 && tripleBody q (cnt + 1) r else tripleBody q 0 r

/-- `'''…'''` / `"""…"""` (CIF 2.0 only) -/
def tripleOk (dia : Dialect) (q : CU) (s : Str) : Bool :=
  dia == .cif2 && okUnits dia none s && tripleBody q 0 s

/-- body of a text field, `atBol` = the next character begins a line: no line of the body begins with `;` -/
def textBody : Bool → Str → Bool
  | _, [] => true
  | atBol, c :: r => !(atBol && c == 59) && textBody (isEol c) r

/-- `;…⏎;` — the raw content between the delimiters -/
def textOk (dia : Dialect) (s : Str) : Bool := okUnits dia none s && textBody false s

/-- admissibility of presentation `p` for string `s` in dialect `dia` -/
def admissible (dia : Dialect) (p : Presentation) (s : Str) : Bool :=
  match p with
  | .bare => bareOk dia s
  | .squote => quotedOk dia 39 s
  | .dquote => quotedOk dia 34 s
  | .tsquote => tripleOk dia 39 s
  | .tdquote => tripleOk dia 34 s
  | .text => textOk dia s

/-- the renderer: the characters that present `s` -/
def renderValue (p : Presentation) (s : Str) : Str :=
  match p with
  | .bare => s
  | .squote => 39 :: (s ++ [39])
  | .dquote => 34 :: (s ++ [34])
  | .tsquote => 39 :: 39 :: 39 :: (s ++ [39, 39, 39])
  | .tdquote => 34 :: 34 :: 34 :: (s ++ [34, 34, 34])
  | .text => 59 :: (s ++ [10, 59])

/-- token type a presentation is read as -/
def Presentation.tokType : Presentation → TokType
  | .bare => .value
  | .text => .tvalue
  | _ => .qvalue

/-! ### layout -/

/-- a whitespace atom: blank, line terminator, or a comment (`#` … up to but excluding the terminator) followed by its
    terminator -/
inductive WsAtom where
  | blank (c : CU)                -- c = space or tab
  | eol
  | comment (body : Str)          -- rendered `#` body LF
deriving Repr

def WsAtom.ok (dia : Dialect) : WsAtom → Bool
  | .blank c => isBlank c
  | .eol => true
  | .comment body => okUnits dia none body && body.all (fun x => !isEol x)

def WsAtom.render : WsAtom → Str
  | .blank c => [c]
  | .eol => [10]
  | .comment body => 35 :: (body ++ [10])

def renderWs (ws : List WsAtom) : Str := (ws.map WsAtom.render).flatten

/-- position bookkeeping the specifications imply: lines are counted by terminators, columns by characters — in
    well-formed UTF-16 the trail surrogate completes the character its lead began, so it does not advance the column.
    `posAfter line col units` = (line, column) after `units`, starting from `(line, col)`. -/
def posAfter (line col : Nat) : Str → Nat × Nat
  | [] => (line, col)
  | c :: r => if c = 10 then posAfter (line + 1) 0 r
              else posAfter line (col + (if isTrailU c then 0 else 1)) r

/-- no line that ENDS inside `units` (started at column `col`) holds more than 2048 characters -/
def linesFit (col : Nat) : Str → Bool
  | [] => true
  | c :: r => if c = 10 then decide (col ≤ 2048) && linesFit 0 r
              else linesFit (col + (if isTrailU c then 0 else 1)) r

/-- what may follow a value of any presentation: end of input, whitespace, or — in CIF 2.0 — a closing bracket or brace -/
def followOk (dia : Dialect) (ctx : Str) : Bool :=
  match ctx with
  | [] => true
  | c :: _ => isWs c || (dia == .cif2 && (c == 93 || c == 125))

/-- what may follow a data name, a block/frame header or `loop_`: whitespace or the end of input -/
def wsOrEnd (ctx : Str) : Bool := match ctx with | [] => true | c :: _ => isWs c

/-- where presentation `p` of `s` may start: a text field's semicolon begins a line, a whitespace-delimited value that
    begins with a semicolon does not -/
def startOk (p : Presentation) (s : Str) (col : Nat) : Bool :=
  match p with
  | .text => col == 0
  | .bare => semiOk s col
  | _ => true

/-- lines (1-based, counted from `line`) of `units` that are terminated and hold more than 2048 characters -/
def longLinesAux : Nat → Nat → Bool → Str → List Nat
  | _, _, _, [] => []
  | line, n, lead, c :: r =>
    if c = 10 then (if n > 2048 then line :: longLinesAux (line + 1) 0 false r else longLinesAux (line + 1) 0 false r)
    else if lead && isTrailU c then longLinesAux line n false r
    else longLinesAux line (n + 1) (isLeadU c) r

def longLines (units : Str) : List Nat := longLinesAux 1 0 false units

end CifModel.Spec.Lexical
