import CifModel.Spec.TraversalDup
/-
  Spec/TraversalDupCut (C15, duplicates under ANY handler program) — what the store holds when the parse of a document with repeated
  block codes, frame codes and data names ends, under a program that may continue, skip, END or answer an error code anywhere, with
  an accepting error callback.  `cDocD p norm d` walks the document in document order and threads two things: the number of handler
  callbacks delivered (the index at which the program is asked, as `cutDoc` does) and the CONTENT the container in progress holds —
  what a later name or code is a duplicate OF.  So whether something is a duplicate depends on what the program let the parser store:
  a first occurrence that was skipped does not count.

    * scalar item: if the container holds an equivalent name — no item handler (the count does not advance), nothing stored;
      otherwise as in `cutDoc`: stored iff its handler answers CONTINUE;
    * loop: the header is checked against the container and against itself (`hdrSlots`); the dropped columns vanish from the loop:
      the handlers see, and the store gets, the loop over the retained names and values (`cLoop` of part 4 on the retained columns);
    * save frame / data block whose code the container / the CIF already has: the EXISTING one is reopened — its start and end
      handlers are asked (with its handle), its items are checked against and added to what it holds, it is pruned again when it
      reaches its end with CIF_OK (not when the parse stops inside it, not when its start answered SKIP_SIBLINGS or a stopping code);
    * the error callbacks are not handler callbacks: they do not advance the count.
  Written from the recovery table of src/parser.c / cif.h, restated; storing mode.
-/
namespace CifModel.Spec.Doc
open CifModel.ParseCB

/-- the slots of a loop header checked against a container holding `c` and against itself: `none` = a dropped duplicate -/
def hdrSlots (norm : Str → Str) (c : Content) : List Str → List (Option Str) → List (Option Str)
  | [], acc => acc
  | nm :: ns, acc =>
    if hasName norm c nm || acc.any (slotIs norm nm) then hdrSlots norm c ns (acc ++ [none]) else hdrSlots norm c ns (acc ++ [some nm])

/-- the values of the retained columns of a packet -/
def keptCols (slots : List (Option Str)) : Nat → List V → List V
  | _, [] => []
  | col, v :: vs => (if (slots.getD col none).isSome then [v] else []) ++ keptCols slots (col + 1) vs

/-- outcome for a container body: handler count, content, later siblings bypassed, stopping answer -/
structure CutC where
  n : Nat
  c : Content
  sib : Bool
  stop : Option Int

/-- a data block / save frame with handle `h` (start / end callbacks `sEv`, `eEv`) continuing the content `c0`; `body` = the outcome
    of its elements from count `n + 1` and content `c0` -/
def cContD (p : Prog) (sEv eEv : Ev) (n : Nat) (c0 : Content) (body : CutC) : CutC :=
  if p n sEv = CONTINUE then
    if body.stop.isSome then ⟨body.n, body.c, false, body.stop⟩                      -- open at the stop: not pruned
    else ⟨body.n + 1, body.c.prune, decide (p body.n eEv = SKIP_SIBLINGS), stopOf (p body.n eEv)⟩
  else if p n sEv = SKIP_CURRENT then ⟨n + 2, c0.prune, decide (p (n + 1) eEv = SKIP_SIBLINGS), stopOf (p (n + 1) eEv)⟩
  else if p n sEv = SKIP_SIBLINGS then ⟨n + 1, c0, true, none⟩
  else ⟨n + 1, c0, false, some (p n sEv)⟩

mutual
  def cElemD (p : Prog) (norm : Str → Str) : Elem → Nat → Content → CutC
    | .item nm v, n, c =>
      if hasName norm c nm then ⟨n, c, false, none⟩
      else ⟨n + 1, if p n (.item nm v) = CONTINUE then c.setScalar nm v else c, decide (p n (.item nm v) = SKIP_SIBLINGS),
            stopOf (p n (.item nm v))⟩
    | .loop names pks, n, c =>
      if ((hdrSlots norm c names []).filterMap id).isEmpty then ⟨n, c, false, some MALFORMED⟩      -- every name dropped: outside
      else
        ⟨(cLoop p true ((hdrSlots norm c names []).filterMap id) (pks.map (keptCols (hdrSlots norm c names []) 0)) n).n,
         denoteBody (cLoop p true ((hdrSlots norm c names []).filterMap id) (pks.map (keptCols (hdrSlots norm c names []) 0)) n).kept c,
         (cLoop p true ((hdrSlots norm c names []).filterMap id) (pks.map (keptCols (hdrSlots norm c names []) 0)) n).sib,
         (cLoop p true ((hdrSlots norm c names []).filterMap id) (pks.map (keptCols (hdrSlots norm c names []) 0)) n).stop⟩
    | .frame code body, n, c =>
      match findC norm c.frames code with
      | some old =>
        let r := cContD p (.frameStart (some old.code)) (.frameEnd (some old.code)) n ⟨old.frames, old.loops⟩
          (cElemsD p norm body (n + 1) ⟨old.frames, old.loops⟩)
        ⟨r.n, { c with frames := replaceC norm c.frames code (.mk old.code r.c.frames r.c.loops) }, r.sib, r.stop⟩
      | none =>
        let r := cContD p (.frameStart (some code)) (.frameEnd (some code)) n .empty (cElemsD p norm body (n + 1) .empty)
        ⟨r.n, c.addFrame (.mk code r.c.frames r.c.loops), r.sib, r.stop⟩
  def cElemsD (p : Prog) (norm : Str → Str) : List Elem → Nat → Content → CutC
    | [], n, c => ⟨n, c, false, none⟩
    | e :: es, n, c =>
      if (cElemD p norm e n c).stop.isSome then ⟨(cElemD p norm e n c).n, (cElemD p norm e n c).c, false, (cElemD p norm e n c).stop⟩
      else if (cElemD p norm e n c).sib then ⟨(cElemD p norm e n c).n, (cElemD p norm e n c).c, false, none⟩
      else cElemsD p norm es (cElemD p norm e n c).n (cElemD p norm e n c).c
end

/-- outcome for the blocks: handler count, the CIF, later blocks bypassed, stopping answer -/
structure CutB where
  n : Nat
  cif : List Container
  stop : Option Int

def cBlocksD (p : Prog) (norm : Str → Str) : List Block → Nat → List Container → CutB
  | [], n, acc => ⟨n, acc, none⟩
  | b :: bs, n, acc =>
    match findC norm acc b.code with
    | some old =>
      let r := cContD p (.blockStart (some old.code)) (.blockEnd (some old.code)) n ⟨old.frames, old.loops⟩
        (cElemsD p norm b.body (n + 1) ⟨old.frames, old.loops⟩)
      let acc1 := replaceC norm acc b.code (.mk old.code r.c.frames r.c.loops)
      if r.stop.isSome then ⟨r.n, acc1, r.stop⟩ else if r.sib then ⟨r.n, acc1, none⟩ else cBlocksD p norm bs r.n acc1
    | none =>
      let r := cContD p (.blockStart (some b.code)) (.blockEnd (some b.code)) n .empty (cElemsD p norm b.body (n + 1) .empty)
      let acc1 := acc ++ [.mk b.code r.c.frames r.c.loops]
      if r.stop.isSome then ⟨r.n, acc1, r.stop⟩ else if r.sib then ⟨r.n, acc1, none⟩ else cBlocksD p norm bs r.n acc1

/-- the CIF the store holds when the parse ends, the handler count and the stopping answer -/
def cDocD (p : Prog) (norm : Str → Str) (d : Doc) : CutB :=
  if p 0 (.cifStart true) = CONTINUE then cBlocksD p norm d 1 []
  else if p 0 (.cifStart true) = SKIP_CURRENT then ⟨1, [], none⟩
  else if p 0 (.cifStart true) = SKIP_SIBLINGS then ⟨1, [], none⟩
  else ⟨1, [], some (p 0 (.cifStart true))⟩

/-- the return value of cif_parse -/
def cResultD (p : Prog) (r : CutB) : Int :=
  match r.stop with
  | some x => if x > OK then x else OK
  | none => if p r.n (.cifEnd true) > OK then p r.n (.cifEnd true) else OK

end CifModel.Spec.Doc
