import CifModel.Model.Types
/-
  CifModel.Spec.ValueSpec — what cif.h promises of list values, table values and packets, written from the documentation
  (not from the C): a list is a sequence, a table / packet is a finite map from *normalised* keys to values that
  remembers, per key, the spelling most recently used to enter a value, and enumerates its keys in the order in which
  they were first entered.
-/
namespace CifModel.Spec.ValueSpec
open CifModel

/-! ### sequences: the four list operations, with exactly the documented index conditions -/

inductive SeqResult (α : Type) where
  | ok (a : α)
  | invalidIndex
deriving Repr

/-- "Inserts an element … at the specified position, pushing back the elements initially at that and following
    positions … The list may be extended by inserting at the index one past its last element";
    "CIF_INVALID_INDEX if the index is greater than the initial number of list elements" -/
def seqInsert (vs : List V) (i : Nat) (x : V) : SeqResult (List V) :=
  if i ≤ vs.length then .ok (vs.insertIdx i x) else .invalidIndex

/-- "Replaces an existing element"; "CIF_INVALID_INDEX if the index is greater than or equal to the number of list
    elements" -/
def seqSet (vs : List V) (i : Nat) (x : V) : SeqResult (List V) :=
  if i < vs.length then .ok (vs.set i x) else .invalidIndex

/-- "Any elements following the removed one in the list are moved forward to fill the gap.  The removed element is
    returned" -/
def seqRemove (vs : List V) (i : Nat) : SeqResult (List V × V) :=
  match vs[i]? with
  | some x => .ok (vs.eraseIdx i, x)
  | none => .invalidIndex

def seqGet (vs : List V) (i : Nat) : SeqResult V :=
  match vs[i]? with
  | some x => .ok x
  | none => .invalidIndex

/-! ### maps -/

/-- abstract table / packet: per normalised key the (most recent spelling, value); `order` = normalised keys in the
    order of first entry -/
structure AMap where
  get : Str → Option (Str × V)
  order : List Str

def AMap.empty : AMap := { get := fun _ => none, order := [] }

/-- enter a value under key `nk` spelled `ko` -/
def AMap.set (m : AMap) (nk ko : Str) (v : V) : AMap :=
  { get := fun k => if k = nk then some (ko, v) else m.get k
    order := if (m.get nk).isSome then m.order else m.order ++ [nk] }

def AMap.erase (m : AMap) (nk : Str) : AMap :=
  { get := fun k => if k = nk then none else m.get k
    order := m.order.erase nk }

/-- the value stored for a key -/
def AMap.lookup (m : AMap) (nk : Str) : Option V := (m.get nk).map (·.2)

/-- "keys in the form most recently entered", in order of first entry -/
def AMap.keys (m : AMap) : List Str := m.order.filterMap (fun nk => (m.get nk).map (·.1))

/-- operations of a history on one map; keys already normalised (`nk`) with their spelling (`ko`) -/
inductive MapOp where
  | set (nk ko : Str) (v : V)
  | remove (nk : Str)

def AMap.apply (m : AMap) : MapOp → AMap
  | .set nk ko v => m.set nk ko v
  | .remove nk => m.erase nk

def AMap.run (m : AMap) (ops : List MapOp) : AMap := ops.foldl AMap.apply m

end CifModel.Spec.ValueSpec
