import CifModel.Basic
/-
  CifModel.Spec.DialectTable — the DOCUMENTED rules by which cif_parse() chooses the CIF version and the character
  encoding of its input, written from cif.h (documentation of `struct cif_parse_opts_s`: `prefer_cif2`,
  `default_encoding_name`, `force_default_encoding`, and of `cif_parse`) and the text of property C11 — not from
  ciffile.c / parser.c.

    version  : prefer_cif2 < 0 → CIF 1.1 whatever the input says;  prefer_cif2 ≥ 20 → CIF 2.0 whatever the input says;
               otherwise a leading `#\#CIF_2.0` version comment → 2.0, a version comment for another version → 1.1,
               no version comment → 2.0 if prefer_cif2 > 0, else 1.1.
    encoding : force_default_encoding → the default encoding (the named one, else the system's) "regardless of any
               encoding signature or other appearance to the contrary";  else a Unicode signature → that encoding;
               else CIF 2.0 → UTF-8;  else the default encoding (`default_encoding_name` if given: "the named encoding
               will be used in the event that no encoding signature is detected", else the system's).
    errors   : CIF 2.0 text that is not read as UTF-8 → CIF_WRONG_ENCODING;  an initial byte-order mark is accepted, but
               U+FEFF is not a CIF 1.1 character.
-/
namespace CifModel.Spec.Dialect

/-- encodings announced by a Unicode signature -/
inductive Enc | utf8 | utf16le | utf16be | utf32le | utf32be | otherSig
deriving DecidableEq, Repr

/-- the leading version comment of the text: none / `#\#CIF_2.0` / `#\#CIF_x.y` for another version -/
inductive Magic | none | v2 | other
deriving DecidableEq, Repr

/-- CIF whitespace: what may follow the ten characters of a version comment (any of the line-terminator conventions LF, CR,
    CR LF — i.e. the character LF or CR —, a blank or a tab); the end of the input may follow as well -/
def isCifWhitespace (c : Nat) : Bool := c == 32 || c == 9 || c == 10 || c == 13

/-- the ten characters of a version comment are a whole comment token: followed by CIF whitespace (`some c`) or by nothing -/
def commentEndsHere : Option Nat → Bool
  | none => true
  | some c => isCifWhitespace c

/-- what follows the magic code in the documents of the property's table: end of input, LF, CR, CR LF, blank, tab -/
inductive Terminator | eof | lf | cr | crlf | space | tab
deriving DecidableEq, Repr

/-- the character right after the magic code for each terminator -/
def Terminator.next : Terminator → Option Nat
  | .eof => none | .lf => some 10 | .cr => some 13 | .crlf => some 13 | .space => some 32 | .tab => some 9

/-- the encoding a parse uses -/
inductive Encoding | signature (e : Enc) | utf8 | named | system
deriving DecidableEq, Repr

/-- the four documented ranges of `prefer_cif2` -/
inductive PreferClass | neg | zero | low | high
deriving DecidableEq, Repr

def classify (prefer : Int) : PreferClass :=
  if prefer < 0 then .neg else if prefer = 0 then .zero else if prefer < 20 then .low else .high

def specVersion : PreferClass → Magic → Nat
  | .neg, _ => 1
  | .high, _ => 2
  | _, .v2 => 2
  | _, .other => 1
  | .zero, .none => 1
  | .low, .none => 2

/-- the default encoding: the named one if a name was given, else the system's -/
def defaultEncoding (namedGiven : Bool) : Encoding := if namedGiven then .named else .system

def specEncoding (forced : Bool) (sig : Option Enc) (version : Nat) (namedGiven : Bool) : Encoding :=
  if forced then defaultEncoding namedGiven
  else match sig with
    | some e => .signature e
    | none => if version = 2 then .utf8 else defaultEncoding namedGiven

/-- is text read through this encoding read as UTF-8? -/
def isUtf8 (namedIsUtf8 systemIsUtf8 : Bool) : Encoding → Bool
  | .signature e => e == .utf8
  | .utf8 => true
  | .named => namedIsUtf8
  | .system => systemIsUtf8

structure Selection where
  encoding : Encoding
  version : Nat
  wrongEncoding : Bool        -- CIF_WRONG_ENCODING is reported
  bomDisallowed : Bool        -- the initial U+FEFF is reported as CIF_DISALLOWED_CHAR
deriving DecidableEq, Repr

def spec (pc : PreferClass) (magic : Magic) (sig : Option Enc) (bomFirst forced namedGiven namedIsUtf8 systemIsUtf8 : Bool) :
    Selection :=
  let v := specVersion pc magic
  let e := specEncoding forced sig v namedGiven
  { encoding := e, version := v,
    wrongEncoding := v == 2 && !isUtf8 namedIsUtf8 systemIsUtf8 e,
    bomDisallowed := v == 1 && bomFirst }

end CifModel.Spec.Dialect
