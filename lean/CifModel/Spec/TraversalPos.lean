import CifModel.Model.WalkH
import CifModel.Spec.Traversal
/-
  CifModel.Spec.TraversalPos (C14, handles) — the POSITIONAL traversal of a CIF, written from the shape of the CIF alone (no handler
  program, no walker state, no result code): every element of the CIF together with the POSITION it has in the CIF,

      data block i of the CIF                              .cont [i]
      save frame j of the container at `path`              .cont (path ++ [j])
      loop i of the container at `path`                    .loop path i
      packet j of that loop                                .packet path i j
      item k of that packet                                .item path i j k

  flattened depth first: start entry, save frames, loops, end entry; start and end entry of one element carry the SAME position.
  Two elements with equal content (two equal packets of a loop, two frames `f` with the same loops in different blocks) have
  different positions, so they are different entries here — the event-only `fullTraversal` of Spec/Traversal.lean cannot tell them
  apart.  `Handle` is used as the type of positions (Model/WalkH.lean: a datatype of paths and indices; nothing of the walker is
  used).
-/
namespace CifModel.Spec.TraversalPos
open CifModel.Walk

def posItems (path : Path) (i j : Nat) : Nat → List (Str × V) → List (Ev × Handle)
  | _, [] => []
  | k, (nm, v) :: is => (.item nm v, .item path i j k) :: posItems path i j (k + 1) is

def posPacket (path : Path) (i j : Nat) (pk : List (Str × V)) : List (Ev × Handle) :=
  (.pktStart pk, .packet path i j) :: (posItems path i j 0 pk ++ [(.pktEnd pk, .packet path i j)])

def posPackets (path : Path) (i : Nat) : Nat → List (List (Str × V)) → List (Ev × Handle)
  | _, [] => []
  | j, pk :: pks => posPacket path i j pk ++ posPackets path i (j + 1) pks

def posLoop (path : Path) (i : Nat) (l : WLoop) : List (Ev × Handle) :=
  (.loopStart l.category l.names, .loop path i) :: (posPackets path i 0 l.packets ++ [(.loopEnd l.category l.names, .loop path i)])

def posLoops (path : Path) : Nat → List WLoop → List (Ev × Handle)
  | _, [] => []
  | i, l :: ls => posLoop path i l ++ posLoops path (i + 1) ls

mutual
  /-- the container at position `path` (depth 0: a data block) -/
  def posCont (depth : Nat) (path : Path) : WCont → List (Ev × Handle)
    | .mk code frames loops =>
      ((if depth = 0 then Ev.blockStart code else Ev.frameStart code), Handle.cont path)
        :: (posFrames (depth + 1) path 0 frames
            ++ (posLoops path 0 loops ++ [((if depth = 0 then Ev.blockEnd code else Ev.frameEnd code), Handle.cont path)]))
  /-- the save frames of the container at `parent`, from position `j` on -/
  def posFrames (depth : Nat) (parent : Path) : Nat → List WCont → List (Ev × Handle)
    | _, [] => []
    | j, f :: fs => posCont depth (parent ++ [j]) f ++ posFrames depth parent (j + 1) fs
end

def posBlocks : Nat → List WCont → List (Ev × Handle)
  | _, [] => []
  | i, b :: bs => posCont 0 [i] b ++ posBlocks (i + 1) bs

/-- every element of the CIF with its position, depth first, start and end entry per element -/
def fullTraversalH (c : WCif) : List (Ev × Handle) :=
  (.cifStart, .cif) :: (posBlocks 0 c ++ [(.cifEnd, .cif)])

/-- the kind of a callback (which handler function) -/
def kind : Ev → Nat
  | .cifStart => 0 | .cifEnd => 1
  | .blockStart _ => 2 | .blockEnd _ => 3
  | .frameStart _ => 4 | .frameEnd _ => 5
  | .loopStart _ _ => 6 | .loopEnd _ _ => 7
  | .pktStart _ => 8 | .pktEnd _ => 9
  | .item _ _ => 10

end CifModel.Spec.TraversalPos
