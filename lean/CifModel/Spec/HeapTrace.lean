import CifModel.Model.Ladder
/-
  CifModel.Spec.HeapTrace — what "no double free, no invalid free, nothing leaks" means for a sequence of
  dynamic-memory events (C17, clean-up ladders).

  Written from the C standard's contract of malloc/free, not from the library: a block may be released only while
  it is live (obtained and not yet released), a request that fails yields no block, and an allocator never hands out
  a block that is still live.  The checker below replays an event sequence over the set of live block ids and
  rejects (`none`) any sequence that breaks this contract.  Only the *vocabulary* of events (`Ev`) is shared with
  the model (CifModel.Model.Ladder); none of the model's functions is used here.
-/
namespace CifModel.Spec.HeapTrace
open CifModel.Model.Ladder (Ev)

/-- one event, replayed on the set of live block ids (`none` = the contract has been broken) -/
def step : Option (List Nat) → Ev → Option (List Nat)
  | none, _ => none
  | some L, .alloc i => if i ∈ L then none else some (i :: L)       -- a live block is never handed out again
  | some L, .fail _ => some L                                       -- a failed request yields nothing
  | some L, .free i => if i ∈ L then some (L.erase i) else none     -- double free / invalid free

/-- the live blocks after the whole sequence, starting with nothing live; `none` if the contract was broken -/
def final (evs : List Ev) : Option (List Nat) := evs.foldl step (some [])

/-- the sequence respects the contract and afterwards exactly the blocks `owned` are live (in any order):
    nothing else is live (no leak) and everything in `owned` is live (no dangling ownership) -/
def Balanced (evs : List Ev) (owned : List Nat) : Prop := ∃ L, final evs = some L ∧ L.Perm owned

/-- no allocation request of the sequence failed -/
def NoFail (evs : List Ev) : Prop := ∀ i, Ev.fail i ∉ evs

/-- the positions of the failed requests, in order -/
def failIds (evs : List Ev) : List Nat := evs.filterMap (fun e => match e with | .fail i => some i | _ => none)

/-- the ids released by the sequence, in order -/
def freeIds (evs : List Ev) : List Nat := evs.filterMap (fun e => match e with | .free i => some i | _ => none)

end CifModel.Spec.HeapTrace
