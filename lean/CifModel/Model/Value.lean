import CifModel.Model.Types
/-
  CifModel.Model.Value — pure (value-semantics) model of the value / list / table / packet operations of
  src/value.c, src/map.c and src/packet.c.  Core Lean only.

  A value object is the immutable tree `V` of Model/Types.lean; an operation of the C API that mutates its
  argument is a function returning the new tree (or the result code the C returns, in which case the C leaves
  the object unchanged — the exceptions are stated at the definition).  Memory (addresses, ownership, the
  capacity of the element array) is the subject of Model/Heap.lean.

  Maps (`cif_map_t`, shared by table values and packets) are insertion-ordered association lists of
  `(key, keyOrig, value)`: `key` is the normalised key that uthash hashes, `keyOrig` the spelling that
  `cif_map_get_keys` reports.  Normalisation is a parameter `norm : Str → Option Str` (`none` = the normaliser
  rejects the key: `cif_normalize_table_index` for tables, `cif_normalize_item_name` for packets).
-/
namespace CifModel.Model.Value
open CifModel

/-! ### result codes (values of cif.h; tied to the translated table by `codes_link` in Lemmas/Value.lean) -/
def OK : Code := 0
def ERROR : Code := 2
def ARGUMENT_ERROR : Code := 6
def DUP_ITEMNAME : Code := 41
def INVALID_ITEMNAME : Code := 42
def NOSUCH_ITEM : Code := 43
def INVALID_NUMBER : Code := 72
def INVALID_INDEX : Code := 73

abbrev Entry := Str × Str × V

/-! ### creation and (re)initialisation -/

/-- default value of a kind: `cif_value_create(kind, &v)` / the second half of `cif_value_init`.
    `none` = the `default:` branch (not a kind) ↦ `CIF_ARGUMENT_ERROR`.
    The number default is what `cif_value_init_numb(v, 0.0, 0.0, 0, 1)` produces: text `0`, one digit, no su. -/
def defaultOf (kind : Nat) : Option V :=
  if kind = 0 then some (.chr true [])
  else if kind = 1 then some (.numb false [48] false [0] none 0)
  else if kind = 2 then some (.lst [])
  else if kind = 3 then some (.tbl [])
  else if kind = 4 then some .na
  else if kind = 5 then some .unk
  else none

/-- `cif_value_create` -/
def create (kind : Nat) : Except Code V :=
  match defaultOf kind with
  | some v => .ok v
  | none => .error ARGUMENT_ERROR

/-- `cif_value_clean`: whatever the value held is released; it becomes the unknown value -/
def clean (_ : V) : V := .unk

/-- `cif_value_init(value, kind)`.  The C cleans the value *before* it looks at `kind`, so with an invalid kind the
    result code is `CIF_ARGUMENT_ERROR` and the value is left as the unknown value (not unchanged). -/
def init (v : V) (kind : Nat) : Code × V :=
  match defaultOf kind with
  | some d => (OK, d)
  | none => (ARGUMENT_ERROR, clean v)

/-- `cif_value_init_char(value, text)` / `cif_value_copy_char(value, text)` (`none` = NULL text: value untouched) -/
def initChar (v : V) (text : Option Str) : Code × V :=
  match text with
  | none => (ARGUMENT_ERROR, v)
  | some t => (OK, .chr true t)

/-- `cif_value_clone(value, &clone)` for a clone target distinct from (and not containing, nor contained in) the
    source: an equal tree.  (Values are immutable here; that the C copy shares no storage is `Heap.clone`.) -/
def clone (v : V) : V := v

/-- `cif_value_kind` -/
def kind (v : V) : Nat := v.kindCode

/-- `cif_value_is_quoted` (true = CIF_QUOTED) -/
def isQuoted : V → Bool
  | .chr q _ => q
  | .numb q _ _ _ _ _ => q
  | _ => false

/-- `cif_value_get_text`: a copy of the text for CHAR and NUMB, NULL (`none`) for every other kind; always CIF_OK -/
def getText : V → Option Str
  | .chr _ t => some t
  | .numb _ t _ _ _ _ => some t
  | _ => none

/-! ### lists -/

/-- `List.insertIdx` written out structurally (index ≤ length is checked by the caller) -/
def insertAt (x : V) : Nat → List V → List V
  | 0, vs => x :: vs
  | _ + 1, [] => [x]
  | i + 1, v :: vs => v :: insertAt x i vs

def setAt (x : V) : Nat → List V → List V
  | _, [] => []
  | 0, _ :: vs => x :: vs
  | i + 1, v :: vs => v :: setAt x i vs

def removeAt : Nat → List V → List V
  | _, [] => []
  | 0, _ :: vs => vs
  | i + 1, v :: vs => v :: removeAt i vs

def getAt : Nat → List V → Option V
  | _, [] => none
  | 0, v :: _ => some v
  | i + 1, _ :: vs => getAt i vs

/-- `cif_value_get_element_count`: list size, or number of table entries -/
def elementCount : V → Except Code Nat
  | .lst vs => .ok vs.length
  | .tbl es => .ok es.length
  | _ => .error ARGUMENT_ERROR

/-- `cif_value_get_element_at` -/
def listGet (v : V) (i : Nat) : Except Code V :=
  match v with
  | .lst vs => if i ≥ vs.length then .error INVALID_INDEX else
      match getAt i vs with
      | some x => .ok x
      | none => .error INVALID_INDEX
  | _ => .error ARGUMENT_ERROR

/-- `cif_value_set_element_at(value, i, element)` for an `element` that is not part of the list element it
    replaces (`none` = NULL: the target is cleaned, i.e. becomes the unknown value). -/
def listSet (v : V) (i : Nat) (x : Option V) : Except Code V :=
  match v with
  | .lst vs => if i ≥ vs.length then .error INVALID_INDEX else .ok (.lst (setAt (x.getD .unk) i vs))
  | _ => .error ARGUMENT_ERROR

/-- `cif_value_insert_element_at` (`index = size` appends; `none` = NULL inserts an unknown value) -/
def listInsert (v : V) (i : Nat) (x : Option V) : Except Code V :=
  match v with
  | .lst vs => if i > vs.length then .error INVALID_INDEX else .ok (.lst (insertAt (x.getD .unk) i vs))
  | _ => .error ARGUMENT_ERROR

/-- `cif_value_remove_element_at`: the new list and the removed element (handed to the caller, or freed) -/
def listRemove (v : V) (i : Nat) : Except Code (V × V) :=
  match v with
  | .lst vs => if i ≥ vs.length then .error INVALID_INDEX else
      match getAt i vs with
      | some x => .ok (.lst (removeAt i vs), x)
      | none => .error INVALID_INDEX
  | _ => .error ARGUMENT_ERROR

/-! ### maps (map.c) -/

/-- `HASH_FIND` by normalised key -/
def mapFind : List Entry → Str → Option Entry
  | [], _ => none
  | e :: es, nk => if e.1 = nk then some e else mapFind es nk

/-- replace the entry of key `nk` (first match) by spelling `ko` and value `x`, in place -/
def mapReplace : List Entry → Str → Str → V → List Entry
  | [], _, _, _ => []
  | e :: es, nk, ko, x => if e.1 = nk then (nk, ko, x) :: es else e :: mapReplace es nk ko x

/-- `cif_map_set_item` after normalisation: an existing entry keeps its position, takes the spelling just used
    (`key_orig` is replaced whenever `u_strcmp(key, item->key_orig) ≠ 0`) and the new value; a new entry is appended
    (`HASH_ADD_KEYPTR` appends to the application-order list). `none` = NULL value ↦ unknown value. -/
def mapSet (es : List Entry) (nk ko : Str) (x : Option V) : List Entry :=
  match mapFind es nk with
  | some _ => mapReplace es nk ko (x.getD .unk)
  | none => es ++ [(nk, ko, x.getD .unk)]

/-- `HASH_DEL` of the entry of key `nk` (first match) -/
def mapErase : List Entry → Str → List Entry
  | [], _ => []
  | e :: es, nk => if e.1 = nk then es else e :: mapErase es nk

/-- `cif_map_get_keys`: the original spellings in enumeration (= insertion) order -/
def mapKeys (es : List Entry) : List Str := es.map (fun e => e.2.1)

/-- every normalised key occurs once (what `cif_map_set_item` maintains) -/
def nodupKeys : List Entry → Bool
  | [] => true
  | e :: es => (mapFind es e.1).isNone && nodupKeys es

/-! ### tables -/

/-- `cif_value_set_item_by_key` (invalid key ↦ CIF_INVALID_INDEX) -/
def tableSet (norm : Str → Option Str) (v : V) (key : Str) (x : Option V) : Except Code V :=
  match v with
  | .tbl es =>
    match norm key with
    | none => .error INVALID_INDEX
    | some nk => .ok (.tbl (mapSet es nk key x))
  | _ => .error ARGUMENT_ERROR

/-- `cif_value_get_item_by_key` (an invalid key is reported as CIF_NOSUCH_ITEM) -/
def tableGet (norm : Str → Option Str) (v : V) (key : Str) : Except Code V :=
  match v with
  | .tbl es =>
    match norm key with
    | none => .error NOSUCH_ITEM
    | some nk =>
      match mapFind es nk with
      | some e => .ok e.2.2
      | none => .error NOSUCH_ITEM
  | _ => .error ARGUMENT_ERROR

/-- `cif_value_remove_item_by_key`: new table and the removed value -/
def tableRemove (norm : Str → Option Str) (v : V) (key : Str) : Except Code (V × V) :=
  match v with
  | .tbl es =>
    match norm key with
    | none => .error NOSUCH_ITEM
    | some nk =>
      match mapFind es nk with
      | some e => .ok (.tbl (mapErase es nk), e.2.2)
      | none => .error NOSUCH_ITEM
  | _ => .error ARGUMENT_ERROR

/-- `cif_value_get_keys` -/
def tableKeys : V → Except Code (List Str)
  | .tbl es => .ok (mapKeys es)
  | _ => .error ARGUMENT_ERROR

/-! ### packets (packet.c) -/

abbrev Packet := List Entry

/-- `cif_packet_create(&p, names)` on the pinned tree (before c571e89): every name is normalised first (any invalid one ↦
    CIF_INVALID_ITEMNAME), then one entry holding the unknown value is added per name **without looking for an
    existing entry of the same normalised name** (`HASH_ADD_KEYPTR` in `cif_packet_create_norm`).  The original
    spelling is attached afterwards by walking the entries in insertion order. -/
def packetCreatePinned (norm : Str → Option Str) : List Str → Except Code Packet
  | [] => .ok []
  | n :: ns =>
    match norm n with
    | none => .error INVALID_ITEMNAME
    | some nk =>
      match packetCreatePinned norm ns with
      | .error c => .error c
      | .ok p => .ok ((nk, n, .unk) :: p)

/-- `cif_packet_set_item` -/
def packetSet (norm : Str → Option Str) (p : Packet) (name : Str) (x : Option V) : Except Code Packet :=
  match norm name with
  | none => .error INVALID_ITEMNAME
  | some nk => .ok (mapSet p nk name x)

/-- `cif_packet_get_item` -/
def packetGet (norm : Str → Option Str) (p : Packet) (name : Str) : Except Code V :=
  match norm name with
  | none => .error NOSUCH_ITEM
  | some nk =>
    match mapFind p nk with
    | some e => .ok e.2.2
    | none => .error NOSUCH_ITEM

/-- `cif_packet_remove_item` -/
def packetRemove (norm : Str → Option Str) (p : Packet) (name : Str) : Except Code (Packet × V) :=
  match norm name with
  | none => .error NOSUCH_ITEM
  | some nk =>
    match mapFind p nk with
    | some e => .ok (mapErase p nk, e.2.2)
    | none => .error NOSUCH_ITEM

/-- `cif_packet_get_names` -/
def packetNames (p : Packet) : List Str := mapKeys p

/-! ### members by reference: a path from a root object to one of its (transitive) members

  `cif_value_get_element_at` / `cif_value_get_item_by_key` / `cif_packet_get_item` hand out pointers to the
  container's own member objects; an operation applied through such a pointer is, in value semantics, an update of
  the root at the member's path. -/

inductive Step where
  | idx (i : Nat)
  | key (nk : Str)          -- normalised key
deriving Repr, DecidableEq, Inhabited

/-- the member at one step -/
def child (v : V) (s : Step) : Option V :=
  match v, s with
  | .lst vs, .idx i => getAt i vs
  | .tbl es, .key nk => (mapFind es nk).map (fun e => e.2.2)
  | _, _ => none

/-- replace the member at one step (the entry keeps its keys) -/
def setChild (v : V) (s : Step) (x : V) : Option V :=
  match v, s with
  | .lst vs, .idx i => if i < vs.length then some (.lst (setAt x i vs)) else none
  | .tbl es, .key nk =>
    match mapFind es nk with
    | some e => some (.tbl (mapReplace es nk e.2.1 x))
    | none => none
  | _, _ => none

def resolve : V → List Step → Option V
  | v, [] => some v
  | v, s :: p =>
    match child v s with
    | some c => resolve c p
    | none => none

def update : V → List Step → V → Option V
  | _, [], x => some x
  | v, s :: p, x =>
    match child v s with
    | none => none
    | some c =>
      match update c p x with
      | none => none
      | some c' => setChild v s c'

def isPrefix : List Step → List Step → Bool
  | [], _ => true
  | _ :: _, [] => false
  | a :: as, b :: bs => a == b && isPrefix as bs

/-- what the object at `dp` looks like while `cif_value_clone` copies the source at `sp` onto it: the target has been
    cleaned (unknown value) — except when the source is a *list that contains the target*: `cif_value_clone_list` turns
    the target into an empty list first and appends the cloned elements one by one, so while element `j` (the one that
    contains the target) is being cloned the target already holds the clones of elements `0 … j-1`. -/
def targetWhileCloning (root : V) (sp dp : List Step) : V :=
  if isPrefix sp dp then
    match resolve root sp, dp.drop sp.length with
    | some (.lst vs), .idx j :: _ => .lst (vs.take j)
    | _, _ => .unk
  else .unk

/-- `cif_value_clone(src, &dst)` **on the pinned tree** (before f1b092b) when `dst` is an existing object located at path `dp` of a root and
    `src` is located at path `sp` of the same root: the C cleans `*dst` first and reads `src` afterwards.
      * `sp = dp` (the same object): the object has just been cleaned, so it is "cloned" from the unknown value;
      * `dp` a proper prefix of `sp` (`src` is a member of `dst`): `src` was released by the clean ↦ `none`
        (the C reads freed memory);
      * `sp` a proper prefix of `dp` (`dst` is a member of `src`): the source is read while the target is in the state
        `targetWhileCloning`;
      * otherwise (`src` unrelated to `dst`): an ordinary copy. -/
def cloneOntoPinned (root : V) (sp dp : List Step) : Option V :=
  match update root dp (targetWhileCloning root sp dp) with
  | none => none
  | some root' =>
    match resolve root' sp with
    | none => none
    | some s => update root' dp s

/-- `cif_value_clone(src, &dst)` onto an existing object (after the repair f1b092b of F35): the copy is first built in a
    scratch object, then the target is cleaned and the copy moved in; cloning an object onto itself does nothing.  The
    source is therefore read before anything is released, wherever it lies relative to the target. -/
def cloneOnto (root : V) (sp dp : List Step) : Option V :=
  if sp = dp then (match resolve root dp with | some _ => some root | none => none)
  else
    match resolve root sp with
    | none => none
    | some s => update root dp s

/-- `cif_packet_create(&p, names)` (after the repair c571e89 of F36): every name is normalised first (any invalid one ↦
    CIF_INVALID_ITEMNAME), then one entry holding the unknown value is added per name; two names for one item are refused
    with CIF_DUP_ITEMNAME -/
def packetCreate (norm : Str → Option Str) : List Str → Except Code Packet
  | [] => .ok []
  | n :: ns =>
    match norm n with
    | none => .error INVALID_ITEMNAME
    | some nk =>
      match packetCreate norm ns with
      | .error c => .error c
      | .ok p => if (mapFind p nk).isSome then .error DUP_ITEMNAME else .ok ((nk, n, .unk) :: p)

end CifModel.Model.Value
