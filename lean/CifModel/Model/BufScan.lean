import CifModel.Model.Lexer
import CifModel.Model.Fill
import CifModel.Model.ScanBuf
import CifModel.Model.Names
/-
  CifModel.Model.BufScan — the scanner of src/parser.c AT BUFFER LEVEL: next_token, scan_ws, scan_to_ws, scan_to_eol,
  scan_unquoted, scan_delim_string, scan_triple_delim_string, scan_text and the macros NEXT_CHAR / PEEK_CHAR (ENSURE_CHARS) /
  BACK_UP / CONSUME_TOKEN / SCAN_UCHAR / HANDLE_UNPAIRED_LEAD(_OR_FAIL) / HANDLE_EOL / TVALUE_*, written over OFFSETS
  into `scanner->buffer` exactly where the C uses pointers, with `get_more_chars()` called in the middle of a token.

  State = Model.ScanBuf.SB (the array `buffer`, `buffer_size`, `buffer_limit`, `next_char`, `text_start`, `tvalue_start` as
  offsets) + `tvalue_length`, `line`, `column`, `ttype`, the fill flags (`cr_pending`, `at_eof`) and the character source
  (Model.Fill.Src: the chunks the read function will deliver, of arbitrary sizes ≥ 1).

  `getMore` = get_more_chars(): ScanBuf.makeRoom (reset / memmove / doubling, rebasing text_start, tvalue_start, next_char),
  then Fill.getMoreChars asking for `buffer_size - buffer_limit` units (read loop with cr_pending, CR / CR LF conversion),
  then ScanBuf.append.  Every scan function keeps the C's local `top = buffer + buffer_limit` as an explicit loop variable:
  it is recomputed exactly where the C recomputes it (at the head of the outer `for (;;)`, and after the PEEK_CHAR of
  scan_delim_string — repair e9c24e1); everything else is re-read from the state, as in the C.

  What is shared with Model.Lexer (group gD): the buffer-free decision logic of SCAN_UCHAR (`Lexer.scanUChar`: which
  reports, which replacement, column, lead flag — here applied to `*(next_char)` and `*(next_char - 1)` read from the
  buffer, and its two writes performed on the buffer), HANDLE_EOL's arithmetic (`Lexer.handleEol`), the reserved-word test
  (`Lexer.classify`, here applied to the units found at `tvalue_start`), and the reporting monad `L`.
  Not modelled: the whitespace callback, CIF_MEMORY_ERROR of the doubling, read errors.

  The loops are merged into one fuel-bounded recursion each (inner `while (next_char < top)` iteration / outer refill);
  `fuelOf` bounds the number of iterations (Lemmas/BufScan*: more fuel changes nothing).
  Core Lean only.
-/
namespace CifModel.Model.BufScan
open CifModel CifModel.Model.Chars CifModel.Model.Lexer CifModel.Model.Fill CifModel.Model.ScanBuf
open CifModel.Gen.ErrCodes (CIF_INVALID_CHAR CIF_MISSING_SPACE CIF_MISSING_ENDQUOTE CIF_UNCLOSED_TEXT CIF_RESERVED_WORD)

/-- `struct scanner_s`, the part the scanner functions use -/
structure BS where
  sb : SB                 -- buffer, buffer_size, buffer_limit, next_char, text_start, tvalue_start
  tvlen : Nat             -- tvalue_length
  line : Nat
  col : Nat
  ttype : TokType
  fs : FillSt             -- cr_pending, at_eof
  src : Src               -- char_source + read_func
deriving Repr, DecidableEq

/-- `*(buffer + i)` -/
def BS.get (s : BS) (i : Nat) : CU := s.sb.buffer.getD i 0
/-- `*(buffer + i) = v` -/
def BS.setBuf (s : BS) (i : Nat) (v : CU) : BS := { s with sb := { s.sb with buffer := s.sb.buffer.set i v } }
/-- `next_char = buffer + i` -/
def BS.setNext (s : BS) (i : Nat) : BS := { s with sb := { s.sb with next := i } }

/-- the token value the parser reads after next_token(): `tvalue_length` units from `tvalue_start` -/
def BS.value (s : BS) : Str := (s.sb.buffer.drop s.sb.tvalueStart).take s.tvlen

/-- get_more_chars(): `true` = CIF_OK (at least one unit was appended), `false` = CIF_EOF -/
def getMore (mf : Nat) (s : BS) : Bool × BS :=
  let sb1 := makeRoom mf s.sb
  let r := getMoreChars s.fs sb1.room s.src
  if r.1 = [] then (false, { s with sb := sb1, fs := r.2.1, src := r.2.2 })
  else (true, { s with sb := append sb1 r.1, fs := r.2.1, src := r.2.2 })

/-- PEEK_CHAR (with ENSURE_CHARS): `none` = CIF_EOF.  get_more_chars() is called only if `at_eof` is not yet raised. -/
def peekChar (mf : Nat) (s : BS) : Option CU × BS :=
  if s.sb.next ≥ s.sb.limit then
    if s.fs.atEof = true then (none, s)
    else
      let r := getMore mf s
      if r.1 = true then (some (r.2.get r.2.sb.next), r.2) else (none, r.2)
  else (some (s.get s.sb.next), s)

/-- NEXT_CHAR -/
def nextChar (mf : Nat) (s : BS) : Option CU × BS :=
  let r := peekChar mf s
  match r.1 with
  | some c => (some c, { r.2.setNext (r.2.sb.next + 1) with col := r.2.col + 1 })
  | none => (none, r.2)

/-- BACK_UP -/
def backUp (s : BS) : BS := { s.setNext (s.sb.next - 1) with col := s.col - 1 }

/-- the colon / third-delimiter step `next_char += 1; POSN_INCCOLUMN(1)` -/
def skipOne (s : BS) : BS := { s.setNext (s.sb.next + 1) with col := s.col + 1 }

/-- CONSUME_TOKEN -/
def consumeToken (s : BS) : BS :=
  { s with sb := { s.sb with textStart := s.sb.next, tvalueStart := s.sb.next }, tvlen := 0 }

/-- `TVALUE_SETLENGTH(s, next_char - TVALUE_START(s))` -/
def endTok (s : BS) : BS := { s with tvlen := s.sb.next - s.sb.tvalueStart }

/-- `TVALUE_INCSTART(s, k); TVALUE_SETLENGTH(s, (next_char - TVALUE_START(s)) - delim_size)` -/
def endDelim (s : BS) (k dsize : Nat) : BS :=
  { s with sb := { s.sb with tvalueStart := s.sb.tvalueStart + k }, tvlen := s.sb.next - (s.sb.tvalueStart + k) - dsize }

/-- SCAN_UCHAR: reads `*(next_char)` and `*(next_char - 1)`; the decision is `Lexer.scanUChar`; HANDLE_UNPAIRED_LEAD writes
    the replacement character to `*(next_char - 1)`; the unpaired-trail branch writes it to `*(next_char)` (in every other
    branch `u.c` is the unit read, so the write below leaves the buffer as it is); `next_char += 1`. -/
def scanUCharB (dia : Dialect) (s : BS) (lead : Bool) : L (UStep × BS) := do
  let u ← scanUChar dia s.line s.col (s.get (s.sb.next - 1)) (s.get s.sb.next) lead
  let s1 := if u.fixPrev = true then s.setBuf (s.sb.next - 1) (replChar dia) else s
  let s2 := s1.setBuf s.sb.next u.c
  pure (u, { s2.setNext (s.sb.next + 1) with col := u.col })

/-- HANDLE_UNPAIRED_LEAD_OR_FAIL (at the end of the input) -/
def unpairedLeadB (dia : Dialect) (s : BS) (lead : Bool) : L BS := do
  reportIf lead CIF_INVALID_CHAR s.line s.col
  pure (if lead = true then s.setBuf (s.sb.next - 1) (replChar dia) else s)

/-- HANDLE_EOL -/
def handleEolB (s : BS) (c : CU) (sol : Nat) : L (BS × Nat) := do
  let r ← handleEol s.line s.col sol c
  pure ({ s with line := r.1, col := r.2.1 }, r.2.2)

/-! ### the scan functions -/

/-- scan_ws -/
def scanWsB (dia : Dialect) (mf : Nat) : Nat → BS → Nat → Nat → L BS
  | 0, s, _, _ => pure s
  | fuel + 1, s, top, sol =>
    if s.sb.next < top then
      let c := s.get s.sb.next
      if classOf dia c = .ws then
        scanWsB dia mf fuel { s.setNext (s.sb.next + 1) with col := s.col + 1 } top 0
      else if classOf dia c = .eol then do
        let r ← handleEolB s c sol
        scanWsB dia mf fuel (r.1.setNext (s.sb.next + 1)) top r.2
      else pure (endTok s)
    else
      let r := getMore mf s
      if r.1 = true then scanWsB dia mf fuel r.2 r.2.sb.limit sol
      else pure (endTok r.2)

/-- scan_to_ws -/
def scanToWsB (dia : Dialect) (mf : Nat) : Nat → BS → Nat → Bool → L BS
  | 0, s, _, _ => pure s
  | fuel + 1, s, top, lead =>
    if s.sb.next < top then do
      let r ← scanUCharB dia s lead
      if metaOf dia r.1.c = .ws then pure (endTok (backUp r.2))
      else scanToWsB dia mf fuel r.2 top r.1.lead
    else
      let r := getMore mf s
      if r.1 = true then scanToWsB dia mf fuel r.2 r.2.sb.limit lead
      else do
        let s1 ← unpairedLeadB dia r.2 lead
        pure (endTok s1)

/-- scan_to_eol -/
def scanToEolB (dia : Dialect) (mf : Nat) : Nat → BS → Nat → Bool → L BS
  | 0, s, _, _ => pure s
  | fuel + 1, s, top, lead =>
    if s.sb.next < top then do
      let r ← scanUCharB dia s lead
      if classOf dia r.1.c = .eol then pure (endTok (backUp r.2))
      else scanToEolB dia mf fuel r.2 top r.1.lead
    else
      let r := getMore mf s
      if r.1 = true then scanToEolB dia mf fuel r.2 r.2.sb.limit lead
      else do
        let s1 ← unpairedLeadB dia r.2 lead
        pure (endTok s1)

/-- scan_unquoted.  `k` = `offset + 1` (the offset of the unit about to be scanned); `kd` / `ks` = the two bits of `kw_flags`. -/
def scanUnquotedB (dia : Dialect) (mf : Nat) : Nat → BS → Nat → Bool → Nat → Bool → Bool → L BS
  | 0, s, _, _, _, _, _ => pure s
  | fuel + 1, s, top, lead, k, kd, ks =>
    if s.sb.next < top then do
      let r ← scanUCharB dia s lead
      let cls := classOf dia r.1.c
      match metaOfCls cls with
      | .general =>
        let kd' := if k < 5 then kd && (cls == dataCls k) else kd
        let ks' := if k < 5 then ks && (cls == saveCls k) else ks
        scanUnquotedB dia mf fuel r.2 top r.1.lead (k + 1) kd' ks'
      | .open_ =>
        if (!kd && !ks) || decide (k < 5) then do
          report CIF_MISSING_SPACE r.2.line r.2.col
          pure (endTok (backUp r.2))
        else scanUnquotedB dia mf fuel r.2 top r.1.lead (k + 1) kd ks
      | .close =>
        if (!kd && !ks) || decide (k < 5) then pure (endTok (backUp r.2))
        else scanUnquotedB dia mf fuel r.2 top r.1.lead (k + 1) kd ks
      | .ws =>
        if r.1.c ≠ eofChar then pure (endTok (backUp r.2))
        else pure (endTok r.2)
      | .no => scanUnquotedB dia mf fuel r.2 top r.1.lead (k + 1) kd ks
    else
      let r := getMore mf s
      if r.1 = true then scanUnquotedB dia mf fuel r.2 r.2.sb.limit lead k kd ks
      else do
        let s1 ← unpairedLeadB dia r.2 lead
        pure (endTok s1)

/-- scan_triple_delim_string (`delim` = `*(text_start)` read on entry) -/
def scanTripleB (dia : Dialect) (mf : Nat) (delim : CU) : Nat → BS → Nat → Bool → Nat → Nat → L BS
  | 0, s, _, _, _, _ => pure s
  | fuel + 1, s, top, lead, dcount, sol =>
    if s.sb.next < top then do
      let r ← scanUCharB dia s lead
      if r.1.c = delim then
        if dcount + 1 ≥ 3 then pure (endDelim r.2 3 3)
        else scanTripleB dia mf delim fuel r.2 top r.1.lead (dcount + 1) sol
      else if classOf dia r.1.c = .eol then do
        let e ← handleEolB { r.2 with col := r.2.col - 1 } r.1.c sol       -- POSN_INCCOLUMN(-1); HANDLE_EOL
        scanTripleB dia mf delim fuel e.1 top r.1.lead 0 e.2
      else scanTripleB dia mf delim fuel r.2 top r.1.lead 0 0
    else
      let r := getMore mf s
      if r.1 = true then scanTripleB dia mf delim fuel r.2 r.2.sb.limit lead dcount sol
      else do
        let s1 ← unpairedLeadB dia r.2 lead
        report CIF_UNCLOSED_TEXT s1.line s1.col
        pure (endDelim s1 3 0)

/-- scan_delim_string (`delim` = `*(text_start)` read on entry) -/
def scanDelimB (dia : Dialect) (mf : Nat) (delim : CU) : Nat → BS → Nat → Bool → L BS
  | 0, s, _, _ => pure s
  | fuel + 1, s, top, lead =>
    if s.sb.next < top then do
      let r ← scanUCharB dia s lead
      if r.1.c = delim then
        let p := peekChar mf r.2
        let top' := p.2.sb.limit                 -- "peeking may have refilled, moved, or reallocated the buffer"
        match p.1 with
        | none => pure (endDelim p.2 1 1)
        | some d =>
          if dia = .cif1 then
            if metaOf dia d ≠ .ws then scanDelimB dia mf delim fuel p.2 top' r.1.lead     -- `continue`
            else pure (endDelim p.2 1 1)
          else if p.2.sb.next - p.2.sb.textStart = 2 ∧ d = delim then
            scanTripleB dia mf (p.2.get p.2.sb.textStart) fuel (skipOne p.2) (skipOne p.2).sb.limit false 0 0
          else pure (endDelim p.2 1 1)
      else if classOf dia r.1.c = .eol then do
        let s2 := backUp r.2
        report CIF_MISSING_ENDQUOTE s2.line s2.col
        pure (endDelim s2 1 0)
      else scanDelimB dia mf delim fuel r.2 top r.1.lead
    else
      let r := getMore mf s
      if r.1 = true then scanDelimB dia mf delim fuel r.2 r.2.sb.limit lead
      else do
        let s1 ← unpairedLeadB dia r.2 lead
        report CIF_MISSING_ENDQUOTE s1.line s1.col
        pure (endDelim s1 1 0)

/-- scan_text -/
def scanTextB (dia : Dialect) (mf : Nat) : Nat → BS → Nat → Bool → Nat → L BS
  | 0, s, _, _, _ => pure s
  | fuel + 1, s, top, lead, sol =>
    if s.sb.next < top then do
      let r ← scanUCharB dia s lead
      let cls := classOf dia r.1.c
      if cls = .semi then
        if sol ≠ 0 then
          let dsize := if r.2.get (r.2.sb.next - 2) = 10 ∧ r.2.get (r.2.sb.next - 3) = 13 then 3 else 2
          pure (endDelim r.2 1 dsize)
        else scanTextB dia mf fuel r.2 top r.1.lead sol
      else if cls = .eol then do
        let e ← handleEolB { r.2 with col := r.2.col - 1 } r.1.c sol
        scanTextB dia mf fuel e.1 top r.1.lead e.2
      else scanTextB dia mf fuel r.2 top r.1.lead 0
    else
      let r := getMore mf s
      if r.1 = true then scanTextB dia mf fuel r.2 r.2.sb.limit lead sol
      else do
        let s1 ← unpairedLeadB dia r.2 lead
        report CIF_UNCLOSED_TEXT s1.line s1.col
        pure (endDelim s1 1 0)

/-! ### next_token -/

/-- an upper bound of the number of loop iterations any scan function can still make from `s` -/
def fuelOf (s : BS) : Nat := (s.sb.limit - s.sb.next) + 2 * s.src.flat.length + 2

/-- the reserved-word block of next_token, for `ttype == VALUE`: new `ttype`, state -/
def finishUnquotedB (dia : Dialect) (s : BS) : L (TokType × BS) :=
  let shift (s : BS) : BS := { s with sb := { s.sb with tvalueStart := s.sb.tvalueStart + 5 }, tvlen := s.tvlen - 5 }
  match classify dia s.value with
  | .value => pure (.value, s)
  | .blockHead => pure (.blockHead, shift s)
  | .frameHead => pure (.frameHead, shift s)
  | .frameTerm => pure (.frameTerm, shift s)
  | .loopKw => pure (.loopKw, shift s)
  | .reserved => do
    report CIF_RESERVED_WORD s.line (s.col - s.tvlen)
    pure (.value, consumeToken s)

/-- the colon peek after a quoted string / text field -/
def keyPeekB (mf : Nat) (ifKey otherwise : TokType) (s : BS) : TokType × BS :=
  let p := peekChar mf s
  match p.1 with
  | none => (otherwise, p.2)
  | some c => if c = colon then (ifKey, skipOne p.2) else (otherwise, p.2)

/-- outcome of one pass through the body of next_token's loop: control returns to the loop head either with a token type
    assigned (`break` out of the switch) or after `CONSUME_TOKEN … continue` (whitespace / comment, new `after_ws`) -/
inductive StepB where
  | tok (ty : TokType) (s : BS)
  | skip (afterWs : Bool) (s : BS)

/-- the body of next_token's loop after NEXT_CHAR delivered `c` (state `s1`): the metaclass switch (CIF_MISSING_SPACE), the
    class switch and the reserved-word block.  Every scan function called gets its own iteration bound `fuelOf`. -/
def stepTokB (dia : Dialect) (mf : Nat) (afterWs : Bool) (c : CU) (s1 : BS) : L StepB := do
  let cls := classOf dia c
  let m := metaOfCls cls
  reportIf (m != .close && m != .ws && !afterWs) CIF_MISSING_SPACE s1.line (s1.col - 1)
  if cls = .eol then do
    let s2 ← scanWsB dia mf (fuelOf (backUp s1)) (backUp s1) (backUp s1).sb.limit 0
    pure (.skip true (consumeToken s2))
  else if cls = .ws then do
    let s2 ← scanWsB dia mf (fuelOf s1) s1 s1.sb.limit 0
    pure (.skip true (consumeToken s2))
  else if cls = .hash then do
    let s2 ← scanToEolB dia mf (fuelOf s1) s1 s1.sb.limit false
    pure (.skip afterWs (consumeToken s2))
  else if cls = .undersc then do
    let s2 ← scanToWsB dia mf (fuelOf s1) s1 s1.sb.limit false
    pure (.tok .name s2)
  else if cls = .obrak then pure (.tok .olist { s1 with tvlen := 1 })
  else if cls = .cbrak then pure (.tok .clist { s1 with tvlen := 1 })
  else if cls = .ocurl then pure (.tok .otable { s1 with tvlen := 1 })
  else if cls = .ccurl then pure (.tok .ctable { s1 with tvlen := 1 })
  else if cls = .quote then do
    let s2 ← scanDelimB dia mf (s1.get s1.sb.textStart) (fuelOf s1) s1 s1.sb.limit false
    let k := keyPeekB mf .key .qvalue s2
    pure (.tok k.1 k.2)
  else if cls = .semi ∧ s1.col = 1 then do
    let s2 ← scanTextB dia mf (fuelOf s1) s1 s1.sb.limit false 0
    if dia = .cif2 then
      let k := keyPeekB mf .tkey .tvalue s2
      pure (.tok k.1 k.2)
    else pure (.tok .tvalue s2)
  else do
    let s2 ← scanUnquotedB dia mf (fuelOf (backUp s1)) (backUp s1) (backUp s1).sb.limit false 0 true true
    let f ← finishUnquotedB dia s2
    pure (.tok f.1 f.2)

/-- the `while ((text_start >= next_char) && (result == CIF_OK))` loop of next_token; `ty` = the local `ttype`.
    `fuel` bounds the iterations of this loop (each consumes at least one unit). -/
def tokLoopB (dia : Dialect) (mf : Nat) : Nat → BS → Bool → TokType → L BS
  | 0, s, _, ty => pure { s with ttype := ty }
  | fuel + 1, s, afterWs, ty =>
    if s.sb.textStart ≥ s.sb.next then
      -- ttype = ERROR; TVALUE_SETSTART(text_start); TVALUE_SETLENGTH(0); NEXT_CHAR
      let s0 : BS := { s with sb := { s.sb with tvalueStart := s.sb.textStart }, tvlen := 0 }
      let n := nextChar mf s0
      match n.1 with
      | none => pure { n.2 with ttype := .end_ }
      | some c => do
        let st ← stepTokB dia mf afterWs c n.2
        match st with
        | .tok ty' s2 => tokLoopB dia mf fuel s2 afterWs ty'
        | .skip aw s2 => tokLoopB dia mf fuel s2 aw .error
    else pure { s with ttype := ty }

/-- next_token -/
def nextTokenB (dia : Dialect) (mf : Nat) (s : BS) : L BS :=
  tokLoopB dia mf (fuelOf s) s (afterWsOf s.ttype) s.ttype

/-! ### what the grammar productions do to a pending token -/

/-- "recover by pushing back the colon" (parse_item / parse_list / parse_table on a KEY or TKEY):
    `next_char -= 1; POSN_INCCOLUMN(-1); ttype = alt` -/
def pushColonB (s : BS) (alt : TokType) : BS := { backUp s with ttype := alt }

/-- `TRIM_TOKEN(scanner, n)` followed by `ttype = ty` (parse_table on an unquoted value that begins with / contains a colon):
    `_keep_end = text_start + n`; the column loses `u_countChar32(_keep_end, next_char - _keep_end)`; `next_char = _keep_end`;
    `TVALUE_SETLENGTH(next_char - TVALUE_START)` -/
def trimTokenB (s : BS) (n : Nat) (ty : TokType) : BS :=
  let keepEnd := s.sb.textStart + n
  let pushed := (s.sb.buffer.drop keepEnd).take (s.sb.next - keepEnd)
  { s with sb := { s.sb with next := keepEnd }, col := s.col - countChar32 pushed, tvlen := keepEnd - s.sb.tvalueStart, ttype := ty }

/-- the token as the parser sees it after next_token() returned -/
def BS.tok (s : BS) : Tok := ⟨s.ttype, s.value, s.line, s.col⟩

/-! ### whole token streams -/

/-- the scanner as cif_parse_internal() sets it up (buffer of `size` units, INIT_V2_SCANNER: line 1, column 0, ttype END),
    after get_first_char() -/
def BS.init (size : Nat) (src : Src) : BS :=
  match getFirstChar Gen.ParseConsts.firstCharFoldsSecondCR src with
  | none => ⟨SB.init size, 0, 1, 0, .end_, ⟨false, true⟩, src⟩
  | some r => ⟨append (SB.init size) r.1, 0, 1, 0, .end_, r.2.1, r.2.2⟩

/-- one record per token for the correspondence run: the token and the buffer's offsets when next_token() returned -/
structure Rec where
  tok : Tok
  size : Nat
  limit : Nat
  next : Nat
  textStart : Nat
  tvalueStart : Nat
deriving Repr, DecidableEq

def BS.toRec (s : BS) : Rec := ⟨s.tok, s.sb.size, s.sb.limit, s.sb.next, s.sb.textStart, s.sb.tvalueStart⟩

/-- repeated next_token / CONSUME_TOKEN until END or abort, as Lexer.tokensLoop -/
def tokensLoopB (dia : Dialect) (mf : Nat) (pol : Policy) : Nat → BS → List Rec → List Report → List Rec × Int × List Report
  | 0, _, toks, log => (toks.reverse, 0, log)
  | fuel + 1, s, toks, log =>
    match nextTokenB dia mf s pol log with
    | .abort rv log' => (toks.reverse, rv, log')
    | .ok s' log' =>
      if s'.ttype = .end_ then ((s'.toRec :: toks).reverse, 0, log')
      else tokensLoopB dia mf pol fuel (consumeToken s') (s'.toRec :: toks) log'

/-- what the correspondence run lets the "parser" do to a token before CONSUME_TOKEN: `trim` = TRIM_TOKEN(scanner, 1) + `ttype = KEY`
    on every VALUE token longer than one unit (parse_table's recovery for a value that begins with a colon); `colon` = push the
    colon of every KEY / TKEY back and re-type the token QVALUE / TVALUE (parse_list's / parse_item's recovery) -/
structure Ops where
  trim : Bool
  colon : Bool
deriving Repr, DecidableEq

def altOfB (ty : TokType) : TokType := if ty = .tkey then .tvalue else .qvalue

/-- `tokensLoopB` with the token manipulations `ops`; the manipulated token is recorded a second time -/
def tokensLoopOpsB (dia : Dialect) (mf : Nat) (pol : Policy) (ops : Ops) : Nat → BS → List Rec → List Report → List Rec × Int × List Report
  | 0, _, toks, log => (toks.reverse, 0, log)
  | fuel + 1, s, toks, log =>
    match nextTokenB dia mf s pol log with
    | .abort rv log' => (toks.reverse, rv, log')
    | .ok s' log' =>
      if s'.ttype = .end_ then ((s'.toRec :: toks).reverse, 0, log')
      else if ops.trim = true ∧ s'.ttype = .value ∧ s'.tvlen > 1 then
        let s2 := trimTokenB s' 1 .key
        tokensLoopOpsB dia mf pol ops fuel (consumeToken s2) (s2.toRec :: s'.toRec :: toks) log'
      else if ops.colon = true ∧ (s'.ttype = .key ∨ s'.ttype = .tkey) then
        let s2 := pushColonB s' (altOfB s'.ttype)
        tokensLoopOpsB dia mf pol ops fuel (consumeToken s2) (s2.toRec :: s'.toRec :: toks) log'
      else tokensLoopOpsB dia mf pol ops fuel (consumeToken s') (s'.toRec :: toks) log'

def tokenizeOpsB (dia : Dialect) (mf size : Nat) (pol : Policy) (ops : Ops) (fuel : Nat) (chunks : List Str) : List Rec × Int × List Report :=
  let r := tokensLoopOpsB dia mf pol ops fuel (BS.init size ⟨chunks⟩) [] []
  (r.1, r.2.1, r.2.2.reverse)

/-- the token stream of the input delivered as `chunks` through a scan buffer of initially `size` units -/
def tokenizeB (dia : Dialect) (mf size : Nat) (pol : Policy) (chunks : List Str) : List Rec × Int × List Report :=
  let r := tokensLoopB dia mf pol (chunks.flatten.length + 1) (BS.init size ⟨chunks⟩) [] []
  (r.1, r.2.1, r.2.2.reverse)

end CifModel.Model.BufScan
