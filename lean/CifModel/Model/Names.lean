import CifModel.Basic
/-
  CifModel.Model.Names — executable model of the validity tests of src/utils.c:
    `cif_has_disallowed_chars` ↦ `hasDisallowed`, `cif_has_whitespace` ↦ `hasWhitespace`,
    ICU `u_countChar32(name, -1)` ↦ `countChar32`, `cif_is_valid_name` ↦ `isValidName`.
  A C string is the list of its UTF-16 code units without the terminating NUL; where the C reads the terminator (an unpaired
  lead surrogate at the very end) the model takes the `[]` branch.  Core Lean only.
-/
namespace CifModel.Model

/-- `CIF_LINE_LENGTH` (cif.h); the limit of code points in a data name; codes get 5 less (room for `data_` / `save_`) -/
def lineLength : Nat := 2048

/-- the BMP branch of `cif_has_disallowed_chars`: C0 controls except TAB LF CR, U+007F–U+009F, U+FDD0–U+FDEF, U+FFFE, U+FFFF -/
def bmpDisallowed (c : CU) : Bool :=
  (decide (c < 0x20) && c != 9 && c != 10 && c != 13)
    || (decide (c ≥ 0x7f) && decide (c < 0xa0))
    || (decide (c > 0xfdcf) && decide (c < 0xfdf0))
    || decide (c > 0xfffd)

/-- `cif_has_disallowed_chars(str)` -/
def hasDisallowed : Str → Bool
  | [] => false
  | c :: rest =>
    if c < 0xd800 ∨ c > 0xdfff then
      if bmpDisallowed c then true else hasDisallowed rest
    else if c ≥ 0xdc00 then true                         -- an unpaired low surrogate
    else
      match rest with
      | [] => true                                       -- lead surrogate followed by the terminator
      | d :: rest' =>
        if d < 0xdc00 ∨ d > 0xdfff then true             -- previous was an unpaired high surrogate
        else if d &&& 0x3fe = 0x3fe ∧ c &&& 0x3f = 0x3f then true   -- pair encoding U+xxFFFE / U+xxFFFF
        else hasDisallowed rest'

/-- `cif_has_whitespace(str)`: any unit ≤ U+0020 -/
def hasWhitespace (s : Str) : Bool := s.any fun c => decide (c ≤ 0x20)

/-- ICU `u_countChar32(s, -1)`: a lead surrogate directly followed by a trail surrogate counts once -/
def countChar32 : Str → Nat
  | [] => 0
  | c :: rest =>
    if 0xd800 ≤ c ∧ c ≤ 0xdbff then
      match rest with
      | [] => 1
      | d :: rest' => if 0xdc00 ≤ d ∧ d ≤ 0xdfff then 1 + countChar32 rest' else 1 + countChar32 (d :: rest')
    else 1 + countChar32 rest

/-- the first conjunct of `cif_is_valid_name` after the NULL test: codes are non-empty; item names are `_` + at least one more -/
def startOk (forItem : Bool) (s : Str) : Bool :=
  match forItem, s with
  | false, [] => false
  | false, _ :: _ => true
  | true, c :: _ :: _ => c == 95
  | true, _ => false

/-- `cif_is_valid_name(name, for_item)` for a non-NULL name -/
def isValidName (forItem : Bool) (s : Str) : Bool :=
  startOk forItem s
    && decide (countChar32 s ≤ lineLength - (if forItem then 0 else 5))
    && !hasWhitespace s
    && !hasDisallowed s

/-- `cif_is_valid_name` including the NULL test -/
def isValidNameOpt (forItem : Bool) : Option Str → Bool
  | none => false
  | some s => isValidName forItem s

end CifModel.Model
