import CifModel.Model.Parser
/-
  CifModel.Model.ParserTrace — the integrated parser of Model/Parser.lean once more, INSTRUMENTED: the same productions, but every
  change of the target goes through `emit`, which records the store API call the C makes at that place (`SOp`) and applies its
  effect on the documented data model (`SOp.apply` — literally the storage primitive of Model/Parser.lean).

      parser.c                                                  Model/Parser.lean                       SOp
      cif_create_block(_internal)(cif, code, …)  → CIF_OK       createIn / blocksLoop: setCif (cif ++ …)  mkBlock code lenient
      cif_container_create_frame(_internal)      → CIF_OK       createIn: updIn (frames ++ …)             mkFrame parent code lenient
      cif_container_set_value(container, n, v)                  setValue                                  setVal path n v
      cif_container_create_loop(container, NULL, names)         parseLoop: updIn (loops ++ …)             mkLoop path names
      cif_loop_add_packet(loop, packet)                         addPacket                                 addPkt path values
      cif_container_prune(container)                            parseContainer: updIn pruneC              prune path

  Only the MUTATING calls that succeed are recorded.  The look-ups (cif_get_block, cif_container_get_frame,
  cif_container_get_item_loop) and the creation calls the C makes "to see whether it fails" (cif_create_block on a duplicate or
  invalid code, answered CIF_DUP_BLOCKCODE / CIF_INVALID_BLOCKCODE without touching the store: property C05) are the model's
  tests `exists_`, `itemExists`, `isValidName` and leave no op.  `lenient` = the call is the `_internal(…, 1, …)` one (after
  CIF_INVALID_BLOCKCODE / CIF_INVALID_FRAMECODE was reported and accepted, and for the anonymous block).

  Everything that does not touch the target (scanner, values, header names, reports) is the ORIGINAL production, lifted (`liftP`).
  `Lemmas/ParserTrace.lean` proves that forgetting the trace gives back `Model.Parser.parse` exactly, and that the target is at every
  moment the replay of the trace.  Core Lean only; executed by the driver (family `parse`, `ops=` field).
-/
namespace CifModel.Model.Parser
open CifModel CifModel.Model CifModel.Model.Lexer
open CifModel.Gen.ErrCodes

/-- one successful mutating call of the store API, the container addressed by its path (normalised codes from the block down) -/
inductive SOp where
  | mkBlock (code : Str) (lenient : Bool)
  | mkFrame (parent : Path) (code : Str) (lenient : Bool)
  | setVal (path : Path) (name : Str) (v : V)
  | mkLoop (path : Path) (names : List Str)
  | addPkt (path : Path) (vals : List V)
  | prune (path : Path)
deriving Inhabited

/-- `cif_container_set_value` on one container of the documented model -/
def setValueC (o : Opts) (name : Str) (v : V) (c : Container) : Container :=
  if hasItem o.norm c (o.norm name) then Container.mk c.code c.frames (c.loops.map (setAll o.norm (o.norm name) v))
  else Container.mk c.code c.frames (addScalar c.loops name v)

/-- what the call does to the documented data model: the storage primitives of Model/Parser.lean -/
def SOp.apply (o : Opts) : SOp → Cif → Cif
  | .mkBlock code _, cif => cif ++ [Container.mk code [] []]
  | .mkFrame parent code _, cif =>
    updIn o.norm (fun c => Container.mk c.code (c.frames ++ [Container.mk code [] []]) c.loops) parent cif
  | .setVal path name v, cif => updIn o.norm (setValueC o name v) path cif
  | .mkLoop path names, cif =>
    updIn o.norm (fun c => Container.mk c.code c.frames (c.loops ++ [{ category := none, names := names, packets := [] }])) path cif
  | .addPkt path p, cif => updIn o.norm (fun c => Container.mk c.code c.frames (addPacketLast c.loops p)) path cif
  | .prune path, cif => updIn o.norm pruneC path cif

/-- the trace replayed on the documented data model, oldest call first (`ops` is kept newest first) -/
def replay (o : Opts) (ops : List SOp) (pre : Cif) : Cif := ops.foldr (fun op c => op.apply o c) pre

/-! ### the values of a trace -/

mutual
  /-- no number object anywhere in the value: the parser builds character values (numbers are recognised lazily, on demand, by
      cif_value_get_number), unknown / not-applicable values, lists and tables -/
  def numbFree : V → Bool
    | .numb .. => false
    | .lst vs => numbFreeList vs
    | .tbl es => numbFreeEntries es
    | _ => true
  def numbFreeList : List V → Bool
    | [] => true
    | v :: vs => numbFree v && numbFreeList vs
  def numbFreeEntries : List (Str × Str × V) → Bool
    | [] => true
    | (_, _, v) :: es => numbFree v && numbFreeEntries es
end

/-- the values a recorded call hands to the store -/
def SOp.values : SOp → List V
  | .setVal _ _ v => [v]
  | .addPkt _ vals => vals
  | _ => []

/-! ### the instrumented monad -/

structure WT where
  w : W
  /-- the calls so far, NEWEST FIRST -/
  ops : List SOp
deriving Inhabited

inductive TRes (α : Type) where
  | ok (a : α) (wt : WT)
  | abort (rv : Int) (wt : WT)

def PT (α : Type) := Policy → WT → TRes α

@[inline] def PT.pure {α} (a : α) : PT α := fun _ wt => .ok a wt
@[inline] def PT.bind {α β} (m : PT α) (f : α → PT β) : PT β := fun pol wt =>
  match m pol wt with
  | .ok a wt' => f a pol wt'
  | .abort rv wt' => .abort rv wt'

instance : Monad PT where
  pure := PT.pure
  bind := PT.bind

/-- a production of Model/Parser.lean, unchanged -/
def liftP {α} (m : P α) : PT α := fun pol wt =>
  match m pol wt.w with
  | .ok a w' => .ok a { wt with w := w' }
  | .abort rv w' => .abort rv { wt with w := w' }

/-- the store call `op` succeeds: it is recorded and takes effect -/
def emit (o : Opts) (op : SOp) : PT Unit := fun _ wt =>
  .ok () { w := { wt.w with cif := op.apply o wt.w.cif }, ops := op :: wt.ops }

def clampT (m : PT Unit) : PT Unit := fun pol wt =>
  match m pol wt with
  | .ok a wt' => .ok a wt'
  | .abort rv wt' => if rv > 0 then .abort rv wt' else .ok () wt'

/-! ### the productions that store -/

def setValueT (o : Opts) (path : Path) (name : Str) (v : V) : PT Unit :=
  if !isValidName true name then liftP (fail CIF_INVALID_ITEMNAME) else emit o (.setVal path name v)

def parseItemT (o : Opts) (fuel : Nat) (s : PS) (cont : Option Path) (name : Option Str) : PT PS := do
  let (t, s) ← liftP (nextTok o s)
  let (v, s) ←
    if isKeyTok t.ty then do
      liftP (report CIF_MISSING_SPACE s.scan.line (s.scan.col - 1))
      let (_, s) := pushColon s t (altOf t.ty)
      liftP (parseValue o fuel s)
    else if isValueStart t.ty then liftP (parseValue o fuel s)
    else do
      liftP (report CIF_MISSING_VALUE s.scan.line (s.scan.col - t.text.length))
      pure (V.unk, s)
  match name, cont with
  | some n, some path => do setValueT o path n v; pure s
  | _, _ => pure s

def addPacketT (o : Opts) (loopAt : Option Path) (p : List V) : PT Unit :=
  match loopAt with
  | none => pure ()
  | some path => emit o (.addPkt path p)

def packetsLoopT (o : Opts) (loopAt : Option Path) (slots : List (Option Str)) : Nat → PS → Pk → PT PS
  | 0, _, _ => liftP (fail NOFUEL)
  | fuel + 1, s, k => do
    let (t, s) ← liftP (nextTok o s)
    if isKeyTok t.ty || isValueStart t.ty then do
      let s ← if isKeyTok t.ty then do
                liftP (report CIF_MISSING_SPACE s.scan.line (s.scan.col - t.text.length))
                pure (pushColon s t (altOf t.ty)).2
              else pure s
      let (v, s) ← liftP (parseValue o fuel s)
      let kept := (slots.getD k.idx none).isSome
      let cur := if kept then k.cur ++ [v] else k.cur
      let idx := (k.idx + 1) % slots.length
      if idx = 0 then do
        addPacketT o loopAt cur
        packetsLoopT o loopAt slots fuel s { idx := 0, some := true, cur := [] }
      else packetsLoopT o loopAt slots fuel s { idx := idx, some := k.some, cur := cur }
    else if t.ty = .clist || t.ty = .ctable then do
      liftP (report CIF_UNEXPECTED_DELIM s.scan.line (s.scan.col - t.text.length))
      packetsLoopT o loopAt slots fuel (consume s) k
    else if k.idx ≠ 0 then do
      liftP (report CIF_PARTIAL_PACKET s.scan.line (s.scan.col - t.text.length))
      let missing := ((slots.drop k.idx).filter Option.isSome).map fun _ => V.unk
      addPacketT o loopAt (k.cur ++ missing)
      pure s
    else if !k.some then do
      liftP (report CIF_EMPTY_LOOP s.scan.line (s.scan.col - t.text.length))
      pure s
    else pure s

def parseLoopT (o : Opts) (fuel : Nat) (s : PS) (cont : Option Path) : PT PS := do
  let (slots, s) ← liftP (headerLoop o cont fuel s [])
  if slots.isEmpty then do
    let t := s.tok.getD default
    liftP (report CIF_NULL_LOOP s.scan.line (s.scan.col - t.text.length))
    pure s
  else do
    let names := slots.filterMap id
    let loopAt ← match cont with
      | none => pure none
      | some path =>
        if names.isEmpty then pure none
        else if names.any (fun n => !isValidName true n) then liftP (fail CIF_INTERNAL_ERROR)
        else do
          let cif ← liftP getCif
          let clash := match getIn o.norm path cif with
            | none => false
            | some c => names.any (fun n => hasItem o.norm c (o.norm n)) || hasDup (names.map o.norm)
          if clash then liftP (fail CIF_INTERNAL_ERROR)
          else do
            emit o (.mkLoop path names)
            pure (some path)
    if names.any (fun n => !isValidName true n) then liftP (fail CIF_INVALID_ITEMNAME)
    if hasDup (names.map o.norm) then liftP (fail CIF_DUP_ITEMNAME)
    packetsLoopT o loopAt slots fuel s { idx := 0, some := false, cur := [] }

def createInT (o : Opts) (isBlock : Bool) (parent : Path) (code : Str) (line col : Nat) : PT Path := do
  let cif ← liftP getCif
  let k := o.norm code
  let siblings : List Container := if isBlock then cif else ((getIn o.norm parent cif).map Container.frames).getD []
  let exists_ := siblings.any (codeIs o.norm k)
  let add (lenient : Bool) : PT Unit :=
    if isBlock then emit o (.mkBlock code lenient) else emit o (.mkFrame parent code lenient)
  let reportInvalid : PT Unit :=
    if isBlock then liftP (report CIF_INVALID_BLOCKCODE line col) else liftP (report CIF_INVALID_FRAMECODE line col)
  let reportDup : PT Unit :=
    if isBlock then liftP (report CIF_DUP_BLOCKCODE line col) else liftP (report CIF_DUP_FRAMECODE line col)
  if !isValidName false code then do
    reportInvalid
    if exists_ then reportDup else add true
  else if exists_ then reportDup
  else add false
  pure (parent ++ [k])

mutual
  def parseContainerT (o : Opts) : Nat → PS → Option Path → Bool → PT PS
    | 0, _, _, _ => liftP (fail NOFUEL)
    | fuel + 1, s, cont, isBlock => do
      let s ← elemsLoopT o fuel s cont isBlock
      match cont with
      | none => pure s
      | some path => do
        emit o (.prune path)
        pure s
  def elemsLoopT (o : Opts) : Nat → PS → Option Path → Bool → PT PS
    | 0, _, _, _ => liftP (fail NOFUEL)
    | fuel + 1, s, cont, isBlock => do
      let (t, s) ← liftP (nextTok o s)
      let len := t.text.length
      match t.ty with
      | .blockHead =>
        if isBlock then pure s
        else do
          liftP (report CIF_NO_FRAME_TERM s.scan.line (s.scan.col - len))
          pure s
      | .frameHead =>
        match cont with
        | none => do
          let s ← parseContainerT o fuel (consume s) none false
          elemsLoopT o fuel s cont isBlock
        | some path =>
          if o.maxFrameDepth = 0 ∧ !isBlock then do
            liftP (report CIF_FRAME_NOT_ALLOWED s.scan.line (s.scan.col - len))
            pure s
          else if o.maxFrameDepth = 1 ∧ !isBlock then do
            liftP (report CIF_NO_FRAME_TERM s.scan.line (s.scan.col - len))
            pure s
          else do
            if o.maxFrameDepth = 0 then liftP (report CIF_FRAME_NOT_ALLOWED s.scan.line (s.scan.col - len))
            let fpath ← createInT o false path (cstr t.text) s.scan.line (s.scan.col - len)
            let s ← parseContainerT o fuel (consume s) (some fpath) false
            elemsLoopT o fuel s cont isBlock
      | .frameTerm =>
        if isBlock then do
          liftP (report CIF_UNEXPECTED_TERM s.scan.line s.scan.col)
          elemsLoopT o fuel (consume s) cont isBlock
        else pure (consume s)
      | .loopKw => do
        let s ← parseLoopT o fuel (consume s) cont
        elemsLoopT o fuel s cont isBlock
      | .name => do
        let name := cstr t.text
        let s := consume s
        let e ← match cont with
          | none => pure false
          | some path => liftP (itemExists o path name)
        if e then do
          liftP (report CIF_DUP_ITEMNAME s.scan.line s.scan.col)
          let s ← parseItemT o fuel s cont none
          elemsLoopT o fuel s cont isBlock
        else if cont.isSome ∧ !isValidName true name then do
          liftP (report CIF_INVALID_ITEMNAME s.scan.line s.scan.col)
          let s ← parseItemT o fuel s cont none
          elemsLoopT o fuel s cont isBlock
        else do
          let s ← parseItemT o fuel s cont (some name)
          elemsLoopT o fuel s cont isBlock
      | .key | .tkey => do
        liftP (report CIF_MISSING_SPACE s.scan.line (s.scan.col - 1))
        let (t', s) := pushColon s t (altOf t.ty)
        liftP (report CIF_UNEXPECTED_VALUE s.scan.line (1 + s.scan.col - t'.text.length))
        let s ← parseItemT o fuel s cont none
        elemsLoopT o fuel s cont isBlock
      | .tvalue | .qvalue | .value | .olist | .otable => do
        liftP (report CIF_UNEXPECTED_VALUE s.scan.line (1 + s.scan.col - len))
        let s ← parseItemT o fuel s cont none
        elemsLoopT o fuel s cont isBlock
      | .ctable | .clist => do
        liftP (report CIF_UNEXPECTED_DELIM s.scan.line (s.scan.col - len))
        elemsLoopT o fuel (consume s) cont isBlock
      | .end_ =>
        if isBlock then pure s
        else do
          liftP (report CIF_EOF_IN_FRAME s.scan.line s.scan.col)
          pure s
      | .error => liftP (fail CIF_INTERNAL_ERROR)
end

def blocksLoopT (o : Opts) : Nat → PS → PT PS
  | 0, _ => liftP (fail NOFUEL)
  | fuel + 1, s => do
    let (t, s) ← liftP (nextTok o s)
    let len := t.text.length
    match t.ty with
    | .blockHead => do
      let cont ← if o.store then do
                   let p ← createInT o true [] (cstr t.text) s.scan.line (s.scan.col - len)
                   pure (some p)
                 else pure none
      let s ← parseContainerT o fuel (consume s) cont true
      blocksLoopT o fuel s
    | .end_ => pure s
    | _ => do
      liftP (report CIF_NO_BLOCK_HEADER s.scan.line (s.scan.col - len))
      let cont ← if o.store then do
                   let cif ← liftP getCif
                   let k := o.norm []
                   if cif.any (codeIs o.norm k) then pure () else emit o (.mkBlock [] true)
                   pure (some [k])
                 else pure none
      let s ← parseContainerT o fuel s cont true
      blocksLoopT o fuel s

def parseCifT (o : Opts) (fuel : Nat) (s : PS) : PT Unit :=
  clampT (do let _ ← blocksLoopT o fuel s; pure ())

def afterFirstT (o : Opts) (fuel : Nat) (c : CU) (rest : Str) : PT Unit :=
  let bom := c == 0xFEFF
  let input := if bom then rest else c :: rest
  if bom ∧ rest.isEmpty then pure ()
  else do
    if o.dia = .cif1 then
      (if bom then liftP (report CIF_DISALLOWED_CHAR 1 0) else pure ())
    else
      (if o.notUtf8 then liftP (report CIF_WRONG_ENCODING 1 1) else pure ())
    parseCifT o fuel { scan := Scan.init input, tok := none }

def parseInternalT (o : Opts) (fuel : Nat) (units : Str) : PT Unit :=
  match units with
  | [] => PT.pure ()
  | c :: rest =>
    PT.bind (if disallowedInitial c then liftP (ask CIF_DISALLOWED_INITIAL_CHAR 1 0) else PT.pure 0)
      (fun rv => if rv = -1 then PT.pure () else if rv ≠ 0 then liftP (fail rv) else afterFirstT o fuel c rest)

/-- outcome of an instrumented parse: the outcome of Model/Parser.lean and the store calls in order of occurrence -/
structure OutcomeT where
  out : Outcome
  ops : List SOp
deriving Inhabited

def runT (o : Opts) (pol : Policy) (pre : Cif) (fuel : Nat) (units : Str) : OutcomeT :=
  match parseInternalT o fuel units pol { w := { log := [], cif := pre }, ops := [] } with
  | .ok _ wt => { out := { rc := 0, log := wt.w.log.reverse, cif := wt.w.cif }, ops := wt.ops.reverse }
  | .abort rv wt => { out := { rc := rv, log := wt.w.log.reverse, cif := wt.w.cif }, ops := wt.ops.reverse }

def parseT (o : Opts) (pol : Policy) (pre : Cif) (units : Str) : OutcomeT := runT o pol pre (fuelFor units) units

/-- **the store calls a parse makes**, in order: every successful mutating call of the store API (see the table above) -/
def storeTrace (o : Opts) (pol : Policy) (pre : Cif) (units : Str) : List SOp := (parseT o pol pre units).ops

end CifModel.Model.Parser
