import CifModel.Model.Ladder
import CifModel.Gen.Uthash
/-
  CifModel.Model.LadderMap — allocation / clean-up ladders of the library's maps (table values and packets) under a
  single allocation failure (C17), with uthash's own allocations modelled as the code makes them:

    * cif_map_set_item                  (map.c)    = cif_value_set_item_by_key / cif_packet_set_item
    * cif_map_retrieve_item(do_remove)  (map.c)    = cif_value_remove_item_by_key / cif_packet_remove_item
    * cif_value_clone of a table value  (value.c)  — cif_value_clone_table
    * uthash (uthash/uthash.h): HASH_MAKE_TABLE on the first HASH_ADD_KEYPTR (table header, then the bucket array),
      HASH_EXPAND_BUCKETS when a bucket chain reaches (expand_mult + 1) * HASH_BKT_CAPACITY_THRESH items (new bucket
      array, old one released; ideal chain length, expand_mult, ineffective-expansion counter, noexpand), HASH_DELETE
      (the last item releases bucket array and table header).  The constants and the hash function (HASH_JEN) come
      from Gen/Uthash.lean, regenerated from the working tree; tools/translate_uthash.py also fails when the
      transcribed macro texts change.

  Every map here is stand-alone (`is_standalone != 0`, true of every map the public API hands out: convert_to_standalone
  is never entered) and every entry has been made by cif_map_set_item or cif_value_clone_table, so that its normalised
  key and its original spelling are two distinct blocks.  Entry values are table-free (`Shape`).  A map exists before
  the call: its blocks were obtained earlier in the trace (ids ≤ request counter), built by the same functions.
-/
namespace CifModel.Model.Ladder
open CifModel.Gen

-- ---------------------------------------------------------------------------------------------------------------
-- HASH_JEN (32-bit unsigned arithmetic)

def u32 (x : Nat) : Nat := x % 4294967296
def sub32 (a b : Nat) : Nat := u32 (a + 4294967296 - u32 b)

/-- `x -= y; x -= z; x ^= (z SHIFT n)` -/
def mixStep (x y z : Nat) (sh : Bool × Nat) : Nat :=
  Nat.xor (sub32 (sub32 x y) z) (if sh.1 then u32 (z <<< sh.2) else z >>> sh.2)

/-- HASH_JEN_MIX(a, b, c): nine steps, the updated variable rotating a, b, c, a, … -/
def jenMix (a b c : Nat) : Nat × Nat × Nat :=
  Uthash.jenMixShifts.foldl (fun (t : Nat × Nat × Nat) sh => (t.2.1, t.2.2, mixStep t.1 t.2.1 t.2.2 sh)) (a, b, c)

/-- little-endian 32-bit word of four bytes (missing bytes count as 0) -/
def word (l : List Nat) (i : Nat) : Nat :=
  l.getD i 0 + l.getD (i + 1) 0 * 256 + l.getD (i + 2) 0 * 65536 + l.getD (i + 3) 0 * 16777216

def jenLoop : Nat → Nat → Nat → Nat → Nat → List Nat → Nat
  | 0, _, _, h, _, _ => h
  | fuel + 1, i, j, h, total, bytes =>
    if bytes.length ≥ 12 then
      let (i', j', h') := jenMix (u32 (i + word bytes 0)) (u32 (j + word bytes 4)) (u32 (h + word bytes 8))
      jenLoop fuel i' j' h' total (bytes.drop 12)
    else
      -- hashv += keylen; the fall-through switch adds the remaining (< 12) bytes: bytes 8.. go into hashv one byte up
      let h1 := u32 (h + total + (bytes.getD 8 0 * 256 + bytes.getD 9 0 * 65536 + bytes.getD 10 0 * 16777216))
      (jenMix (u32 (i + word bytes 0)) (u32 (j + word bytes 4)) h1).2.2

/-- `hashv` of HASH_JEN for a key given as bytes -/
def hashJen (bytes : List Nat) : Nat :=
  jenLoop (bytes.length / 12 + 1) Uthash.jenSeedIJ Uthash.jenSeedIJ Uthash.jenSeedHash bytes.length bytes

/-- the bytes of a UTF-16 string in memory (little endian), `U_BYTES` of them -/
def keyBytes (s : Str) : List Nat := s.flatMap (fun u => [u % 256, u / 256 % 256])

-- ---------------------------------------------------------------------------------------------------------------
-- maps

/-- one entry.  The entry block itself is `val.obj` (the value is the first member of struct entry_s). -/
structure MEntry where
  key : Nat                 -- block of the normalised key (the hash key)
  orig : Nat                -- block of the original spelling
  keyStr : Str
  origStr : Str
  hashv : Nat
  val : Owned
deriving Repr

/-- uthash's bookkeeping as far as it decides about allocations -/
structure UT where
  tbl : Nat                       -- block of the UT_hash_table
  bkts : Nat                      -- block of the current bucket array
  log2 : Nat                      -- log2_num_buckets
  mult : List (Nat × Nat) := []   -- (bucket index, expand_mult) where that is not 0
  noexpand : Bool := false
  ineff : Nat := 0                -- ineff_expands
deriving Repr

structure MapSt where
  ut : Option UT := none          -- none ⇔ head == NULL
  entries : List MEntry := []     -- in insertion ("application") order
deriving Repr

def MEntry.ids (e : MEntry) : List Nat := e.key :: e.orig :: e.val.ids

def mentriesIds : List MEntry → List Nat
  | [] => []
  | e :: es => e.ids ++ mentriesIds es

def UT.ids (u : UT) : List Nat := [u.tbl, u.bkts]

def MapSt.ids (m : MapSt) : List Nat := (match m.ut with | some u => u.ids | none => []) ++ mentriesIds m.entries

def multOf (u : UT) (b : Nat) : Nat :=
  match u.mult.find? (fun p => p.1 == b) with
  | some p => p.2
  | none => 0

def bucketCount (log2 : Nat) (es : List MEntry) (b : Nat) : Nat :=
  (es.filter (fun e => e.hashv % 2 ^ log2 == b)).length

/-- outcome of HASH_ADD_KEYPTR -/
inductive AddRes
  | ok (m : MapSt)
  | fatal (fresh : List Nat)     -- uthash_fatal was raised; `fresh`: what HASH_MAKE_TABLE obtained in this very call
                                 -- (bucket array first, then the table header: the order in which HASH_DEL releases them)
deriving Repr

/-- HASH_EXPAND_BUCKETS bookkeeping for the doubled bucket array: (expand_mult list, nonideal_items) -/
def expandStats (log2 : Nat) (es : List MEntry) : List (Nat × Nat) × Nat :=
  let n := es.length                                                  -- num_items (already counts the new item)
  let ideal := n / 2 ^ (log2 + 1) + (if n % 2 ^ (log2 + 1) ≠ 0 then 1 else 0)
  (List.range (2 ^ (log2 + 1))).foldl (fun (acc : List (Nat × Nat) × Nat) b =>
    let c := bucketCount (log2 + 1) es b
    if c > ideal then ((b, c / ideal) :: acc.1, acc.2 + (c - ideal)) else acc) ([], 0)

/-- the part of HASH_ADD_KEYPTR after the table exists: `num_items++`, HASH_ADD_TO_BKT with its expansion test.
    `es` already contains the new entry `e`. -/
def addToBkt (failAt : Nat) (u : UT) (es : List MEntry) (e : MEntry) (fresh : List Nat) (s : St) : AddRes × St :=
  let b := e.hashv % 2 ^ u.log2
  if bucketCount u.log2 es b ≥ (multOf u b + 1) * Uthash.bktCapacityThresh ∧ u.noexpand = false then
    match alloc failAt s with                                     -- uthash_malloc(2 * num_buckets * sizeof(UT_hash_bucket))
    | (none, s') => (.fatal fresh, s')
    | (some nb, s') =>
      let st := expandStats u.log2 es
      let ineff := if st.2 > es.length / 2 then u.ineff + 1 else 0
      (.ok { ut := some { tbl := u.tbl, bkts := nb, log2 := u.log2 + 1, mult := st.1, ineff := ineff,
                          noexpand := u.noexpand || decide (ineff > 1) },
             entries := es },
       free u.bkts s')                                            -- uthash_free(tbl->buckets)
  else (.ok { ut := some u, entries := es }, s)

/-- HASH_ADD_KEYPTR(hh, map->head, key, keylen, item) -/
def hashAdd (failAt : Nat) (m : MapSt) (e : MEntry) (s : St) : AddRes × St :=
  match m.ut with
  | some u => addToBkt failAt u (m.entries ++ [e]) e [] s
  | none =>                                                       -- head == NULL: head = item; HASH_MAKE_TABLE
    match alloc failAt s with                                     -- uthash_malloc(sizeof(UT_hash_table))
    | (none, s1) => (.fatal [], s1)
    | (some t, s1) =>
      match alloc failAt s1 with                                  -- uthash_malloc(HASH_INITIAL_NUM_BUCKETS * sizeof(UT_hash_bucket))
      | (none, s2) => (.fatal [t], s2)
      | (some b, s2) => addToBkt failAt { tbl := t, bkts := b, log2 := Uthash.initialLog2 } (m.entries ++ [e]) e [b, t] s2

/-- take the entry with the given normalised key out of the list (HASH_FIND + position), keeping the order -/
def extract (k : Str) : List MEntry → Option (MEntry × List MEntry)
  | [] => none
  | e :: es =>
    if e.keyStr = k then some (e, es)
    else match extract k es with
      | some (x, rest) => some (x, e :: rest)
      | none => none

/-- replace the entry with the given normalised key, in place -/
def replaceEntry (k : Str) (e' : MEntry) : List MEntry → List MEntry
  | [] => []
  | e :: es => if e.keyStr = k then e' :: es else e :: replaceEntry k e' es

/-- HASH_DELETE of an item that has been taken out as `(e, rest)`: the last remaining item releases the bucket array
    and the table header -/
def hashDel (m : MapSt) (rest : List MEntry) (s : St) : MapSt × St :=
  if rest.isEmpty then
    match m.ut with
    | some u => ({ ut := none, entries := [] }, free u.tbl (free u.bkts s))
    | none => ({ ut := none, entries := [] }, s)
  else ({ m with entries := rest }, s)

/-- cif_map_entry_free_internal for a stand-alone map: free(key) (key != key_orig), free(key_orig), cif_value_free -/
def freeMEntry (e : MEntry) (s : St) : St := freeOwned e.val (free e.orig (free e.key s))

/-- cif_map_clean / cif_table_value_clean: HASH_ITER in insertion order: HASH_DEL, then free the entry -/
def mapClean (u : Option UT) : List MEntry → St → St
  | [], s => s
  | e :: es, s =>
    let s := if es.isEmpty then (match u with | some u => free u.tbl (free u.bkts s) | none => s) else s
    mapClean u es (freeMEntry e s)

/-- which normaliser the map uses -/
inductive MapKind
  | table      -- cif_normalize_table_index: one buffer (NFC)
  | packet     -- cif_normalize_item_name: three buffers (see `normalize`)
deriving Repr, DecidableEq

/-- `(*map->normalizer)(key, -1, &key_norm, code)` for a valid key that does not grow under normalisation -/
def normKey (failAt : Nat) (kind : MapKind) (s : St) : Option Nat × St :=
  match kind with
  | .table => alloc failAt s
  | .packet => normalize failAt s

/-- the same value with another object block (struct copy `**clone = *scratch`) -/
def Owned.withObj : Owned → Nat → Owned
  | .scalar _, o => .scalar o
  | .chr _ t, o => .chr o t
  | .numb _ t d su, o => .numb o t d su
  | .lst _ a es, o => .lst o a es

/-- CIF_NOSUCH_ITEM -/
def NOSUCH_ITEM : Nat := 43

/-- result of a map operation -/
structure MapRes where
  rc : Nat
  map : MapSt
  /-- the call has returned, but the map is left with an entry that has been released (a dangling `head`, list link or
      bucket chain link): every later use of the map, even freeing it, is undefined behaviour -/
  corrupt : Bool := false
  /-- blocks obtained in the call that nobody owns any more -/
  leaked : List Nat := []
  /-- for remove with `value != NULL`: the blocks handed to the caller (the entry object with its value) -/
  handed : List Nat := []
deriving Repr

/-- `cif_value_clone(value, &target)` onto the value embedded in an entry (`*clone != NULL`): scratch clone, clean the
    target, move, free the scratch object.  Returns the new embedded value. -/
def cloneOnto (failAt : Nat) (target : Owned) (sh : Shape) (s : St) : Option Owned × St :=
  match clone failAt sh s with
  | (none, s') => (none, s')
  | (some o, s') => (some (o.withObj target.obj), free o.obj (cleanOwned target s'))

/-- cif_map_set_item, the branch "there is an existing item for the given key" (`e`, found by HASH_FIND); `kn` = the
    block of the normalised key, released at the end in any case.  When the spelling differs (`different_key`) the item
    is respelled BEFORE the value is cloned: if that clone then fails, the call fails but the item keeps the new
    spelling (whose copy belongs to the item: it is not lost). -/
def mapSetExisting (failAt : Nat) (m : MapSt) (key keyNorm : Str) (e : MEntry) (value : Option Shape) (kn : Nat)
    (s1 : St) : MapRes × St :=
  if key = e.origStr then
    match value with
    | none => ({ rc := OK, map := { m with entries := replaceEntry keyNorm { e with val := .scalar e.val.obj } m.entries } },
               free kn (cleanOwned e.val s1))
    | some sh =>
      match cloneOnto failAt e.val sh s1 with
      | (none, s2) => ({ rc := MEMORY_ERROR, map := m }, free kn s2)
      | (some v, s2) => ({ rc := OK, map := { m with entries := replaceEntry keyNorm { e with val := v } m.entries } }, free kn s2)
  else
    match alloc failAt s1 with                                    -- key_orig = cif_u_strdup(key)
    | (none, s2) => ({ rc := MEMORY_ERROR, map := m }, free kn s2)
    | (some o, s2) =>
      let e1 := { e with orig := o, origStr := key }
      let s2 := free e.orig s2                                     -- free(item->key_orig): the item is respelled from here on
      match value with
      | none => ({ rc := OK, map := { m with entries := replaceEntry keyNorm { e1 with val := .scalar e.val.obj } m.entries } },
                 free kn (cleanOwned e.val s2))
      | some sh =>
        match cloneOnto failAt e.val sh s2 with
        | (none, s3) => ({ rc := MEMORY_ERROR, map := { m with entries := replaceEntry keyNorm e1 m.entries } }, free kn s3)
        | (some v, s3) => ({ rc := OK, map := { m with entries := replaceEntry keyNorm { e1 with val := v } m.entries } }, free kn s3)

/-- the value of a new entry whose block is `ent`: `new_value->kind = CIF_UNK_KIND; (value == NULL) || cif_value_clone(…)` -/
def newValue (failAt : Nat) (ent : Nat) (value : Option Shape) (s : St) : Option Owned × St :=
  match value with
  | none => (some (.scalar ent), s)
  | some sh => cloneOnto failAt (.scalar ent) sh s

/-- cif_map_set_item, the branch "this will be a new item for the map".  `fixed = false` is the code AS IT IS: when
    uthash_fatal is raised inside HASH_ADD_KEYPTR the handler releases the new entry although uthash has already linked
    it (as `head`, or into the item list and a bucket chain), never cleans its cloned value and never releases what
    HASH_MAKE_TABLE obtained for a first entry.  `fixed = true`: the handler first undoes the insertion (HASH_DEL, or
    resetting a table-less head) and cleans the value. -/
def mapSetNew (fixed : Bool) (failAt : Nat) (m : MapSt) (key keyNorm : Str) (value : Option Shape) (kn : Nat)
    (s1 : St) : MapRes × St :=
  match alloc failAt s1 with                                      -- item = malloc(sizeof(struct entry_s))
  | (none, s2) => ({ rc := MEMORY_ERROR, map := m }, free kn s2)
  | (some ent, s2) =>
    match alloc failAt s2 with                                    -- key_copy = cif_u_strdup(key)
    | (none, s3) => ({ rc := MEMORY_ERROR, map := m }, free kn (free ent s3))
    | (some kc, s3) =>
      match newValue failAt ent value s3 with
      | (none, s4) => ({ rc := MEMORY_ERROR, map := m }, free kn (free ent (free kc s4)))
      | (some v, s4) =>
        match hashAdd failAt m { key := kn, orig := kc, keyStr := keyNorm, origStr := key,
                                 hashv := hashJen (keyBytes keyNorm), val := v } s4 with
        | (.ok m', s5) => ({ rc := OK, map := m' }, s5)
        | (.fatal t, s5) =>
          if fixed then
            -- undo the insertion (HASH_DEL of an only item releases what HASH_MAKE_TABLE obtained), clean the value,
            -- then the handler
            ({ rc := MEMORY_ERROR, map := m }, free kn (free ent (free kc (cleanOwned v (freeAll t s5)))))
          else
            ({ rc := MEMORY_ERROR, map := m, corrupt := true, leaked := v.parts ++ t }, free kn (free ent (free kc s5)))

/-- cif_map_set_item(map, key, value, code).  `key` = the spelling given, `keyNorm` = its normalised form, `value = none`
    = NULL (`value == existing_value` is not modelled: the value is a separate object). -/
def mapSet (fixed : Bool) (failAt : Nat) (kind : MapKind) (m : MapSt) (key keyNorm : Str) (value : Option Shape)
    (s : St) : MapRes × St :=
  match normKey failAt kind s with
  | (none, s1) => ({ rc := MEMORY_ERROR, map := m }, s1)
  | (some kn, s1) =>
    match extract keyNorm m.entries with
    | some (e, _) => mapSetExisting failAt m key keyNorm e value kn s1
    | none => mapSetNew fixed failAt m key keyNorm value kn s1

/-- cif_map_retrieve_item(map, key, value, do_remove = 1, code); `keep` = (value != NULL): the entry's value is handed
    to the caller, who releases it with cif_value_free (which frees the entry block) -/
def mapRemove (failAt : Nat) (kind : MapKind) (m : MapSt) (keyNorm : Str) (keep : Bool) (s : St) : MapRes × St :=
  match normKey failAt kind s with
  | (none, s1) => ({ rc := MEMORY_ERROR, map := m }, s1)
  | (some kn, s1) =>
    let s1 := free kn s1
    match extract keyNorm m.entries with
    | none => ({ rc := NOSUCH_ITEM, map := m }, s1)
    | some (e, rest) =>
      let (m', s2) := hashDel m rest s1
      if keep then ({ rc := OK, map := m', handed := e.val.ids }, free e.orig (free e.key s2))
      else ({ rc := OK, map := m' }, freeMEntry e s2)

/-- description of one entry of the source table of a clone -/
structure SrcEntry where
  keyStr : Str
  origStr : Str
  shape : Shape
deriving Repr

/-- the HASH_ITER loop of cif_value_clone_table; `tmp` = the map built so far.  On a failure other than uthash_fatal
    the partial entry is released and `cif_table_value_clean(&temp)` releases the map built so far.  On uthash_fatal the
    code as it is releases key_orig, key and the entry although the entry is linked into `temp`, and then walks `temp`
    (undefined behaviour); `fixed = true` undoes the insertion and cleans the value first. -/
def cloneEntries (fixed : Bool) (failAt : Nat) : List SrcEntry → MapSt → St → MapRes × St
  | [], tmp, s => ({ rc := OK, map := tmp }, s)
  | src :: rest, tmp, s =>
    match alloc failAt s with                                     -- new_entry = malloc(sizeof(struct entry_s))
    | (none, s1) => ({ rc := MEMORY_ERROR, map := {} }, mapClean tmp.ut tmp.entries s1)
    | (some ent, s1) =>
      match alloc failAt s1 with                                  -- cif_u_strdup(entry->key)
      | (none, s2) => ({ rc := MEMORY_ERROR, map := {} }, mapClean tmp.ut tmp.entries (free ent s2))
      | (some k, s2) =>
        match alloc failAt s2 with                                -- cif_u_strdup(entry->key_orig)
        | (none, s3) => ({ rc := MEMORY_ERROR, map := {} }, mapClean tmp.ut tmp.entries (free ent (free k s3)))
        | (some o, s3) =>
          match newValue failAt ent (some src.shape) s3 with
          | (none, s4) => ({ rc := MEMORY_ERROR, map := {} }, mapClean tmp.ut tmp.entries (free ent (free k (free o s4))))
          | (some v, s4) =>
            let e : MEntry := { key := k, orig := o, keyStr := src.keyStr, origStr := src.origStr,
                                hashv := hashJen (keyBytes src.keyStr), val := v }
            match hashAdd failAt tmp e s4 with
            | (.ok tmp', s5) => cloneEntries fixed failAt rest tmp' s5
            | (.fatal t, s5) =>
              if fixed then
                ({ rc := MEMORY_ERROR, map := {} },
                 mapClean tmp.ut tmp.entries (free ent (free k (free o (cleanOwned v (freeAll t s5))))))
              else
                -- the walk over `temp` that follows is undefined behaviour: the events stop here
                ({ rc := MEMORY_ERROR, map := tmp, corrupt := true, leaked := v.parts ++ t },
                 free ent (free k (free o s5)))

/-- `cif_value_clone(table, &clone)` with `*clone == NULL`: the value object, then cif_value_clone_table; on failure
    `free(to_free)`.  Returns the result and the value object's block. -/
def cloneTable (fixed : Bool) (failAt : Nat) (src : List SrcEntry) (s : St := {}) : MapRes × Option Nat × St :=
  match alloc failAt s with                                       -- cif_value_create(CIF_UNK_KIND, &temp)
  | (none, s1) => ({ rc := MEMORY_ERROR, map := {} }, none, s1)
  | (some obj, s1) =>
    match cloneEntries fixed failAt src {} s1 with
    | (r, s2) =>
      if r.rc = OK then (r, some obj, s2)
      else if r.corrupt then (r, some obj, s2)                     -- never gets as far as `free(to_free)`
      else (r, none, free obj s2)

-- ---------------------------------------------------------------------------------------------------------------
-- cif_value_deserialize of the blob of a TABLE value (cif_table_deserialize, as repaired by /repo 7285a53 and 2b403f6)
-- whose entries were made by cif_map_set_item (key and key_orig are two strings in the blob) and whose values are
-- `DShape`s; `dest` exists before the call.

/-- one serialised entry -/
structure BlobEntry where
  keyStr : Str
  shape : DShape
deriving Repr

/-- the `case 0` iterations of cif_table_deserialize; `tmp` = the temporary table built so far.  Failure handlers, in the
    order they fall through: `hash` (HASH_ADD_UNDO: release what HASH_MAKE_TABLE obtained / unlink; cif_value_free of the
    entry), `value` (free key_orig), `key_orig` (free key), `key` (cif_value_clean(&temp)). -/
def deserEntries (failAt : Nat) : List BlobEntry → MapSt → St → Option MapSt × St
  | [], tmp, s => (some tmp, s)
  | be :: rest, tmp, s =>
    match alloc failAt s with                                     -- DESERIALIZE_USTRING(key)
    | (none, s1) => (none, mapClean tmp.ut tmp.entries s1)
    | (some k, s1) =>
      match alloc failAt s1 with                                  -- DESERIALIZE_USTRING(key_orig)
      | (none, s2) => (none, mapClean tmp.ut tmp.entries (free k s2))
      | (some o, s2) =>
        match alloc failAt s2 with                                -- DESERIALIZE(struct entry_s …): malloc(sizeof(struct entry_s))
        | (none, s3) => (none, mapClean tmp.ut tmp.entries (free k (free o s3)))
        | (some ent, s3) =>
          match deserInto failAt ent be.shape s3 with             -- … and its value; on failure vfail releases the entry
          | (none, s4) => (none, mapClean tmp.ut tmp.entries (free k (free o s4)))
          | (some v, s4) =>
            let e : MEntry := { key := k, orig := o, keyStr := be.keyStr, origStr := be.keyStr,
                                hashv := hashJen (keyBytes be.keyStr), val := v }
            match hashAdd failAt tmp e s4 with
            | (.ok tmp', s5) => deserEntries failAt rest tmp' s5
            | (.fatal t, s5) =>
              (none, mapClean tmp.ut tmp.entries (free k (free o (freeOwned v (freeAll t s5)))))

/-- `cif_value_deserialize` of a table blob onto the existing object `dest`.  Returns (result code, the table `dest` now
    holds, final state). -/
def deserTable (failAt : Nat) (entries : List BlobEntry) (s : St := {}) : Nat × Option MapSt × St :=
  match deserEntries failAt entries {} s with
  | (some m, s') => (OK, some m, s')
  | (none, s') => (MEMORY_ERROR, none, s')

end CifModel.Model.Ladder
