import CifModel.Basic
/-
  CifModel.Model.Types — the types shared by all model modules (values, dialects, token types, the abstract
  data model).  Core Lean only.  FROZEN: other modules build on these definitions; do not change them.
-/
namespace CifModel

/-- which grammar the parser/writer applies (`scanner->cif_version` 1 or 2; `context->version`) -/
inductive Dialect | cif1 | cif2
deriving DecidableEq, Repr, Inhabited

/-- A CIF value object (`cif_value_tp`), as an immutable tree.
  * `chr quoted text`      — CIF_CHAR_KIND
  * `numb quoted text neg digits su scale` — CIF_NUMB_KIND with the fields of `struct numb_value_s`
      (`digits`/`su` are decimal digits 0-9 most significant first; `su = none` ⇔ `su_digits == NULL`)
  * `lst vs`               — CIF_LIST_KIND, elements in order
  * `tbl es`               — CIF_TABLE_KIND, entries `(key, keyOrig, value)` in insertion (enumeration) order,
                             `key` = normalised key used for matching, `keyOrig` = spelling reported by get_keys -/
inductive V where
  | unk
  | na
  | chr (quoted : Bool) (text : Str)
  | numb (quoted : Bool) (text : Str) (neg : Bool) (digits : List Nat) (su : Option (List Nat)) (scale : Int)
  | lst (vs : List V)
  | tbl (es : List (Str × Str × V))
deriving Repr, Inhabited

/-- `cif_kind_tp` numbering of cif.h: CHAR 0, NUMB 1, LIST 2, TABLE 3, NA 4, UNK 5 -/
def V.kindCode : V → Nat
  | .chr .. => 0 | .numb .. => 1 | .lst _ => 2 | .tbl _ => 3 | .na => 4 | .unk => 5

mutual
  /-- structural equality of values (Bool), by mutual structural recursion -/
  def V.beq : V → V → Bool
    | .unk, .unk => true
    | .na, .na => true
    | .chr q s, .chr q' s' => q == q' && s == s'
    | .numb q t n d su sc, .numb q' t' n' d' su' sc' => q == q' && t == t' && n == n' && d == d' && su == su' && sc == sc'
    | .lst vs, .lst ws => V.beqList vs ws
    | .tbl es, .tbl fs => V.beqEntries es fs
    | _, _ => false
  def V.beqList : List V → List V → Bool
    | [], [] => true
    | v :: vs, w :: ws => V.beq v w && V.beqList vs ws
    | _, _ => false
  def V.beqEntries : List (Str × Str × V) → List (Str × Str × V) → Bool
    | [], [] => true
    | (k, ko, v) :: es, (k', ko', w) :: fs => k == k' && ko == ko' && V.beq v w && V.beqEntries es fs
    | _, _ => false
end

instance : BEq V := ⟨V.beq⟩

/-- token types of `enum token_type` (internal/ciftypes.h), same order -/
inductive TokType
  | blockHead | frameHead | frameTerm | loopKw | name | otable | ctable | olist | clist
  | key | tkey | value | qvalue | tvalue | end_ | error
deriving DecidableEq, Repr, Inhabited

/-- The documented data model of a managed CIF (cif.h "data model"), used as the abstract state by the store
    model, and as the input of the walker and the writer.
  * a loop: optional category (`none` = NULL), item names in original spelling and loop order, packets — each a
    list with one value per item name, in the same order
  * a container: its code (original spelling), its save frames, its loops (in the order the store enumerates them) -/
structure Loop where
  category : Option Str
  names : List Str
  packets : List (List V)
deriving Repr, Inhabited

inductive Container where
  | mk (code : Str) (frames : List Container) (loops : List Loop)
deriving Repr, Inhabited

def Container.code : Container → Str | .mk c _ _ => c
def Container.frames : Container → List Container | .mk _ f _ => f
def Container.loops : Container → List Loop | .mk _ _ l => l

/-- a whole CIF: its data blocks in enumeration order -/
abbrev Cif := List Container

end CifModel
