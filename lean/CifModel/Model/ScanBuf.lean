import CifModel.Basic
import CifModel.Gen.ParseConsts
/-
  CifModel.Model.ScanBuf — the scan buffer of parser.c as `get_more_chars()` manages it, with every pointer of
  `scanner_s` as an offset into the buffer array: `buffer` (the array, `buffer_size` units, valid and stale units alike),
  `buffer_limit`, `next_char`, `text_start`, `tvalue_start`.

  `makeRoom` is the first half of get_more_chars() as written — three cases:
    * `chars_consumed >= buffer_limit`                    → the buffer is empty: reset every offset to 0;
    * `buffer_size < buffer_limit + BUF_MIN_FILL`          → make room: `current_chars = chars_read - chars_consumed`,
         `tvalue_diff = tvalue_start - text_start`;  if `current_chars * 2 < buffer_size` memmove the retained text to
         the front, else allocate a buffer of twice the size and memcpy the retained text FROM `text_start`;  then
         `text_start = buffer`, `tvalue_start = buffer + tvalue_diff`, `next_char = buffer + current_chars`,
         `buffer_limit = current_chars`;
    * otherwise                                            → append to what is buffered.
  `append` is the second half: the converted fill (Model.Fill.validUnits, `nread` units) lands at `buffer + buffer_limit`
  and `buffer_limit += nread`.  The number of units the read may ask for is `buffer_size - buffer_limit` (`room`).
-/
namespace CifModel.Model.ScanBuf
open CifModel.Gen

structure SB where
  buffer : Str            -- the whole array (`buffer.length = size`)
  size : Nat              -- buffer_size
  limit : Nat             -- buffer_limit
  next : Nat              -- next_char - buffer
  textStart : Nat         -- text_start - buffer
  tvalueStart : Nat       -- tvalue_start - buffer
deriving Repr, DecidableEq

/-- `0 ≤ text_start ≤ tvalue_start ≤ next_char ≤ buffer_limit ≤ buffer_size`, and the array has `buffer_size` units -/
def SB.Inv (b : SB) : Prop :=
  b.textStart ≤ b.tvalueStart ∧ b.tvalueStart ≤ b.next ∧ b.next ≤ b.limit ∧ b.limit ≤ b.size ∧ b.buffer.length = b.size

instance (b : SB) : Decidable b.Inv := by unfold SB.Inv; infer_instance

/-- the text of the token being scanned: from `text_start` to `next_char` -/
def SB.tokenText (b : SB) : Str := (b.buffer.drop b.textStart).take (b.next - b.textStart)

/-- where the token's value starts within its text: `tvalue_start - text_start` -/
def SB.tvalueOffset (b : SB) : Nat := b.tvalueStart - b.textStart

/-- buffered but not yet scanned: from `next_char` to `buffer_limit` -/
def SB.unread (b : SB) : Str := (b.buffer.drop b.next).take (b.limit - b.next)

/-- `u_memmove(buffer, text_start, n)` / `memcpy(new_buffer, text_start, n)` into an array `dst` -/
def copyFront (dst : Str) (src : Str) (n : Nat) : Str := src.take n ++ dst.drop n

/-- which of the three cases of get_more_chars() applies -/
inductive Case | reset | move | double | append
deriving DecidableEq, Repr

def whichCase (minFill : Nat) (b : SB) : Case :=
  if b.textStart ≥ b.limit then .reset
  else if b.size < b.limit + minFill then
    (if (b.next - b.textStart) * 2 < b.size then .move else .double)
  else .append

/-- the first half of get_more_chars(): make room for the next fill -/
def makeRoom (minFill : Nat) (b : SB) : SB :=
  if b.textStart ≥ b.limit then
    { b with textStart := 0, tvalueStart := 0, next := 0, limit := 0 }
  else if b.size < b.limit + minFill then
    let current := b.next - b.textStart
    let tdiff := b.tvalueStart - b.textStart
    if current * 2 < b.size then
      { b with buffer := copyFront b.buffer (b.buffer.drop b.textStart) current,
               textStart := 0, tvalueStart := tdiff, next := current, limit := current }
    else
      { buffer := copyFront (List.replicate (b.size * 2) 0) (b.buffer.drop b.textStart) current,
        size := b.size * 2, textStart := 0, tvalueStart := tdiff, next := current, limit := current }
  else b

/-- how many units the read may ask for -/
def SB.room (b : SB) : Nat := b.size - b.limit

/-- the second half: `nread` converted units land at `buffer + buffer_limit` -/
def append (b : SB) (units : Str) : SB :=
  { b with buffer := b.buffer.take b.limit ++ units ++ b.buffer.drop (b.limit + units.length),
           limit := b.limit + units.length }

/-- the scan buffer right after `cif_parse_internal` allocated it -/
def SB.init (size : Nat) : SB := ⟨List.replicate size 0, size, 0, 0, 0, 0⟩

end CifModel.Model.ScanBuf
