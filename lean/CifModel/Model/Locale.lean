import CifModel.Basic
/-
  CifModel.Model.Locale — the numeric-locale save / switch / restore protocol of value.c (property C16: "calls leave
  process-wide state … as they found it").

  The process-wide state is the current LC_NUMERIC locale, an opaque name.  `setlocale(LC_NUMERIC, name)` may fail
  (returns NULL, state unchanged); `malloc` of the copy of the name may fail.  The three C functions are transcribed
  with those outcomes as explicit parameters (an arbitrary `Env`), so that the theorem quantifies over all of them:

    set_c_numeric_locale()      — query the current name, copy it, switch to "C"; NULL when anything fails
    cif_value_init_numb()       — argument check; enter "C"; body (formatting; never touches the locale); restore
    cif_value_autoinit_numb()   — argument check; exact numbers delegate to init_numb; otherwise enter "C", compute the
                                  scale, call init_numb (nested enter / restore), restore
-/
namespace CifModel.Model.Locale

/-- a locale name; `c` is the "C" locale -/
inductive Loc | c | other (id : Nat)
deriving DecidableEq, Repr

/-- the environment's answers for one call: which of the fallible steps succeed.  Indexed by the number of the step so
    that nested calls may see different answers. -/
structure Env where
  mallocOk : Nat → Bool       -- does the n-th copy of a locale name succeed?
  setCOk : Nat → Bool         -- does the n-th setlocale(LC_NUMERIC, "C") succeed?
  restoreOk : Nat → Bool      -- does the n-th restoring setlocale succeed?  (a locale that was current can be re-installed:
                              --  assumed true by the theorems, see `Restorable`)

/-- process state: the current numeric locale and counters of the fallible steps taken so far -/
structure St where
  cur : Loc
  nMalloc : Nat := 0
  nSetC : Nat := 0
  nRestore : Nat := 0
deriving Repr

/-- `set_c_numeric_locale`: returns the saved name (none = NULL) -/
def setCNumericLocale (e : Env) (s : St) : Option Loc × St :=
  -- const char *current = setlocale(LC_NUMERIC, NULL);   (query only; never NULL for a valid category)
  let saved := s.cur
  -- saved = malloc(strlen(current) + 1)
  let s1 := { s with nMalloc := s.nMalloc + 1 }
  if e.mallocOk s.nMalloc then
    -- if (setlocale(LC_NUMERIC, "C") == NULL) { free(saved); saved = NULL; }
    let s2 := { s1 with nSetC := s1.nSetC + 1 }
    if e.setCOk s1.nSetC then (some saved, { s2 with cur := .c }) else (none, s2)
  else (none, s1)

/-- `setlocale(LC_NUMERIC, locale); free(locale);` -/
def restore (e : Env) (saved : Loc) (s : St) : St :=
  let s1 := { s with nRestore := s.nRestore + 1 }
  if e.restoreOk s.nRestore then { s1 with cur := saved } else s1

/-- outcome of the formatting body of init_numb (it does not touch the locale) -/
inductive Body | ok | digitsOom | suOom | formatError
deriving DecidableEq, Repr

/-- `cif_value_init_numb`: returns (result code class, state).  0 = CIF_OK, 1 = CIF_ARGUMENT_ERROR, 2 = other error -/
def initNumb (e : Env) (argsValid : Bool) (body : Body) (s : St) : Nat × St :=
  if !argsValid then (1, s) else
  match setCNumericLocale e s with
  | (none, s') => (2, s')                                  -- `if (locale != NULL)` fails: FAILURE_TERMINUS
  | (some saved, s') =>
    match body with
    | .ok => (0, restore e saved s')                       -- success path: restore, free, return CIF_OK
    | _ => (2, restore e saved s')                         -- every failure path falls through to the common restore

/-- `cif_value_autoinit_numb` -/
def autoinitNumb (e : Env) (argsValid exact scaleComputed : Bool) (innerArgsValid : Bool) (body : Body) (s : St) : Nat × St :=
  if !argsValid then (1, s) else
  if exact then initNumb e innerArgsValid body s
  else
    match setCNumericLocale e s with
    | (none, s') => (2, s')
    | (some saved, s') =>
      if scaleComputed then
        let (rc, s'') := initNumb e innerArgsValid body s'
        (rc, restore e saved s'')
      else (2, restore e saved s')

end CifModel.Model.Locale
