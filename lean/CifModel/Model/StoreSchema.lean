import CifModel.Gen.Schema
import CifModel.Model.Store
/-
  CifModel.Model.StoreSchema — the facts about the relational schema, the SQL statements and the transaction macros that
  Model/Store.lean and Model/PktItr.lean were written against (literals written by tools/gen_storeschema.py when the model was last
  brought in line with the sources), and the LINK theorems: they equal what tools/translate_schema.py extracts from the CURRENT
  sources (Gen/Schema.lean, regenerated on every run).  A changed key, cascade clause, trigger, trigger message, CHECK, SQL statement
  or transaction macro use in /repo makes `decide` fail here — a broken proof obligation of C04/C05/C06/C17.
-/
namespace CifModel.Store.Assumed
open CifModel.Gen.Schema (Table FK Trigger S)

def tables : List Table := [
  { name := (a!"container"), cols := [(a!"id"), (a!"next_loop_num")],
    notNull := [(a!"next_loop_num")], pk := [(a!"id")], autoinc := true,
    uniques := [],
    fks := [],
    checks := [],
    defaults := [((a!"next_loop_num"), (a!"0"))] },
  { name := (a!"data_block"), cols := [(a!"container_id"), (a!"name"), (a!"name_orig")],
    notNull := [(a!"name"), (a!"name_orig")], pk := [(a!"container_id")], autoinc := false,
    uniques := [[(a!"name")]],
    fks := [{ cols := [(a!"container_id")], refTable := (a!"container"), refCols := [(a!"id")], cascade := true }],
    checks := [],
    defaults := [] },
  { name := (a!"save_frame"), cols := [(a!"container_id"), (a!"parent_id"), (a!"name"), (a!"name_orig")],
    notNull := [(a!"parent_id"), (a!"name"), (a!"name_orig")], pk := [(a!"container_id")], autoinc := false,
    uniques := [[(a!"parent_id"), (a!"name")]],
    fks := [{ cols := [(a!"container_id")], refTable := (a!"container"), refCols := [(a!"id")], cascade := true }, { cols := [(a!"parent_id")], refTable := (a!"container"), refCols := [(a!"id")], cascade := true }],
    checks := [(a!"container_id != parent_id")],
    defaults := [] },
  { name := (a!"loop"), cols := [(a!"container_id"), (a!"loop_num"), (a!"category"), (a!"last_row_num")],
    notNull := [(a!"container_id"), (a!"loop_num")], pk := [(a!"container_id"), (a!"loop_num")], autoinc := false,
    uniques := [],
    fks := [{ cols := [(a!"container_id")], refTable := (a!"container"), refCols := [(a!"id")], cascade := true }],
    checks := [(a!"loop_num >= 0")],
    defaults := [((a!"last_row_num"), (a!"0"))] },
  { name := (a!"loop_item"), cols := [(a!"container_id"), (a!"name"), (a!"name_orig"), (a!"loop_num")],
    notNull := [(a!"container_id"), (a!"name"), (a!"name_orig"), (a!"loop_num")], pk := [(a!"container_id"), (a!"name")], autoinc := false,
    uniques := [],
    fks := [{ cols := [(a!"container_id"), (a!"loop_num")], refTable := (a!"loop"), refCols := [(a!"container_id"), (a!"loop_num")], cascade := true }],
    checks := [],
    defaults := [] },
  { name := (a!"item_value"), cols := [(a!"container_id"), (a!"name"), (a!"row_num"), (a!"kind"), (a!"quoted"), (a!"val"), (a!"val_text"), (a!"val_digits"), (a!"su_digits"), (a!"scale")],
    notNull := [(a!"container_id"), (a!"name"), (a!"row_num")], pk := [(a!"container_id"), (a!"name"), (a!"row_num")], autoinc := false,
    uniques := [],
    fks := [{ cols := [(a!"container_id"), (a!"name")], refTable := (a!"loop_item"), refCols := [(a!"container_id"), (a!"name")], cascade := true }],
    checks := [(a!"row_num > 0"), (a!"case when (val is null) then kind in (4, 5) else kind in (0, 1, 2, 3) end"), (a!"(val_text is null) = (kind not in (0, 1))"), (a!"case when (kind = 1) then (scale is not null) and (length(val_digits) > 0) and (val_digits not glob '*[^0-9]*') and ((su_digits is null) or ((length(su_digits) > 0) and (su_digits not glob '*[^0-9]*'))) else (coalesce(val_digits, su_digits, scale) is null) end")],
    defaults := [] }
]

def triggers : List Trigger := [
  { name := (a!"tr1_loop"), timing := (a!"before"), event := (a!"insert"), table := (a!"loop"),
    whenClause := (a!"NEW.category = ''"),
    body := (a!"select raise(ABORT, 'duplicate scalar loop') from loop where container_id = NEW.container_id and category = '';"),
    action := (a!"abort"), msg := some (a!"duplicate scalar loop") },
  { name := (a!"tr2_loop"), timing := (a!"before"), event := (a!"update of category"), table := (a!"loop"),
    whenClause := (a!"(NEW.category = '') and (OLD.category is not '')"),
    body := (a!"select raise(ABORT, 'duplicate scalar loop') from loop where container_id = NEW.container_id and category = '';"),
    action := (a!"abort"), msg := some (a!"duplicate scalar loop") },
  { name := (a!"tr3_loop"), timing := (a!"before"), event := (a!"insert"), table := (a!"loop"),
    whenClause := (a!"NEW.category = '' and (coalesce(NEW.last_row_num, 0) != 0)"),
    body := (a!"select raise(ABORT, 'Attempted to create multiple values for a scalar');"),
    action := (a!"abort"), msg := some (a!"Attempted to create multiple values for a scalar") },
  { name := (a!"tr4_loop"), timing := (a!"before"), event := (a!"update"), table := (a!"loop"),
    whenClause := (a!"NEW.category = '' and (coalesce(NEW.last_row_num, 0) > 1)"),
    body := (a!"select raise(ABORT, 'Attempted to create multiple values for a scalar');"),
    action := (a!"abort"), msg := some (a!"Attempted to create multiple values for a scalar") },
  { name := (a!"tr1_unnumbered_loop"), timing := (a!"instead of"), event := (a!"insert"), table := (a!"unnumbered_loop"),
    whenClause := (a!""),
    body := (a!"insert into loop(container_id, loop_num, category) values (NEW.container_id, (select next_loop_num from container where id = NEW.container_id), NEW.category); update container set next_loop_num = next_loop_num + 1 where id = NEW.container_id;"),
    action := (a!""), msg := none }
]

def others : List S := [
  (a!"create index ix1_loop on loop (category, container_id)"),
  (a!"create view unnumbered_loop as select container_id, category from loop"),
  (a!"create index ix1_loop_item on loop_item (container_id, loop_num)")
]

def sql : List (S × S) := [
  ((a!"ENABLE_FKS_SQL"), (a!"pragma foreign_keys = 'on'; pragma foreign_keys")),
  ((a!"CREATE_BLOCK_SQL"), (a!"insert into data_block(container_id, name, name_orig) values (?, ?, ?)")),
  ((a!"GET_BLOCK_SQL"), (a!"select container_id as id, name_orig from data_block where name = ?")),
  ((a!"GET_ALL_BLOCKS_SQL"), (a!"select container_id as id, name, name_orig from data_block")),
  ((a!"CREATE_FRAME_SQL"), (a!"insert into save_frame(container_id, parent_id, name, name_orig) values (?, ?, ?, ?)")),
  ((a!"GET_FRAME_SQL"), (a!"select container_id as id, name_orig from save_frame where parent_id = ? and name = ?")),
  ((a!"GET_ALL_FRAMES_SQL"), (a!"select container_id as id, name, name_orig from save_frame where parent_id = ?")),
  ((a!"VALIDATE_CONTAINER_SQL"), (a!"select 1 from container where id = ?")),
  ((a!"DESTROY_CONTAINER_SQL"), (a!"delete from container where id = ?")),
  ((a!"CREATE_LOOP_SQL"), (a!"insert into unnumbered_loop (container_id, category) values (?, ?)")),
  ((a!"DESTROY_LOOP_SQL"), (a!"delete from loop where container_id = ? and loop_num = ?")),
  ((a!"GET_LOOPNUM_SQL"), (a!"select max(loop_num) from loop where container_id = ?")),
  ((a!"SET_CATEGORY_SQL"), (a!"update loop set category = ? where container_id = ? and loop_num = ?")),
  ((a!"GET_CAT_LOOP_SQL"), (a!"select loop_num from loop where container_id = ? and category = ?")),
  ((a!"GET_ITEM_LOOP_SQL"), (a!"select l.loop_num, l.category from loop l join loop_item li on l.container_id = li.container_id and l.loop_num = li.loop_num where li.container_id = ? and li.name = ?")),
  ((a!"GET_ALL_LOOPS_SQL"), (a!"select loop_num, category from loop where container_id = ?")),
  ((a!"PRUNE_SQL"), (a!"delete from loop where container_id = ? and loop_num not in (select distinct loop_num from loop_item li join item_value using (container_id, name) where container_id = ?1)")),
  ((a!"SET_ALL_VALUES_SQL"), (a!"insert or replace into item_value (kind, quoted, val_text, val, val_digits, su_digits, scale, container_id, name, row_num) select ?, ?, ?, ?, ?, ?, ?, ?, ?, loop_row.row_num from (select distinct iv.row_num as row_num from loop_item li1 join loop_item li2 on li1.container_id = li2.container_id and li1.loop_num = li2.loop_num join item_value iv on li2.container_id = iv.container_id and li2.name = iv.name where li1.container_id = ?8 and li1.name = ?9) loop_row")),
  ((a!"GET_LOOP_SIZE_SQL"), (a!"select loop_num, count(*) as size from loop_item li1 join loop_item li2 using (container_id, loop_num) where li1.container_id = ? and li1.name = ? group by loop_num")),
  ((a!"COUNT_LOOP_PACKETS_SQL"), (a!"select count(*) as packet_count from (select distinct iv.row_num from loop_item li join item_value iv on li.container_id = iv.container_id and li.name = iv.name where li.container_id = ? and li.loop_num = ?)")),
  ((a!"REMOVE_ITEM_SQL"), (a!"delete from loop_item where container_id = ? and name = ?")),
  ((a!"GET_LOOP_NAMES_SQL"), (a!"select name_orig from loop_item where container_id = ? and loop_num = ?")),
  ((a!"CHECK_ITEM_LOOP_SQL"), (a!"select 1 from loop_item where container_id = ? and name = ? and loop_num = ?")),
  ((a!"GET_PACKET_NUM_SQL"), (a!"select last_row_num from loop where container_id = ? and loop_num = ?")),
  ((a!"UPDATE_PACKET_NUM_SQL"), (a!"update loop set last_row_num = last_row_num + 1 where container_id = ? and loop_num = ?")),
  ((a!"RESET_PACKET_NUM_SQL"), (a!"update loop set last_row_num = 0 where container_id = ? and loop_num = ?")),
  ((a!"ADD_LOOP_ITEM_SQL"), (a!"insert into loop_item (container_id, name, name_orig, loop_num) values (?, ?, ?, ?)")),
  ((a!"INSERT_VALUE_SQL"), (a!"insert into item_value (container_id, name, row_num, kind, quoted, val_text, val, val_digits, su_digits, scale) values (?, ?, ?, ?, ?, ?, ?, ?, ?, ?)")),
  ((a!"FILL_PACKET_SQL"), (a!"insert or ignore into item_value (container_id, name, row_num, kind) select container_id, name, ?3, 5 from loop_item where container_id = ?1 and loop_num = ?2")),
  ((a!"UPDATE_VALUE_SQL"), (a!"insert or replace into item_value (container_id, name, row_num, kind, quoted, val_text, val, val_digits, su_digits, scale) values (?, ?, ?, ?, ?, ?, ?, ?, ?, ?)")),
  ((a!"GET_VALUE_SQL"), (a!"select kind, quoted, val, val_text, val_digits, su_digits, scale from item_value where container_id = ? and name = ?")),
  ((a!"GET_LOOP_VALUES_SQL"), (a!"select iv.row_num, name, iv.kind, iv.quoted, iv.val, iv.val_text, iv.val_digits, iv.su_digits, iv.scale from loop_item li join item_value iv using (container_id, name) where li.container_id=? and li.loop_num=? order by iv.row_num")),
  ((a!"REMOVE_PACKET_SQL"), (a!"delete from item_value where container_id = ?1 and row_num = ?3 and name in (select name from loop_item where container_id = ?1 and loop_num = ?2)"))
]

def txMacroDefs : List (S × S) := [
  ((a!"BEGIN_NESTTX"), (a!"( (_top_tx = sqlite3_get_autocommit(db)), ((_top_tx == 0) ? SAVE(db) : BEGIN(db)) )")),
  ((a!"COMMIT_NESTTX"), (a!"((_top_tx == 0) ? RELEASE(db) : COMMIT(db))")),
  ((a!"ROLLBACK_NESTTX"), (a!"((_top_tx == 0) ? ROLLBACK_TO(db) : ROLLBACK(db))")),
  ((a!"ROLLBACK_TO"), [68, 69, 66, 85, 71, 95, 87, 82, 65, 80, 40, 40, 100, 98, 41, 44, 32, 115, 113, 108, 105, 116, 101, 51, 95, 101, 120, 101, 99, 40, 40, 100, 98, 41, 44, 32, 34, 114, 111, 108, 108, 98, 97, 99, 107, 32, 116, 111, 32, 115, 34, 44, 32, 78, 85, 76, 76, 44, 32, 78, 85, 76, 76, 44, 32, 78, 85, 76, 76, 41, 41]),
  ((a!"BEGIN"), [68, 69, 66, 85, 71, 95, 87, 82, 65, 80, 40, 40, 100, 98, 41, 44, 32, 115, 113, 108, 105, 116, 101, 51, 95, 101, 120, 101, 99, 40, 40, 100, 98, 41, 44, 32, 34, 98, 101, 103, 105, 110, 34, 44, 32, 78, 85, 76, 76, 44, 32, 78, 85, 76, 76, 44, 32, 78, 85, 76, 76, 41, 41]),
  ((a!"COMMIT"), [68, 69, 66, 85, 71, 95, 87, 82, 65, 80, 40, 40, 100, 98, 41, 44, 32, 115, 113, 108, 105, 116, 101, 51, 95, 101, 120, 101, 99, 40, 40, 100, 98, 41, 44, 32, 34, 99, 111, 109, 109, 105, 116, 34, 44, 32, 78, 85, 76, 76, 44, 32, 78, 85, 76, 76, 44, 32, 78, 85, 76, 76, 41, 41]),
  ((a!"ROLLBACK"), [68, 69, 66, 85, 71, 95, 87, 82, 65, 80, 40, 40, 100, 98, 41, 44, 32, 115, 113, 108, 105, 116, 101, 51, 95, 101, 120, 101, 99, 40, 40, 100, 98, 41, 44, 32, 34, 114, 111, 108, 108, 98, 97, 99, 107, 34, 44, 32, 78, 85, 76, 76, 44, 32, 78, 85, 76, 76, 44, 32, 78, 85, 76, 76, 41, 41]),
  ((a!"SAVE"), [68, 69, 66, 85, 71, 95, 87, 82, 65, 80, 40, 40, 100, 98, 41, 44, 32, 115, 113, 108, 105, 116, 101, 51, 95, 101, 120, 101, 99, 40, 40, 100, 98, 41, 44, 32, 34, 115, 97, 118, 101, 112, 111, 105, 110, 116, 32, 115, 34, 44, 32, 78, 85, 76, 76, 44, 32, 78, 85, 76, 76, 44, 32, 78, 85, 76, 76, 41, 41]),
  ((a!"RELEASE"), [68, 69, 66, 85, 71, 95, 87, 82, 65, 80, 40, 40, 100, 98, 41, 44, 32, 115, 113, 108, 105, 116, 101, 51, 95, 101, 120, 101, 99, 40, 40, 100, 98, 41, 44, 32, 34, 114, 101, 108, 101, 97, 115, 101, 32, 115, 34, 44, 32, 78, 85, 76, 76, 44, 32, 78, 85, 76, 76, 44, 32, 78, 85, 76, 76, 41, 41])
]

/-- per function: the transaction macros in source order.  The model's bracketing (`Store.nest`: BEGIN_NESTTX, then
    COMMIT_NESTTX on the success path and ROLLBACK_NESTTX on every failure path; BEGIN … COMMIT / ROLLBACK in set_value,
    remove_item, create_block/frame; SAVE … RELEASE / ROLLBACK_TO in the iterator) was read off these uses. -/
def txUses : List (S × List S) := [
  ((a!"cif_create"), [(a!"BEGIN"), (a!"COMMIT"), (a!"ROLLBACK")]),
  ((a!"cif_destroy"), [(a!"ROLLBACK")]),
  ((a!"cif_create_block_internal"), [(a!"BEGIN"), (a!"COMMIT"), (a!"ROLLBACK")]),
  ((a!"cif_container_create_loop_internal"), [(a!"BEGIN_NESTTX"), (a!"COMMIT_NESTTX"), (a!"ROLLBACK_NESTTX")]),
  ((a!"cif_container_create_frame_internal"), [(a!"BEGIN"), (a!"COMMIT"), (a!"ROLLBACK")]),
  ((a!"cif_container_get_all_loops"), [(a!"BEGIN_NESTTX"), (a!"ROLLBACK_NESTTX"), (a!"ROLLBACK_NESTTX")]),
  ((a!"cif_container_set_value"), [(a!"BEGIN"), (a!"COMMIT"), (a!"ROLLBACK")]),
  ((a!"cif_container_remove_item"), [(a!"BEGIN"), (a!"ROLLBACK"), (a!"COMMIT"), (a!"ROLLBACK")]),
  ((a!"cif_loop_add_item_internal"), [(a!"BEGIN_NESTTX"), (a!"COMMIT_NESTTX"), (a!"ROLLBACK_NESTTX"), (a!"ROLLBACK_NESTTX")]),
  ((a!"cif_loop_add_packet"), [(a!"BEGIN_NESTTX"), (a!"COMMIT_NESTTX"), (a!"ROLLBACK_NESTTX"), (a!"ROLLBACK_NESTTX"), (a!"ROLLBACK_NESTTX")]),
  ((a!"cif_loop_get_packets"), [(a!"BEGIN"), (a!"ROLLBACK")]),
  ((a!"cif_loop_get_names_internal"), [(a!"BEGIN_NESTTX"), (a!"ROLLBACK_NESTTX"), (a!"ROLLBACK_NESTTX"), (a!"ROLLBACK_NESTTX")]),
  ((a!"cif_pktitr_close"), [(a!"COMMIT"), (a!"ROLLBACK")]),
  ((a!"cif_pktitr_abort"), [(a!"ROLLBACK")]),
  ((a!"cif_pktitr_update_packet"), [(a!"SAVE"), (a!"RELEASE"), (a!"ROLLBACK_TO")]),
  ((a!"cif_pktitr_remove_packet"), [(a!"SAVE"), (a!"RELEASE"), (a!"ROLLBACK_TO")])
]

end CifModel.Store.Assumed

namespace CifModel.Store
open CifModel.Gen

theorem schema_tables_link : Schema.tables = Assumed.tables := by decide +kernel
theorem schema_triggers_link : Schema.triggers = Assumed.triggers := by decide +kernel
theorem schema_others_link : Schema.others = Assumed.others := by decide +kernel
theorem schema_sql_link : Schema.sql = Assumed.sql := by decide +kernel
theorem schema_txmacros_link : Schema.txMacroDefs = Assumed.txMacroDefs := by decide +kernel
/-- the transaction-macro uses per function (C05's path table) -/
theorem C05_paths_link : Schema.txUses = Assumed.txUses := by decide +kernel

/-- the strings the C compares sqlite3_errmsg() with are the messages the triggers raise, and the model uses the same -/
theorem schema_messages_link :
    Schema.scalarErrmsg = scalarErrmsg ∧ Schema.multipleScalarMessage = multipleScalarMessage ∧
    (Schema.triggers.filterMap (·.msg)) = [msgDupScalar, msgDupScalar, msgMultiScalar, msgMultiScalar] ∧
    scalarErrmsg = msgDupScalar ∧ multipleScalarMessage = msgMultiScalar := by decide +kernel

end CifModel.Store
