import CifModel.Model.Numb
/-
  CifModel.Model.NumbLimbs — the base-10⁹ limb level of to_double() and to_digits() (src/value.c), as written:
  the `digits[]` work array with its `msd`/`lsd` indices, the right/left shift passes (long division / multiplication
  by a power of two, ≤ 28 bits per pass), `round_to_int`/`round_it`/`compare_half`/`is_zero` over limbs, and for
  to_digits the rounding inside a limb (`p10`), the carry propagation ("iteratively, if necessary") and the digit
  generation.  Core Lean only.

  The work array is a `List Nat` of the C array's length; index arithmetic is explicit.  A pass that would run past
  the end of the array (undefined behaviour in C) makes the model answer `none`.
  Refinement theorems (`Props/C10.lean`, `Lemmas/NumbLimb*.lean`): these functions compute what the exact-arithmetic
  level (`toDoubleBig`, `toDigitsBig` of Model/Numb.lean) computes.
-/
namespace CifModel.Model.NumbLimbs
open CifModel.Model.Numb

/-- `BIGNUM_DIGITS` of to_double (after fix e89d5d7) -/
def BIGNUM_DIGITS : Nat := 337
/-- to_digits: `DIG_PER_DBL + 1` limbs, units digit at index `UNITS_DIGIT` -/
def DIG_PER_DBL : Nat := 155
def UNITS_DIGIT : Nat := 34

/-- the natural number a limb list denotes (most significant limb first) -/
def natOfLimbs (l : List Nat) : Nat := l.foldl (fun a x => a * BBASE + x) 0

/-! ### one pass of long division / multiplication by `2^s` -/

/-- `dividend = remainder + *dig; *dig = dividend >> s; remainder = (dividend & mask) * BBASE` along the limbs,
    most significant first; the remainder is kept un-multiplied: `(quotient limbs, final remainder)` -/
def shrList (s : Nat) : Nat → List Nat → List Nat × Nat
  | r, [] => ([], r)
  | r, x :: xs => ((r * BBASE + x) / pow2 s :: (shrList s ((r * BBASE + x) % pow2 s) xs).1,
                   (shrList s ((r * BBASE + x) % pow2 s) xs).2)

/-- the loop goes on past `lsd` while the remainder is not zero: `(limbs written, limbs not reached)`;
    `none`: the end of the array was reached with a non-zero remainder -/
def shrTail (s : Nat) : Nat → List Nat → Option (List Nat × List Nat)
  | r, [] => if r = 0 then some ([], []) else none
  | r, x :: t =>
    if r = 0 then some ([], x :: t)
    else (shrTail s ((r * BBASE + x) % pow2 s) t).map (fun p => ((r * BBASE + x) / pow2 s :: p.1, p.2))

/-- `product = (*dig << s) + carry; *dig = product % BBASE; carry = product / BBASE` along the limbs,
    LEAST significant first -/
def shlList (s : Nat) : Nat → List Nat → List Nat × Nat
  | c, [] => ([], c)
  | c, x :: xs => ((x * pow2 s + c) % BBASE :: (shlList s ((x * pow2 s + c) / BBASE) xs).1,
                   (shlList s ((x * pow2 s + c) / BBASE) xs).2)

/-- the loop goes on past `msd` (towards index 0) while the carry is not zero; limbs least significant first -/
def shlTail (s : Nat) : Nat → List Nat → Option (List Nat × List Nat)
  | c, [] => if c = 0 then some ([], []) else none
  | c, x :: t =>
    if c = 0 then some ([], x :: t)
    else (shlTail s ((x * pow2 s + c) / BBASE) t).map (fun p => ((x * pow2 s + c) % BBASE :: p.1, p.2))

/-- the work array with the indices of its most and least significant limbs in use -/
structure Arr where
  digits : List Nat
  msd : Nat
  lsd : Nat
deriving Repr, DecidableEq, Inhabited

/-- `while (*msd == 0) msd += 1` -/
def skipUp : Nat → List Nat → Nat → Nat
  | 0, _, i => i
  | fuel + 1, ds, i => if ds.getD i 0 = 0 ∧ i + 1 < ds.length then skipUp fuel ds (i + 1) else i

/-- `while (*lsd == 0) lsd -= 1` -/
def skipDown : Nat → List Nat → Nat → Nat
  | 0, _, i => i
  | fuel + 1, ds, i => if ds.getD i 0 = 0 ∧ 0 < i then skipDown fuel ds (i - 1) else i

/-- one right-shift pass by `s` bits over `digits[msd .. lsd + extra]` and on while the remainder is non-zero
    (`extra = 0`: the `for` loop of to_double; `extra = 1`: the `do … while (work_dig++ <= lsd || …)` of to_digits);
    then `lsd = last limb written`, `while (*msd == 0) msd += 1` -/
def shrPass (extra s : Nat) (A : Arr) : Option Arr :=
  let n := A.lsd + 1 + extra - A.msd
  if A.digits.length < A.msd + n then none
  else
    let q := shrList s 0 ((A.digits.drop A.msd).take n)
    match shrTail s q.2 ((A.digits.drop A.msd).drop n) with
    | none => none
    | some p =>
      let ds := A.digits.take A.msd ++ q.1 ++ p.1 ++ p.2
      some { digits := ds, msd := skipUp ds.length ds A.msd, lsd := A.msd + n + p.1.length - 1 }

/-- one left-shift pass by `s` bits over `digits[msd .. lsd]` (from `lsd` downwards) and on while the carry is
    non-zero; then `msd = first limb written`, `while (*lsd == 0) lsd -= 1` -/
def shlPass (s : Nat) (A : Arr) : Option Arr :=
  let n := A.lsd + 1 - A.msd
  let q := shlList s 0 (((A.digits.drop A.msd).take n).reverse)
  match shlTail s q.2 ((A.digits.take A.msd).reverse) with
  | none => none
  | some p =>
    let ds := p.2.reverse ++ p.1.reverse ++ q.1.reverse ++ (A.digits.drop A.msd).drop n
    some { digits := ds, msd := A.msd - p.1.length, lsd := skipDown ds.length ds A.lsd }

/-! ### round_to_int / round_it / compare_half / is_zero -/

/-- `is_zero(check_value, work_dig, lsd)`: `check_value == 0` and all limbs after `work_dig` up to `lsd` are zero -/
def isZero (ds : List Nat) (checkValue i lsd : Nat) : Bool :=
  decide (checkValue = 0) && ((ds.drop (i + 1)).take (lsd - i)).all (· = 0)

/-- `compare_half(check_value, work_dig, lsd)`: -1 / 0 / 1 as `0 / 1 / 2` -/
def compareHalf (ds : List Nat) (checkValue i lsd : Nat) : Nat :=
  if checkValue < BBASE / 2 then 0
  else if checkValue = BBASE / 2 ∧ (i = lsd ∨ isZero ds (ds.getD (i + 1) 0) (i + 1) lsd) then 1
  else 2

/-- `round_it(negative, round_value, check_value, check_digit, lsd)` in the default rounding mode -/
def roundIt (ds : List Nat) (roundValue checkValue i lsd : Nat) : Nat :=
  match compareHalf ds checkValue i lsd with
  | 0 => roundValue
  | 1 => if roundValue % 2 = 1 then roundValue + 1 else roundValue      -- (round_value + 1) & ~1
  | _ => roundValue + 1

/-- `round_to_int(round_value, digits, units_digit, lsd)` -/
def roundToIntLimbs (ds : List Nat) (roundValue units lsd : Nat) : Nat :=
  if lsd < units + 1 then roundValue
  else (roundValue - roundValue % 2) + roundIt ds (roundValue % 2) (ds.getD (units + 1) 0) (units + 1) lsd

/-! ### to_double -/

/-- "read digits into the bignum": the limbs written, starting with a limb that takes `first` decimal digits; the last
    limb is filled up with zeroes; `exact` = the digits ended on a limb boundary (then `lsd` is the untouched limb
    behind the last one written) -/
def readStep (st : List Nat × Nat × Nat) (d : Nat) : List Nat × Nat × Nat :=
  if st.2.2 = 1 then (st.1 ++ [st.2.1 * 10 + d], 0, DDIG_PER_DIG) else (st.1, st.2.1 * 10 + d, st.2.2 - 1)

def readLimbs (sig : List Nat) (first : Nat) : List Nat × Bool :=
  let st := sig.foldl readStep ([], 0, first)
  if st.2.2 < DDIG_PER_DIG then (st.1 ++ [st.2.1 * pow10 st.2.2], false) else (st.1, true)

/-- the right-shift loop of to_double: `while (exponent < right_shift_max)` -/
def shrLoop : Nat → Arr → Int → Int → Option (Arr × Int)
  | 0, A, e, _ => some (A, e)
  | fuel + 1, A, e, rsMax =>
    if e < rsMax then
      match shrPass 0 (min BDIG_PER_DIG (rsMax - e).toNat) A with
      | none => none
      | some A' => shrLoop fuel A' (e + ((min BDIG_PER_DIG (rsMax - e).toNat : Nat) : Int)) rsMax
    else some (A, e)

/-- the left-shift loop: `while ((exponent > right_shift_max) && ((lsd - digits) > units_digit))` -/
def shlLoopL : Nat → Arr → Nat → Int → Int → Option (Arr × Int)
  | 0, A, _, e, _ => some (A, e)
  | fuel + 1, A, units, e, rsMax =>
    if rsMax < e ∧ units < A.lsd then
      match shlPass (min BDIG_PER_DIG (e - rsMax).toNat) A with
      | none => none
      | some A' => shlLoopL fuel A' units (e - ((min BDIG_PER_DIG (e - rsMax).toNat : Nat) : Int)) rsMax
    else some (A, e)

/-- `mantissa_bits`: the limbs `msd .. units_digit` as an integer -/
def mantissaOf (A : Arr) (units : Nat) : Nat := natOfLimbs ((A.digits.drop A.msd).take (units + 1 - A.msd))

/-- "compute the integer mantissa, applying a one-bit left shift if it turns out to be needed" -/
def mantLoopL : Nat → Arr → Nat → Int → Option (Arr × Int)
  | 0, A, _, e => some (A, e)
  | fuel + 1, A, units, e =>
    if pow2 52 ≤ mantissaOf A units ∨ A.lsd ≤ units then some (A, e)
    else
      match shlPass 1 A with
      | none => none
      | some A' => mantLoopL fuel A' units (e - 1)

/-- "Determine which decimal digit positions may be needed": `units_digit = msp_max / DDIG_PER_DIG` -/
def unitsOf (msp rsMin rsMax : Int) : Nat :=
  (if rsMax > 0 then msp else if rsMin < 0 then msp + (2 - rsMin) / 3 else msp).toNat / DDIG_PER_DIG

/-- index of the limb that receives the first decimal digit -/
def startOf (units : Nat) (msp : Int) : Int :=
  (units : Int) + (if msp ≥ 0 then -((msp.toNat / DDIG_PER_DIG : Nat) : Int)
                    else (((DDIG_PER_DIG - 1 : Nat) : Int) - msp) / (DDIG_PER_DIG : Nat))

/-- number of decimal digits the first limb takes -/
def firstOf (msp : Int) : Nat :=
  if msp ≥ 0 then msp.toNat % DDIG_PER_DIG + 1 else DDIG_PER_DIG - ((-msp - 1).toNat % DDIG_PER_DIG)

/-- the work array after the digits have been read in; `none`: it does not fit -/
def initArr (sig2 : List Nat) (units : Nat) (msp : Int) : Option Arr :=
  if startOf units msp < 0 ∨ BIGNUM_DIGITS < (startOf units msp).toNat + (readLimbs sig2 (firstOf msp)).1.length + 1 then none
  else
    some { digits := List.replicate (startOf units msp).toNat 0 ++ (readLimbs sig2 (firstOf msp)).1
              ++ List.replicate (BIGNUM_DIGITS - (startOf units msp).toNat - (readLimbs sig2 (firstOf msp)).1.length) 0
           msd := (startOf units msp).toNat
           lsd := (startOf units msp).toNat + (readLimbs sig2 (firstOf msp)).1.length
                    - (if (readLimbs sig2 (firstOf msp)).2 then 0 else 1) }

/-- "scale the significand to use DBL_MANT_DIG radix-FLT_RADIX integer digits" -/
def scaleL (A0 : Arr) (units : Nat) (rsMax : Int) : Option (Arr × Int) :=
  if 0 < rsMax then shrLoop 64 A0 0 rsMax
  else if rsMax < 0 then shlLoopL 64 A0 units 0 rsMax
  else some (A0, 0)

/-- rounding, carry to 2⁵³, `ldexp` -/
def finishL (A2 : Arr) (units : Nat) (e2 : Int) : Dbl :=
  if pow2 53 - 1 < roundToIntLimbs A2.digits (mantissaOf A2 units) units A2.lsd then ldexpNat false 1 (e2 + (DBL_MANT_DIG : Nat))
  else ldexpNat false (roundToIntLimbs A2.digits (mantissaOf A2 units) units A2.lsd) e2

/-- everything after the digits have been read in -/
def limbRun (A0 : Arr) (units : Nat) (rsMax : Int) : Option Dbl :=
  match scaleL A0 units rsMax with
  | none => none
  | some s =>
    match mantLoopL 64 s.1 units s.2 with
    | none => none
    | some m => some (finishL m.1 units m.2)

/-- the bignum part of to_double for the significant digits `sig2` with most significant place `msp`, leading digit `d0` -/
def limbTail (sig2 : List Nat) (msp : Int) (d0 : Nat) : Option Dbl :=
  let ud := if msp ≥ 0 then 1 else pow10 (-msp).toNat
  let rsMin : Int := 1 + flog2Rat (if msp ≥ 0 then d0 * pow10 msp.toNat else d0) ud - (DBL_MANT_DIG : Nat)
  let rsMax : Int := 1 + flog2Rat (if msp ≥ 0 then (d0 + 1) * pow10 msp.toNat else d0 + 1) ud - (DBL_MANT_DIG : Nat)
  match initArr sig2 (unitsOf msp rsMin rsMax) msp with
  | none => none
  | some A0 => limbRun A0 (unitsOf msp rsMin rsMax) rsMax

/-- `to_double(ddigits, scale)` at the limb level; `none` = the work array would be overrun -/
def toDoubleLimbs (ds0 : List Nat) (scale : Int) : Option Dbl :=
  let ds := ds0.dropWhile (· = 0)
  if ds = [] then some (.fin false 0 0)
  else
    let lsp0 : Int := -scale
    let msp : Int := lsp0 + ((ds.length - 1 : Nat) : Int)
    let sig := (ds.reverse.dropWhile (· = 0)).reverse
    let long : Bool := decide (msp - (lsp0 + ((ds.length - sig.length : Nat) : Int)) ≥ (CIF_LINE_LENGTH : Nat))
    let sig2 := if long then sig.take CIF_LINE_LENGTH else sig
    if msp > DBL_MAX_10_EXP then some (.inf false)
    else if msp ≤ DBL_MIN_10_EXP - (DBL_DIG : Nat) then some (.fin false 0 0)
    else limbTail sig2 msp (ds.headD 1)

/-! ### to_digits -/

/-- limbs of a natural number, least significant first (`*(msd--) = fraction % BBASE; fraction /= BBASE`) -/
def limbsOfNat : Nat → Nat → List Nat
  | 0, _ => []
  | fuel + 1, n => if n = 0 then [] else n % BBASE :: limbsOfNat fuel (n / BBASE)

/-- `while (exponent < 0)` / `while (exponent > 0)`: passes of at most `BDIG_PER_DIG` bits -/
def digShr : Nat → Arr → Nat → Option Arr
  | 0, A, _ => some A
  | fuel + 1, A, k =>
    if k = 0 then some A
    else match shrPass 1 (min BDIG_PER_DIG k) A with
      | none => none
      | some A' => digShr fuel A' (k - min BDIG_PER_DIG k)

def digShl : Nat → Arr → Nat → Option Arr
  | 0, A, _ => some A
  | fuel + 1, A, k =>
    if k = 0 then some A
    else match shlPass (min BDIG_PER_DIG k) A with
      | none => none
      | some A' => digShl fuel A' (k - min BDIG_PER_DIG k)

/-- "Complete the rounding by applying any carry digit(s) -- iteratively, if necessary":
    `for (work_dig = lsd; *work_dig >= BBASE; ) { carry = *(work_dig--) / BBASE; *work_dig += carry; }`
    (the limb that overflowed keeps its value; only its low nine digits are printed): `(digits, work_dig)` -/
def carryLoop : Nat → List Nat → Nat → List Nat × Nat
  | 0, ds, i => (ds, i)
  | fuel + 1, ds, i =>
    if BBASE ≤ ds.getD i 0 ∧ 0 < i then
      carryLoop fuel (ds.set (i - 1) (ds.getD (i - 1) 0 + ds.getD i 0 / BBASE)) (i - 1)
    else (ds, i)

/-- the nine decimal digits of a limb (`*(work + j) = (*work_dig % 10) + '0'; *work_dig /= 10`), most significant
    first, `k` of them -/
def limbDigits : Nat → Nat → List Nat
  | 0, _ => []
  | k + 1, n => limbDigits k (n / 10) ++ [n % 10]

/-- number of decimal digits of the most significant limb, at least one -/
def countDigits (n : Nat) : Nat := (decDigits n).length

/-- the work array of to_digits after the 53-bit integer fraction `m·2^(53-bitLen m)` has been stored
    (`*(msd--) = fraction % BBASE`), with `lsd` on its least significant non-zero limb -/
def digInit (m : Nat) : Arr :=
  let fl := (limbsOfNat 8 (m * pow2 (53 - bitLen m))).reverse
  let ds0 := List.replicate (UNITS_DIGIT + 1 - fl.length) 0 ++ fl ++ List.replicate (DIG_PER_DBL - UNITS_DIGIT) 0
  { digits := ds0, msd := UNITS_DIGIT + 1 - fl.length, lsd := skipDown (DIG_PER_DBL + 1) ds0 UNITS_DIGIT }

/-- the binary exponent that goes with the integer fraction (frexp/ldexp are exact) -/
def digExp (m : Nat) (e : Int) : Int := e - ((53 - bitLen m : Nat) : Int)

/-- "apply the binary exponent" -/
def digShift (m : Nat) (e : Int) : Option Arr :=
  if digExp m e < 0 then digShr 64 (digInit m) (-(digExp m e)).toNat else digShl 64 (digInit m) (digExp m e).toNat

/-- `round_digit = UNITS_DIGIT + (scale <= 0 ? -((-scale) / 9) : (scale + 8) / 9)` -/
def roundDigitOf (scale : Int) : Int :=
  if scale ≤ 0 then (UNITS_DIGIT : Int) - (((-scale).toNat / DDIG_PER_DIG : Nat) : Int)
  else (UNITS_DIGIT : Int) + (((scale.toNat + DDIG_PER_DIG - 1) / DDIG_PER_DIG : Nat) : Int)

/-- `round_pos = (-scale) % 9`, made non-negative -/
def roundPosOf (scale : Int) : Nat := ((-scale) % (DDIG_PER_DIG : Int)).toNat

/-- the rounding step inside limb `r` at decimal position `rp`: "capture the first few insignificant digits, and
    clear them from the result if necessary", `digits[round_digit] = p10 * round_it(…)` -/
def roundStep (A : Arr) (r rp : Nat) : List Nat :=
  (if rp = 0 then A.digits else A.digits.set r (A.digits.getD r 0 - A.digits.getD r 0 % pow10 rp)).set r
    (pow10 rp * roundIt (if rp = 0 then A.digits else A.digits.set r (A.digits.getD r 0 - A.digits.getD r 0 % pow10 rp))
      ((if rp = 0 then A.digits else A.digits.set r (A.digits.getD r 0 - A.digits.getD r 0 % pow10 rp)).getD r 0 / pow10 rp)
      (if rp = 0 then A.digits.getD (r + 1) 0 else (A.digits.getD r 0 % pow10 rp) * (BBASE / pow10 rp))
      (if rp = 0 then r + 1 else r) A.lsd)

/-- "generate and return the digit string": the most significant limb with as many digits as it has, the following
    limbs up to `r` with nine digits each -/
def genDigits (ds : List Nat) (msd r : Nat) : List Nat :=
  limbDigits (countDigits (ds.getD msd 0)) (ds.getD msd 0)
    ++ ((ds.drop (msd + 1)).take (r - msd)).flatMap (limbDigits DDIG_PER_DIG)

/-- rounding at the scale, carry propagation, digit generation -/
def digFinish (A : Arr) (scale : Int) : Option (List Nat) :=
  if roundDigitOf scale < 0 ∨ (DIG_PER_DBL : Int) ≤ roundDigitOf scale then none   -- outside what cif_value_init_numb admits
  else if (roundDigitOf scale).toNat < A.msd then
    -- lsd < msd: "no carry needed", p10 = 1
    some (genDigits (roundStep A (roundDigitOf scale).toNat (roundPosOf scale)) (roundDigitOf scale).toNat (roundDigitOf scale).toNat)
  else
    -- complete the rounding by applying any carry digit(s); update the most-significant digit if necessary
    some ((genDigits (carryLoop (DIG_PER_DBL + 1) (roundStep A (roundDigitOf scale).toNat (roundPosOf scale)) (roundDigitOf scale).toNat).1
            (if (carryLoop (DIG_PER_DBL + 1) (roundStep A (roundDigitOf scale).toNat (roundPosOf scale)) (roundDigitOf scale).toNat).2 < A.msd
              then (carryLoop (DIG_PER_DBL + 1) (roundStep A (roundDigitOf scale).toNat (roundPosOf scale)) (roundDigitOf scale).toNat).2
              else A.msd)
            (roundDigitOf scale).toNat).take
          ((genDigits (carryLoop (DIG_PER_DBL + 1) (roundStep A (roundDigitOf scale).toNat (roundPosOf scale)) (roundDigitOf scale).toNat).1
            (if (carryLoop (DIG_PER_DBL + 1) (roundStep A (roundDigitOf scale).toNat (roundPosOf scale)) (roundDigitOf scale).toNat).2 < A.msd
              then (carryLoop (DIG_PER_DBL + 1) (roundStep A (roundDigitOf scale).toNat (roundPosOf scale)) (roundDigitOf scale).toNat).2
              else A.msd)
            (roundDigitOf scale).toNat).length
            -- truncate log10(p10) characters, but not more than there are
            - (if pow10 (roundPosOf scale) = 1 then 0 else roundPosOf scale)))

/-- `to_digits(d, scale)` for `|d| = m·2^e` at the limb level (default rounding mode) -/
def toDigitsLimbs (m : Nat) (e : Int) (scale : Int) : Option (List Nat) :=
  if m = 0 then some [0]
  else
    match digShift m e with
    | none => none
    | some A => digFinish A scale

end CifModel.Model.NumbLimbs
