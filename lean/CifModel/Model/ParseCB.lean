import CifModel.Model.Types
import CifModel.Gen.ErrCodes
/-
  CifModel.Model.ParseCB — token-level model of the parser productions of src/parser.c with the handler call sites, the
  syntax callbacks and the `skip_depth` counter threaded exactly as the C does:

    parse_cif           ↔ parseCif / blocksLoop
    parse_container     ↔ parseContainer / elemsLoop / containerEnd
    parse_item          ↔ parseItem
    parse_loop          ↔ parseLoop      (parse_loop_header ↔ headerLoop)
    parse_loop_packets  ↔ packetsLoop
    parse_value / parse_list / parse_table ↔ parseValue / listLoop / tableLoop   (no handler call sites inside)
    next_token          ↔ nextToken      (whitespace callbacks only; the lexer itself is another group's model)

  Input: the token sequence of a document (`Tok`): type, the whitespace runs and comments that precede the token, the
  token text as the parser's callbacks see it, and for value tokens the decoded value.  Only the paths that well-formed
  documents exercise are modelled: wherever the C would invoke the error callback the model stops with `MALFORMED`
  (error recovery belongs to another property).  Handler results are the C `int`s.  Two modes: `storing` (a target CIF:
  container handles are non-NULL while nothing is being skipped) and syntax-only.  Core Lean only.
-/
namespace CifModel.ParseCB

inductive Seg where
  | ws (t : Str)        -- a whitespace run (reported only while `skip_depth <= 0`)
  | comment (t : Str)   -- a comment (always reported)
deriving Inhabited

structure Tok where
  ty : TokType
  pre : List Seg
  text : Str            -- block / frame code, data name, table key; what the keyword callback receives for `loop_`
  v : V                 -- decoded value of value / qvalue / tvalue tokens
deriving Inhabited

/-- callback invocations.  Handles: `none` = a NULL handle was passed -/
inductive Ev where
  | cifStart (hasCif : Bool) | cifEnd (hasCif : Bool)
  | blockStart (code : Option Str) | blockEnd (code : Option Str)
  | frameStart (code : Option Str) | frameEnd (code : Option Str)
  | loopStart (names : List Str) | loopEnd (names : Option (List Str))
  | pktStart | pktEnd (items : List (Str × V))
  | item (name : Str) (v : V)
  | dataname (name : Str) | keyword (text : Str) | ws (text : Str)
deriving Inhabited

def Ev.isHandler : Ev → Bool
  | .dataname _ | .keyword _ | .ws _ => false
  | _ => true

def OK : Int := 0
def CONTINUE : Int := 0
def SKIP_CURRENT : Int := -1
def SKIP_SIBLINGS : Int := -2
def END : Int := -3
/-- result of the model where the C would call the error callback (not a cif.h code) -/
def MALFORMED : Int := 1000
/-- result of the model when the fuel ran out (never for `fuelFor`) -/
def NOFUEL : Int := 1001
def INTERNAL_ERROR : Int := 5

theorem codes_link :
    (a!"CIF_OK", 0) ∈ Gen.ErrCodes.codes ∧ (a!"CIF_INTERNAL_ERROR", 5) ∈ Gen.ErrCodes.codes := by decide +kernel

/-- handler program: handler-invocation index and event ↦ the handler's return value -/
abbrev Prog := Nat → Ev → Int

/-- scanner + callback state -/
structure St where
  toks : List Tok       -- head = the token `next_token` delivers (not yet consumed)
  scanned : Bool        -- the head token has already been scanned (its whitespace has been reported)
  skip : Int            -- scanner->skip_depth
  n : Nat               -- handler invocations so far
  log : List Ev         -- every callback, most recent first
deriving Inhabited

def St.init (toks : List Tok) : St := { toks := toks, scanned := false, skip := 0, n := 0, log := [] }

/-- a handler call (`OPTIONAL_CALL` with the handler installed) -/
def call (p : Prog) (s : St) (e : Ev) : Int × St := (p s.n e, { s with n := s.n + 1, log := e :: s.log })  -- = (p s.n e, push s e)

/-- the state after a handler call -/
def push (s : St) (e : Ev) : St := { s with n := s.n + 1, log := e :: s.log }

def setSkip (s : St) : Option Int → St
  | none => s
  | some d => { s with skip := d }

/-- a handler call site (`OPTIONAL_CALL` followed by the `switch` on the result).  Every such switch in parser.c has
    this shape: CONTINUE ↦ `result = CIF_OK`; SKIP_CURRENT ↦ CIF_OK, `skip_depth := cur` where the C assigns it;
    SKIP_SIBLINGS ↦ CIF_OK, `skip_depth := sib`; anything else (END, an error code) stays the result. -/
def site (p : Prog) (s : St) (e : Ev) (cur sib : Option Int) : Int × St :=
  if p s.n e = CONTINUE then (OK, push s e)
  else if p s.n e = SKIP_CURRENT then (OK, setSkip (push s e) cur)
  else if p s.n e = SKIP_SIBLINGS then (OK, setSkip (push s e) sib)
  else (p s.n e, push s e)

/-- a syntax callback (`OPTIONAL_VOIDCALL`) -/
def note (s : St) (e : Ev) : St := { s with log := e :: s.log }

/-- the whitespace callbacks of next_token for the run preceding a token -/
def reportPre : List Seg → St → St
  | [], s => s
  | .ws t :: r, s => reportPre r (if s.skip ≤ 0 then note s (.ws t) else s)
  | .comment t :: r, s => reportPre r (note s (.ws t))

/-- next_token: type of the pending token; scans (and reports the whitespace before) a new one only if the previous
    one was consumed.  Running off the list is END. -/
def nextToken (s : St) : TokType × St :=
  match s.toks with
  | [] => (.end_, s)
  | t :: _ => if s.scanned then (t.ty, s) else (t.ty, { reportPre t.pre s with scanned := true })

def cur (s : St) : Tok := s.toks.headD default

/-- CONSUME_TOKEN -/
def consume (s : St) : St := { s with toks := s.toks.tail, scanned := false }

/-- `if (scanner->skip_depth > 0) scanner->skip_depth += 1;` -/
def inc (s : St) : St := if s.skip > 0 then { s with skip := s.skip + 1 } else s
/-- `if (scanner->skip_depth > 0) scanner->skip_depth -= 1;` -/
def dec (s : St) : St := if s.skip > 0 then { s with skip := s.skip - 1 } else s

def isValueStart : TokType → Bool
  | .olist | .otable | .tvalue | .qvalue | .value => true
  | _ => false

-- ---- values -------------------------------------------------------------------------------------------------

mutual
  /-- parse_value -/
  def parseValue : Nat → St → Int × V × St
    | 0, s => (NOFUEL, .unk, s)
    | fuel + 1, s =>
      let (ty, s) := nextToken s
      match ty with
      | .olist => let (r, vs, s) := listLoop fuel (consume s) []; (r, .lst vs, s)
      | .otable => let (r, es, s) := tableLoop fuel (consume s) []; (r, .tbl es, s)
      | .tvalue | .qvalue | .value => (OK, (cur s).v, consume s)
      | _ => (INTERNAL_ERROR, .unk, s)
  /-- the `while` of parse_list, `acc` = elements so far -/
  def listLoop : Nat → St → List V → Int × List V × St
    | 0, s, acc => (NOFUEL, acc, s)
    | fuel + 1, s, acc =>
      let (ty, s) := nextToken s
      if isValueStart ty then
        let (r, v, s) := parseValue fuel s
        if r = OK then listLoop fuel s (acc ++ [v]) else (r, acc ++ [v], s)
      else if ty = .clist then (OK, acc, consume s)
      else (MALFORMED, acc, s)
  /-- the `while` of parse_table -/
  def tableLoop : Nat → St → List (Str × Str × V) → Int × List (Str × Str × V) × St
    | 0, s, acc => (NOFUEL, acc, s)
    | fuel + 1, s, acc =>
      let (ty, s) := nextToken s
      if ty = .key then
        let key := (cur s).text
        let s := consume s
        let (ty2, s) := nextToken s
        if isValueStart ty2 then
          let (r, v, s) := parseValue fuel s
          if r = OK then tableLoop fuel s (acc ++ [(key, key, v)]) else (r, acc, s)
        else (MALFORMED, acc, s)
      else if ty = .ctable then (OK, acc, consume s)
      else (MALFORMED, acc, s)
end

-- ---- the store, as far as the parser fills it ------------------------------------------------------------------

/-- the part of a container the parser has stored so far -/
structure Content where
  frames : List Container
  loops : List Loop
deriving Inhabited

def Content.empty : Content := ⟨[], []⟩

def isScalarLoop (l : Loop) : Bool := l.category == some []

/-- cif_container_set_value of a name not yet present: append to the scalar loop (category ""), creating it on demand -/
def addScalar : List Loop → Str → V → List Loop
  | [], nm, v => [{ category := some [], names := [nm], packets := [[v]] }]
  | l :: ls, nm, v =>
    if isScalarLoop l then
      { l with names := l.names ++ [nm], packets := l.packets.map (· ++ [v]) } :: ls
    else l :: addScalar ls nm v

def Content.setScalar (c : Content) (nm : Str) (v : V) : Content := { c with loops := addScalar c.loops nm v }
def Content.addLoop (c : Content) (l : Loop) : Content := { c with loops := c.loops ++ [l] }
def Content.addFrame (c : Content) (f : Container) : Content := { c with frames := c.frames ++ [f] }
/-- cif_container_prune: drop packet-less loops -/
def Content.prune (c : Content) : Content := { c with loops := c.loops.filter (fun l => !l.packets.isEmpty) }

-- ---- items --------------------------------------------------------------------------------------------------

/-- the handler part of parse_item for a named item: CONTINUE stores (when there is a container), SKIP_CURRENT does
    not, SKIP_SIBLINGS sets the depth to 2 -/
def scalarItemStep (p : Prog) (cont : Bool) (nm : Str) (v : V) (s : St) : Int × St × Option (Str × V) :=
  ((site p s (.item nm v) none (some 2)).1, (site p s (.item nm v) none (some 2)).2,
    if cont ∧ p s.n (.item nm v) = CONTINUE then some (nm, v) else none)

/-- parse_item.  `cont` = `container != NULL`; `name = none` = the NULL name of a skipped / rejected item.
    Returns the result, the state and the (name, value) stored by cif_container_set_value, if any. -/
def parseItem (p : Prog) (fuel : Nat) (cont : Bool) (name : Option Str) (s : St) : Int × St × Option (Str × V) :=
  let s1 := inc (nextToken s).2
  if !isValueStart (nextToken s).1 then (MALFORMED, dec s1, none)        -- CIF_MISSING_VALUE
  else
    let pv := parseValue fuel s1
    if pv.1 = OK then
      match name with
      | none => (OK, dec pv.2.2, none)
      | some nm =>
        let it := scalarItemStep p cont nm pv.2.1 pv.2.2
        (it.1, dec it.2.1, it.2.2)
    else (pv.1, dec pv.2.2, none)

-- ---- loops --------------------------------------------------------------------------------------------------

/-- parse_loop_header: data names up to the first other token -/
def headerLoop : Nat → St → List Str → Int × List Str × St
  | 0, s, acc => (NOFUEL, acc, s)
  | fuel + 1, s, acc =>
    if (nextToken s).1 = .name then
      let nm := (cur (nextToken s).2).text
      let s1 := if (nextToken s).2.skip ≤ 0 then note (nextToken s).2 (.dataname nm) else (nextToken s).2
      headerLoop fuel (consume s1) (acc ++ [nm])
    else (OK, acc, (nextToken s).2)

/-- state of the `while` of parse_loop_packets -/
structure PkSt where
  col : Nat                     -- column_index
  row : List V                  -- values of the current packet parsed so far
  havePk : Bool                 -- have_packets
  stored : List (List V)        -- packets recorded by cif_loop_add_packet
deriving Inhabited

/-- first value of a new packet: the packet_start handler, unless the packet is being skipped -/
def pktStartStep (p : Prog) (s : St) : Int × St :=
  if s.skip > 0 then (OK, { s with skip := s.skip + 1 })
  else site p s .pktStart (some 1) (some 2)

/-- after parse_value (result `r`) inside a loop: the item handler, unless the item is being skipped -/
def itemStep (p : Prog) (nm : Str) (r : Int) (v : V) (s : St) : Int × St :=
  if r = OK ∧ s.skip ≤ 0 then site p s (.item nm v) none (some 1)
  else (r, s)

/-- last value of a packet: the packet_end handler, unless the packet is being skipped; the Bool says whether the packet
    is recorded (cif_loop_add_packet, when there is a loop) -/
def pktEndStep (p : Prog) (items : List (Str × V)) (s : St) : Int × St × Bool :=
  if s.skip > 0 then (OK, { s with skip := s.skip - 1 }, false)
  else ((site p s (.pktEnd items) none (some 1)).1, (site p s (.pktEnd items) none (some 1)).2,
        decide (p s.n (.pktEnd items) = CONTINUE))

/-- the `while` of parse_loop_packets.  `loopH` = `loop != NULL`; `names` = the header's names (column_count of them). -/
def packetsLoop (p : Prog) (loopH : Bool) (names : List Str) : Nat → St → PkSt → Int × St × PkSt
  | 0, s, k => (NOFUEL, s, k)
  | fuel + 1, s, k =>
    if isValueStart (nextToken s).1 then
      let s1 := if k.col = 0 then pktStartStep p (nextToken s).2 else (OK, (nextToken s).2)
      if s1.1 ≠ OK then (s1.1, s1.2, k) else
      let pv := parseValue fuel s1.2
      let row := k.row ++ [pv.2.1]
      let it := itemStep p (names.getD k.col []) pv.1 pv.2.1 pv.2.2
      let col := (k.col + 1) % names.length
      if it.1 ≠ OK then (it.1, it.2, { k with col := col, row := row })
      else if col = 0 then
        -- that was the last value of the packet
        let pe := pktEndStep p (List.zip names row) it.2
        if pe.1 ≠ OK then (pe.1, pe.2.1, { k with col := 0, row := row })
        else packetsLoop p loopH names fuel pe.2.1
          { col := 0, row := [], havePk := true, stored := if pe.2.2 && loopH then k.stored ++ [row] else k.stored }
      else packetsLoop p loopH names fuel it.2 { k with col := col, row := row }
    else if (nextToken s).1 = .clist ∨ (nextToken s).1 = .ctable then (MALFORMED, (nextToken s).2, k)
    else if k.col ≠ 0 then (MALFORMED, (nextToken s).2, k)          -- CIF_PARTIAL_PACKET
    else if !k.havePk then (MALFORMED, (nextToken s).2, k)          -- CIF_EMPTY_LOOP
    else (OK, (nextToken s).2, k)

/-- the loop_start handler, unless the loop is being skipped.  Returns (result, state, loop created?, parse the body?):
    the loop is created on CONTINUE when there is a container; the body is parsed unless the handler answered END or an
    error code (`goto loop_body_end`) -/
def loopStartStep (p : Prog) (cont : Bool) (names : List Str) (s : St) : Int × St × Bool × Bool :=
  if s.skip ≤ 0 then
    ((site p s (.loopStart names) (some 1) (some 2)).1, (site p s (.loopStart names) (some 1) (some 2)).2,
      cont && decide (p s.n (.loopStart names) = CONTINUE),
      decide ((site p s (.loopStart names) (some 1) (some 2)).1 = OK))
  else (OK, s, false, true)

/-- the loop_start step before fix 43d0bb7: only END left the switch through `goto loop_body_end`; any other answer
    (a positive code) fell out of the switch and the packets were parsed all the same, their result replacing the
    handler's (finding F33, fixed) -/
def loopStartStepPinned (p : Prog) (cont : Bool) (names : List Str) (s : St) : Int × St × Bool × Bool :=
  if s.skip ≤ 0 then
    ((site p s (.loopStart names) (some 1) (some 2)).1, (site p s (.loopStart names) (some 1) (some 2)).2,
      cont && decide (p s.n (.loopStart names) = CONTINUE),
      decide (p s.n (.loopStart names) ≠ END))
  else (OK, s, false, true)

/-- the code after label `loop_end` of parse_loop -/
def loopEndStep (p : Prog) (handle : Option (List Str)) (r : Int) (s : St) : Int × St :=
  if s.skip > 0 then (r, { s with skip := s.skip - 1 })
  else if r = OK then site p s (.loopEnd handle) none (some 1)
  else (r, s)

/-- parse_loop (entered after the `loop_` keyword was consumed).  Returns the loop created in the container, with the
    packets added to it, if any. -/
def parseLoop (p : Prog) (fuel : Nat) (cont : Bool) (s : St) : Int × St × Option Loop :=
  let hd := headerLoop fuel (inc s) []
  let names := hd.2.1
  if hd.1 ≠ OK then
    let e := loopEndStep p none hd.1 hd.2.2; (e.1, e.2, none)
  else if names.isEmpty then
    let e := loopEndStep p none MALFORMED hd.2.2; (e.1, e.2, none)      -- CIF_NULL_LOOP
  else
    let ls := loopStartStep p cont names hd.2.2
    let created := ls.2.2.1
    if ls.2.2.2 then
      let pk := packetsLoop p created names fuel ls.2.1 { col := 0, row := [], havePk := false, stored := [] }
      let e := loopEndStep p (if created then some names else none) pk.1 pk.2.1
      (e.1, e.2, if created then some { category := none, names := names, packets := pk.2.2.stored } else none)
    else
      let e := loopEndStep p (if created then some names else none) ls.1 ls.2.1
      (e.1, e.2, if created then some { category := none, names := names, packets := [] } else none)

-- ---- containers -----------------------------------------------------------------------------------------------

/-- the tail of parse_container after label `container_end` -/
def containerEnd (p : Prog) (cont isBlock : Bool) (code : Str) (r : Int) (s : St) (c : Content) : Int × St × Content :=
  if r = OK ∧ (dec s).skip ≤ 0 then
    ((site p (dec s) (if isBlock then .blockEnd (if cont then some code else none) else .frameEnd (if cont then some code else none))
        none (some 1)).1,
     (site p (dec s) (if isBlock then .blockEnd (if cont then some code else none) else .frameEnd (if cont then some code else none))
        none (some 1)).2,
     if cont then c.prune else c)
  else (r, dec s, c)

/-- the head of parse_container: the block/frame start handler, unless the container is being skipped -/
def contStartStep (p : Prog) (cont isBlock : Bool) (code : Str) (s : St) : Int × St :=
  if s.skip > 0 then (OK, inc s)
  else site p s (if isBlock then .blockStart (if cont then some code else none) else .frameStart (if cont then some code else none))
        (some 1) (some 2)

mutual
  /-- parse_container.  `cont` = `container != NULL`; `code` = the code of the (possibly not created) container. -/
  def parseContainer (p : Prog) (maxFrameDepth : Int) : Nat → Bool → Bool → Str → St → Int × St × Content
    | 0, _, _, _, s => (NOFUEL, s, .empty)
    | fuel + 1, cont, isBlock, code, s =>
      let st := contStartStep p cont isBlock code s
      if st.1 ≠ OK then containerEnd p cont isBlock code st.1 st.2 .empty
      else
        let el := elemsLoop p maxFrameDepth fuel cont isBlock st.2 .empty
        containerEnd p cont isBlock code el.1 el.2.1 el.2.2
  /-- the `while` of parse_container; returns the `result` with which `container_end` is reached -/
  def elemsLoop (p : Prog) (maxFrameDepth : Int) : Nat → Bool → Bool → St → Content → Int × St × Content
    | 0, _, _, s, c => (NOFUEL, s, c)
    | fuel + 1, cont, isBlock, s0, c =>
      let s := (nextToken s0).2
      match (nextToken s0).1 with
      | .blockHead => if isBlock then (OK, s, c) else (MALFORMED, s, c)       -- CIF_NO_FRAME_TERM
      | .frameHead =>
        let code := (cur s).text
        if !cont ∨ s.skip > 0 then
          -- frame = NULL
          let f := parseContainer p maxFrameDepth fuel false false code (consume s)
          if f.1 = OK then elemsLoop p maxFrameDepth fuel cont isBlock f.2.1 c else (f.1, f.2.1, c)
        else if maxFrameDepth = 0 then (MALFORMED, s, c)                      -- CIF_FRAME_NOT_ALLOWED
        else if maxFrameDepth = 1 ∧ !isBlock then (MALFORMED, s, c)           -- CIF_NO_FRAME_TERM
        else
          let f := parseContainer p maxFrameDepth fuel true false code (consume s)
          if f.1 = OK then elemsLoop p maxFrameDepth fuel cont isBlock f.2.1 (c.addFrame (.mk code f.2.2.frames f.2.2.loops))
          else (f.1, f.2.1, c.addFrame (.mk code f.2.2.frames f.2.2.loops))
      | .frameTerm => if isBlock then (MALFORMED, consume s, c) else (OK, consume s, c)   -- CIF_UNEXPECTED_TERM
      | .loopKw =>
        let s1 := if s.skip ≤ 0 then note s (.keyword (cur s).text) else s
        let l := parseLoop p fuel cont (consume s1)
        let c1 := match l.2.2 with | some lp => c.addLoop lp | none => c
        if l.1 = OK then elemsLoop p maxFrameDepth fuel cont isBlock l.2.1 c1 else (l.1, l.2.1, c1)
      | .name =>
        if s.skip > 0 then
          let it := parseItem p fuel cont none (consume s)
          if it.1 = OK then elemsLoop p maxFrameDepth fuel cont isBlock it.2.1 c else (it.1, it.2.1, c)
        else
          -- (duplicate check: well-formed documents never repeat a name)
          let it := parseItem p fuel cont (some (cur s).text) (consume (note s (.dataname (cur s).text)))
          let c1 := match it.2.2 with | some (n, v) => c.setScalar n v | none => c
          if it.1 = OK then elemsLoop p maxFrameDepth fuel cont isBlock it.2.1 c1 else (it.1, it.2.1, c1)
      | .end_ => if isBlock then (OK, s, c) else (MALFORMED, s, c)             -- CIF_EOF_IN_FRAME
      | _ => (MALFORMED, s, c)
end

-- ---- the whole CIF ---------------------------------------------------------------------------------------------

/-- the `while` of parse_cif; `cif` = `cif != NULL`; `acc` = blocks created so far.
    Returns the `result` with which label `cif_end` is reached. -/
def blocksLoop (p : Prog) (maxFrameDepth : Int) (cif : Bool) : Nat → St → List Container → Int × St × List Container
  | 0, s, acc => (NOFUEL, s, acc)
  | fuel + 1, s0, acc =>
    let s := (nextToken s0).2
    match (nextToken s0).1 with
    | .blockHead =>
      let code := (cur s).text
      let block := cif && decide (s.skip ≤ 0)
      let b := parseContainer p maxFrameDepth fuel block true code (consume s)
      let acc1 := if block then acc ++ [.mk code b.2.2.frames b.2.2.loops] else acc
      if b.1 = OK then blocksLoop p maxFrameDepth cif fuel b.2.1 acc1 else (b.1, b.2.1, acc1)
    | .end_ => (OK, s, acc)
    | _ => (MALFORMED, s, acc)                                                   -- CIF_NO_BLOCK_HEADER

/-- the code after label `cif_end` of parse_cif -/
def cifEndStep (p : Prog) (cif : Bool) (r : Int) (s : St) : Int × St :=
  if r = OK then
    ((if p (dec s).n (.cifEnd cif) > OK then p (dec s).n (.cifEnd cif) else OK), push (dec s) (.cifEnd cif))
  else ((if r > OK then r else OK), dec s)

/-- parse_cif -/
def parseCif (p : Prog) (maxFrameDepth : Int) (cif : Bool) (fuel : Nat) (s : St) : Int × St × List Container :=
  if p s.n (.cifStart cif) = END then (OK, push s (.cifStart cif), []) else
  let st := site p s (.cifStart cif) (some 1) (some 1)
  if st.1 = OK then
    let b := blocksLoop p maxFrameDepth cif fuel st.2 []
    ((cifEndStep p cif b.1 b.2.1).1, (cifEndStep p cif b.1 b.2.1).2, b.2.2)
  else ((cifEndStep p cif st.1 st.2).1, (cifEndStep p cif st.1 st.2).2, [])

/-- enough fuel for any token list: every loop iteration and every nested production consumes a token or ends -/
def fuelFor (toks : List Tok) : Nat := 4 * toks.length + 8

/-- cif_parse on the token sequence of a document: all callbacks in order, the return value, the stored CIF -/
def parseCB (p : Prog) (storing : Bool) (toks : List Tok) : List Ev × Int × Cif :=
  ((parseCif p 1 storing (fuelFor toks) (St.init toks)).2.1.log.reverse,
   (parseCif p 1 storing (fuelFor toks) (St.init toks)).1,
   (parseCif p 1 storing (fuelFor toks) (St.init toks)).2.2)

end CifModel.ParseCB
