import CifModel.Model.LadderTree
/-
  CifModel.Model.LadderIter — the packet iterator's allocation / clean-up ladders under one allocation failure (C17):

    * cif_loop_get_packets     (loop.c, as repaired by /repo fe1bb36)  — the iterator object, the normalised item names
                               (cif_loop_get_names_internal(normalize = 1): `getNamesNorm`), the name set: one
                               set_element_s per name added with HASH_ADD_KEYPTR (uthash's table header, bucket array,
                               expansions); on failure the soft handler releases a table-less head element directly
                               and cif_pktitr_free releases names, array, the elements (HASH_DEL: the last one releases
                               uthash's blocks) and the iterator
    * cif_pktitr_next_packet   (pktitr.c, as repaired by 3148ec3)      — the packet assembly: cif_packet_create_norm(names,
                               avoid_aliasing = 1) (packet, per name the entry and a copy of the key, uthash's requests),
                               then per item GET_VALUE_PROPS (text of a character value; text, digits, su_digits of a
                               number; cif_value_deserialize of a list / table blob — `deserOntoV`, any nesting); a failure
                               releases the whole temporary packet (cif_packet_free), partially read value included;
                               the finished packet is handed to the caller (`*packet == NULL`) or dropped (`packet == NULL`)
    * cif_pktitr_free, cif_packet_free / cif_map_clean for such packets

  Only the library's own requests are events (SQLite's allocator is a different class).  The hash values of the normalised
  item names (`hs`, in the order of the iterator's name array) decide uthash's requests.
-/
namespace CifModel.Model.Ladder
open CifModel.Gen

-- ---------------------------------------------------------------------------------------------------------------
-- cif_loop_get_packets: the name set

/-- the elements of the name set as uthash sees them -/
def shadowSet (done : List (Nat × Nat)) : List MEntry :=
  done.map (fun p => shadowEntry { key := 0, orig := 0, hashv := p.2 })

/-- HASH_ITER / HASH_DEL / free(element) of cif_pktitr_free; `els` = (element block, hash value) in insertion order;
    the HASH_DEL of the last remaining element releases the bucket array and the table header -/
def freeSet (ut : Option UT) : List (Nat × Nat) → St → St
  | [], s => s
  | (el, _) :: rest, s =>
    let s := if rest.isEmpty then (match ut with | some u => free u.tbl (free u.bkts s) | none => s) else s
    freeSet ut rest (free el s)

/-- cif_pktitr_free: the names, the array, the name set, the iterator (sqlite3_finalize is not a library request) -/
def pktitrFree (itr arr : Nat) (names : List Nat) (ut : Option UT) (els : List (Nat × Nat)) (s : St) : St :=
  free itr (freeSet ut els (free arr (freeAll names s)))

/-- the loop over the item names: one set_element_s per name, HASH_ADD_KEYPTR.  On a failed element request: FAIL(soft).
    On uthash_fatal: when the table header of the FIRST element could not be obtained that element is the head but belongs
    to no table (`ut = none`, nothing obtained): it is released directly; otherwise the element is in the set (with a
    table header but no bucket array: HASH_DEL then releases the header; or fully linked when an expansion failed) and
    cif_pktitr_free releases it with the others.  The order of the releases inside the handler is not tracked for the new
    element (it is released first here). -/
def nameSetLoop (failAt : Nat) (itr arr : Nat) (names : List Nat) : List Nat → Option UT → List (Nat × Nat) → St →
    Option (Option UT × List (Nat × Nat)) × St
  | [], ut, done, s => (some (ut, done), s)
  | h :: rest, ut, done, s =>
    match alloc failAt s with                                     -- malloc(sizeof(struct set_element_s))
    | (none, s1) => (none, pktitrFree itr arr names ut done s1)
    | (some el, s1) =>
      match hashAdd failAt { ut := ut, entries := shadowSet done } (shadowEntry { key := 0, orig := 0, hashv := h }) s1 with
      | (.ok m', s2) => nameSetLoop failAt itr arr names rest m'.ut (done ++ [(el, h)]) s2
      | (.fatal t, s2) => (none, pktitrFree itr arr names ut done (free el (freeAll t s2)))

/-- what a successfully created iterator owns -/
structure ItrOwned where
  itr : Nat
  arr : Nat
  names : List Nat
  ut : Option UT
  els : List (Nat × Nat)
deriving Repr

def ItrOwned.ids (o : ItrOwned) : List Nat := o.itr :: o.arr :: (o.names ++ (utBlocks o.ut ++ o.els.map (·.1)))

/-- cif_loop_get_packets(loop, &iterator) on a stored loop whose normalised item names have the hash values `hs` (array
    order) and which has at least one packet (so that the first sqlite3_step yields a row).
    Returns (result code, the iterator, final state). -/
def getPackets (failAt : Nat) (hs : List Nat) (s : St := {}) : Nat × Option ItrOwned × St :=
  match alloc failAt s with                                       -- temp_it = malloc(sizeof(cif_pktitr_tp))
  | (none, s1) => (MEMORY_ERROR, none, s1)
  | (some itr, s1) =>
    match getNamesNorm failAt hs.length s1 with                   -- cif_loop_get_names_internal(loop, &item_names, CIF_TRUE)
    | (rc, [], s2) => (rc, none, free itr s2)                     -- SET_RESULT(result); cif_pktitr_free with nothing else set
    | (rc, arr :: names, s2) =>
      if rc ≠ OK then (rc, none, free itr s2) else
      match nameSetLoop failAt itr arr names hs none [] s2 with
      | (none, s3) => (MEMORY_ERROR, none, s3)
      | (some (ut, els), s3) => (OK, some { itr := itr, arr := arr, names := names, ut := ut, els := els }, s3)

-- ---------------------------------------------------------------------------------------------------------------
-- cif_pktitr_next_packet: the packet assembly

/-- the stored value of one item as far as GET_VALUE_PROPS allocates -/
inductive ItemVal
  | unk                          -- unknown / not applicable: nothing
  | chr                          -- character value: GET_COLUMN_STRING(text)
  | numb (hasSu : Bool)          -- number: text, digits, su_digits (SQL NULL when there is none)
  | blob (b : VBlob)             -- list / table: cif_value_deserialize of the stored blob onto the entry's value
deriving Repr

/-- `cif_value_deserialize(blob, len, dest)` onto the existing value `dest` whose block is `obj`, returning what `dest`
    owns afterwards as an ownership tree (the same requests and releases as `deserV`) -/
def deserOntoV (failAt : Nat) (obj : Nat) (b : VBlob) (s : St) : Option VOwned × St :=
  match b with
  | .lst elems =>
    if elems.isEmpty then (some (.scalar obj), s)
    else
      match alloc failAt s with
      | (none, s') => (none, s')
      | (some arr, s') =>
        match deserElemsV failAt elems [] s' with
        | (some es, s'') => (some (.lst obj arr es), s'')
        | (none, s'') => (none, free arr s'')
  | .tbl entries =>
    match deserEntriesV failAt entries none [] s with
    | (some (ut, es), s') => (some (.tbl obj ut es), s')
    | (none, s') => (none, s')

/-- GET_VALUE_PROPS(stmt, 2, &entry->as_value, soft) for the entry block `ent`: (completed?, what the value owns now, state).
    A failure jumps to the handler with the value as far as it has been filled: kind and NULL-initialised members make it
    safe to clean (after /repo afb74d5), so the partially read value is described by an ownership tree too. -/
def fillItem (failAt : Nat) (ent : Nat) : ItemVal → St → Bool × VOwned × St
  | .unk, s => (true, .scalar ent, s)
  | .chr, s =>
    match alloc failAt s with                                     -- GET_COLUMN_STRING: the text
    | (none, s') => (false, .scalar ent, s')
    | (some t, s') => (true, .chr ent t, s')
  | .numb hasSu, s =>
    match alloc failAt s with                                     -- GET_COLUMN_STRING: the text
    | (none, s') => (false, .scalar ent, s')
    | (some t, s') =>
      match alloc failAt s' with                                  -- GET_COLUMN_BYTESTRING: digits
      | (none, s'') => (false, .chr ent t, s'')
      | (some d, s'') =>
        if hasSu then
          match alloc failAt s'' with                             -- GET_COLUMN_BYTESTRING: su_digits
          | (none, s3) => (false, .numb ent t d none, s3)
          | (some u, s3) => (true, .numb ent t d (some u), s3)
        else (true, .numb ent t d none, s'')
  | .blob b, s =>
    match deserOntoV failAt ent b s with                          -- kind = CIF_UNK_KIND; cif_value_deserialize(blob, …, value)
    | (none, s') => (false, .scalar ent, s')
    | (some v, s') => (true, v, s')

/-- one entry of the temporary packet: the copy of the (normalised) name — key and key_orig are the same block — and the
    value, whose object is the entry block -/
structure PKey where
  key : Nat
  hashv : Nat
deriving Repr

def pentriesIds : List (PKey × VOwned) → List Nat
  | [] => []
  | (pk, v) :: es => pk.key :: (v.ids ++ pentriesIds es)

/-- cif_map_clean of a stand-alone packet whose entries have key == key_orig: HASH_ITER in insertion order, HASH_DEL (the
    last remaining entry releases uthash's blocks), free(key_orig), cif_value_free(&entry->as_value) -/
def cleanPacket (ut : Option UT) : List (PKey × VOwned) → St → St
  | [], s => s
  | (pk, v) :: es, s =>
    let s := if es.isEmpty then (match ut with | some u => free u.tbl (free u.bkts s) | none => s) else s
    cleanPacket ut es (freeV v (free pk.key s))

/-- cif_packet_free -/
def packetFreeV (pkt : Nat) (ut : Option UT) (es : List (PKey × VOwned)) (s : St) : St := free pkt (cleanPacket ut es s)

/-- the entries of a freshly created packet: every value is of kind UNK (it owns just the entry block) -/
def unkEntries (es : List (PKey × Nat)) : List (PKey × VOwned) := es.map (fun p => (p.1, .scalar p.2))

def shadowK (es : List (PKey × Nat)) : List MEntry := es.map (fun p => shadowEntry { key := p.1.key, orig := p.1.key, hashv := p.1.hashv })

/-- the loop of cif_packet_create_norm(&temp_packet, names, avoid_aliasing = 1): per name the entry, a copy of the name,
    HASH_ADD_KEYPTR; `done` = (key copy, entry block) so far.  Soft handler: a table-less head entry is released directly,
    then cif_packet_free (the new entry is released first here; see `nameSetLoop`). -/
def createNormLoop (failAt : Nat) (pkt : Nat) : List Nat → Option UT → List (PKey × Nat) → St →
    Option (Option UT × List (PKey × Nat)) × St
  | [], ut, done, s => (some (ut, done), s)
  | h :: rest, ut, done, s =>
    match alloc failAt s with                                     -- scalar = malloc(sizeof(struct entry_s))
    | (none, s1) => (none, packetFreeV pkt ut (unkEntries done) s1)
    | (some ent, s1) =>
      match alloc failAt s1 with                                  -- scalar->key = cif_u_strdup(*name)
      | (none, s2) => (none, packetFreeV pkt ut (unkEntries done) (free ent s2))
      | (some kb, s2) =>
        match hashAdd failAt { ut := ut, entries := shadowK done } (shadowEntry { key := kb, orig := kb, hashv := h }) s2 with
        | (.ok m', s3) => createNormLoop failAt pkt rest m'.ut (done ++ [({ key := kb, hashv := h }, ent)]) s3
        | (.fatal t, s3) => (none, packetFreeV pkt ut (unkEntries done) (free ent (free kb (freeAll t s3))))

/-- the value-reading loop: `todo` = the entries not yet filled (key copy, entry block) with the stored value of their
    item, `done` = the entries already filled; a failure releases the whole temporary packet, the partially read value
    included -/
def fillLoop (failAt : Nat) (pkt : Nat) (ut : Option UT) : List ((PKey × Nat) × ItemVal) → List (PKey × VOwned) → St →
    Option (List (PKey × VOwned)) × St
  | [], done, s => (some done, s)
  | ((pk, ent), iv) :: rest, done, s =>
    match fillItem failAt ent iv s with
    | (true, v, s') => fillLoop failAt pkt ut rest (done ++ [(pk, v)]) s'
    | (false, v, s') => (none, packetFreeV pkt ut (done ++ (pk, v) :: unkEntries (rest.map (·.1))) s')

/-- what the caller's new packet owns -/
structure PktOwned where
  pkt : Nat
  ut : Option UT
  entries : List (PKey × VOwned)
deriving Repr

def PktOwned.ids (p : PktOwned) : List Nat := p.pkt :: (utBlocks p.ut ++ pentriesIds p.entries)

/-- cif_pktitr_next_packet(iterator, packet) with one complete packet available.  `items` = per item name (in the order of
    the iterator's name array) its hash value and its stored value; `keep` = (`packet != NULL`, `*packet == NULL`): the
    assembled packet is handed to the caller, otherwise (`packet == NULL`) it is dropped.
    Returns (result code, the packet handed over, final state). -/
def nextPacket (failAt : Nat) (keep : Bool) (items : List (Nat × ItemVal)) (s : St := {}) : Nat × Option PktOwned × St :=
  match alloc failAt s with                                       -- cif_packet_create_norm: malloc(sizeof(cif_packet_tp))
  | (none, s1) => (MEMORY_ERROR, none, s1)
  | (some pkt, s1) =>
    match createNormLoop failAt pkt (items.map (·.1)) none [] s1 with
    | (none, s2) => (MEMORY_ERROR, none, s2)
    | (some (ut, es), s2) =>
      match fillLoop failAt pkt ut (es.zip (items.map (·.2))) [] s2 with
      | (none, s3) => (MEMORY_ERROR, none, s3)
      | (some es', s3) =>
        if keep then (OK, some { pkt := pkt, ut := ut, entries := es' }, s3)
        else (OK, none, packetFreeV pkt ut es' s3)                 -- cif_packet_free(temp_packet)

end CifModel.Model.Ladder
