import CifModel.Model.Types
import CifModel.Gen.ErrCodes
/-
  CifModel.Model.Store — the managed CIF as the relational state the C keeps in SQLite, and every public function of
  cif.c / container.c / loop.c as a composition of SQL steps in the C's order (pktitr.c: Model/PktItr.lean).

  * `Db`      : the six tables as lists of rows (enumeration order = insertion order) + the AUTOINCREMENT counter.
  * `Db.*`    : one function per SQL statement of internal/sql.h, with the constraint checks, `ON DELETE CASCADE`
                propagation and triggers of misc/cif_schema.sql that SQLite applies to it (`none`/`error` = SQLITE_CONSTRAINT).
                The schema facts used here are `Model/StoreSchema.lean`'s `assumed*`, proved equal to the generated
                `Gen.Schema` there.
  * `Store`   : `Db` + transaction state (`txn` = snapshot taken by BEGIN, `saves` = snapshots of the open `savepoint s`s,
                innermost first).  `autocommit` ⇔ sqlite3_get_autocommit() ≠ 0.
  * API functions: `Store → args → Store × Except Code result`; `.error c` = the call returns code `c`.
    Handles are values: `CH` (container id, codes), `LH` (container id, loop number, the category cached in the handle).
  * names arrive as `Name` = (normalised key, original spelling, validity as decided by cif_is_valid_name) — `none` = NULL.
-/
namespace CifModel.Store
open Gen.ErrCodes

-- ---------------------------------------------------------------------------------------------------------------------
-- rows and tables

structure ContainerRow where
  id : Nat
  nextLoopNum : Nat
deriving Repr, Inhabited

structure BlockRow where
  cid : Nat
  name : Str
  nameOrig : Str
deriving Repr, Inhabited

structure FrameRow where
  cid : Nat
  parent : Nat
  name : Str
  nameOrig : Str
deriving Repr, Inhabited

structure LoopRow where
  cid : Nat
  loopNum : Nat
  category : Option Str
  lastRowNum : Nat
deriving Repr, Inhabited

structure ItemRow where
  cid : Nat
  name : Str
  nameOrig : Str
  loopNum : Nat
deriving Repr, Inhabited

structure ValueRow where
  cid : Nat
  name : Str
  rowNum : Nat
  val : V
deriving Repr, Inhabited

structure Db where
  containers : List ContainerRow := []
  blocks : List BlockRow := []
  frames : List FrameRow := []
  loops : List LoopRow := []
  items : List ItemRow := []
  values : List ValueRow := []
  nextId : Nat := 1            -- sqlite_sequence of `container` (AUTOINCREMENT: ids are never reused)
deriving Repr, Inhabited

/-- the messages of the `raise(ABORT, …)` triggers, and the strings the C compares sqlite3_errmsg() with
    (equal to `Gen.Schema`'s by `StoreSchema.schema_link`) -/
def msgDupScalar : Str := a!"duplicate scalar loop"
def msgMultiScalar : Str := a!"Attempted to create multiple values for a scalar"
def scalarErrmsg : Str := a!"duplicate scalar loop"                                   -- container.c
def multipleScalarMessage : Str := a!"Attempted to create multiple values for a scalar"  -- loop.c
def msgOther : Str := a!"constraint failed"                                            -- NOT NULL / PK / FK failures

/-- name argument of an API call: normalised key, original spelling, cif_is_valid_name's verdict -/
structure Name where
  key : Str
  orig : Str
  valid : Bool
deriving Repr, Inhabited

-- ---------------------------------------------------------------------------------------------------------------------
-- SQL statements

namespace Db

def hasContainer (d : Db) (id : Nat) : Bool := d.containers.any (fun c => c.id == id)
def hasLoop (d : Db) (cid ln : Nat) : Bool := d.loops.any (fun l => l.cid == cid && l.loopNum == ln)
def hasItem (d : Db) (cid : Nat) (name : Str) : Bool := d.items.any (fun i => i.cid == cid && i.name == name)

/-- `insert into container(id) values (null)` ; sqlite3_last_insert_rowid -/
def insertContainer (d : Db) : Db × Nat :=
  ({ d with containers := d.containers ++ [{ id := d.nextId, nextLoopNum := 0 }], nextId := d.nextId + 1 }, d.nextId)

/-- CREATE_BLOCK_SQL.  data_block: PK container_id, UNIQUE(name), FK container_id → container -/
def insertBlock (d : Db) (cid : Nat) (name orig : Str) : Option Db :=
  if d.blocks.any (fun b => b.cid == cid) then none
  else if d.blocks.any (fun b => b.name == name) then none
  else if !d.hasContainer cid then none
  else some { d with blocks := d.blocks ++ [{ cid := cid, name := name, nameOrig := orig }] }

/-- CREATE_FRAME_SQL.  save_frame: PK container_id, UNIQUE(parent_id, name), FKs container_id, parent_id → container,
    CHECK (container_id != parent_id) -/
def insertFrame (d : Db) (cid parent : Nat) (name orig : Str) : Option Db :=
  if d.frames.any (fun f => f.cid == cid) then none
  else if d.frames.any (fun f => f.parent == parent && f.name == name) then none
  else if cid == parent then none
  else if !d.hasContainer cid then none
  else if !d.hasContainer parent then none
  else some { d with frames := d.frames ++ [{ cid := cid, parent := parent, name := name, nameOrig := orig }] }

/-- delete the items selected by `p`, cascading to item_value (FK (container_id, name) on delete cascade) -/
def deleteItems (d : Db) (p : ItemRow → Bool) : Db :=
  let dead := d.items.filter p
  { d with items := d.items.filter (fun i => !p i),
           values := d.values.filter (fun v => !dead.any (fun i => i.cid == v.cid && i.name == v.name)) }

/-- delete the loops selected by `p`, cascading to loop_item (FK (container_id, loop_num)) and on to item_value -/
def deleteLoops (d : Db) (p : LoopRow → Bool) : Db :=
  let dead := d.loops.filter p
  let d1 := { d with loops := d.loops.filter (fun l => !p l) }
  d1.deleteItems (fun i => dead.any (fun l => l.cid == i.cid && l.loopNum == i.loopNum))

/-- DESTROY_CONTAINER_SQL; cascades: data_block(container_id), save_frame(container_id), save_frame(parent_id),
    loop(container_id) → loop_item → item_value.  Returns sqlite3_changes().
    NOTE the container rows of nested save frames are NOT deleted (no FK leads from save_frame to them): they stay behind,
    unreachable from any data block. -/
def deleteContainer (d : Db) (id : Nat) : Db × Nat :=
  let n := (d.containers.filter (fun c => c.id == id)).length
  if n == 0 then (d, 0)            -- no parent row is deleted: nothing cascades
  else
    let d1 := { d with containers := d.containers.filter (fun c => !(c.id == id)),
                       blocks := d.blocks.filter (fun b => !(b.cid == id)),
                       frames := d.frames.filter (fun f => !(f.cid == id) && !(f.parent == id)) }
    (d1.deleteLoops (fun l => l.cid == id), n)

/-- CREATE_LOOP_SQL: `insert into unnumbered_loop` ⇒ trigger tr1_unnumbered_loop ⇒ `insert into loop(container_id,
    loop_num, category) values (cid, (select next_loop_num from container where id = cid), cat)` with the BEFORE INSERT
    triggers tr1_loop (duplicate scalar loop) and tr3_loop (never fires: last_row_num takes its default 0), NOT NULL
    loop_num, PK, FK; then `update container set next_loop_num = next_loop_num + 1`.  `error msg` = SQLITE_CONSTRAINT. -/
def insertLoopUnnumbered (d : Db) (cid : Nat) (cat : Option Str) : Except Str Db :=
  if cat == some [] && d.loops.any (fun l => l.cid == cid && l.category == some []) then .error msgDupScalar
  else match d.containers.find? (fun c => c.id == cid) with
    | none => .error msgOther
    | some c =>
      if d.hasLoop cid c.nextLoopNum then .error msgOther
      else .ok { d with loops := d.loops ++ [{ cid := cid, loopNum := c.nextLoopNum, category := cat, lastRowNum := 0 }],
                        containers := d.containers.map (fun r => if r.id == cid then { r with nextLoopNum := r.nextLoopNum + 1 } else r) }

/-- GET_LOOPNUM_SQL: `select max(loop_num) from loop where container_id = ?` (NULL reads as 0) -/
def maxLoopNum (d : Db) (cid : Nat) : Nat :=
  (d.loops.filter (fun l => l.cid == cid)).foldl (fun m l => max m l.loopNum) 0

/-- ADD_LOOP_ITEM_SQL.  loop_item: PK (container_id, name), FK (container_id, loop_num) → loop -/
def insertItem (d : Db) (cid : Nat) (name orig : Str) (ln : Nat) : Option Db :=
  if d.hasItem cid name then none
  else if !d.hasLoop cid ln then none
  else some { d with items := d.items ++ [{ cid := cid, name := name, nameOrig := orig, loopNum := ln }] }

def hasValue (d : Db) (cid : Nat) (name : Str) (row : Nat) : Bool :=
  d.values.any (fun v => v.cid == cid && v.name == name && v.rowNum == row)

/-- INSERT_VALUE_SQL.  item_value: PK (container_id, name, row_num), FK (container_id, name) → loop_item, CHECK row_num > 0
    (the CHECKs on the value columns hold for every value object: Model/Columns of C07) -/
def insertValue (d : Db) (cid : Nat) (name : Str) (row : Nat) (v : V) : Option Db :=
  if d.hasValue cid name row then none
  else if row == 0 then none
  else if !d.hasItem cid name then none
  else some { d with values := d.values ++ [{ cid := cid, name := name, rowNum := row, val := v }] }

/-- FILL_PACKET_SQL (`insert or ignore … select … from loop_item`): the explicit unknown value for every item of the loop that has
    no value yet in row `row` (`or ignore`: an existing primary key — and the CHECK row_num > 0 — make SQLite skip the row) -/
def fillPacket (d : Db) (cid ln row : Nat) : Db :=
  let missing := (d.items.filter (fun i => i.cid == cid && i.loopNum == ln)).filter (fun i => !d.hasValue cid i.name row)
  if row == 0 then d
  else { d with values := d.values ++ missing.map (fun i => { cid := cid, name := i.name, rowNum := row, val := .unk }) }

/-- UPDATE_VALUE_SQL (`insert or replace`): a row with the same primary key is deleted first -/
def replaceValue (d : Db) (cid : Nat) (name : Str) (row : Nat) (v : V) : Option Db :=
  if row == 0 then none
  else if !d.hasItem cid name then none
  else some { d with values := d.values.filter (fun w => !(w.cid == cid && w.name == name && w.rowNum == row))
                                 ++ [{ cid := cid, name := name, rowNum := row, val := v }] }

def loopItems (d : Db) (cid ln : Nat) : List ItemRow := d.items.filter (fun i => i.cid == cid && i.loopNum == ln)

def insertNat (x : Nat) : List Nat → List Nat
  | [] => [x]
  | y :: ys => if x < y then x :: y :: ys else if x == y then y :: ys else y :: insertNat x ys

/-- `select distinct iv.row_num … ` over the values of the items of loop (cid, ln), ascending -/
def loopRows (d : Db) (cid ln : Nat) : List Nat :=
  (d.values.filter (fun v => v.cid == cid && (d.loopItems cid ln).any (fun i => i.name == v.name))).foldl
    (fun acc v => insertNat v.rowNum acc) []

def loopOfItem (d : Db) (cid : Nat) (name : Str) : Option Nat :=
  (d.items.find? (fun i => i.cid == cid && i.name == name)).map (·.loopNum)

/-- SET_ALL_VALUES_SQL: `insert or replace` of the value for item `name` in every row of the loop that contains `name`.
    Returns sqlite3_changes() = the number of rows of that loop. -/
def setAllValues (d : Db) (cid : Nat) (name : Str) (v : V) : Db × Nat :=
  match d.loopOfItem cid name with
  | none => (d, 0)
  | some ln =>
    let rows := d.loopRows cid ln
    ({ d with values := d.values.filter (fun w => !(w.cid == cid && w.name == name && rows.contains w.rowNum))
                          ++ rows.map (fun r => { cid := cid, name := name, rowNum := r, val := v }) }, rows.length)

/-- UPDATE_PACKET_NUM_SQL with trigger tr4_loop (BEFORE UPDATE when NEW.category = '' and NEW.last_row_num > 1) -/
def bumpRowNum (d : Db) (cid ln : Nat) : Except Str Db :=
  if d.loops.any (fun l => l.cid == cid && l.loopNum == ln && l.category == some [] && l.lastRowNum + 1 > 1) then .error msgMultiScalar
  else .ok { d with loops := d.loops.map (fun l => if l.cid == cid && l.loopNum == ln then { l with lastRowNum := l.lastRowNum + 1 } else l) }

/-- GET_PACKET_NUM_SQL -/
def lastRowNum (d : Db) (cid ln : Nat) : Option Nat :=
  (d.loops.find? (fun l => l.cid == cid && l.loopNum == ln)).map (·.lastRowNum)

/-- RESET_PACKET_NUM_SQL (tr4_loop cannot fire: NEW.last_row_num = 0) -/
def resetRowNum (d : Db) (cid ln : Nat) : Db :=
  { d with loops := d.loops.map (fun l => if l.cid == cid && l.loopNum == ln then { l with lastRowNum := 0 } else l) }

/-- SET_CATEGORY_SQL with triggers tr2_loop (update of category: NEW '' and OLD is not '' and a scalar loop exists) and
    tr4_loop (NEW.category = '' and last_row_num > 1).  Returns sqlite3_changes(). -/
def setCategory (d : Db) (cid ln : Nat) (cat : Option Str) : Except Str (Db × Nat) :=
  match d.loops.find? (fun l => l.cid == cid && l.loopNum == ln) with
  | none => .ok (d, 0)
  | some old =>
    if cat == some [] && old.category != some [] && d.loops.any (fun l => l.cid == cid && l.category == some []) then .error msgDupScalar
    else if cat == some [] && old.lastRowNum > 1 then .error msgMultiScalar
    else .ok ({ d with loops := d.loops.map (fun l => if l.cid == cid && l.loopNum == ln then { l with category := cat } else l) }, 1)

/-- REMOVE_ITEM_SQL -/
def removeItem (d : Db) (cid : Nat) (name : Str) : Db := d.deleteItems (fun i => i.cid == cid && i.name == name)

/-- DESTROY_LOOP_SQL; returns sqlite3_changes() -/
def destroyLoop (d : Db) (cid ln : Nat) : Db × Nat :=
  ((d.deleteLoops (fun l => l.cid == cid && l.loopNum == ln)),
   (d.loops.filter (fun l => l.cid == cid && l.loopNum == ln)).length)

/-- PRUNE_SQL: delete the loops of the container that have no value at all -/
def prune (d : Db) (cid : Nat) : Db :=
  d.deleteLoops (fun l => l.cid == cid && !(d.items.any (fun i => i.cid == cid && i.loopNum == l.loopNum
      && d.values.any (fun v => v.cid == cid && v.name == i.name))))

/-- REMOVE_PACKET_SQL -/
def removePacket (d : Db) (cid ln row : Nat) : Db :=
  { d with values := d.values.filter (fun v => !(v.cid == cid && v.rowNum == row && (d.loopItems cid ln).any (fun i => i.name == v.name))) }

/-- GET_LOOP_SIZE_SQL: (loop_num, number of items in that loop) for the loop of item `name` -/
def loopSize (d : Db) (cid : Nat) (name : Str) : Option (Nat × Nat) :=
  (d.loopOfItem cid name).map (fun ln => (ln, (d.loopItems cid ln).length))

def insertByRow (x : ValueRow) : List ValueRow → List ValueRow
  | [] => [x]
  | y :: ys => if x.rowNum < y.rowNum then x :: y :: ys else y :: insertByRow x ys

/-- GET_VALUE_SQL: the values of item (cid, name), by row number (the primary-key index serves the query) -/
def valuesOf (d : Db) (cid : Nat) (name : Str) : List ValueRow :=
  (d.values.filter (fun v => v.cid == cid && v.name == name)).foldr insertByRow []

/-- GET_LOOP_VALUES_SQL: every value of the loop, `order by row_num` -/
def loopValues (d : Db) (cid ln : Nat) : List ValueRow :=
  (d.values.filter (fun v => v.cid == cid && (d.loopItems cid ln).any (fun i => i.name == v.name))).foldr insertByRow []

end Db

-- ---------------------------------------------------------------------------------------------------------------------
-- transactions

structure Store where
  db : Db := {}
  txn : Option Db := none        -- snapshot taken by BEGIN
  saves : List Db := []          -- snapshots of the open `savepoint s`, innermost first
deriving Repr, Inhabited

namespace Store

def autocommit (s : Store) : Bool := s.txn.isNone && s.saves.isEmpty

/-- `begin`: fails inside a transaction -/
def begin (s : Store) : Option Store := if s.autocommit then some { s with txn := some s.db } else none
/-- `commit`: fails when no transaction is active -/
def commit (s : Store) : Option Store := if s.autocommit then none else some { s with txn := none, saves := [] }
/-- the state a full `rollback` returns to -/
def outermost (s : Store) : Db := match s.txn with
  | some d => d
  | none => s.saves.getLast?.getD s.db
/-- `rollback`: fails when no transaction is active -/
def rollback (s : Store) : Option Store := if s.autocommit then none else some { db := s.outermost, txn := none, saves := [] }
/-- `savepoint s` -/
def save (s : Store) : Store := { s with saves := s.db :: s.saves }
/-- `release s`: the innermost savepoint named s -/
def release (s : Store) : Option Store := match s.saves with
  | [] => none
  | _ :: r => some { s with saves := r }
/-- `rollback to s`: restores the snapshot, the savepoint stays on the stack -/
def rollbackTo (s : Store) : Option Store := match s.saves with
  | [] => none
  | d :: _ => some { s with db := d }

/-- BEGIN_NESTTX: `_top_tx = sqlite3_get_autocommit(db)`; SAVE inside a transaction, BEGIN otherwise -/
def beginNest (s : Store) : Store × Bool := if s.autocommit then ({ s with txn := some s.db }, true) else (s.save, false)
/-- COMMIT_NESTTX (its failure is not possible here: the transaction/savepoint was opened by beginNest) -/
def commitNest (s : Store) (top : Bool) : Store := if top then (s.commit.getD s) else (s.release.getD s)
/-- ROLLBACK_NESTTX; NOTE `rollback to s` does not release the savepoint -/
def rollbackNest (s : Store) (top : Bool) : Store := if top then (s.rollback.getD s) else (s.rollbackTo.getD s)

/-- a function body bracketed by BEGIN_NESTTX … COMMIT_NESTTX (body succeeded) / ROLLBACK_NESTTX (every failure path) -/
def nest {α} (s : Store) (body : Db → Except Code (Db × α)) : Store × Except Code α :=
  let (s1, top) := s.beginNest
  match body s1.db with
  | .ok (d2, a) => (({ s1 with db := d2 } : Store).commitNest top, .ok a)
  | .error c => (s1.rollbackNest top, .error c)

/-- a read-only body bracketed by BEGIN_NESTTX … ROLLBACK_NESTTX on every path (get_all_loops, get_names) -/
def nestRO {α} (s : Store) (body : Db → Except Code α) : Store × Except Code α :=
  let (s1, top) := s.beginNest
  (s1.rollbackNest top, body s1.db)

end Store

-- ---------------------------------------------------------------------------------------------------------------------
-- handles

/-- `cif_container_tp`: id, code_orig, parent_id < 0 ⇔ data block -/
structure CH where
  id : Nat
  code : Str
  isBlock : Bool
deriving Repr, Inhabited

/-- `cif_loop_tp`: container id (through the container handle), loop_num, the category cached in the handle -/
structure LH where
  cid : Nat
  loopNum : Nat
  category : Option Str
deriving Repr, Inhabited

abbrev R (α : Type) := Store × Except Code α

-- ---------------------------------------------------------------------------------------------------------------------
-- cif.c

/-- cif_create_block / cif_create_block_internal -/
def createBlock (s : Store) (name : Option Name) (lenient : Bool := false) : R CH :=
  match name with
  | none => (s, .error CIF_ARGUMENT_ERROR)
  | some n =>
    if !lenient && !n.valid then (s, .error CIF_INVALID_BLOCKCODE)
    else match s.begin with
      | none => (s, .error CIF_ERROR)
      | some s1 =>
        let (d1, id) := s1.db.insertContainer
        match d1.insertBlock id n.key n.orig with
        | none => ((s1.rollback).getD s1, .error CIF_DUP_BLOCKCODE)
        | some d2 => ((({ s1 with db := d2 } : Store).commit).getD s1, .ok { id := id, code := n.orig, isBlock := true })

/-- cif_get_block (no validity check: an invalid code is simply not found) -/
def getBlock (s : Store) (name : Name) : R CH :=
  match s.db.blocks.find? (fun b => b.name == name.key) with
  | some b => (s, .ok { id := b.cid, code := b.nameOrig, isBlock := true })
  | none => (s, .error CIF_NOSUCH_BLOCK)

/-- cif_get_all_blocks -/
def allBlocks (s : Store) : R (List CH) :=
  (s, .ok (s.db.blocks.map (fun b => { id := b.cid, code := b.nameOrig, isBlock := true })))

-- ---------------------------------------------------------------------------------------------------------------------
-- container.c

/-- cif_container_create_frame(_internal) -/
def createFrame (s : Store) (h : CH) (name : Option Name) (lenient : Bool := false) : R CH :=
  match name with
  | none => (s, .error CIF_INVALID_FRAMECODE)
  | some n =>
    if !lenient && !n.valid then (s, .error CIF_INVALID_FRAMECODE)
    else match s.begin with
      | none => (s, .error CIF_ERROR)
      | some s1 =>
        let (d1, id) := s1.db.insertContainer
        match d1.insertFrame id h.id n.key n.orig with
        | none => ((s1.rollback).getD s1, .error CIF_DUP_FRAMECODE)
        | some d2 => ((({ s1 with db := d2 } : Store).commit).getD s1, .ok { id := id, code := n.orig, isBlock := false })

/-- cif_container_get_frame -/
def getFrame (s : Store) (h : CH) (name : Option Name) : R CH :=
  match name with
  | none => (s, .error CIF_INVALID_FRAMECODE)
  | some n =>
    if !n.valid then (s, .error CIF_INVALID_FRAMECODE)
    else match s.db.frames.find? (fun f => f.parent == h.id && f.name == n.key) with
      | some f => (s, .ok { id := f.cid, code := f.nameOrig, isBlock := false })
      | none => (s, .error CIF_NOSUCH_FRAME)

/-- cif_container_get_all_frames -/
def allFrames (s : Store) (h : CH) : R (List CH) :=
  (s, .ok ((s.db.frames.filter (fun f => f.parent == h.id)).map (fun f => { id := f.cid, code := f.nameOrig, isBlock := false })))

/-- cif_container_destroy (no transaction management: one statement) -/
def destroyContainer (s : Store) (h : CH) : R Unit :=
  let (d1, n) := s.db.deleteContainer h.id
  if n == 0 then ({ s with db := d1 }, .error CIF_INVALID_HANDLE) else ({ s with db := d1 }, .ok ())

/-- the `for (each item name)` loop of cif_container_create_loop_internal -/
def addItems (d : Db) (cid ln : Nat) : List Name → Except Code Db
  | [] => .ok d
  | n :: ns => match d.insertItem cid n.key n.orig ln with
    | none => .error CIF_DUP_ITEMNAME
    | some d1 => addItems d1 cid ln ns

/-- body of cif_container_create_loop_internal between BEGIN_NESTTX and COMMIT_NESTTX -/
def createLoopBody (cid : Nat) (cat : Option Str) (names : List Name) (d : Db) : Except Code (Db × LH) :=
  match d.insertLoopUnnumbered cid cat with
  | .error msg => if msg == scalarErrmsg then .error CIF_RESERVED_LOOP else .error CIF_INVALID_HANDLE
  | .ok d1 =>
    let ln := d1.maxLoopNum cid
    match addItems d1 cid ln names with
    | .error c => .error c
    | .ok d2 => .ok (d2, { cid := cid, loopNum := ln, category := cat })

def createLoopInternal (s : Store) (h : CH) (cat : Option Str) (names : List Name) : R LH :=
  s.nest (createLoopBody h.id cat names)

/-- cif_container_create_loop: names validated (in order) before anything touches the database -/
def createLoop (s : Store) (h : CH) (cat : Option Str) (names : List Name) : R LH :=
  if names.isEmpty then (s, .error CIF_NULL_LOOP)
  else if names.any (fun n => !n.valid) then (s, .error CIF_INVALID_ITEMNAME)
  else createLoopInternal s h cat names

/-- cif_container_get_category_loop -/
def getCategoryLoop (s : Store) (h : CH) (cat : Option Str) : R LH :=
  match cat with
  | none => (s, .error CIF_INVALID_CATEGORY)
  | some c =>
    match s.db.loops.filter (fun l => l.cid == h.id && l.category == some c) with
    | [] => (s, .error CIF_NOSUCH_LOOP)
    | [l] => (s, .ok { cid := h.id, loopNum := l.loopNum, category := some c })
    | _ => (s, .error CIF_CAT_NOT_UNIQUE)

/-- cif_container_get_item_loop_internal: GET_ITEM_LOOP_SQL (join of loop and loop_item) -/
def itemLoopRows (d : Db) (cid : Nat) (key : Str) : List LoopRow :=
  d.loops.filter (fun l => l.cid == cid && d.items.any (fun i => i.cid == cid && i.name == key && i.loopNum == l.loopNum))

def getItemLoopInternal (d : Db) (cid : Nat) (key : Str) : Except Code LH :=
  match itemLoopRows d cid key with
  | [] => .error CIF_NOSUCH_ITEM
  | [l] => .ok { cid := cid, loopNum := l.loopNum, category := l.category }
  | _ => .error CIF_INTERNAL_ERROR

/-- cif_container_get_item_loop -/
def getItemLoop (s : Store) (h : CH) (name : Option Name) : R LH :=
  match name with
  | none => (s, .error CIF_NOSUCH_ITEM)
  | some n => if !n.valid then (s, .error CIF_NOSUCH_ITEM) else (s, getItemLoopInternal s.db h.id n.key)

/-- cif_container_get_all_loops: BEGIN_NESTTX; validate; select; ROLLBACK_NESTTX on every path -/
def allLoops (s : Store) (h : CH) : R (List LH) :=
  s.nestRO (fun d =>
    if !d.hasContainer h.id then .error CIF_INVALID_HANDLE
    else .ok ((d.loops.filter (fun l => l.cid == h.id)).map (fun l => { cid := h.id, loopNum := l.loopNum, category := l.category })))

/-- cif_container_prune -/
def prune (s : Store) (h : CH) : R Unit := ({ s with db := s.db.prune h.id }, .ok ())

/-- cif_container_get_value; on CIF_AMBIGUOUS_ITEM one value (the first row) is still delivered: `.ok (v, true)` -/
def getValue (s : Store) (h : CH) (name : Option Name) : R (V × Bool) :=
  match name with
  | none => (s, .error CIF_NOSUCH_ITEM)
  | some n =>
    if !n.valid then (s, .error CIF_NOSUCH_ITEM)
    else match s.db.valuesOf h.id n.key with
      | [] => (s, .error CIF_NOSUCH_ITEM)
      | [v] => (s, .ok (v.val, false))
      | v :: _ => (s, .ok (v.val, true))

/-- body of cif_loop_add_item_internal: ADD_LOOP_ITEM_SQL then cif_container_set_all_values; result = sqlite3_changes() -/
def addItemBody (l : LH) (key orig : Str) (v : V) (d : Db) : Except Code (Db × Nat) :=
  match d.insertItem l.cid key orig l.loopNum with
  | none => .error CIF_DUP_ITEMNAME
  | some d1 => .ok (d1.setAllValues l.cid key v)

def addItemInternal (s : Store) (l : LH) (key orig : Str) (v : V) : R Nat := s.nest (addItemBody l key orig v)

/-- the `for (each entry of the packet)` loop of cif_loop_add_packet -/
def addValues (d : Db) (cid ln row : Nat) : List (Str × V) → Except Code Db
  | [] => .ok d
  | (k, v) :: es =>
    if !(d.loopItems cid ln).any (fun i => i.name == k) then .error CIF_WRONG_LOOP      -- CHECK_ITEM_LOOP_SQL: rb
    else match d.insertValue cid k row v with
      | none => .error CIF_ERROR                                                         -- hard
      | some d1 => addValues d1 cid ln row es

/-- body of cif_loop_add_packet; since fix e266ec6 (F30) the loop's items that the packet omits get the explicit unknown value
    (FILL_PACKET_SQL after the last entry, before COMMIT_NESTTX) -/
def addPacketBody (l : LH) (pkt : List (Str × V)) (d : Db) : Except Code (Db × Unit) :=
  match d.bumpRowNum l.cid l.loopNum with
  | .error msg => if msg == multipleScalarMessage then .error CIF_RESERVED_LOOP else .error CIF_ERROR
  | .ok d1 =>
    match d1.lastRowNum l.cid l.loopNum with
    | none => .error CIF_INTERNAL_ERROR
    | some row => match addValues d1 l.cid l.loopNum row pkt with
      | .error c => .error c
      | .ok d2 => .ok (d2.fillPacket l.cid l.loopNum row, ())

/-- body of cif_loop_add_packet before fix e266ec6 (finding F30; kept for `C04_cex_F30_pinned`) -/
def addPacketBodyPinned (l : LH) (pkt : List (Str × V)) (d : Db) : Except Code (Db × Unit) :=
  match d.bumpRowNum l.cid l.loopNum with
  | .error msg => if msg == multipleScalarMessage then .error CIF_RESERVED_LOOP else .error CIF_ERROR
  | .ok d1 =>
    match d1.lastRowNum l.cid l.loopNum with
    | none => .error CIF_INTERNAL_ERROR
    | some row => match addValues d1 l.cid l.loopNum row pkt with
      | .error c => .error c
      | .ok d2 => .ok (d2, ())

/-- cif_loop_add_packet; packets are maps keyed by normalised item name, in insertion order -/
def addPacket (s : Store) (l : LH) (pkt : List (Str × V)) : R Unit :=
  if pkt.isEmpty then (s, .error CIF_INVALID_PACKET) else s.nest (addPacketBody l pkt)

/-- cif_container_add_scalar (runs inside cif_container_set_value's transaction) -/
def addScalar (s : Store) (h : CH) (key orig : Str) (v : V) : R Unit :=
  let (s1, rl) : R LH := match getCategoryLoop s h (some []) with
    | (s', .error c) => if c == CIF_NOSUCH_LOOP then createLoopInternal s' h (some []) [] else (s', .error c)
    | r => r
  match rl with
  | .error c => (s1, .error c)
  | .ok l =>
    match addItemInternal s1 l key orig v with
    | (s2, .error c) => (s2, .error c)
    | (s2, .ok numPackets) => if numPackets == 0 then addPacket s2 l [(key, v)] else (s2, .ok ())

/-- cif_container_set_value between BEGIN and COMMIT/ROLLBACK -/
def setValueInner (s1 : Store) (h : CH) (key orig : Str) (v : V) : R Unit :=
  match getItemLoopInternal s1.db h.id key with
  | .error c => if c == CIF_NOSUCH_ITEM then addScalar s1 h key orig v else (s1, .error c)
  | .ok _ => ({ s1 with db := (s1.db.setAllValues h.id key v).1 }, .ok ())

/-- cif_container_set_value -/
def setValue (s : Store) (h : CH) (name : Option Name) (val : Option V) : R Unit :=
  match name with
  | none => (s, .error CIF_INVALID_ITEMNAME)
  | some n =>
    if !n.valid then (s, .error CIF_INVALID_ITEMNAME)
    else match s.begin with
      | none => (s, .error CIF_ERROR)
      | some s1 =>
        match setValueInner s1 h n.key n.orig (val.getD .unk) with
        | (s2, .ok _) => (s2.commit.getD s2, .ok ())
        | (s2, .error c) => (s2.rollback.getD s2, .error c)

/-- cif_container_remove_item -/
def removeItem (s : Store) (h : CH) (name : Option Name) : R Unit :=
  match name with
  | none => (s, .error CIF_INVALID_ITEMNAME)
  | some n =>
    if !n.valid then (s, .error CIF_NOSUCH_ITEM)
    else match s.begin with
      | none => (s, .error CIF_ERROR)
      | some s1 =>
        match s1.db.loopSize h.id n.key with
        | none => (s1.rollback.getD s1, .error CIF_NOSUCH_ITEM)
        | some (ln, size) =>
          let d1 := if size == 1 then (s1.db.destroyLoop h.id ln).1 else s1.db.removeItem h.id n.key
          ((({ s1 with db := d1 } : Store).commit).getD s1, .ok ())

-- ---------------------------------------------------------------------------------------------------------------------
-- loop.c

/-- cif_loop_destroy -/
def destroyLoop (s : Store) (l : LH) : R Unit :=
  let (d1, n) := s.db.destroyLoop l.cid l.loopNum
  if n == 0 then ({ s with db := d1 }, .error CIF_INVALID_HANDLE)
  else if n == 1 then ({ s with db := d1 }, .ok ())
  else ({ s with db := d1 }, .error CIF_INTERNAL_ERROR)

/-- cif_loop_get_category: the handle's copy, the database is not consulted -/
def getCategory (l : LH) : Option Str := l.category

/-- the reserved-category tests of cif_loop_set_category (since fix 95b7b25 also for `category == NULL`) -/
def catReserved (l : LH) : Option Str → Bool
  | none => l.category == some []
  | some c => c.isEmpty || l.category == some []

/-- the tests as they were before fix 95b7b25 (finding F34): `category == NULL` skipped them -/
def catReservedPinned (l : LH) : Option Str → Bool
  | none => false
  | some c => c.isEmpty || l.category == some []

/-- cif_loop_set_category; delivers the handle as the call leaves it. -/
def setCategory (s : Store) (l : LH) (cat : Option Str) : Store × LH × Except Code Unit :=
  if catReserved l cat then (s, l, .error CIF_RESERVED_LOOP)
  else match s.db.setCategory l.cid l.loopNum cat with
    | .error _ => (s, l, .error CIF_ERROR)
    | .ok (d1, n) =>
      let l' := { l with category := cat }
      if n == 0 then ({ s with db := d1 }, l', .error CIF_INVALID_HANDLE)
      else if n == 1 then ({ s with db := d1 }, l', .ok ())
      else ({ s with db := d1 }, l', .error CIF_INTERNAL_ERROR)

/-- cif_loop_set_category before fix 95b7b25 (kept for the counterexample theorem `C04_cex_F34_pinned`) -/
def setCategoryPinned (s : Store) (l : LH) (cat : Option Str) : Store × LH × Except Code Unit :=
  if catReservedPinned l cat then (s, l, .error CIF_RESERVED_LOOP)
  else match s.db.setCategory l.cid l.loopNum cat with
    | .error _ => (s, l, .error CIF_ERROR)
    | .ok (d1, n) =>
      let l' := { l with category := cat }
      if n == 0 then ({ s with db := d1 }, l', .error CIF_INVALID_HANDLE)
      else if n == 1 then ({ s with db := d1 }, l', .ok ())
      else ({ s with db := d1 }, l', .error CIF_INTERNAL_ERROR)

/-- cif_loop_get_names(_internal): BEGIN_NESTTX … ROLLBACK_NESTTX; (key, original spelling) of every item, in the
    store's order; no item ⇒ the loop does not exist -/
def getNames (s : Store) (l : LH) : R (List (Str × Str)) :=
  s.nestRO (fun d => match d.loopItems l.cid l.loopNum with
    | [] => .error CIF_INVALID_HANDLE
    | is => .ok (is.map (fun i => (i.name, i.nameOrig))))

/-- cif_loop_add_item -/
def addItem (s : Store) (l : LH) (name : Option Name) (val : Option V) : R Unit :=
  match name with
  | none => (s, .error CIF_INVALID_ITEMNAME)
  | some n =>
    if !n.valid then (s, .error CIF_INVALID_ITEMNAME)
    else match addItemInternal s l n.key n.orig (val.getD .unk) with
      | (s1, .ok _) => (s1, .ok ())
      | (s1, .error c) => (s1, .error c)

end CifModel.Store
