import CifModel.Model.Types
/-
  CifModel.Model.Serialize — the binary serialisation of list and table values (value.c: SERIALIZE / DESERIALIZE,
  SERIALIZE_USTRING / DESERIALIZE_USTRING, SERIALIZE_QUOTED_FLAG / DESERIALIZE_QUOTED_FLAG, cif_list_serialize,
  cif_table_serialize, cif_list_deserialize, cif_table_deserialize, cif_value_serialize, cif_value_deserialize) and
  the write/read buffer underneath (cif_buf_write with its capacity-growth loop, cif_buf_read).  Core Lean only.

  Abstraction level: the buffer is a sequence of *words* — one word per `cif_buf_write` call (a `cif_kind_tp`, a
  `size_t`, a `ssize_t`, the `UChar` array of a string, a `cif_quoted_tp`, an `int` flag).  Assumed (trusted, observed
  by the `ser` correspondence family): `memcpy` of a word out of the buffer returns the word that was written, and the
  widths below are `sizeof` of the C types on the platform (checked by the executor's `sizes` request).
  Byte counts (position, limit, capacity) are modelled exactly, in `size_t` arithmetic (mod 2^64) where the C relies on
  wrap-around.
-/
namespace CifModel.Model.Serialize
open CifModel

inductive Word where
  | kind (k : Nat)          -- `cif_kind_tp`
  | size (n : Nat)          -- `size_t` (number of list elements)
  | ssize (n : Int)         -- `ssize_t` (string length in units; -1 announces a NULL string)
  | units (s : Str)         -- the `UChar` array of a string, without terminator
  | nullUnits               -- what SERIALIZE_USTRING writes for a NULL string: `cif_buf_write(buf, NULL, (size_t) -1 * 2)`
  | quoted (q : Nat)        -- `cif_quoted_tp`
  | flag (f : Int)          -- `int` (0 = another table entry follows, -1 = end of table)
deriving Repr, DecidableEq, Inhabited

/-- `size_t` is 64 bits wide -/
def SZ : Nat := 18446744073709551616

/-- `len` argument of the `cif_buf_write` call that writes the word -/
def Word.width : Word → Nat
  | .kind _ => 4
  | .size _ => 8
  | .ssize _ => 8
  | .units s => 2 * s.length
  | .nullUnits => SZ - 2              -- `us_size * sizeof(UChar)` with `us_size = -1`, converted to `size_t`
  | .quoted _ => 4
  | .flag _ => 4

def qcode (q : Bool) : Nat := if q then 1 else 0

/-! ### serialisation: the sequence of writes -/

/-- SERIALIZE_USTRING for a non-NULL string -/
def serStr (s : Str) : List Word := [.ssize s.length, .units s]

/-- SERIALIZE_USTRING for a NULL string -/
def serNullStr : List Word := [.ssize (-1), .nullUnits]

mutual
  /-- the SERIALIZE macro -/
  def ser : V → List Word
    | .unk => [.kind 5]
    | .na => [.kind 4]
    | .chr q t => .kind 0 :: (serStr t ++ [.quoted (qcode q)])
    | .numb q t _ _ _ _ => .kind 1 :: (serStr t ++ [.quoted (qcode q)])
    | .lst vs => .kind 2 :: .size (lenV vs) :: serList vs
    | .tbl es => .kind 3 :: serEntries es
  /-- `list->size` -/
  def lenV : List V → Nat
    | [] => 0
    | _ :: vs => lenV vs + 1
  /-- loop of cif_list_serialize -/
  def serList : List V → List Word
    | [] => []
    | v :: vs => ser v ++ serList vs
  /-- cif_table_serialize: per entry the flag 0, the normalised key, the original key (table entries built through
      the API never share the two strings, so the `key_orig == key ? NULL : key_orig` alternative always takes the
      second branch — see `Heap`), the value; then the flag -1 -/
  def serEntries : List (Str × Str × V) → List Word
    | [] => [.flag (-1)]
    | (k, ko, v) :: es => .flag 0 :: (serStr k ++ (serStr ko ++ (ser v ++ serEntries es)))
end

def widthSum : List Word → Nat
  | [] => 0
  | w :: ws => w.width + widthSum ws

/-! ### the write buffer -/

/-- `write_buffer_tp`: `capacity`, `position`, `limit` as in the C; `alloc` is a ghost field — the size of the block
    `start` currently points to (`cif_buf_write` as written never stores the enlarged size in `capacity`) -/
structure WBuf where
  capacity : Nat
  position : Nat
  limit : Nat
  alloc : Nat
  words : List Word          -- what has been written, most recent first
deriving Repr, Inhabited

/-- `cif_buf_create(cap)` -/
def bufCreate (cap : Nat) : WBuf := { capacity := cap, position := 0, limit := 0, alloc := cap, words := [] }

/-- The `do … while` loop of cif_buf_write **as written** (after the repair `working_cap = proposed_cap`):
    `growLoop fuel working needed` = the final `proposed_cap`, or `none` when the fuel runs out (non-termination is a
    model output).  Arithmetic is `size_t`: `(working_cap * 3) >> 1` wraps. -/
def growLoop : Nat → Nat → Nat → Option Nat
  | 0, _, _ => none
  | fuel + 1, working, needed =>
    let p0 := (working * 3 % SZ) / 2
    let proposed := if p0 < working then needed else p0          -- overflow: fall back to what is needed
    if proposed < needed then growLoop fuel proposed needed else some proposed

/-- the loop of the pinned tree (before df2a641): `working_cap` is never updated -/
def growLoopPinned : Nat → Nat → Nat → Option Nat
  | 0, _, _ => none
  | fuel + 1, working, needed =>
    let p0 := (working * 3 % SZ) / 2
    let proposed := if p0 < working then needed else p0
    if proposed < needed then growLoopPinned fuel working needed else some proposed

inductive WRes where
  | ok (b : WBuf)
  | err (c : Code)            -- CIF_ERROR (2) on `size_t` overflow of position + len
  | diverges                  -- the growth loop does not terminate
deriving Repr, Inhabited

/-- `cif_buf_write(buf, src, len)` for the word `w` (`len = w.width`); `loop` is the growth loop used.
    A failing `realloc` (CIF_MEMORY_ERROR) is not modelled here (property C17). -/
def bufWriteWith (loop : Nat → Nat → Nat → Option Nat) (fuel : Nat) (b : WBuf) (w : Word) : WRes :=
  let len := w.width
  let needed := (b.position + len) % SZ
  if needed < b.position then .err 2
  else if needed > b.capacity then
    match loop fuel b.capacity needed with
    | none => .diverges
    | some proposed =>
      let pos := b.position + len
      .ok { b with alloc := proposed, position := pos, limit := if pos > b.limit then pos else b.limit, words := w :: b.words }
  else
    let pos := b.position + len
    .ok { b with position := pos, limit := if pos > b.limit then pos else b.limit, words := w :: b.words }

def bufWrite := bufWriteWith growLoop

/-- a sequence of writes; stops at the first failure (every SERIALIZE step branches to the failure handler) -/
def writeAllWith (loop : Nat → Nat → Nat → Option Nat) (fuel : Nat) : WBuf → List Word → WRes
  | b, [] => .ok b
  | b, w :: ws =>
    match bufWriteWith loop fuel b w with
    | .ok b' => writeAllWith loop fuel b' ws
    | r => r

def writeAll := writeAllWith growLoop

/-- DEFAULT_SERIALIZATION_CAP -/
def defaultCap : Nat := 512

/-- `cif_value_serialize`: a buffer of DEFAULT_SERIALIZATION_CAP bytes, then the writes of SERIALIZE.
    The fuel handed to the growth loop is the number of bytes requested: the loop's `working_cap` grows by at least one
    byte per iteration, so that fuel suffices whenever the loop terminates at all (`growLoop_terminates`). -/
def serializeWith (loop : Nat → Nat → Nat → Option Nat) (v : V) : WRes :=
  writeAllWith loop SZ (bufCreate defaultCap) (ser v)

def serialize := serializeWith growLoop

/-! ### deserialisation -/

/-- the four fields `cif_value_parse_numb` computes from a number's text: (negative, digits, su digits, scale) -/
abbrev NumbFields := Bool × List Nat × Option (List Nat) × Int

/-- DESERIALIZE_USTRING **as written**: a negative length sets the destination to NULL and then falls through to the
    failure branch (there is no `break` on that path), so a NULL string cannot be read back -/
def deserStr : List Word → Option (Str × List Word)
  | .ssize n :: .units s :: r => if n < 0 then none else if n = s.length then some (s, r) else none
  | _ => none

/-- DESERIALIZE_QUOTED_FLAG: only CIF_QUOTED / CIF_NOT_QUOTED are accepted -/
def deserQuoted : List Word → Option (Bool × List Word)
  | .quoted q :: r => if q = 1 then some (true, r) else if q = 0 then some (false, r) else none
  | _ => none

mutual
  /-- the DESERIALIZE macro; `parse` = cif_value_parse_numb on the text (numbers are rebuilt from their text);
      `fuel` bounds the recursion (callers pass the number of words + 1) -/
  def deser (parse : Str → Option NumbFields) : Nat → List Word → Option (V × List Word)
    | 0, _ => none
    | fuel + 1, ws =>
      match ws with
      | .kind k :: r =>
        if k = 0 then
          match deserStr r with
          | none => none
          | some (t, r1) =>
            match deserQuoted r1 with
            | none => none
            | some (q, r2) => some (.chr q t, r2)
        else if k = 1 then
          match deserStr r with
          | none => none
          | some (t, r1) =>
            match parse t with
            | none => none                                   -- CIF_INVALID_NUMBER
            | some (neg, digits, su, scale) =>
              match deserQuoted r1 with
              | none => none
              | some (q, r2) => some (.numb q t neg digits su scale, r2)
        else if k = 2 then
          match r with
          | .size n :: r1 =>
            match deserList parse fuel n r1 with
            | none => none
            | some (vs, r2) => some (.lst vs, r2)
          | _ => none
        else if k = 3 then
          match deserEntries parse fuel r with
          | none => none
          | some (es, r1) => some (.tbl es, r1)
        else if k = 4 then some (.na, r)
        else if k = 5 then some (.unk, r)
        else none                                            -- the C stores the unknown kind number; not a value
      | _ => none
  /-- cif_list_deserialize: `n` elements -/
  def deserList (parse : Str → Option NumbFields) : Nat → Nat → List Word → Option (List V × List Word)
    | 0, _, _ => none
    | _ + 1, 0, r => some ([], r)
    | fuel + 1, n + 1, r =>
      match deser parse fuel r with
      | none => none
      | some (v, r1) =>
        match deserList parse fuel n r1 with
        | none => none
        | some (vs, r2) => some (v :: vs, r2)
  /-- cif_table_deserialize: entries while the flag is 0, end at flag -1, anything else CIF_INTERNAL_ERROR -/
  def deserEntries (parse : Str → Option NumbFields) : Nat → List Word → Option (List (Str × Str × V) × List Word)
    | 0, _ => none
    | fuel + 1, ws =>
      match ws with
      | .flag f :: r =>
        if f = -1 then some ([], r)
        else if f = 0 then
          match deserStr r with
          | none => none
          | some (k, r1) =>
            match deserStr r1 with
            | none => none
            | some (ko, r2) =>
              match deser parse fuel r2 with
              | none => none
              | some (v, r3) =>
                match deserEntries parse fuel r3 with
                | none => none
                | some (es, r4) => some ((k, ko, v) :: es, r4)
        else none
      | _ => none
end

/-- `cif_value_deserialize(blob, len, dest)`: the whole blob is one value; trailing words are ignored by the C
    (reported here so that the round-trip theorem can say there are none) -/
def deserialize (parse : Str → Option NumbFields) (ws : List Word) : Option (V × List Word) :=
  deser parse (2 * ws.length + 1) ws

/-- words of a successfully written buffer, in writing order -/
def WBuf.contents (b : WBuf) : List Word := b.words.reverse

end CifModel.Model.Serialize
