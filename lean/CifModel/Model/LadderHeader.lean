import CifModel.Model.Ladder
/-
  CifModel.Model.LadderHeader — parse_loop_header (parser.c) and the release of its name list by parse_loop (`loop_end`)
  under one allocation failure (C17), for a syntax-only parse (`container == NULL`: no cif_container_get_item_loop):

    * per data name of the header: the list node, the copy of the name, then find_header_name: the normalised form of the
      new name (cif_normalize_item_name: three requests for an ASCII name, see `normalize`), and for every EARLIER name of
      the header its normalised form (three requests), compared and released; finally the new name's normalised form is
      released.  Any failed request makes parse_loop_header return CIF_MEMORY_ERROR at once — with the node already linked
      into the list when its string could not be obtained (`next` and `string` are initialised first; /repo as it is now) —
    * and parse_loop then releases the list: per node the string (if any) and the node.

  The header modelled: n distinct valid ASCII names followed by a repetition of the first one, which the error callback
  refuses (CIF_DUP_ITEMNAME is returned): so the run ends in parse_loop's clean-up on every path, with or without a fault.
  Not modelled: the loop creation (cif_container_create_loop) and the loop body.
-/
namespace CifModel.Model.Ladder

def DUP_ITEMNAME : Nat := 41

/-- find_header_name's loop over `m` earlier names none of which matches: normalise, compare, release -/
def cmpEarlier (failAt : Nat) : Nat → St → Bool × St
  | 0, s => (true, s)
  | m + 1, s =>
    match normalize failAt s with                                 -- cif_normalize_item_name(head->string, …, &other_norm, …)
    | (none, s') => (false, s')
    | (some o, s') => cmpEarlier failAt m (free o s')             -- u_strcmp; free(other_norm)

/-- parse_loop's `loop_end`: per node of the header list free(string) (unless NULL), free(node) -/
def freeHeader : List (Nat × Option Nat) → St → St
  | [], s => s
  | (nd, str) :: rest, s => freeHeader rest (free nd (match str with | some t => free t s | none => s))

/-- the `while` loop of parse_loop_header over `n` further distinct names; `done` = the list so far (in list order).
    Returns (all names read?, the list as parse_loop finds it, state). -/
def headerNames (failAt : Nat) : Nat → List (Nat × Option Nat) → St → Bool × List (Nat × Option Nat) × St
  | 0, done, s => (true, done, s)
  | n + 1, done, s =>
    match alloc failAt s with                                     -- *next_namep = malloc(sizeof(string_element_tp))
    | (none, s1) => (false, done, s1)                              -- return CIF_MEMORY_ERROR (the list ends before)
    | (some nd, s1) =>
      match alloc failAt s1 with                                  -- ->string = malloc((token_length + 1) * sizeof(UChar))
      | (none, s2) => (false, done ++ [(nd, none)], s2)            -- node linked, next = NULL, string = NULL
      | (some str, s2) =>
        match normalize failAt s2 with                            -- find_header_name: name_norm
        | (none, s3) => (false, done ++ [(nd, some str)], s3)
        | (some nn, s3) =>
          match cmpEarlier failAt done.length s3 with
          | (false, s4) => (false, done ++ [(nd, some str)], free nn s4)
          | (true, s4) => headerNames failAt n (done ++ [(nd, some str)]) (free nn s4)

/-- parse_loop on a header of `n` distinct names followed by a repetition of the FIRST one (n ≥ 1), the error callback
    refusing the duplicate: returns (result code, final state); nothing is owned by anybody afterwards. -/
def loopHeaderAbort (failAt : Nat) (n : Nat) (s : St := {}) : Nat × St :=
  match headerNames failAt n [] s with
  | (false, done, s1) => (MEMORY_ERROR, freeHeader done s1)
  | (true, done, s1) =>
    match alloc failAt s1 with
    | (none, s2) => (MEMORY_ERROR, freeHeader done s2)
    | (some nd, s2) =>
      match alloc failAt s2 with
      | (none, s3) => (MEMORY_ERROR, freeHeader (done ++ [(nd, none)]) s3)
      | (some str, s3) =>
        match normalize failAt s3 with
        | (none, s4) => (MEMORY_ERROR, freeHeader (done ++ [(nd, some str)]) s4)
        | (some nn, s4) =>
          if n = 0 then (OK, freeHeader (done ++ [(nd, some str)]) (free nn s4))   -- not a duplicate at all (no earlier name)
          else
            match normalize failAt s4 with                        -- the first name of the header: it matches
            | (none, s5) => (MEMORY_ERROR, freeHeader (done ++ [(nd, some str)]) (free nn s5))
            | (some o, s5) =>
              -- free(other_norm); free(name_norm); result = CIF_OK → error callback(CIF_DUP_ITEMNAME) refuses → return
              (DUP_ITEMNAME, freeHeader (done ++ [(nd, some str)]) (free nn (free o s5)))

-- ---------------------------------------------------------------------------------------------------------------
-- cif_container_get_all_loops (container.c, after /repo 1cc209d / 93a61e2): per row of the query a list node (the loop
-- object) and — unless the category is SQL NULL — a copy of the category (GET_COLUMN_STRING); then the array of loop
-- pointers.  A failed node or array request: FAIL(soft); a failed category copy: the `hard` handler (DROP_STMT), which falls
-- into `soft`: `free(head->loop.category); free(head);` for every node — the node whose category could not be copied is
-- already linked, with category NULL.  The list has the same form as the header list above (`freeHeader`).

/-- the SQLITE_ROW iterations; `cats` = per remaining loop whether it has a category -/
def allLoopsRows (failAt : Nat) : List Bool → List (Nat × Option Nat) → St → Bool × List (Nat × Option Nat) × St
  | [], done, s => (true, done, s)
  | c :: rest, done, s =>
    match alloc failAt s with                                     -- malloc(sizeof(struct loop_el))
    | (none, s1) => (false, done, s1)
    | (some nd, s1) =>
      if c then
        match alloc failAt s1 with                                -- GET_COLUMN_STRING(…, temp->category, hard)
        | (none, s2) => (false, done ++ [(nd, none)], s2)
        | (some cat, s2) => allLoopsRows failAt rest (done ++ [(nd, some cat)]) s2
      else allLoopsRows failAt rest (done ++ [(nd, none)]) s1

/-- returns (result code, what the caller owns: the array and the loop objects with their categories, final state) -/
def getAllLoops (failAt : Nat) (cats : List Bool) (s : St := {}) : Nat × Option (Nat × List (Nat × Option Nat)) × St :=
  match allLoopsRows failAt cats [] s with
  | (false, done, s1) => (MEMORY_ERROR, none, freeHeader done s1)
  | (true, done, s1) =>
    match alloc failAt s1 with                                    -- malloc((loop_count + 1) * sizeof(cif_loop_tp *))
    | (none, s2) => (MEMORY_ERROR, none, freeHeader done s2)
    | (some arr, s2) => (OK, some (arr, done), s2)

end CifModel.Model.Ladder
