import CifModel.Model.Types
/-
  CifModel.Model.Heap — heap-level model of value objects, map entries and packets (value.c, map.c, packet.c):
  explicit addresses for every `malloc`ed block, explicit `free`.  Core Lean only.

  A heap is a partial map from addresses to cells plus a bump pointer (`malloc` returns a fresh address; addresses are
  never reused, so a stale pointer can never be mistaken for a live one).  Every read, write or `free` of an address
  that is not live makes the operation return `none` — that is the model's rendering of a use-after-free, an invalid
  free or a double free.  "The operation accesses only live cells and frees each cell once" is therefore "the operation
  returns `some`"; "nothing is leaked" is "after the owner releases its objects the live set is what it was before".

  Blocks:  `str`  a character string (UChar text, key; or char digit string)
           `val`  a free-standing `cif_value_tp` (what cif_value_create / cif_value_clone(…, &NULL) allocate)
           `arr`  the element-pointer array of a list, with its capacity
           `entry` a `struct entry_s`: the value is stored inline (first member), then `key`, `key_orig`
           `pkt`  a `cif_packet_tp`: entry pointers in insertion order, `is_standalone`
  A pointer to the value of a map entry is the address of the entry itself (`as_value` is the first member) — that is how
  `cif_map_retrieve_item(…, do_remove)` hands an entry's value to the caller, who releases it with cif_value_free.
-/
namespace CifModel.Model.Heap
open CifModel

/- addresses are natural numbers; 0 is NULL -/

/-- the fields of a `cif_value_tp` (`union cif_value_u`); pointers are addresses -/
inductive HVal where
  | unk
  | na
  | chr (quoted : Bool) (text : Nat)
  | numb (quoted neg : Bool) (scale : Int) (text digits : Nat) (su : Option Nat)
  | lst (elems : Option Nat) (size : Nat)          -- `elements` (NULL while capacity is 0), `size`; capacity is in the array block
  | tbl (entries : List Nat)                        -- the uthash application-order list of entry blocks
deriving Repr, DecidableEq, Inhabited

inductive Cell where
  | str (s : Str)
  | val (v : HVal)
  | arr (xs : List Nat) (cap : Nat)
  | entry (v : HVal) (key keyOrig : Nat)
  | pkt (entries : List Nat) (standalone : Bool)
deriving Repr, DecidableEq, Inhabited

structure Heap where
  cell : Nat → Option Cell
  next : Nat

/-- nothing allocated; address 0 is NULL and is never handed out -/
def Heap.empty : Heap := { cell := fun _ => none, next := 1 }

/-- the bump pointer is above every live cell -/
def Heap.WF (h : Heap) : Prop := ∀ a, h.next ≤ a → h.cell a = none

/-- `malloc` + initialisation -/
def alloc (h : Heap) (c : Cell) : Nat × Heap :=
  (h.next, { cell := fun a => if a = h.next then some c else h.cell a, next := h.next + 1 })

/-- `free(p)` for non-NULL `p`: `none` = the block is not live (invalid free / double free) -/
def free (h : Heap) (a : Nat) : Option Heap :=
  match h.cell a with
  | none => none
  | some _ => some { h with cell := fun x => if x = a then none else h.cell x }

/-- `free(p)` where `p` may be NULL -/
def freeOpt (h : Heap) : Option Nat → Option Heap
  | none => some h
  | some a => free h a

/-- a store through a pointer: `none` = the block is not live -/
def write (h : Heap) (a : Nat) (c : Cell) : Option Heap :=
  match h.cell a with
  | none => none
  | some _ => some { h with cell := fun x => if x = a then some c else h.cell x }

/-- a load through a pointer: `none` = the block is not live -/
def read (h : Heap) (a : Nat) : Option Cell := h.cell a

/-! ### building a value object: cif_value_clone into fresh storage

  `buildVal h v` allocates the components of a copy of `v` and returns the fields to put into the value object;
  `buildNew` additionally allocates the object itself (`cif_value_clone(src, &clone)` with `*clone == NULL`,
  `cif_value_create`).  Table entries get separate copies of the normalised and the original key, as
  `cif_value_clone_table` and `cif_map_set_item` make them.  The order of the individual `malloc` calls within one clone
  differs from the C (which allocates an object before its components); the order is not observable. -/

mutual
  def buildVal (h : Heap) : V → HVal × Heap
    | .unk => (.unk, h)
    | .na => (.na, h)
    | .chr q t => let (a, h1) := alloc h (.str t); (.chr q a, h1)
    | .numb q t neg d su sc =>
        let (a, h1) := alloc h (.str t)
        let (b, h2) := alloc h1 (.str d)
        match su with
        | none => (.numb q neg sc a b none, h2)
        | some s => let (c, h3) := alloc h2 (.str s); (.numb q neg sc a b (some c), h3)
    | .lst vs =>
        let (xs, h1) := buildElems h vs
        let (arr, h2) := alloc h1 (.arr xs xs.length)
        (.lst (some arr) xs.length, h2)
    | .tbl es => let (ents, h1) := buildEntries h es; (.tbl ents, h1)
  def buildElems (h : Heap) : List V → List Nat × Heap
    | [] => ([], h)
    | v :: vs =>
        let (hv, h1) := buildVal h v
        let (a, h2) := alloc h1 (.val hv)
        let (as, h3) := buildElems h2 vs
        (a :: as, h3)
  def buildEntries (h : Heap) : List (Str × Str × V) → List Nat × Heap
    | [] => ([], h)
    | (k, ko, v) :: es =>
        let (ka, h1) := alloc h (.str k)
        let (koa, h2) := alloc h1 (.str ko)
        let (hv, h3) := buildVal h2 v
        let (e, h4) := alloc h3 (.entry hv ka koa)
        let (rest, h5) := buildEntries h4 es
        (e :: rest, h5)
end

/-- `cif_value_clone(src, &clone)` with `*clone == NULL` / `cif_value_create`: a new free-standing object -/
def buildNew (h : Heap) (v : V) : Nat × Heap :=
  let (hv, h1) := buildVal h v
  alloc h1 (.val hv)

/-! ### releasing a value object: cif_value_clean / cif_value_free

  Follows pointers, so it takes fuel (`need v` suffices: `cleanVal_ok`). -/

mutual
  /-- `cif_value_clean` on the fields `hv`: frees the components, not the object -/
  def cleanVal : Nat → Heap → HVal → Option Heap
    | 0, _, _ => none
    | _ + 1, h, .unk => some h
    | _ + 1, h, .na => some h
    | _ + 1, h, .chr _ a => free h a
    | _ + 1, h, .numb _ _ _ a b su =>
        match free h a with
        | none => none
        | some h1 =>
          match free h1 b with
          | none => none
          | some h2 => freeOpt h2 su
    | _ + 1, h, .lst none _ => some h
    | fuel + 1, h, .lst (some arr) _ =>
        match read h arr with
        | some (.arr xs _) =>
          match freeElems fuel h xs with
          | none => none
          | some h1 => free h1 arr
        | _ => none
    | fuel + 1, h, .tbl ents => freeEntries fuel h ents
  /-- `cif_value_free` of each element -/
  def freeElems : Nat → Heap → List Nat → Option Heap
    | 0, _, _ => none
    | _ + 1, h, [] => some h
    | fuel + 1, h, x :: xs =>
        match read h x with
        | some (.val hv) =>
          match cleanVal fuel h hv with
          | none => none
          | some h1 =>
            match free h1 x with
            | none => none
            | some h2 => freeElems fuel h2 xs
        | _ => none
  /-- `cif_map_entry_free_internal` of each entry of a standalone map: the key unless it is the same block as the
      original key, the original key, the value's components, the entry block -/
  def freeEntries : Nat → Heap → List Nat → Option Heap
    | 0, _, _ => none
    | _ + 1, h, [] => some h
    | fuel + 1, h, e :: es =>
        match read h e with
        | some (.entry hv k ko) =>
          match (if k = ko then some h else free h k) with
          | none => none
          | some h1 =>
            match free h1 ko with
            | none => none
            | some h2 =>
              match cleanVal fuel h2 hv with
              | none => none
              | some h3 =>
                match free h3 e with
                | none => none
                | some h4 => freeEntries fuel h4 es
        | _ => none
end

/-- `cif_value_free(p)` for a free-standing object -/
def freeVal (fuel : Nat) (h : Heap) (a : Nat) : Option Heap :=
  match read h a with
  | some (.val hv) =>
    match cleanVal fuel h hv with
    | none => none
    | some h1 => free h1 a
  | _ => none

/-! ### the ownership predicate

  `Rep h hv v F`: in heap `h` the fields `hv` represent the pure value `v`, and `F` lists exactly the blocks `hv` owns
  (each once).  Defined by structural recursion on `v`. -/

def disjoint (a b : List Nat) : Prop := ∀ x, x ∈ a → x ∉ b

mutual
  def Rep (h : Heap) : HVal → V → List Nat → Prop
    | hv, .unk, F => hv = .unk ∧ F = []
    | hv, .na, F => hv = .na ∧ F = []
    | hv, .chr q t, F => ∃ a, hv = .chr q a ∧ h.cell a = some (.str t) ∧ F = [a]
    | hv, .numb q t neg d su sc, F =>
        ∃ a b, a ≠ b ∧ h.cell a = some (.str t) ∧ h.cell b = some (.str d) ∧
          ((su = none ∧ hv = .numb q neg sc a b none ∧ F = [a, b])
           ∨ ∃ s c, su = some s ∧ c ≠ a ∧ c ≠ b ∧ h.cell c = some (.str s) ∧ hv = .numb q neg sc a b (some c) ∧ F = [a, b, c])
    | hv, .lst vs, F =>
        (vs = [] ∧ ∃ n, hv = .lst none n ∧ F = [])
        ∨ ∃ arr xs cap F1, hv = .lst (some arr) xs.length ∧ h.cell arr = some (.arr xs cap) ∧ xs.length ≤ cap
            ∧ RepElems h xs vs F1 ∧ arr ∉ F1 ∧ F = F1 ++ [arr]
    | hv, .tbl es, F => ∃ ents, hv = .tbl ents ∧ RepEntries h ents es F
  def RepElems (h : Heap) : List Nat → List V → List Nat → Prop
    | xs, [], F => xs = [] ∧ F = []
    | xs, v :: vs, F =>
        ∃ x xs' hv F1 F2, xs = x :: xs' ∧ h.cell x = some (.val hv) ∧ Rep h hv v F1 ∧ RepElems h xs' vs F2
          ∧ x ∉ F1 ∧ disjoint (F1 ++ [x]) F2 ∧ F = F1 ++ [x] ++ F2
  def RepEntries (h : Heap) : List Nat → List (Str × Str × V) → List Nat → Prop
    | ents, [], F => ents = [] ∧ F = []
    | ents, (k, ko, v) :: es, F =>
        ∃ e ents' hv ka koa F1 F2, ents = e :: ents' ∧ h.cell e = some (.entry hv ka koa)
          ∧ h.cell ka = some (.str k) ∧ h.cell koa = some (.str ko) ∧ Rep h hv v F1 ∧ RepEntries h ents' es F2
          ∧ e ∉ F1 ∧ ka ∉ F1 ∧ koa ∉ F1 ∧ e ≠ ka ∧ e ≠ koa
          ∧ ((ka = koa ∧ disjoint (ka :: F1 ++ [e]) F2 ∧ F = ka :: F1 ++ [e] ++ F2)
             ∨ (ka ≠ koa ∧ disjoint (ka :: koa :: F1 ++ [e]) F2 ∧ F = ka :: koa :: F1 ++ [e] ++ F2))
end

/- fuel that suffices for `cleanVal` / `freeVal` on a representation of the value -/
mutual
  def need : V → Nat
    | .lst vs => 2 + needList vs
    | .tbl es => 2 + needEntries es
    | _ => 1
  def needList : List V → Nat
    | [] => 0
    | v :: vs => 1 + need v + needList vs
  def needEntries : List (Str × Str × V) → Nat
    | [] => 0
    | (_, _, v) :: es => 1 + need v + needEntries es
end

/-! ### list operations on the heap (value.c: cif_value_insert_element_at / remove_element_at / set_element_at)

  The functions take the *fields* of the list object (`HVal.lst`) and return the new fields; the caller stores them back
  into the object (a free-standing `val` block or the inline value of an `entry`).  Precondition checks that return a
  result code without touching memory (wrong kind, index out of range) are the subject of Model/Value; here they yield
  `none` only to keep the functions total. -/

/-- the capacity growth rule of cif_value_insert_element_at: `cap + (cap < 10 ? 4 : cap / 2)` — 0, 4, 8, 12, 18, 27 … -/
def growCap (cap : Nat) : Nat := cap + (if cap < 10 then 4 else cap / 2)

/-- `cif_value_insert_element_at(list, i, x)`: the element is cloned first (NULL = a fresh unknown value); when
    `size ≥ capacity` the pointer array is reallocated (modelled as moving: new block, old block released); then the
    tail is shifted and the clone stored. -/
def listInsertH (h : Heap) (hv : HVal) (i : Nat) (x : Option V) : Option (HVal × Heap) :=
  match hv with
  | .lst elems size =>
    if i > size then none else
    match buildNew h (x.getD .unk) with
    | (c, h1) =>
      match elems with
      | none =>
        match alloc h1 (.arr [c] (growCap 0)) with
        | (arr, h2) => some (.lst (some arr) 1, h2)
      | some arr =>
        match read h1 arr with
        | some (.arr xs cap) =>
          if size ≥ cap then
            match alloc h1 (.arr (xs.insertIdx i c) (growCap cap)) with
            | (arr', h2) =>
              match free h2 arr with
              | none => none
              | some h3 => some (.lst (some arr') (size + 1), h3)
          else
            match write h1 arr (.arr (xs.insertIdx i c) cap) with
            | none => none
            | some h2 => some (.lst (some arr) (size + 1), h2)
        | _ => none
  | _ => none

/-- `cif_value_remove_element_at(list, i, &removed)` (`toCaller = true`: the element's ownership passes to the caller,
    who gets its address) or `(list, i, NULL)` (the element is released) -/
def listRemoveH (fuel : Nat) (h : Heap) (hv : HVal) (i : Nat) (toCaller : Bool) : Option (HVal × Option Nat × Heap) :=
  match hv with
  | .lst (some arr) size =>
    match read h arr with
    | some (.arr xs cap) =>
      match xs[i]? with
      | none => none
      | some x =>
        match (if toCaller then some h else freeVal fuel h x) with
        | none => none
        | some h1 =>
          match write h1 arr (.arr (xs.eraseIdx i) cap) with
          | none => none
          | some h2 => some (.lst (some arr) (size - 1), (if toCaller then some x else none), h2)
    | _ => none
  | _ => none

/-- `cif_value_set_element_at(list, i, x)` for an `x` that is not (part of) the element replaced: the element object is
    cleaned and the clone's components are built onto it -/
def listSetH (fuel : Nat) (h : Heap) (hv : HVal) (i : Nat) (x : Option V) : Option Heap :=
  match hv with
  | .lst (some arr) _ =>
    match read h arr with
    | some (.arr xs _) =>
      match xs[i]? with
      | none => none
      | some t =>
        match read h t with
        | some (.val old) =>
          match cleanVal fuel h old with
          | none => none
          | some h1 =>
            match buildVal h1 (x.getD .unk) with
            | (new, h2) => write h2 t (.val new)
        | _ => none
    | _ => none
  | _ => none

/-! ### map entries (map.c): key / key_orig aliasing -/

/-- the part of `cif_map_set_item` that records a new spelling for an existing entry: when `key` differs from the
    entry's original key a copy is allocated and the old original key is released —
      * repaired code (50deb6e): only if it is not the same block as the normalised key, which stays in use as hash key;
      * `pinned = true`: unconditionally (the defect F10). -/
def entryRespell (pinned : Bool) (h : Heap) (e : Nat) (key : Str) : Option Heap :=
  match read h e with
  | some (.entry hv k ko) =>
    match read h ko with
    | some (.str s) =>
      if s = key then some h
      else
        match alloc h (.str key) with
        | (ko', h1) =>
          match (if pinned || ko ≠ k then free h1 ko else some h1) with
          | none => none
          | some h2 => write h2 e (.entry hv k ko')
    | _ => none
  | _ => none

/-- what `HASH_FIND` reads of an entry: its normalised key string -/
def entryKey (h : Heap) (e : Nat) : Option Str :=
  match read h e with
  | some (.entry _ k _) =>
    match read h k with
    | some (.str s) => some s
    | _ => none
  | _ => none

/-- the value part of `cif_map_set_item` on an existing entry, for a source outside the entry: clean, then clone onto
    the inline value -/
def entrySetValue (fuel : Nat) (h : Heap) (e : Nat) (x : Option V) : Option Heap :=
  match read h e with
  | some (.entry old k ko) =>
    match cleanVal fuel h old with
    | none => none
    | some h1 =>
      match buildVal h1 (x.getD .unk) with
      | (new, h2) => write h2 e (.entry new k ko)
  | _ => none

/-- a new entry of a standalone map (`cif_map_set_item`, key not present): the normalised key (allocated by the
    normaliser), a copy of the key as given, the cloned value, the entry block -/
def entryNew (h : Heap) (nk key : Str) (x : Option V) : Nat × Heap :=
  match alloc h (.str nk) with
  | (ka, h1) =>
    match alloc h1 (.str key) with
    | (koa, h2) =>
      match buildVal h2 (x.getD .unk) with
      | (hv, h3) => alloc h3 (.entry hv ka koa)

/-- `cif_map_entry_clean_metadata_internal` for a standalone map: the entry has been unlinked and its value is handed to
    the caller — the key blocks are released, the entry block (= the value object the caller now owns) stays -/
def entryDetach (h : Heap) (e : Nat) : Option Heap :=
  match read h e with
  | some (.entry _ k ko) =>
    match (if k = ko then some h else free h k) with
    | none => none
    | some h1 => free h1 ko
  | _ => none

/-- `cif_value_free` applied by the caller to a value obtained from `cif_value_remove_item_by_key` /
    `cif_packet_remove_item`: the object is the entry block -/
def freeDetached (fuel : Nat) (h : Heap) (e : Nat) : Option Heap :=
  match read h e with
  | some (.entry hv _ _) =>
    match cleanVal fuel h hv with
    | none => none
    | some h1 => free h1 e
  | _ => none

/-! ### whole maps: cif_map_set_item / cif_map_retrieve_item on the entry list of a standalone map -/

/-- `HASH_FIND` by normalised key: the first entry whose key string equals `nk` (`some none` = no such entry;
    `none` = a dead block was read) -/
def findEntry (h : Heap) : List Nat → Str → Option (Option Nat)
  | [], _ => some none
  | e :: es, nk =>
    match entryKey h e with
    | none => none
    | some s => if s = nk then some (some e) else findEntry h es nk

/-- `cif_map_set_item(map, key, x)` on a standalone map whose entries are `ents` (`nk` = what the normaliser makes of
    `key`; it is allocated by the normaliser): an existing entry takes the new spelling and a copy of the value, and the
    normalised key is released again; otherwise a new entry is appended that keeps the normalised key as its hash key -/
def mapSetItemH (fuel : Nat) (h : Heap) (ents : List Nat) (nk key : Str) (x : Option V) : Option (List Nat × Heap) :=
  match alloc h (.str nk) with
  | (kn, h0) =>
    match findEntry h0 ents nk with
    | none => none
    | some (some e) =>
      match entryRespell false h0 e key with
      | none => none
      | some h1 =>
        match entrySetValue fuel h1 e x with
        | none => none
        | some h2 =>
          match free h2 kn with
          | none => none
          | some h3 => some (ents, h3)
    | some none =>
      match alloc h0 (.str key) with
      | (koa, h1) =>
        match buildVal h1 (x.getD .unk) with
        | (hv, h2) =>
          match alloc h2 (.entry hv kn koa) with
          | (e, h3) => some (ents ++ [e], h3)

/-- `cif_map_retrieve_item(map, key, &value, do_remove = 1)`: the entry is unlinked and detached; its address is the
    value object handed to the caller (`some none` = CIF_NOSUCH_ITEM) -/
def mapRemoveItemH (h : Heap) (ents : List Nat) (nk : Str) : Option (Option (Nat × List Nat) × Heap) :=
  match alloc h (.str nk) with
  | (kn, h0) =>
    match findEntry h0 ents nk with
    | none => none
    | some found =>
      match free h0 kn with
      | none => none
      | some h1 =>
        match found with
        | none => some (none, h1)
        | some e =>
          match entryDetach h1 e with
          | none => none
          | some h2 => some (some (e, ents.erase e), h2)

/-! ### clone onto an existing object, key enumeration, packet creation over a name list -/

/-- `cif_value_clone(src, &dst)` with `*dst` an existing free-standing object at address `t` (after the repair f1b092b):
    the copy is built in a scratch object first (`x` = the value the source represents at that moment), then the target
    is cleaned, the scratch object's fields are moved into it, and the scratch object is released -/
def cloneOntoH (fuel : Nat) (h : Heap) (t : Nat) (x : V) : Option Heap :=
  match buildNew h x with
  | (c, h1) =>
    match read h1 c, read h1 t with
    | some (.val new), some (.val old) =>
      match cleanVal fuel h1 old with
      | none => none
      | some h2 =>
        match write h2 t (.val new) with
        | none => none
        | some h3 => free h3 c
    | _, _ => none

/-- the `key_orig` pointers of the entries, in enumeration order -/
def origKeys (h : Heap) : List Nat → Option (List Nat)
  | [] => some []
  | e :: es =>
    match read h e with
    | some (.entry _ _ ko) =>
      match origKeys h es with
      | some kos => some (ko :: kos)
      | none => none
    | _ => none

/-- the (re)initialisers on a free-standing object at `t` — `cif_value_init(v, kind)`, `cif_value_init_char`,
    `cif_value_copy_char`, `cif_value_parse_numb`: the previous content is released (`cif_value_clean`), then the components
    of the new value `x` are allocated and recorded in the object -/
def reinitH (fuel : Nat) (h : Heap) (t : Nat) (x : V) : Option Heap :=
  match read h t with
  | some (.val old) =>
    match cleanVal fuel h old with
    | none => none
    | some h1 =>
      match buildVal h1 x with
      | (new, h2) => write h2 t (.val new)
  | _ => none

/-- `cif_map_get_keys`: an array of `count + 1` pointers to the entries' ORIGINAL keys (borrowed, not copied); the caller
    releases the array only -/
def getKeysH (h : Heap) (ents : List Nat) : Option (Nat × List Nat × Heap) :=
  match origKeys h ents with
  | none => none
  | some kos =>
    match alloc h (.arr kos (kos.length + 1)) with
    | (a, h1) => some (a, kos, h1)

/-- the normalised names, one block each, in order -/
def allocStrs (h : Heap) : List Str → List Nat × Heap
  | [] => ([], h)
  | s :: ss =>
    match alloc h (.str s) with
    | (a, h1) =>
      match allocStrs h1 ss with
      | (as, h2) => (a :: as, h2)

/-- the loop of cif_packet_create_norm (avoid_aliasing = 0) over (normalised name, its block): per name an entry block
    whose key and original key are that block; an entry of the same key already present ⇒ the new block is released and
    the loop stops (`false`, with the entries added so far) -/
def addEntries (g : Heap) (ents : List Nat) : List (Str × Nat) → Option (Bool × List Nat × Heap)
  | [] => some (true, ents, g)
  | (nk, ka) :: rest =>
    match alloc g (.entry .unk ka ka) with
    | (e, g1) =>
      match findEntry g1 ents nk with
      | none => none
      | some (some _) =>
        match free g1 e with
        | none => none
        | some g2 => some (false, ents, g2)
      | some none => addEntries g1 (ents ++ [e]) rest

def freeList (h : Heap) : List Nat → Option Heap
  | [] => some h
  | a :: as =>
    match free h a with
    | none => none
    | some h1 => freeList h1 as

/-- second loop of cif_packet_create, walking the entries in insertion order next to the names as given: an entry whose
    name differs from its normalised form (= its key, which it still aliases as original key) gets a separate original
    key.  This is `entryRespell` on an entry with `key_orig == key`: nothing is released. -/
def setOrigs (g : Heap) : List (Nat × Str × Str) → Option Heap
  | [] => some g
  | (e, orig, _) :: rest =>
    match entryRespell false g e orig with
    | none => none
    | some g1 => setOrigs g1 rest

/-- `cif_packet_create(&p, names)` (after the repair c571e89) for names given as `(original, normalised)`: the array of
    normalised names, the normalised strings, the packet block, the entries (`addEntries`); on a duplicate everything is
    released again (cif_packet_free of the partial non-standalone packet = the entry blocks and the packet block; then the
    normalised names and the array) and the result is CIF_DUP_ITEMNAME (`some (none, h')`); otherwise the original
    spellings are attached, `is_standalone` is set and the array is released.  `none` = a dead block was touched. -/
def packetCreateH (h : Heap) (names : List (Str × Str)) : Option (Option (Nat × List Nat) × Heap) :=
  match alloc h (.arr [] (names.length + 1)) with
  | (arr, h0) =>
    match allocStrs h0 (names.map (·.2)) with
    | (kas, h1) =>
      match alloc h1 (.pkt [] false) with
      | (p, h2) =>
        match addEntries h2 [] ((names.map (·.2)).zip kas) with
        | none => none
        | some (false, ents, g) =>
          match freeList g ents with
          | none => none
          | some g1 =>
            match free g1 p with
            | none => none
            | some g2 =>
              match freeList g2 kas with
              | none => none
              | some g3 =>
                match free g3 arr with
                | none => none
                | some g4 => some (none, g4)
        | some (true, ents, g) =>
          match setOrigs g (ents.zip names) with
          | none => none
          | some g1 =>
            match write g1 p (.pkt ents true) with
            | none => none
            | some g2 =>
              match free g2 arr with
              | none => none
              | some g3 => some (some (p, ents), g3)

/-- `cif_packet_free`: the entries of the (standalone) packet, then the packet block -/
def packetFreeH (fuel : Nat) (h : Heap) (p : Nat) : Option Heap :=
  match read h p with
  | some (.pkt ents _) =>
    match freeEntries fuel h ents with
    | none => none
    | some h1 => free h1 p
  | _ => none

/-- one entry of a map: its blocks and what they represent (`ka = koa` is the sharing cif_packet_create sets up for a
    name that is already normalised) -/
def RepEntry (h : Heap) (e : Nat) (k ko : Str) (v : V) (F : List Nat) : Prop :=
  ∃ hv ka koa F1, h.cell e = some (.entry hv ka koa) ∧ h.cell ka = some (.str k) ∧ h.cell koa = some (.str ko)
    ∧ Rep h hv v F1 ∧ e ∉ F1 ∧ ka ∉ F1 ∧ koa ∉ F1 ∧ e ≠ ka ∧ e ≠ koa
    ∧ ((ka = koa ∧ F = ka :: F1 ++ [e]) ∨ (ka ≠ koa ∧ F = ka :: koa :: F1 ++ [e]))

/-- `cif_packet_create` for one name: the normalised name is allocated by the normaliser; the entry aliases it as both
    key and original key; only if the name as given differs from it is a separate original key allocated -/
def packetEntryCreate (h : Heap) (nk name : Str) : Nat × Heap :=
  match alloc h (.str nk) with
  | (ka, h1) =>
    match alloc h1 (.entry .unk ka ka) with
    | (e, h2) =>
      if name = nk then (e, h2)
      else
        match alloc h2 (.str name) with
        | (koa, h3) => (e, { h3 with cell := fun a => if a = e then some (.entry .unk ka koa) else h3.cell a })

end CifModel.Model.Heap
