import CifModel.Model.LadderMap
/-
  CifModel.Model.LadderTree — cif_value_clone and cif_value_deserialize for ARBITRARILY NESTED values (C17):
  tables inside lists inside tables …, as one mutual structural recursion over the value tree.

    * cif_value_clone                  (value.c)  with a fresh target; cif_value_clone_list; cif_value_clone_table, whose
                                                  entry values are cloned onto the value embedded in the new entry
                                                  (`*clone != NULL`: scratch clone, clean, struct copy, free scratch)
    * cif_value_deserialize            (value.c)  DESERIALIZE / cif_list_deserialize / cif_table_deserialize
    * cif_value_free / cif_value_clean (value.c)  cif_list_value_clean, cif_table_value_clean

  uthash's own requests (table header and bucket array on the first HASH_ADD_KEYPTR of every table, the doubled bucket
  array of an expansion) are made by the functions of Model/LadderMap (`hashAdd`), one bookkeeping state per table under
  construction.  The event language, `alloc`, `free` are those of Model/Ladder.  The code modelled is /repo as it is now
  (after 7285a53: HASH_ADD_UNDO in the `hash` handlers; 2b403f6: CIF_MEMORY_ERROR; fe019d6: text of a blob number released).
-/
namespace CifModel.Model.Ladder
open CifModel.Gen

/-- the shape of an arbitrary value as far as allocation is concerned.  A table is the list of its entries in iteration
    (= insertion) order: the normalised key (its hash value decides uthash's requests) and the value. -/
inductive VShape
  | scalar                                   -- unknown / not-applicable
  | chr                                      -- character value: the text
  | numb (hasSu : Bool)                      -- number: text, digits, optionally su_digits
  | lst (elems : List VShape)                -- list: element array + the elements
  | tbl (entries : List (Str × VShape))      -- table: per entry the entry block, key, key_orig, the value; uthash's blocks
deriving Repr

/-- the blocks of one table entry apart from its value (the entry block itself is the value's object: the value is the
    first member of struct entry_s) -/
structure EKey where
  key : Nat                 -- block of the normalised key (the hash key)
  orig : Nat                -- block of the original spelling
  hashv : Nat
deriving Repr

/-- what a value owns (ids of its blocks) -/
inductive VOwned
  | scalar (obj : Nat)
  | chr (obj text : Nat)
  | numb (obj text digits : Nat) (su : Option Nat)
  | lst (obj arr : Nat) (elems : List VOwned)                          -- elements in index order
  | tbl (obj : Nat) (ut : Option UT) (entries : List (EKey × VOwned))   -- entries in insertion order; ut = none ⇔ head == NULL
deriving Repr

def utBlocks (u : Option UT) : List Nat := match u with | some u => [u.tbl, u.bkts] | none => []

mutual
  def VOwned.ids : VOwned → List Nat
    | .scalar o => [o]
    | .chr o t => [o, t]
    | .numb o t d su => [o, t, d] ++ su.toList
    | .lst o a es => [o, a] ++ VOwned.idsList es
    | .tbl o ut es => o :: (utBlocks ut ++ VOwned.idsEntries es)
  def VOwned.idsList : List VOwned → List Nat
    | [] => []
    | e :: es => e.ids ++ VOwned.idsList es
  def VOwned.idsEntries : List (EKey × VOwned) → List Nat
    | [] => []
    | (ek, v) :: es => ek.key :: ek.orig :: (v.ids ++ VOwned.idsEntries es)
end

/-- the value object itself -/
def VOwned.obj : VOwned → Nat
  | .scalar o => o
  | .chr o _ => o
  | .numb o _ _ _ => o
  | .lst o _ _ => o
  | .tbl o _ _ => o

/-- the component blocks (everything but the value object) -/
def VOwned.parts : VOwned → List Nat
  | .scalar _ => []
  | .chr _ t => [t]
  | .numb _ t d su => [t, d] ++ su.toList
  | .lst _ a es => a :: VOwned.idsList es
  | .tbl _ ut es => utBlocks ut ++ VOwned.idsEntries es

/-- the same value with another object block (struct copy `**clone = *scratch`) -/
def VOwned.withObj : VOwned → Nat → VOwned
  | .scalar _, o => .scalar o
  | .chr _ t, o => .chr o t
  | .numb _ t d su, o => .numb o t d su
  | .lst _ a es, o => .lst o a es
  | .tbl _ ut es, o => .tbl o ut es

/-- the entries as uthash sees them: only the hash values matter for its bookkeeping -/
def shadowEntry (ek : EKey) : MEntry :=
  { key := ek.key, orig := ek.orig, keyStr := [], origStr := [], hashv := ek.hashv, val := .scalar 0 }

def shadow (es : List (EKey × VOwned)) : List MEntry := es.map (fun p => shadowEntry p.1)

mutual
  /-- events of `cif_value_free(v)`: `cif_value_clean` then `free(v)` -/
  def freeV : VOwned → St → St
    | .scalar o, s => free o s
    | .chr o t, s => free o (free t s)
    | .numb o t d su, s =>
      let s := free t s
      let s := free d s
      let s := match su with | some x => free x s | none => s
      free o s
    | .lst o a es, s => free o (free a (freeRevV es s))
    | .tbl o ut es, s => free o (cleanEntriesV ut es s)
  /-- cif_list_value_clean: the elements from the last to the first -/
  def freeRevV : List VOwned → St → St
    | [], s => s
    | e :: es, s => freeV e (freeRevV es s)
  /-- cif_table_value_clean: HASH_ITER in insertion order: HASH_DEL (the last remaining entry releases the bucket array and
      the table header), then cif_map_entry_free_internal: key, key_orig, cif_value_free of the embedded value (which
      releases the entry block) -/
  def cleanEntriesV (ut : Option UT) : List (EKey × VOwned) → St → St
    | [], s => s
    | (ek, v) :: es, s =>
      let s := if es.isEmpty then (match ut with | some u => free u.tbl (free u.bkts s) | none => s) else s
      cleanEntriesV ut es (freeV v (free ek.orig (free ek.key s)))
end

/-- events of `cif_value_clean(v)`: as `freeV` without the final `free(v)` -/
def cleanV : VOwned → St → St
  | .scalar _, s => s
  | .chr _ t, s => free t s
  | .numb _ t d su, s =>
    let s := free t s
    let s := free d s
    match su with | some x => free x s | none => s
  | .lst _ a es, s => free a (freeRevV es s)
  | .tbl _ ut es, s => cleanEntriesV ut es s

-- well-formedness of an ownership tree: what the library's own constructors guarantee

mutual
  /-- every table node of the ownership tree has uthash's blocks iff it has an entry -/
  def VOwned.WF : VOwned → Prop
    | .scalar _ => True
    | .chr _ _ => True
    | .numb _ _ _ _ => True
    | .lst _ _ es => VOwned.WFList es
    | .tbl _ ut es => (es = [] → ut = none) ∧ VOwned.WFEntries es
  def VOwned.WFList : List VOwned → Prop
    | [] => True
    | e :: es => e.WF ∧ VOwned.WFList es
  def VOwned.WFEntries : List (EKey × VOwned) → Prop
    | [] => True
    | (_, v) :: es => v.WF ∧ VOwned.WFEntries es
end


-- ---------------------------------------------------------------------------------------------------------------
-- cif_value_clone

mutual
  /-- the `switch (value->kind)` part of `cif_value_clone` for a freshly created target object `obj`; on failure
      `free(to_free)` -/
  def cloneIntoV (failAt : Nat) (obj : Nat) : VShape → St → Option VOwned × St
    | .scalar, s => (some (.scalar obj), s)
    | .chr, s =>
      match alloc failAt s with                                   -- cif_u_strdup(text)
      | (none, s') => (none, free obj s')
      | (some t, s') => (some (.chr obj t), s')
    | .numb hasSu, s =>
      match alloc failAt s with                                   -- text
      | (none, s') => (none, free obj s')
      | (some t, s') =>
        match alloc failAt s' with                                -- digits
        | (none, s'') => (none, free obj (free t s''))
        | (some d, s'') =>
          if hasSu then
            match alloc failAt s'' with                           -- su_digits
            | (none, s3) => (none, free obj (free t (free d s3)))   -- FAILURE_HANDLER(su): digits, then text
            | (some u, s3) => (some (.numb obj t d (some u)), s3)
          else (some (.numb obj t d none), s'')
    | .lst elems, s =>
      match alloc failAt s with                                   -- the element array
      | (none, s') => (none, free obj s')
      | (some arr, s') =>
        match cloneElemsV failAt elems [] s' with
        | (some es, s'') => (some (.lst obj arr es), s'')
        | (none, s'') => (none, free obj (free arr s''))
    | .tbl entries, s =>
      match cloneEntriesV failAt entries none [] s with           -- cif_value_clone_table builds `temp`
      | (some (ut, es), s') => (some (.tbl obj ut es), s')
      | (none, s') => (none, free obj s')
  /-- the element loop of cif_value_clone_list; `done` = elements cloned so far, most recent first.  On failure
      cif_list_value_clean: the elements cloned so far, last to first. -/
  def cloneElemsV (failAt : Nat) : List VShape → List VOwned → St → Option (List VOwned) × St
    | [], done, s => (some done.reverse, s)
    | sh :: rest, done, s =>
      match alloc failAt s with                                   -- cif_value_create(CIF_UNK_KIND, &temp)
      | (none, s') => (none, freeRevV done.reverse s')
      | (some obj, s') =>
        match cloneIntoV failAt obj sh s' with
        | (some o, s'') => cloneElemsV failAt rest (o :: done) s''
        | (none, s'') => (none, freeRevV done.reverse s'')
  /-- the HASH_ITER loop of cif_value_clone_table; (`ut`, `done`) = the table `temp` built so far, entries in insertion
      order.  The entry's value is cloned by `cif_value_clone(&entry->as_value, &new_value)` with `new_value` pointing at
      the value embedded in the new entry (kind UNK): the copy is built in a scratch object (a recursive clone with a
      fresh target), the (empty) target is cleaned, the scratch struct-copied into it and the scratch OBJECT released.
      A failure other than uthash_fatal releases the partial entry; uthash_fatal (`hash` handler): HASH_ADD_UNDO releases
      what HASH_MAKE_TABLE obtained in this very call, cif_value_clean of the cloned value, then the same ladder;
      finally `cif_table_value_clean(&temp)`. -/
  def cloneEntriesV (failAt : Nat) : List (Str × VShape) → Option UT → List (EKey × VOwned) → St →
      Option (Option UT × List (EKey × VOwned)) × St
    | [], ut, done, s => (some (ut, done), s)
    | (key, sh) :: rest, ut, done, s =>
      match alloc failAt s with                                   -- new_entry = malloc(sizeof(struct entry_s))
      | (none, s1) => (none, cleanEntriesV ut done s1)
      | (some ent, s1) =>
        match alloc failAt s1 with                                -- cif_u_strdup(entry->key)
        | (none, s2) => (none, cleanEntriesV ut done (free ent s2))
        | (some kb, s2) =>
          match alloc failAt s2 with                              -- cif_u_strdup(entry->key_orig)
          | (none, s3) => (none, cleanEntriesV ut done (free ent (free kb s3)))
          | (some ob, s3) =>
            match alloc failAt s3 with                            -- the scratch object: cif_value_create(CIF_UNK_KIND, &temp)
            | (none, s4) => (none, cleanEntriesV ut done (free ent (free kb (free ob s4))))
            | (some sobj, s4) =>
              match cloneIntoV failAt sobj sh s4 with
              | (none, s5) => (none, cleanEntriesV ut done (free ent (free kb (free ob s5))))
              | (some sc, s5) =>
                -- cif_value_clean(*clone) of the UNK target: nothing;  **clone = *scratch;  free(scratch)
                let v := sc.withObj ent
                let s5 := free sobj s5
                let ek : EKey := { key := kb, orig := ob, hashv := hashJen (keyBytes key) }
                match hashAdd failAt { ut := ut, entries := shadow done } (shadowEntry ek) s5 with
                | (.ok m', s6) => cloneEntriesV failAt rest m'.ut (done ++ [(ek, v)]) s6
                | (.fatal t, s6) =>
                  (none, cleanEntriesV ut done (free ent (free kb (free ob (cleanV v (freeAll t s6))))))
end

/-- `cif_value_clone(value, &clone)` with `*clone == NULL`, for any value -/
def cloneV (failAt : Nat) (sh : VShape) (s : St := {}) : Option VOwned × St :=
  match alloc failAt s with                                       -- cif_value_create(CIF_UNK_KIND, &temp)
  | (none, s') => (none, s')
  | (some obj, s') => cloneIntoV failAt obj sh s'

-- ---------------------------------------------------------------------------------------------------------------
-- cif_value_deserialize

mutual
  /-- the DESERIALIZE macro for a list element / a table entry: the object `obj` (a value object, or a struct entry_s
      whose first member is the value) has just been allocated by the macro (`value == NULL`); on failure
      `FAILURE_HANDLER(vfail): if (val != value) free(val);`.  An empty list owns no element array. -/
  def deserIntoV (failAt : Nat) (obj : Nat) : VShape → St → Option VOwned × St
    | .scalar, s => (some (.scalar obj), s)
    | .chr, s =>
      match alloc failAt s with                                   -- DESERIALIZE_USTRING
      | (none, s') => (none, free obj s')
      | (some t, s') => (some (.chr obj t), s')
    | .numb hasSu, s =>
      match alloc failAt s with                                   -- DESERIALIZE_USTRING: the text
      | (none, s') => (none, free obj s')
      | (some t, s') =>
        -- cif_value_parse_numb: su_digits first (if any), then digits; on failure free(text) (fe019d6), then vfail
        if hasSu then
          match alloc failAt s' with
          | (none, s'') => (none, free obj (free t s''))
          | (some u, s'') =>
            match alloc failAt s'' with
            | (none, s3) => (none, free obj (free t (free u s3)))
            | (some d, s3) => (some (.numb obj t d (some u)), s3)
        else
          match alloc failAt s' with
          | (none, s'') => (none, free obj (free t s''))
          | (some d, s'') => (some (.numb obj t d none), s'')
    | .lst elems, s =>
      if elems.isEmpty then (some (.scalar obj), s)
      else
        match alloc failAt s with                                 -- cif_list_deserialize: the element array
        | (none, s') => (none, free obj s')
        | (some arr, s') =>
          match deserElemsV failAt elems [] s' with
          | (some es, s'') => (some (.lst obj arr es), s'')
          | (none, s'') => (none, free obj (free arr s''))
    | .tbl entries, s =>
      match deserEntriesV failAt entries none [] s with           -- cif_table_deserialize
      | (some (ut, es), s') => (some (.tbl obj ut es), s')
      | (none, s') => (none, free obj s')
  /-- the element loop of cif_list_deserialize; on failure `while (size > 0) cif_value_free(elements[--size]);` -/
  def deserElemsV (failAt : Nat) : List VShape → List VOwned → St → Option (List VOwned) × St
    | [], done, s => (some done.reverse, s)
    | sh :: rest, done, s =>
      match alloc failAt s with                                   -- DESERIALIZE: malloc(sizeof(cif_value_tp))
      | (none, s') => (none, freeRevV done.reverse s')
      | (some obj, s') =>
        match deserIntoV failAt obj sh s' with
        | (some o, s'') => deserElemsV failAt rest (o :: done) s''
        | (none, s'') => (none, freeRevV done.reverse s'')
  /-- the `case 0` iterations of cif_table_deserialize; handlers in the order they fall through: `hash` (HASH_ADD_UNDO;
      cif_value_free of the entry), `value` (free key_orig), `key_orig` (free key), `key` (cif_value_clean(&temp)) -/
  def deserEntriesV (failAt : Nat) : List (Str × VShape) → Option UT → List (EKey × VOwned) → St →
      Option (Option UT × List (EKey × VOwned)) × St
    | [], ut, done, s => (some (ut, done), s)
    | (key, sh) :: rest, ut, done, s =>
      match alloc failAt s with                                   -- DESERIALIZE_USTRING(key)
      | (none, s1) => (none, cleanEntriesV ut done s1)
      | (some kb, s1) =>
        match alloc failAt s1 with                                -- DESERIALIZE_USTRING(key_orig)
        | (none, s2) => (none, cleanEntriesV ut done (free kb s2))
        | (some ob, s2) =>
          match alloc failAt s2 with                              -- DESERIALIZE(struct entry_s …): the entry
          | (none, s3) => (none, cleanEntriesV ut done (free kb (free ob s3)))
          | (some ent, s3) =>
            match deserIntoV failAt ent sh s3 with                -- … and its value; vfail releases the entry
            | (none, s4) => (none, cleanEntriesV ut done (free kb (free ob s4)))
            | (some v, s4) =>
              let ek : EKey := { key := kb, orig := ob, hashv := hashJen (keyBytes key) }
              match hashAdd failAt { ut := ut, entries := shadow done } (shadowEntry ek) s4 with
              | (.ok m', s5) => deserEntriesV failAt rest m'.ut (done ++ [(ek, v)]) s5
              | (.fatal t, s5) =>
                (none, cleanEntriesV ut done (free kb (free ob (freeV v (freeAll t s5)))))
end

/-- the blob of a composite value, as the library stores it (only lists and tables are stored as blobs) -/
inductive VBlob
  | lst (elems : List VShape)
  | tbl (entries : List (Str × VShape))
deriving Repr

/-- `cif_value_deserialize(blob, len, dest)` onto the existing object `dest` (not a block of the window; `val == value`,
    so vfail releases nothing).  Returns (result code, the component blocks `dest` gained, final state). -/
def deserV (failAt : Nat) (b : VBlob) (s : St := {}) : Nat × Option (List Nat) × St :=
  match b with
  | .lst elems =>
    if elems.isEmpty then (OK, some [], s)
    else
      match alloc failAt s with
      | (none, s') => (MEMORY_ERROR, none, s')
      | (some arr, s') =>
        match deserElemsV failAt elems [] s' with
        | (some es, s'') => (OK, some (arr :: VOwned.idsList es), s'')
        | (none, s'') => (MEMORY_ERROR, none, free arr s'')
  | .tbl entries =>
    match deserEntriesV failAt entries none [] s with
    | (some (ut, es), s') => (OK, some (utBlocks ut ++ VOwned.idsEntries es), s')
    | (none, s') => (MEMORY_ERROR, none, s')

-- ---------------------------------------------------------------------------------------------------------------
-- the table-free fragment (Model/Ladder `Shape`, `DShape`) embedded in the general one

mutual
  def Shape.toV : Shape → VShape
    | .scalar => .scalar
    | .chr => .chr
    | .numb b => .numb b
    | .lst es => .lst (Shape.toVs es)
  def Shape.toVs : List Shape → List VShape
    | [] => []
    | e :: es => e.toV :: Shape.toVs es
end

end CifModel.Model.Ladder
