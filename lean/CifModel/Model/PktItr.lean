import CifModel.Model.Store
/-
  CifModel.Model.PktItr — cif_loop_get_packets (loop.c) and pktitr.c on top of the store's transaction state.

  `Iter` = struct cif_pktitr_s: the loop it was made for, whether the loop HANDLE it was made from says "scalar loop"
  (cached category ""), the normalised item names (`item_names`/`name_set`), the not yet delivered result rows of
  GET_LOOP_VALUES_SQL, `previous_row_num`, `finished`.
  Assumption made explicit: SQLite evaluates GET_LOOP_VALUES_SQL (`order by` over a join) on the state at creation —
  rows replaced or removed through the iterator are not revisited (validated by the `iter` correspondence family on
  one-item and several-item loops).
-/
namespace CifModel.Store
open Gen.ErrCodes

structure Iter where
  cid : Nat
  loopNum : Nat
  scalar : Bool
  names : List Str
  rows : List ValueRow
  prev : Int
  finished : Bool
deriving Repr, Inhabited

/-- cif_loop_get_packets: names (BEGIN_NESTTX/ROLLBACK_NESTTX, none ⇒ CIF_INVALID_HANDLE), prepare, BEGIN (fails inside
    a transaction ⇒ CIF_ERROR), first step: no row ⇒ ROLLBACK, CIF_EMPTY_LOOP; else the transaction stays open. -/
def getPackets (s : Store) (l : LH) : R Iter :=
  match getNames s l with
  | (s1, .error c) => (s1, .error c)
  | (s1, .ok names) =>
    match s1.begin with
    | none => (s1, .error CIF_ERROR)
    | some s2 =>
      match s2.db.loopValues l.cid l.loopNum with
      | [] => (s2.rollback.getD s2, .error CIF_EMPTY_LOOP)
      | rows => (s2, .ok { cid := l.cid, loopNum := l.loopNum, scalar := l.category == some [], names := names.map (·.1),
                           rows := rows, prev := -1, finished := false })

/-- fill the all-unknown packet with the rows of one packet; a row for a name that is not expected (or a second row for
    the same name) is CIF_INTERNAL_ERROR -/
def fillPacket : List (Str × V) → List ValueRow → Option (List (Str × V))
  | p, [] => some p
  | p, r :: rs =>
    if p.any (fun e => e.1 == r.name && e.2.kindCode == 5) then
      fillPacket (p.map (fun e => if e.1 == r.name then (e.1, r.val) else e)) rs
    else none

/-- cif_pktitr_next_packet -/
def nextPacket (s : Store) (it : Iter) : Iter × Except Code (List (Str × V)) :=
  if it.finished then (it, .error CIF_FINISHED)
  else if s.autocommit then (it, .error CIF_INVALID_HANDLE)
  else match it.rows with
    | [] => (it, .error CIF_ERROR)                 -- not reachable: an unfinished iterator has a current row
    | r :: _ =>
      let cur := it.rows.takeWhile (fun x => x.rowNum == r.rowNum)
      let rest := it.rows.dropWhile (fun x => x.rowNum == r.rowNum)
      match fillPacket (it.names.map (fun n => (n, V.unk))) cur with
      | none => (it, .error CIF_INTERNAL_ERROR)
      | some p => ({ it with rows := rest, prev := r.rowNum, finished := rest.isEmpty }, .ok p)

/-- cif_pktitr_next_packet with a CALLER-SUPPLIED packet (`*packet != NULL`): "replacing the contents … includes removing items that
    do not belong to the iterated loop".  `caller` = the entries of the caller's packet (normalised key, spelling) in its order,
    `p` = the packet just read.  The caller's entries for items of the loop stay where they are, in the caller's spelling, with
    the value read; its other entries are removed; the loop's remaining items are appended in the loop's order (spelling =
    normalised name, as cif_packet_create_norm makes them). -/
def mergeCallerPacket (caller : List (Str × Str)) (p : List (Str × V)) : List (Str × Str × V) :=
  caller.filterMap (fun c => (p.find? (fun e => e.1 == c.1)).map (fun e => (c.1, c.2, e.2)))
    ++ (p.filter (fun e => !caller.any (fun c => c.1 == e.1))).map (fun e => (e.1, e.1, e.2))

/-- the HASH_ITER loop of cif_pktitr_update_packet -/
def updateValues (d : Db) (it : Iter) : List (Str × V) → Except Code Db
  | [] => .ok d
  | (k, v) :: es =>
    if it.names.contains k then
      match d.replaceValue it.cid k it.prev.toNat v with
      | none => .error CIF_ERROR
      | some d1 => updateValues d1 it es
    else .error CIF_WRONG_LOOP

/-- cif_pktitr_update_packet: SAVE; … ; RELEASE, or ROLLBACK_TO on failure (the savepoint is then left on the stack) -/
def updatePacket (s : Store) (it : Iter) (pkt : List (Str × V)) : R Unit :=
  if s.autocommit then (s, .error CIF_INVALID_HANDLE)
  else if it.prev ≤ 0 then (s, .error CIF_MISUSE)
  else
    let s1 := s.save
    match updateValues s1.db it pkt with
    | .ok d2 => ((({ s1 with db := d2 } : Store).release).getD s1, .ok ())
    | .error c => (s1.rollbackTo.getD s1, .error c)

/-- cif_pktitr_remove_packet -/
def removePacket (s : Store) (it : Iter) : Store × Iter × Except Code Unit :=
  if s.autocommit then (s, it, .error CIF_INVALID_HANDLE)
  else if it.prev ≤ 0 then (s, it, .error CIF_MISUSE)
  else
    let s1 := s.save
    let d1 := s1.db.removePacket it.cid it.loopNum it.prev.toNat
    let d2 := if it.scalar then d1.resetRowNum it.cid it.loopNum else d1
    ((({ s1 with db := d2 } : Store).release).getD s1, { it with prev := -1 }, .ok ())

/-- cif_pktitr_close: COMMIT (if that fails: CIF_ERROR and ROLLBACK); the iterator is released either way -/
def closeIter (s : Store) : R Unit :=
  match s.commit with
  | some s1 => (s1, .ok ())
  | none => (s.rollback.getD s, .error CIF_ERROR)

/-- cif_pktitr_abort: ROLLBACK -/
def abortIter (s : Store) : R Unit :=
  match s.rollback with
  | some s1 => (s1, .ok ())
  | none => (s, .error CIF_ERROR)

end CifModel.Store
