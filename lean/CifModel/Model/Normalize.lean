import CifModel.Model.Names
/-
  CifModel.Model.Normalize — `cif_normalize` and the three `cif_normalize_*` entry points of src/utils.c, and the key matching of
  the map of src/map.c at association-list level.

  ICU is a PARAMETER of the model: `UnicodeOps` bundles the three string functions the C calls
  (`unorm_normalize(…, UNORM_NFD)`, `u_strFoldCase(…, U_FOLD_CASE_DEFAULT)`, `unorm_normalize(…, UNORM_NFC)`), and `Laws` states
  what the theorems of C09 assume of them — as hypotheses, never as axioms.  The `norm` correspondence family tests every law
  against the real ICU on the same data on which it compares `cif_normalize`.  Allocation / ICU failures are not modelled.
-/
namespace CifModel.Model

structure UnicodeOps where
  nfd : Str → Str
  fold : Str → Str
  nfc : Str → Str

/-- the facts about ICU's normalisation and case folding that the C09 theorems use -/
structure Laws (U : UnicodeOps) : Prop where
  /-- NFD of an NFC form is the NFD of the original (NFC is canonically equivalent to its input) -/
  nfd_nfc : ∀ x, U.nfd (U.nfc x) = U.nfd x
  /-- NFC depends only on the canonical equivalence class: composing after decomposing is composing -/
  nfc_nfd : ∀ x, U.nfc (U.nfd x) = U.nfc x
  /-- stability of canonical caseless folding: X ↦ NFD(fold(NFD X)) is idempotent (Unicode D145's closure) -/
  fold_stable : ∀ x, U.nfd (U.fold (U.nfd (U.fold (U.nfd x)))) = U.nfd (U.fold (U.nfd x))

/-- canonical equivalence of two strings: equal canonical decompositions -/
def canonEq (U : UnicodeOps) (a b : Str) : Prop := U.nfd a = U.nfd b

/-- `cif_normalize(src, -1, &normalized)`: NFD, then case folding, then NFC — in the C's order -/
def cifNormalize (U : UnicodeOps) (s : Str) : Str := U.nfc (U.fold (U.nfd s))

/-- `cif_normalize_name(name, -1, &out, invalidityCode)` (block and frame codes) -/
def normalizeName (U : UnicodeOps) (name : Option Str) (invalidityCode : Code) : Except Code Str :=
  match name with
  | none => .error invalidityCode
  | some s => if isValidName false s then .ok (cifNormalize U s) else .error invalidityCode

/-- `cif_normalize_item_name(name, -1, &out, invalidityCode)` (data names) -/
def normalizeItemName (U : UnicodeOps) (name : Option Str) (invalidityCode : Code) : Except Code Str :=
  match name with
  | none => .error invalidityCode
  | some s => if isValidName true s then .ok (cifNormalize U s) else .error invalidityCode

/-- `cif_normalize_table_index(name, -1, &out, invalidityCode)` (table keys): NFC only — case is significant; whitespace and the
    empty string are allowed -/
def normalizeTableIndex (U : UnicodeOps) (name : Option Str) (invalidityCode : Code) : Except Code Str :=
  match name with
  | none => .error invalidityCode
  | some s => if hasDisallowed s then .error invalidityCode else .ok (U.nfc s)

/-! ### the map of map.c as an insertion-ordered association list `(key, key_orig, value)` -/

abbrev Entries (α : Type) := List (Str × Str × α)

/-- `HASH_FIND` by normalised key -/
def Entries.find {α} (es : Entries α) (k : Str) : Option (Str × Str × α) := List.find? (fun e => e.1 == k) es

/-- `cif_map_set_item`: an existing entry keeps its place, takes the new spelling as `key_orig` and the new value; a new entry is
    appended.  `norm` is the map's normalizer applied to the key. -/
def Entries.set {α} (es : Entries α) (norm : Option Str → Except Code Str) (key : Str) (v : α) : Except Code (Entries α) :=
  match norm (some key) with
  | .error c => .error c
  | .ok k =>
    if (es.find k).isSome then .ok (es.map fun e => if e.1 == k then (k, key, v) else e)
    else .ok (es ++ [(k, key, v)])

/-- `cif_map_retrieve_item` without removal: the value, or `noSuch` -/
def Entries.get {α} (es : Entries α) (norm : Option Str → Except Code Str) (key : Str) (noSuch : Code) : Except Code α :=
  match norm (some key) with
  | .error c => .error c
  | .ok k => match es.find k with
    | some e => .ok e.2.2
    | none => .error noSuch

/-- `cif_map_retrieve_item` with removal -/
def Entries.remove {α} (es : Entries α) (norm : Option Str → Except Code Str) (key : Str) (noSuch : Code) : Except Code (Entries α) :=
  match norm (some key) with
  | .error c => .error c
  | .ok k => if (es.find k).isSome then .ok (es.filter fun e => !(e.1 == k)) else .error noSuch

/-- `cif_map_get_keys`: the original spellings, in enumeration order -/
def Entries.keys {α} (es : Entries α) : List Str := es.map (·.2.1)

/-! ### name-keyed containers (blocks of a CIF, frames of a container, items of a container) at the level C09 speaks about:
    the set of normalised names present (SQL `unique`/`primary key` on the normalised name) -/

/-- create under a spelling: refused with `invalid` if the name is invalid, with `dup` if the normalised name is present -/
def createNamed (norm : Option Str → Except Code Str) (present : List Str) (name : Str) (dup : Code) : Except Code (List Str) :=
  match norm (some name) with
  | .error c => .error c
  | .ok k => if present.contains k then .error dup else .ok (present ++ [k])

/-- look up under a spelling -/
def findNamed (norm : Option Str → Except Code Str) (present : List Str) (name : Str) (noSuch : Code) : Except Code Unit :=
  match norm (some name) with
  | .error c => .error c
  | .ok k => if present.contains k then .ok () else .error noSuch

end CifModel.Model
