import CifModel.Model.ParserTrace
import CifModel.Model.StoreStep
/-
  CifModel.Model.ParserStoreOps — the trace of the instrumented parser (Model/ParserTrace.lean: `SOp`, containers addressed by
  path) as a HISTORY OF THE STORE MODEL (Model/StoreStep.lean: `Store.Op`, containers and loops addressed by handle numbers), and
  that history run through `Store.step` from a fresh CIF.

  `storeOps`: every `SOp` becomes the one `Store.Op` of the API function the C calls at that place:

      mkBlock code len        ↦ mkBlock 0 ⟨norm code, code, valid⟩ len          cif_create_block(_internal)            (returns handle #chs)
      mkFrame parent code len ↦ mkFrame h(parent) ⟨norm code, code, valid⟩ len  cif_container_create_frame(_internal)  (returns handle #chs)
      setVal path n v         ↦ setVal h(path) ⟨norm n, n, valid⟩ (some v)  cif_container_set_value
      mkLoop path names       ↦ mkLoop h(path) none names                   cif_container_create_loop   (returns loop handle #lhs)
      addPkt path values      ↦ addPkt l(path) (keys of the loop's names zipped with the values)   cif_loop_add_packet
      prune path              ↦ prune h(path)                               cif_container_prune

  `h(path)` = the number of the handle the creation of that container returned, `l(path)` = the handle of the loop created last in
  that container (the one parse_loop_packets fills).  Names travel as the store model wants them: (normalised key, spelling,
  verdict of cif_is_valid_name); the lenient creations (`cif_create_block_internal(…, 1, …)` after a reported invalid code, the
  anonymous block) are `Store.Op.mkBlock / mkFrame` with the `lenient` flag (group gX).  NOT expressible (`none`): an op on a container
  that was not created in this history (cannot happen: `cifOps` in front builds pre-existing content).

  `storeAgrees`: the history runs without a failing call and the store then SHOWS (`Store.abs`) the CIF the parser model built.
  Executed by the driver on every request of family `parse` with a fresh target (`sto=` field); the theorem that it always holds is
  `C03_parser_store_refines_full` (Props/C03Store.lean).  Core Lean only.
-/
namespace CifModel.Model.Parser
open CifModel CifModel.Model

/-- translation state: handle numbers handed out so far -/
structure HMap where
  /-- path ↦ number of the container handle, newest first -/
  chs : List (Path × Nat) := []
  nCh : Nat := 0
  /-- path ↦ (number of the loop handle, the loop's names), newest first -/
  lhs : List (Path × Nat × List Str) := []
  nLh : Nat := 0
deriving Inhabited

def HMap.ch (m : HMap) (p : Path) : Option Nat := (m.chs.find? (fun e => e.1 == p)).map (·.2)
def HMap.lh (m : HMap) (p : Path) : Option (Nat × List Str) := (m.lhs.find? (fun e => e.1 == p)).map (·.2)

def mkName (o : Opts) (forItem : Bool) (s : Str) : Store.Name := { key := o.norm s, orig := s, valid := isValidName forItem s }

/-- one call, and the handle tables afterwards; `none`: not expressible as a `Store.Op` -/
def storeOp (o : Opts) (m : HMap) : SOp → Option (Store.Op × HMap)
  | .mkBlock code lenient =>
    some (.mkBlock 0 (some (mkName o false code)) lenient, { m with chs := ([o.norm code], m.nCh) :: m.chs, nCh := m.nCh + 1 })
  | .mkFrame parent code lenient =>
    match m.ch parent with
    | none => none
    | some h => some (.mkFrame h (some (mkName o false code)) lenient,
                      { m with chs := (parent ++ [o.norm code], m.nCh) :: m.chs, nCh := m.nCh + 1 })
  | .setVal path n v =>
    match m.ch path with
    | none => none
    | some h => some (.setVal h (some (mkName o true n)) (some v), m)
  | .mkLoop path names =>
    match m.ch path with
    | none => none
    | some h => some (.mkLoop h none (names.map (mkName o true)), { m with lhs := (path, m.nLh, names) :: m.lhs, nLh := m.nLh + 1 })
  | .addPkt path vals =>
    match m.lh path with
    | none => none
    | some (l, names) => some (.addPkt l ((names.map o.norm).zip vals), m)
  | .prune path =>
    match m.ch path with
    | none => none
    | some h => some (.prune h, m)

def storeOpsFrom (o : Opts) : HMap → List SOp → Option (List Store.Op)
  | _, [] => some []
  | m, op :: ops =>
    match storeOp o m op with
    | none => none
    | some (sop, m') => (storeOpsFrom o m' ops).map (sop :: ·)

/-- **the API calls of a parse as a history of the store model**, behind the creation of the CIF itself -/
def storeOps (o : Opts) (trace : List SOp) : Option (List Store.Op) :=
  (storeOpsFrom o {} trace).map (Store.Op.cifNew :: ·)

/-- the container whose loop the call creates / fills -/
def lastPath : Option SOp → Option Path
  | some (.mkLoop p _) => some p
  | some (.addPkt p _) => some p
  | _ => none

/-- parse_loop: cif_container_create_loop, then the packets of that loop, no other store call in between — every
    cif_loop_add_packet directly follows the create_loop / add_packet of the same container.  Hypothesis of the composition theorems
    (`C03_parser_store_refines_covered_partial`) as long as it is not proved of every trace; evaluated by the driver on every
    request of family `parse` (`sto=BADshape`). -/
def shapedFrom : Option SOp → List SOp → Bool
  | _, [] => true
  | last, op :: r =>
    (match op with
     | .addPkt p _ => lastPath last == some p
     | _ => true) && shapedFrom (some op) r

/-- the store after the history, and whether every call returned CIF_OK -/
def storeRun (ops : List Store.Op) : Option Store.Store × Bool :=
  let (w, rs) := Store.run {} ops
  (w.cifs.getD 0 none, rs.all (fun r => r.rc == some 0))

/-! ### a pre-existing target as a history -/

/-- the calls that build one loop of a pre-existing container: the scalar loop item by item (cif_container_set_value), any other
    loop by cif_container_create_loop + one cif_loop_add_packet per packet.  `none`: not buildable this way (a category other than
    NULL / "", a scalar loop without its packet or with several) -/
def loopOps (path : Path) (l : Loop) : Option (List SOp) :=
  if l.category == some [] then
    match l.packets with
    | [p] => if p.length == l.names.length then some ((l.names.zip p).map fun e => SOp.setVal path e.1 e.2) else none
    | _ => none
  else if l.category == none then some (SOp.mkLoop path l.names :: l.packets.map (SOp.addPkt path))
  else none

def loopsOps (path : Path) : List Loop → Option (List SOp)
  | [] => some []
  | l :: r => match loopOps path l, loopsOps path r with
    | some a, some b => some (a ++ b)
    | _, _ => none

mutual
  /-- the calls that build a pre-existing container below `parent` (`none` = a data block) -/
  def containerOps (o : Opts) (parent : Option Path) : Container → Option (List SOp)
    | .mk code fs ls =>
      let path := (parent.getD []) ++ [o.norm code]
      let create := match parent with
        | none => SOp.mkBlock code (!isValidName false code)      -- an invalid code can only have come from a lenient creation
        | some p => SOp.mkFrame p code (!isValidName false code)
      match loopsOps path ls, containersOps o (some path) fs with
      | some a, some b => some (create :: a ++ b)
      | _, _ => none
  def containersOps (o : Opts) (parent : Option Path) : List Container → Option (List SOp)
    | [] => some []
    | c :: r => match containerOps o parent c, containersOps o parent r with
      | some a, some b => some (a ++ b)
      | _, _ => none
end

/-- a whole pre-existing CIF as the store calls that build it -/
def cifOps (o : Opts) (cif : Cif) : Option (List SOp) := containersOps o none cif

/-! ### comparison (Bool), for executed instances -/

def loopBeq (a b : Loop) : Bool := a.category == b.category && a.names == b.names && a.packets == b.packets

def loopsBeq : List Loop → List Loop → Bool
  | [], [] => true
  | a :: r, b :: r' => loopBeq a b && loopsBeq r r'
  | _, _ => false

mutual
  def containerBeq : Container → Container → Bool
    | .mk c fs ls, .mk c' fs' ls' => c == c' && containersBeq fs fs' && loopsBeq ls ls'
  def containersBeq : List Container → List Container → Bool
    | [], [] => true
    | a :: r, b :: r' => containerBeq a b && containersBeq r r'
    | _, _ => false
end

/-- the trace is expressible as a store history, every call of it returns CIF_OK, and the store then shows exactly `cif`
    (same enumeration orders) -/
def storeAgrees (o : Opts) (trace : List SOp) (cif : Cif) : Bool :=
  match storeOps o trace with
  | none => false
  | some ops =>
    match storeRun ops with
    | (some s, true) => containersBeq (Store.abs s.db) cif
    | _ => false

end CifModel.Model.Parser
