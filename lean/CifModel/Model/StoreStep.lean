import CifModel.Model.PktItr
/-
  CifModel.Model.StoreStep — histories: several managed CIFs, tables of the handles returned so far, `step`.

  A handle is an index into the table of handles returned so far (`chs`, `lhs`, `its`); every op that can return a
  handle appends ONE entry (a dead one when the call failed).  Ops on dead entries are not executed (`rc = none`); so
  are the two ops that would be a use-after-free on the caller's side (destroying a container / loop handle object from
  which an open iterator derives).  cif_container_destroy releases the handle object on CIF_OK and CIF_INVALID_HANDLE,
  cif_loop_destroy on CIF_OK; a released container handle object takes the loop handles made from it with it (they point
  to it).  harness/x_store.c applies exactly the same rules.

  `abs` : the content of one managed CIF as the documented data model (`CifModel.Cif` of Model/Types.lean) — what a dump
  through the public query API shows.
-/
namespace CifModel.Store
open Gen.ErrCodes

-- ---- abstraction -------------------------------------------------------------------------------------------------

/-- one loop as the data model sees it: names in the store's order, one packet per distinct row number, the unknown
    value where no value is stored -/
def absLoop (d : Db) (l : LoopRow) : Loop :=
  let items := d.loopItems l.cid l.loopNum
  { category := l.category
    names := items.map (·.nameOrig)
    packets := (d.loopRows l.cid l.loopNum).map (fun r =>
      items.map (fun i => ((d.values.find? (fun v => v.cid == l.cid && v.name == i.name && v.rowNum == r)).map (·.val)).getD .unk)) }

mutual
  /-- fuel bounds the nesting depth (frame ids exceed their parents' ids; `d.frames.length + 1` always suffices) -/
  def absContainer (d : Db) : Nat → Nat → Str → Container
    | 0, _, code => .mk code [] []
    | fuel + 1, cid, code =>
      .mk code (absFrames d fuel (d.frames.filter (fun f => f.parent == cid)))
               ((d.loops.filter (fun l => l.cid == cid)).map (absLoop d))
  def absFrames (d : Db) : Nat → List FrameRow → List Container
    | _, [] => []
    | fuel, f :: fs => absContainer d fuel f.cid f.nameOrig :: absFrames d fuel fs
end

/-- the managed CIF as the documented data model: data blocks, each with everything reachable from it -/
def abs (d : Db) : Cif := d.blocks.map (fun b => absContainer d (d.frames.length + 1) b.cid b.nameOrig)

/-- "stored row numbers of a loop never exceed its last_row_num", for every loop, as a Boolean: the model driver evaluates it on
    every state it reaches and prints a violation into the model's observation (so it becomes a model/implementation
    disagreement); `Lemmas/StoreRefine.rowsBelowB_sound` ties it to the hypothesis `RowsBelow` of `C04_refines_add_packet` -/
def Db.rowsBelowB (d : Db) : Bool :=
  d.loops.all (fun r => d.values.all (fun v =>
    !(v.cid == r.cid && (d.loopItems r.cid r.loopNum).any (fun i => i.name == v.name)) || decide (v.rowNum ≤ r.lastRowNum)))

/-- "every packet of every loop has a stored value for every item of the loop" (what fix e266ec6 established for cif_loop_add_packet),
    as a Boolean evaluated by the model driver on every state it reaches (printed into the model's observation when false) -/
def Db.packetsTotalB (d : Db) : Bool :=
  d.loops.all (fun x => (d.loopRows x.cid x.loopNum).all (fun r =>
    (d.loopItems x.cid x.loopNum).all (fun j => d.hasValue x.cid j.name r)))

-- ---- histories -------------------------------------------------------------------------------------------------------

/-- `mkBlock` / `mkFrame` carry the `lenient` argument of cif_create_block_internal / cif_container_create_frame_internal (cif.c,
    container.c): `false` = the public cif_create_block / cif_container_create_frame (code validated by cif_normalize_name, then
    normalised); `true` = the call the parser makes after its error callback accepted CIF_INVALID_BLOCKCODE / CIF_INVALID_FRAMECODE
    and for the anonymous block: validity NOT checked (cif_normalize instead of cif_normalize_name), the code still normalised, the
    duplicate test on the normalised code unchanged.  (A NULL code is never passed with `lenient = true`; the executors do not send
    one.) -/
inductive Op where
  | cifNew | cifDel (c : Nat)
  | mkBlock (c : Nat) (n : Option Name) (lenient : Bool := false) | getBlock (c : Nat) (n : Name) | blocks (c : Nat)
  | mkFrame (h : Nat) (n : Option Name) (lenient : Bool := false) | getFrame (h : Nat) (n : Option Name) | frames (h : Nat)
  | cdestroy (h : Nat) | code (h : Nat) | isBlock (h : Nat)
  | mkLoop (h : Nat) (cat : Option Str) (names : List Name) | catLoop (h : Nat) (cat : Option Str)
  | itemLoop (h : Nat) (n : Option Name) | loops (h : Nat) | prune (h : Nat)
  | getVal (h : Nat) (n : Option Name) | setVal (h : Nat) (n : Option Name) (v : Option V) | rmItem (h : Nat) (n : Option Name)
  | ldestroy (l : Nat) | getCat (l : Nat) | setCat (l : Nat) (cat : Option Str) | names (l : Nat)
  | addItem (l : Nat) (n : Option Name) (v : Option V) | addPkt (l : Nat) (p : List (Str × V))
  | itOpen (l : Nat) | itNext (i : Nat) | itUpd (i : Nat) (p : List (Str × V)) | itRem (i : Nat)
  | itClose (i : Nat) | itAbort (i : Nat)
deriving Inhabited

structure CHE where
  cif : Nat
  h : CH
deriving Repr, Inhabited
structure LHE where
  cif : Nat
  ch : Nat
  h : LH
deriving Repr, Inhabited
structure ITE where
  cif : Nat
  lh : Nat
  it : Iter
deriving Repr, Inhabited

structure World where
  cifs : List (Option Store) := []
  chs : List (Option CHE) := []
  lhs : List (Option LHE) := []
  its : List (Option ITE) := []
deriving Inhabited

/-- what a call delivers besides its code -/
inductive Out where
  | unit
  | strs (l : List Str)                                   -- codes / names (unordered)
  | str (s : Option Str)                                  -- a code or a category
  | loops (l : List (Option Str × Option (List Str)))     -- category and names of each loop (unordered)
  | value (v : V)
  | packet (p : List (Str × V))
deriving Inhabited

/-- `rc = none`: the op was not executed (dead handle) -/
structure Result where
  rc : Option Code
  out : Out := .unit
deriving Inhabited

namespace World

def liveC (w : World) (c : Nat) : Option Store := (w.cifs.getD c none)
def liveH (w : World) (h : Nat) : Option (CHE × Store) :=
  match w.chs.getD h none with
  | none => none
  | some e => (w.liveC e.cif).map (fun s => (e, s))
def liveL (w : World) (l : Nat) : Option (LHE × Store) :=
  match w.lhs.getD l none with
  | none => none
  | some e => match w.liveH e.ch with
    | none => none
    | some _ => (w.liveC e.cif).map (fun s => (e, s))
def liveI (w : World) (i : Nat) : Option (ITE × Store) :=
  match w.its.getD i none with
  | none => none
  | some e => match w.liveL e.lh with
    | none => none
    | some _ => (w.liveC e.cif).map (fun s => (e, s))

def setCif (w : World) (c : Nat) (s : Store) : World := { w with cifs := w.cifs.set c (some s) }
def itOnLh (w : World) (l : Nat) : Bool := w.its.any (fun e => match e with | some e => e.lh == l | none => false)
def itOnCh (w : World) (h : Nat) : Bool :=
  w.its.any (fun e => match e with
    | some e => (match w.lhs.getD e.lh none with | some le => le.ch == h | none => false)
    | none => false)

def codeOf {α} : Except Code α → Code
  | .ok _ => CIF_OK
  | .error c => c

def skipped : Result := { rc := none }

end World

open World in
/-- one API call of the history -/
def step (w : World) (op : Op) : World × Result :=
  match op with
  | .cifNew => ({ w with cifs := w.cifs ++ [some {}] }, { rc := some CIF_OK })
  | .cifDel c =>
    match w.liveC c with
    | none => (w, skipped)
    | some _ =>
      ({ cifs := w.cifs.set c none,
         chs := w.chs.map (fun e => match e with | some e => if e.cif == c then none else some e | none => none),
         lhs := w.lhs.map (fun e => match e with | some e => if e.cif == c then none else some e | none => none),
         its := w.its.map (fun e => match e with | some e => if e.cif == c then none else some e | none => none) },
       { rc := some CIF_OK })
  | .mkBlock c n lenient =>
    match w.liveC c with
    | none => ({ w with chs := w.chs ++ [none] }, skipped)
    | some s =>
      let (s1, r) := createBlock s n lenient
      ({ (w.setCif c s1) with chs := w.chs ++ [match r with | .ok h => some { cif := c, h := h } | .error _ => none] }, { rc := some (codeOf r) })
  | .getBlock c n =>
    match w.liveC c with
    | none => ({ w with chs := w.chs ++ [none] }, skipped)
    | some s =>
      let (s1, r) := getBlock s n
      ({ (w.setCif c s1) with chs := w.chs ++ [match r with | .ok h => some { cif := c, h := h } | .error _ => none] }, { rc := some (codeOf r) })
  | .blocks c =>
    match w.liveC c with
    | none => (w, skipped)
    | some s =>
      let (s1, r) := allBlocks s
      (w.setCif c s1, { rc := some (codeOf r), out := match r with | .ok hs => .strs (hs.map (·.code)) | .error _ => .unit })
  | .mkFrame h n lenient =>
    match w.liveH h with
    | none => ({ w with chs := w.chs ++ [none] }, skipped)
    | some (e, s) =>
      let (s1, r) := createFrame s e.h n lenient
      ({ (w.setCif e.cif s1) with chs := w.chs ++ [match r with | .ok h' => some { cif := e.cif, h := h' } | .error _ => none] }, { rc := some (codeOf r) })
  | .getFrame h n =>
    match w.liveH h with
    | none => ({ w with chs := w.chs ++ [none] }, skipped)
    | some (e, s) =>
      let (s1, r) := getFrame s e.h n
      ({ (w.setCif e.cif s1) with chs := w.chs ++ [match r with | .ok h' => some { cif := e.cif, h := h' } | .error _ => none] }, { rc := some (codeOf r) })
  | .frames h =>
    match w.liveH h with
    | none => (w, skipped)
    | some (e, s) =>
      let (s1, r) := allFrames s e.h
      (w.setCif e.cif s1, { rc := some (codeOf r), out := match r with | .ok hs => .strs (hs.map (·.code)) | .error _ => .unit })
  | .cdestroy h =>
    match w.liveH h with
    | none => (w, skipped)
    | some (e, s) =>
      if w.itOnCh h then (w, skipped) else
      let (s1, r) := destroyContainer s e.h
      -- CIF_OK and CIF_INVALID_HANDLE: the handle object was released, the loop handles made from it dangle
      ({ (w.setCif e.cif s1) with
           chs := w.chs.set h none,
           lhs := w.lhs.map (fun le => match le with | some le => if le.ch == h then none else some le | none => none) },
       { rc := some (codeOf r) })
  | .code h =>
    match w.liveH h with
    | none => (w, skipped)
    | some (e, _) => (w, { rc := some CIF_OK, out := .str (some e.h.code) })
  | .isBlock h =>
    match w.liveH h with
    | none => (w, skipped)
    | some (e, _) => (w, { rc := some (if e.h.isBlock then CIF_OK else CIF_ARGUMENT_ERROR) })
  | .mkLoop h cat names =>
    match w.liveH h with
    | none => ({ w with lhs := w.lhs ++ [none] }, skipped)
    | some (e, s) =>
      let (s1, r) := createLoop s e.h cat names
      ({ (w.setCif e.cif s1) with lhs := w.lhs ++ [match r with | .ok l => some { cif := e.cif, ch := h, h := l } | .error _ => none] }, { rc := some (codeOf r) })
  | .catLoop h cat =>
    match w.liveH h with
    | none => ({ w with lhs := w.lhs ++ [none] }, skipped)
    | some (e, s) =>
      let (s1, r) := getCategoryLoop s e.h cat
      ({ (w.setCif e.cif s1) with lhs := w.lhs ++ [match r with | .ok l => some { cif := e.cif, ch := h, h := l } | .error _ => none] }, { rc := some (codeOf r) })
  | .itemLoop h n =>
    match w.liveH h with
    | none => ({ w with lhs := w.lhs ++ [none] }, skipped)
    | some (e, s) =>
      let (s1, r) := getItemLoop s e.h n
      ({ (w.setCif e.cif s1) with lhs := w.lhs ++ [match r with | .ok l => some { cif := e.cif, ch := h, h := l } | .error _ => none] },
       { rc := some (codeOf r), out := match r with | .ok l => .str l.category | .error _ => .unit })
  | .loops h =>
    match w.liveH h with
    | none => (w, skipped)
    | some (e, s) =>
      match allLoops s e.h with
      | (s1, .error c) => (w.setCif e.cif s1, { rc := some c })
      | (s1, .ok ls) =>
        -- the caller then asks each returned handle for its category and its names (each get_names brackets itself)
        let (s2, out) := ls.foldl (fun (acc : Store × List (Option Str × Option (List Str))) l =>
            match getNames acc.1 l with
            | (s', .ok ns) => (s', acc.2 ++ [(l.category, some (ns.map (·.2)))])
            | (s', .error _) => (s', acc.2 ++ [(l.category, none)])) (s1, [])
        (w.setCif e.cif s2, { rc := some CIF_OK, out := .loops out })
  | .prune h =>
    match w.liveH h with
    | none => (w, skipped)
    | some (e, s) =>
      let (s1, r) := prune s e.h
      (w.setCif e.cif s1, { rc := some (codeOf r) })
  | .getVal h n =>
    match w.liveH h with
    | none => (w, skipped)
    | some (e, s) =>
      match n with
      | none => (w, skipped)
      | some _ =>
        match getValue s e.h n with
        | (s1, .ok (v, amb)) => (w.setCif e.cif s1, { rc := some (if amb then CIF_AMBIGUOUS_ITEM else CIF_OK), out := .value v })
        | (s1, .error c) => (w.setCif e.cif s1, { rc := some c })
  | .setVal h n v =>
    match w.liveH h with
    | none => (w, skipped)
    | some (e, s) =>
      let (s1, r) := setValue s e.h n v
      (w.setCif e.cif s1, { rc := some (codeOf r) })
  | .rmItem h n =>
    match w.liveH h with
    | none => (w, skipped)
    | some (e, s) =>
      let (s1, r) := removeItem s e.h n
      (w.setCif e.cif s1, { rc := some (codeOf r) })
  | .ldestroy l =>
    match w.liveL l with
    | none => (w, skipped)
    | some (e, s) =>
      if w.itOnLh l then (w, skipped) else
      let (s1, r) := destroyLoop s e.h
      ({ (w.setCif e.cif s1) with lhs := match r with | .ok _ => w.lhs.set l none | .error _ => w.lhs }, { rc := some (codeOf r) })
  | .getCat l =>
    match w.liveL l with
    | none => (w, skipped)
    | some (e, _) => (w, { rc := some CIF_OK, out := .str (getCategory e.h) })
  | .setCat l cat =>
    match w.liveL l with
    | none => (w, skipped)
    | some (e, s) =>
      let (s1, h', r) := setCategory s e.h cat
      ({ (w.setCif e.cif s1) with lhs := w.lhs.set l (some { e with h := h' }) }, { rc := some (codeOf r) })
  | .names l =>
    match w.liveL l with
    | none => (w, skipped)
    | some (e, s) =>
      let (s1, r) := getNames s e.h
      (w.setCif e.cif s1, { rc := some (codeOf r), out := match r with | .ok ns => .strs (ns.map (·.2)) | .error _ => .unit })
  | .addItem l n v =>
    match w.liveL l with
    | none => (w, skipped)
    | some (e, s) =>
      match n with
      | none => (w, skipped)
      | some _ =>
        let (s1, r) := addItem s e.h n v
        (w.setCif e.cif s1, { rc := some (codeOf r) })
  | .addPkt l p =>
    match w.liveL l with
    | none => (w, skipped)
    | some (e, s) =>
      let (s1, r) := addPacket s e.h p
      (w.setCif e.cif s1, { rc := some (codeOf r) })
  | .itOpen l =>
    match w.liveL l with
    | none => ({ w with its := w.its ++ [none] }, skipped)
    | some (e, s) =>
      let (s1, r) := getPackets s e.h
      ({ (w.setCif e.cif s1) with its := w.its ++ [match r with | .ok it => some { cif := e.cif, lh := l, it := it } | .error _ => none] }, { rc := some (codeOf r) })
  | .itNext i =>
    match w.liveI i with
    | none => (w, skipped)
    | some (e, s) =>
      let (it', r) := nextPacket s e.it
      ({ w with its := w.its.set i (some { e with it := it' }) },
       { rc := some (codeOf r), out := match r with | .ok p => .packet p | .error _ => .unit })
  | .itUpd i p =>
    match w.liveI i with
    | none => (w, skipped)
    | some (e, s) =>
      let (s1, r) := updatePacket s e.it p
      (w.setCif e.cif s1, { rc := some (codeOf r) })
  | .itRem i =>
    match w.liveI i with
    | none => (w, skipped)
    | some (e, s) =>
      let (s1, it', r) := removePacket s e.it
      ({ (w.setCif e.cif s1) with its := w.its.set i (some { e with it := it' }) }, { rc := some (codeOf r) })
  | .itClose i =>
    match w.liveI i with
    | none => (w, skipped)
    | some (e, s) =>
      let (s1, r) := closeIter s
      ({ (w.setCif e.cif s1) with its := w.its.set i none }, { rc := some (codeOf r) })
  | .itAbort i =>
    match w.liveI i with
    | none => (w, skipped)
    | some (e, s) =>
      let (s1, r) := abortIter s
      ({ (w.setCif e.cif s1) with its := w.its.set i none }, { rc := some (codeOf r) })

/-- a whole history, with every intermediate result -/
def run (w : World) : List Op → World × List Result
  | [] => (w, [])
  | op :: ops =>
    let (w1, r) := step w op
    let (w2, rs) := run w1 ops
    (w2, r :: rs)

end CifModel.Store
