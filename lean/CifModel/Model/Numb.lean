import CifModel.Model.Types
import CifModel.Gen.ErrCodes
/-
  CifModel.Model.Numb — executable model of the number code of src/value.c (property C10).

    cif_value_parse_numb                      ↦ parseNumb        (text → sign, digits, su digits, scale)
    cif_value_convert_to_numb (char → numb)   ↦ numbOfText
    to_double (+ round_to_int/round_it/compare_half/is_zero), exact-arithmetic level ↦ toDoubleBig
    to_digits, exact-arithmetic level         ↦ toDigitsBig
    format_text_decimal / format_text_sci     ↦ formatDecimal / formatSci
    cif_value_init_numb / cif_value_autoinit_numb ↦ initNumb / autoinitNumb
    cif_value_get_number / cif_value_get_su   ↦ getNumber / getSu

  Core Lean only.  Strings are `List Nat` (UTF-16 code units); digit strings inside a number value are lists of the
  digit VALUES 0‥9 (see `V.numb` in Model/Types.lean).  C `int`s are unbounded `Int`s here; the places where the C
  arithmetic could leave the range of `int` are covered by the bound theorems of Props/C10.lean
  (`C10_exponent_no_overflow`) and stated there with their hypotheses.
-/
namespace CifModel.Model.Numb

/-! ### constants the model assumes (link lemmas against Gen.NumbConsts are in Lemmas/NumbLink.lean) -/

def UCHAR_PLUS : Nat := 43      -- '+'
def UCHAR_MINUS : Nat := 45     -- '-'
def UCHAR_DECIMAL : Nat := 46   -- '.'
def UCHAR_0 : Nat := 48
def UCHAR_9 : Nat := 57
def UCHAR_E : Nat := 69
def UCHAR_e : Nat := 101
def UCHAR_OPEN : Nat := 40      -- '('
def UCHAR_CLOSE : Nat := 41     -- ')'
/-- `INT_MAX` of the platform the library is built for (32-bit `int`) -/
def INT_MAX : Nat := 2147483647
/-- `INT_MAX / 20`: the exponent accumulator stops taking digits once it reaches this value (leaves more than 10⁹ of
    head room below INT_MAX for the digit counts that are later added to the scale) -/
def expSatLimit : Nat := 107374182
/-- the bound of the tree before fix d4436fb, `(INT_MAX / 10) - 1` (kept for the counterexample theorem) -/
def expSatLimitPinned : Nat := 214748363
def CIF_LINE_LENGTH : Nat := 2048
def DBL_MANT_DIG : Nat := 53
def DBL_DIG : Nat := 15
def DBL_MAX_10_EXP : Int := 308
def DBL_MIN_10_EXP : Int := -307
def DBL_MAX_EXP : Int := 1024
def DBL_MIN_EXP : Int := -1021
/-- `LEAST_DBL_10_DIGIT = 1 + DBL_MIN_10_EXP - DBL_DIG` -/
def LEAST_DBL_10_DIGIT : Int := -321
def DEFAULT_MAX_LEAD_ZEROES : Nat := 5
def BBASE : Nat := 1000000000
def DDIG_PER_DIG : Nat := 9
/-- `BDIG_PER_DIG = LOG2_32BIT(BBASE) - 1` -/
def BDIG_PER_DIG : Nat := 28
/-- `BUF_SIZE` of cif_value_autoinit_numb -/
def BUF_SIZE : Nat := 50

/- result codes come from the generated table of cif.h -/
export CifModel.Gen.ErrCodes (CIF_OK CIF_ARGUMENT_ERROR CIF_INVALID_NUMBER CIF_INTERNAL_ERROR)

/-! ### cif_value_parse_numb -/

/-- `(c >= UCHAR_0) && (c <= UCHAR_9)` -/
def isDigit (c : Nat) : Bool := decide (UCHAR_0 ≤ c) && decide (c ≤ UCHAR_9)

/-- a C string ends at its first NUL: the part of a unit list that the C code can see -/
def cstr (s : Str) : Str := s.takeWhile (· ≠ 0)

/-- the fields of `struct numb_value_s` that parsing determines -/
structure NumbFields where
  neg : Bool
  digits : List Nat            -- digit values, most significant first; never empty
  su : Option (List Nat)       -- `none` ⇔ `su_digits == NULL`
  scale : Int
deriving Repr, DecidableEq, Inhabited

/-- "Consume … any leading insignificant zeroes": the loop
    `while ((text[digit_start] == '0' || text[digit_start] == '.') && digit_start < digit_end - 1) digit_start += 1`
    on the region `text[digit_start .. digit_end)` -/
def trimLead : Str → Str
  | [] => []
  | c :: rest =>
    if (c = UCHAR_0 ∨ c = UCHAR_DECIMAL) ∧ rest ≠ [] then trimLead rest else c :: rest

/-- "consume leading, insignificant zeroes" of the su:
    `while (text[su_start] == '0' && su_start < pos - 1) su_start += 1` -/
def trimZeros : Str → Str
  | [] => []
  | c :: rest => if c = UCHAR_0 ∧ rest ≠ [] then trimZeros rest else c :: rest

/-- one step of the exponent accumulation, with the saturation introduced by the overflow fixes (`lim` = the bound):
    `if (exponent < INT_MAX / 20) exponent = exponent * 10 + (c - '0');` -/
def expStepL (lim : Nat) (e : Nat) (c : Nat) : Nat :=
  if e < lim then e * 10 + (c - UCHAR_0) else e

/-- the exponent digit loop -/
def expAccumL (lim : Nat) (ds : Str) : Nat := ds.foldl (expStepL lim) 0

def expStep (e c : Nat) : Nat := expStepL expSatLimit e c
def expAccum (ds : Str) : Nat := expAccumL expSatLimit ds

/-- character codes → digit values -/
def digitVals (s : Str) : List Nat := s.map (· - UCHAR_0)

/-- the optional leading sign: `(negative, rest)` -/
def takeSign (s : Str) : Bool × Str :=
  match s with
  | c :: r => if c = UCHAR_MINUS then (true, r) else if c = UCHAR_PLUS then (false, r) else (false, s)
  | [] => (false, [])

/-- the optional exponent part, entered when the next unit is `E`/`e`: `none` = CIF_INVALID_NUMBER,
    `some (scale contribution, rest)` -/
def parseExpL (lim : Nat) (s : Str) : Option (Int × Str) :=
  match s with
  | c :: r =>
    if c = UCHAR_E ∨ c = UCHAR_e then
      if (takeSign r).2.takeWhile isDigit = [] then none                                  -- no exponent digits
      else
        -- n_temp.scale = exponent * (-exp_sign)
        some (if (takeSign r).1 then ((expAccumL lim ((takeSign r).2.takeWhile isDigit) : Nat) : Int)
              else -((expAccumL lim ((takeSign r).2.takeWhile isDigit) : Nat) : Int),
              (takeSign r).2.dropWhile isDigit)
    else some (0, s)
  | [] => some (0, [])

/-- the optional uncertainty: `none` = CIF_INVALID_NUMBER, `some (su digit characters or none, rest)` -/
def parseSu (s : Str) : Option (Option Str × Str) :=
  match s with
  | c :: r =>
    if c = UCHAR_OPEN then
      match r.dropWhile isDigit with
      | c1 :: r2 =>
        if r.takeWhile isDigit = [] ∨ c1 ≠ UCHAR_CLOSE then none
        else some (some (trimZeros (r.takeWhile isDigit)), r2)
      | [] => none                                          -- missing ')'
    else some (none, s)
  | [] => some (none, [])

/-! the mandatory digit string with optional single decimal point, on the text after the sign -/

/-- digits before the point -/
def mantA (s0 : Str) : Str := s0.takeWhile isDigit
def afterA (s0 : Str) : Str := s0.dropWhile isDigit
/-- the scan loop takes one decimal point -/
def hasPoint (s0 : Str) : Bool := match afterA s0 with | c :: _ => decide (c = UCHAR_DECIMAL) | [] => false
/-- digits after the point -/
def mantB (s0 : Str) : Str := if hasPoint s0 then ((afterA s0).drop 1).takeWhile isDigit else []
/-- what follows the digit string (`text + pos` after the scan loop) -/
def afterMant (s0 : Str) : Str := if hasPoint s0 then ((afterA s0).drop 1).dropWhile isDigit else afterA s0
/-- `num_decimal` after "Consume a trailing decimal point": a point with digits behind it -/
def numDecimal (s0 : Str) : Bool := hasPoint s0 && !(mantB s0).isEmpty
/-- `text[digit_start .. digit_end)` before the trimming loop -/
def mantRegion (s0 : Str) : Str := if numDecimal s0 then mantA s0 ++ UCHAR_DECIMAL :: mantB s0 else mantA s0
/-- the digit string copied into the value: trimmed region without the point, as digit values -/
def mantDigits (s0 : Str) : List Nat := digitVals ((trimLead (mantRegion s0)).filter (· ≠ UCHAR_DECIMAL))

/-- `cif_value_parse_numb` on a NUL-free text with saturation bound `lim`: `none` = CIF_INVALID_NUMBER (value object
    untouched). -/
def parseNumbZL (lim : Nat) (text : Str) : Option NumbFields :=
  -- pos <= digit_start + num_decimal : no digits
  if (mantA (takeSign text).2).length + (mantB (takeSign text).2).length = 0 then none
  else
    match parseExpL lim (afterMant (takeSign text).2) with
    | none => none
    | some r =>
      match parseSu r.2 with
      | none => none
      | some u =>
        if u.2 ≠ [] then none                                -- unparsed tail
        else
          some { neg := (takeSign text).1
                 digits := mantDigits (takeSign text).2
                 su := u.1.map digitVals
                 -- if (num_decimal == 1) scale += digit_end - (decimal_pos + 1)
                 scale := if numDecimal (takeSign text).2 then r.1 + ((mantB (takeSign text).2).length : Nat) else r.1 }

def parseNumbZ (text : Str) : Option NumbFields := parseNumbZL expSatLimit text

/-- `cif_value_parse_numb(n, text)`: the fields on success, `none` when the C returns CIF_INVALID_NUMBER and leaves
    the value object unchanged. -/
def parseNumb (text : Str) : Option NumbFields := parseNumbZ (cstr text)

/-- The value object after a character value with the given quoting flag and text has gone through the
    char→numb coercion (`cif_value_convert_to_numb`, used by `cif_value_get_number`/`cif_value_get_su`) — and equally
    the object `cif_value_parse_numb` leaves when applied to a value that was `chr quoted text` (there `quoted = false`
    afterwards; the coercion re-applies the flag with `cif_value_set_quoted`).  When the text is not a number the value
    stays the character value it was. -/
def numbOfText (quoted : Bool) (text : Str) : V :=
  match parseNumb text with
  | some f => V.numb quoted (cstr text) f.neg f.digits f.su f.scale
  | none => V.chr quoted text


/-! ### doubles

  A finite double is `±m·2^e`.  `Dbl.fin` carries any such pair; the canonical pair (what the executors print) has
  `2^52 ≤ m < 2^53` for normal numbers, `e = -1074` for subnormal ones and `m = 0, e = 0` for zero. -/

inductive Dbl where
  | fin (neg : Bool) (m : Nat) (e : Int)
  | inf (neg : Bool)
  | nan
deriving Repr, DecidableEq, Inhabited

def pow2 (k : Nat) : Nat := 2 ^ k
def pow10 (k : Nat) : Nat := 10 ^ k

/-- number of binary digits of `n` (`0` for `0`) -/
def bitLen (n : Nat) : Nat := if n = 0 then 0 else Nat.log2 n + 1

/-- Round-half-even of the quotient `X / Y` by exact integer arithmetic (quotient, remainder, compare `2r` with `Y`,
    parity) — the arithmetic content of `round_it`/`compare_half`/`is_zero` in the default rounding mode. -/
def rhe (X Y : Nat) : Nat :=
  let q := X / Y
  let r := X % Y
  if 2 * r > Y then q + 1 else if 2 * r = Y then (if q % 2 = 1 then q + 1 else q) else q

/-- `ldexp((double) m, e)` for an integer `m ≤ 2^53` in the default rounding mode: exact when the result is a normal
    number, rounded to a multiple of `2^-1074` (ties to even) below the normal range, infinite above it.
    The result is canonical. -/
def ldexpNat (neg : Bool) (m : Nat) (e : Int) : Dbl :=
  if m = 0 then .fin neg 0 0
  else
    let b := bitLen m
    -- value in [2^(e+b-1), 2^(e+b))
    if e + b > 1024 then .inf neg
    else if e + b - 1 ≥ -1022 then
      -- normal: present with a 53-bit mantissa (m < 2^53 is the caller's business; a 54-bit m = 2^53 is halved exactly)
      if b ≤ 53 then .fin neg (m * pow2 (53 - b)) (e - ((53 - b : Nat) : Int))
      else .fin neg (m / pow2 (b - 53)) (e + ((b - 53 : Nat) : Int))
    else
      -- subnormal: round to a multiple of 2^-1074
      if e ≥ -1074 then .fin neg (m * pow2 (e + 1074).toNat) (-1074)
      else
        let m' := rhe m (pow2 (-1074 - e).toNat)
        if m' = 0 then .fin neg 0 0 else .fin neg m' (-1074)

/-- digit values, most significant first → the number they denote -/
def natOfDigits (ds : List Nat) : Nat := ds.foldl (fun acc d => acc * 10 + d) 0

/-- decimal digits of `n`, most significant first, `[0]` for zero (structural recursion on fuel) -/
def decDigitsF : Nat → Nat → List Nat
  | 0, _ => []
  | fuel + 1, n => if n < 10 then [n] else decDigitsF fuel (n / 10) ++ [n % 10]

def decDigits (n : Nat) : List Nat := decDigitsF (n + 1) n

/-- `⌊log₂ (p/q)⌋` for positive `p`, `q` -/
def flog2Rat (p q : Nat) : Int :=
  if q ≤ p then (Nat.log2 (p / q) : Nat)
  else
    -- least j with q ≤ p·2^j
    let c := Nat.log2 (q / p)
    if q ≤ p * pow2 c then -(c : Int) else -((c : Int) + 1)

/-- least `k ≤ fuel` with `den ≤ num·10^k` (search upward) -/
def leastPow10 : Nat → Nat → Nat → Nat → Nat
  | 0, _, _, k => k
  | fuel + 1, num, den, k => if den ≤ num * pow10 k then k else leastPow10 fuel num den (k + 1)

/-- `⌊log₁₀ (num/den)⌋` for positive `num`, `den` (what `MSP` computes when libm's `log10` is exact enough) -/
def flog10Rat (num den : Nat) : Int :=
  if den ≤ num then (((decDigits (num / den)).length - 1 : Nat) : Int)
  else -((leastPow10 400 num den 0 : Nat) : Int)

/-- a finite double `m·2^e` as a fraction of naturals -/
def ratOfBin (m : Nat) (e : Int) : Nat × Nat :=
  if e ≥ 0 then (m * pow2 e.toNat, 1) else (m, pow2 (-e).toNat)

/-! ### to_double — exact-arithmetic level

  The C keeps the number as a fixed-point base-10⁹ bignum whose fraction grows as far as needed, so every shift is an
  exact multiplication or division by a power of two.  At this level the bignum is the fraction `num/den`. -/

/-- the "shift left" loop: `while ((exponent > right_shift_max) && ((lsd - digits) > units_digit))`, in steps of at
    most `BDIG_PER_DIG` bits; it stops early as soon as no fractional part is left -/
def shlLoop : Nat → Nat → Nat → Int → Int → Nat × Int
  | 0, num, _, exp, _ => (num, exp)
  | fuel + 1, num, den, exp, rsMax =>
    if rsMax < exp ∧ num % den ≠ 0 then
      let shift := min BDIG_PER_DIG (exp - rsMax).toNat
      shlLoop fuel (num * pow2 shift) den (exp - (shift : Nat)) rsMax
    else (num, exp)

/-- "compute the integer mantissa, applying a one-bit left shift if it turns out to be needed"
    (`while (CIF_TRUE)`): returns `(num, exponent)` on leaving the loop -/
def mantLoop : Nat → Nat → Nat → Int → Nat × Int
  | 0, num, _, exp => (num, exp)
  | fuel + 1, num, den, exp =>
    if pow2 52 ≤ num / den ∨ num % den = 0 then (num, exp)
    else mantLoop fuel (num * 2) den (exp - 1)

/-- `round_to_int` + `round_it` (FE_TONEAREST) + `compare_half`/`is_zero` on the fraction `num/den`:
    the parity of the truncated mantissa decides an exact tie -/
def roundToInt (num den : Nat) : Nat :=
  let m := num / den
  let r := num % den
  if r = 0 then m                                  -- lsd < work_digit: no fractional digits
  else
    let parity := m % 2
    let rounded :=                                    -- round_it(0, parity, …)
      if den < 2 * r then parity + 1                  -- compare > 0
      else if 2 * r = den then (if parity = 1 then 2 else 0)   -- (round_value + 1) & ~1
      else parity
    (m - parity) + rounded

/-- The part of `to_double` after the digit string has been read into the bignum: the value is `num0/den0`,
    `un/ud` is the upper estimate `(d0+1)·10^msp` from which `right_shift_max` is computed. -/
def toDoubleCore (num0 den0 un ud : Nat) : Dbl :=
  -- right_shift_max = 1 + floor(log2((d0+1)·10^msp)) - DBL_MANT_DIG
  let rsMax : Int := 1 + flog2Rat un ud - (DBL_MANT_DIG : Nat)
  -- scale the significand
  let sc : Nat × Nat × Int :=
    if 0 < rsMax then (num0, den0 * pow2 rsMax.toNat, rsMax)
    else if rsMax < 0 then
      let r := shlLoop 64 num0 den0 0 rsMax
      (r.1, den0, r.2)
    else (num0, den0, 0)
  let ml := mantLoop 64 sc.1 sc.2.1 sc.2.2
  let mant := roundToInt ml.1 sc.2.1
  -- account for overflow during rounding
  if pow2 53 - 1 < mant then ldexpNat false 1 (ml.2 + (DBL_MANT_DIG : Nat)) else ldexpNat false mant ml.2

/-- `to_double(ddigits, scale)` for a non-negative digit string (digit VALUES): the double it returns. -/
def toDoubleBig (ds0 : List Nat) (scale : Int) : Dbl :=
  -- skip leading zeroes
  let ds := ds0.dropWhile (· = 0)
  if ds = [] then .fin false 0 0
  else
    let lsp0 : Int := -scale
    let msp : Int := lsp0 + ((ds.length - 1 : Nat) : Int)
    -- ignore trailing zeroes
    let sig := (ds.reverse.dropWhile (· = 0)).reverse
    let lsp1 : Int := lsp0 + ((ds.length - sig.length : Nat) : Int)
    -- truncate super-long digit strings
    let long : Bool := decide (msp - lsp1 ≥ (CIF_LINE_LENGTH : Nat))
    let sig2 := if long then sig.take CIF_LINE_LENGTH else sig
    let lsp : Int := if long then 1 + msp - (CIF_LINE_LENGTH : Nat) else lsp1
    if msp > DBL_MAX_10_EXP then .inf false                         -- DBL_MAX * FLT_RADIX
    else if msp ≤ DBL_MIN_10_EXP - (DBL_DIG : Nat) then .fin false 0 0     -- DBL_MIN / 2^(DBL_MAX_EXP-1)
    else
      let d0 := ds.headD 1
      let N := natOfDigits sig2
      -- the value N·10^lsp as a fraction
      let num0 := if lsp ≥ 0 then N * pow10 lsp.toNat else N
      let den0 := if lsp ≥ 0 then 1 else pow10 (-lsp).toNat
      let un := if msp ≥ 0 then (d0 + 1) * pow10 msp.toNat else d0 + 1
      let ud := if msp ≥ 0 then 1 else pow10 (-msp).toNat
      toDoubleCore num0 den0 un ud

/-! ### to_digits — exact-arithmetic level -/

/-- index of the bignum digit that holds decimal place `p` (units digit of the number in `UNITS_DIGIT = 34`) -/
def limbOfPlace (p : Int) : Int := 34 - p / 9

/-- `to_digits(d, scale)` for the finite double `±m·2^e` (default rounding mode: the sign plays no role):
    the decimal digits of `|d|·10^scale` rounded half-even to an integer; `"0"` for `d = 0`; and — as the C does —
    the EMPTY string when a non-zero `d` rounds to zero inside its own most significant bignum digit, but `"0"` when
    it lies entirely below the bignum digit in which the rounding takes place. -/
def toDigitsBig (m : Nat) (e : Int) (scale : Int) : List Nat :=
  if m = 0 then [0]
  else
    let (vn, vd) := ratOfBin m e
    -- |d|·10^scale as a fraction
    let num := if scale ≥ 0 then vn * pow10 scale.toNat else vn
    let den := if scale ≥ 0 then vd else vd * pow10 (-scale).toNat
    let z := rhe num den
    if z ≠ 0 then decDigits z
    else
      -- round_digit = UNITS_DIGIT + (scale <= 0 ? -((-scale)/9) : (scale + 8)/9)
      let roundDigit : Int := if scale ≤ 0 then 34 - (((-scale).toNat / 9 : Nat) : Int) else 34 + (((scale.toNat + 8) / 9 : Nat) : Int)
      let msd := limbOfPlace (flog10Rat vn vd)
      if roundDigit < msd then [0] else []

/-! ### format_text_decimal / format_text_sci -/

def digitChars (ds : List Nat) : Str := ds.map (· + UCHAR_0)

/-- `WRITE_SU` -/
def suText (su : Option (List Nat)) : Str :=
  match su with
  | none => []
  | some d => UCHAR_OPEN :: digitChars d ++ [UCHAR_CLOSE]

/-- `su_size`: `strlen(su_buf)` (0 for an exact number) -/
def suSize (su : Option (List Nat)) : Nat := match su with | none => 0 | some d => d.length

/-- `total_chars` of format_text_decimal (terminator included) -/
def decimalChars (neg : Bool) (digits : List Nat) (su : Option (List Nat)) (scale : Nat) : Nat :=
  (if neg then 1 else 0) + (if digits.length ≤ scale then scale + 1 else digits.length)
    + (if scale = 0 then 0 else 1) + (if suSize su > 0 then suSize su + 2 else 0) + 1

/-- the characters format_text_decimal writes between the sign and the su -/
def decimalBody (digits : List Nat) (scale : Nat) : Str :=
  if digits.length ≤ scale then
    -- whole_digits <= 0: "0." and leading zeroes
    UCHAR_0 :: UCHAR_DECIMAL :: (List.replicate (scale - digits.length) UCHAR_0 ++ digitChars digits)
  else
    digitChars (digits.take (digits.length - scale)) ++ (if scale > 0 then [UCHAR_DECIMAL] else [])
      ++ digitChars (digits.drop (digits.length - scale))

def signChars (neg : Bool) : Str := if neg then [UCHAR_MINUS] else []

/-- `format_text_decimal`; `none` = CIF_ARGUMENT_ERROR (text longer than a line).  Requires `scale ≥ 0`. -/
def formatDecimal (neg : Bool) (digits : List Nat) (su : Option (List Nat)) (scale : Nat) : Option Str :=
  if decimalChars neg digits su scale ≤ CIF_LINE_LENGTH + 1 then
    some (signChars neg ++ decimalBody digits scale ++ suText su)
  else none

/-- `exponent_digits` decimal digits of `n`, zero padded (the loop `*(c + i) = (msp % 10) + '0'; msp /= 10`) -/
def padDigits : Nat → Nat → Str
  | 0, _ => []
  | k + 1, n => padDigits k (n / 10) ++ [n % 10 + UCHAR_0]

/-- `most_significant_place` of format_text_sci -/
def sciMsp (digits : List Nat) (scale : Int) : Int :=
  ((if digits.length > 0 then digits.length - 1 else 0 : Nat) : Int) - scale

/-- `exponent_digits`: `((int) log10(abs(msp) + 0.5)) + 1`, at least 2 -/
def sciExpDigits (digits : List Nat) (scale : Int) : Nat := max 2 (decDigits (sciMsp digits scale).natAbs).length

/-- `total_chars` of format_text_sci -/
def sciChars (neg : Bool) (digits : List Nat) (su : Option (List Nat)) (scale : Int) : Nat :=
  (if neg then 1 else 0) + (if digits.length > 1 then digits.length + 1 else 1) + sciExpDigits digits scale + 2
    + (if suSize su > 0 then suSize su + 2 else 0) + 1

/-- the value digits of format_text_sci: first digit, and the rest behind a point -/
def sciMant (digits : List Nat) : Str :=
  match digits with
  | [] => [UCHAR_0]
  | d :: rest => (d + UCHAR_0) :: (if rest = [] then [] else UCHAR_DECIMAL :: digitChars rest)

/-- the exponent field `e±dd` -/
def sciExp (digits : List Nat) (scale : Int) : Str :=
  UCHAR_e :: (if sciMsp digits scale < 0 then UCHAR_MINUS else UCHAR_PLUS)
    :: padDigits (sciExpDigits digits scale) (sciMsp digits scale).natAbs

/-- `format_text_sci`; `none` = CIF_ARGUMENT_ERROR -/
def formatSci (neg : Bool) (digits : List Nat) (su : Option (List Nat)) (scale : Int) : Option Str :=
  if sciChars neg digits su scale ≤ CIF_LINE_LENGTH + 1 then
    some (signChars neg ++ sciMant digits ++ sciExp digits scale ++ suText su)
  else none

/-! ### cif_value_init_numb / cif_value_autoinit_numb

  `msp` is the value of the macro `MSP(val)` = `(int) floor(log10(fabs(val)))` (0 for 0) as libm delivers it.  It is a
  PARAMETER of the model: the correspondence run feeds the value observed in the executor, the oracle checks it against
  the exact `⌊log₁₀|val|⌋`, and the theorems hold for every `msp`. -/

/-- a finite double argument `±m·2^e` -/
structure Bin where
  neg : Bool
  m : Nat
  e : Int
deriving Repr, DecidableEq, Inhabited

/-- the exact `⌊log₁₀|v|⌋`, `0` for zero -/
def mspExact (v : Bin) : Int :=
  if v.m = 0 then 0 else let (n, d) := ratOfBin v.m v.e; flog10Rat n d

/-- `digit_buf` of cif_value_init_numb: `to_digits(val, scale)`, an empty result replaced by `"0"`
    ("the value rounds to zero at the specified scale, but it nevertheless has one (zero) digit") -/
def initDigits (val : Bin) (scale : Int) : List Nat :=
  if toDigitsBig val.m val.e scale = [] then [0] else toDigitsBig val.m val.e scale

/-- `su_buf` of cif_value_init_numb: absent for `su = 0` and when no significant digits of uncertainty remain -/
def initSu (su : Bin) (scale : Int) : Option (List Nat) :=
  if su.m ≠ 0 then (if toDigitsBig su.m su.e scale = [] then none else some (toDigitsBig su.m su.e scale)) else none

/-- choice of notation and formatting; `none` = the text would be longer than a line -/
def initText (neg : Bool) (digits : List Nat) (suD : Option (List Nat)) (scale maxLead msp : Int) : Option Str :=
  if scale ≥ 0 ∧ -(msp + 1) ≤ maxLead then formatDecimal neg digits suD scale.toNat
  else formatSci neg digits suD scale

/-- `cif_value_init_numb(n, val, su, scale, max_leading_zeroes)`: `.error code` or the new number value -/
def initNumb (val su : Bin) (scale : Int) (maxLead : Int) (msp : Int) : Except Code V :=
  if (su.neg ∧ su.m ≠ 0) ∨ -scale < LEAST_DBL_10_DIGIT ∨ -scale > DBL_MAX_10_EXP ∨ maxLead < 0 then
    .error CIF_ARGUMENT_ERROR
  else
    let neg : Bool := val.neg && decide (val.m ≠ 0)            -- (val < 0)
    match initText neg (initDigits val scale) (initSu su scale) scale maxLead msp with
    | none => .error CIF_ARGUMENT_ERROR
    | some t => .ok (V.numb false t neg (initDigits val scale) (initSu su scale) scale)

/-- number of trailing zero bits of a positive `m` (fuel = bit length) -/
def trailingZeros : Nat → Nat → Nat
  | 0, _ => 0
  | fuel + 1, m => if m % 2 = 0 ∧ m ≠ 0 then 1 + trailingZeros fuel (m / 2) else 0

/-- `frac_bits(val, &exponent)`: `(bit_count, exponent)` -/
def fracBits (v : Bin) : Nat × Int :=
  if v.m = 0 then (0, 0)
  else
    let b := bitLen v.m
    (b - trailingZeros b v.m, v.e + (b : Nat))

/-- `sprintf(buf, "%.*e", p - 1, su)` as exact arithmetic: the `p` significant decimal digits of `num/den`, correctly
    rounded (ties to even), as an integer, and the decimal exponent printed after `e` -/
def sciDigits (num den : Nat) (p : Nat) : Nat × Int :=
  let x := flog10Rat num den
  -- num/den / 10^(x-(p-1))
  let sh : Int := x - ((p - 1 : Nat) : Int)
  let n' := if sh ≥ 0 then num else num * pow10 (-sh).toNat
  let d' := if sh ≥ 0 then den * pow10 sh.toNat else den
  let z := rhe n' d'
  if z = pow10 p then (pow10 (p - 1), x + 1) else (z, x)

/-- the scale `cif_value_autoinit_numb` chooses for a non-zero su: format the su with as many significant digits as the
    rule has (`sprintf("%.*e")`), take the scale of its last digit, and one less if the digits exceed the rule -/
def autoScale (su : Bin) (suRule : Nat) : Int :=
  -- (int) log10(su_rule + 0.5) + 1
  if (sciDigits (ratOfBin su.m su.e).1 (ratOfBin su.m su.e).2 (decDigits suRule).length).1 > suRule then
    -- reduce the scale by 1 if the su needs to be rounded to fewer digits
    (-(sciDigits (ratOfBin su.m su.e).1 (ratOfBin su.m su.e).2 (decDigits suRule).length).2
        + ((decDigits suRule).length : Nat) - 1) - 1
  else
    -(sciDigits (ratOfBin su.m su.e).1 (ratOfBin su.m su.e).2 (decDigits suRule).length).2
        + ((decDigits suRule).length : Nat) - 1

/-- the scale chosen for an exact number (`su == 0`) -/
def exactScale (val : Bin) (msp : Int) : Int :=
  if (fracBits val).2 ≤ ((fracBits val).1 : Nat) then ((fracBits val).1 : Nat) - (fracBits val).2
  else if msp < (DBL_DIG : Nat) then 0 else ((DBL_DIG : Nat) - 1) - msp

/-- `cif_value_autoinit_numb(numb, val, su, su_rule)` -/
def autoinitNumb (val su : Bin) (suRule : Nat) (msp : Int) : Except Code V :=
  if (su.neg ∧ su.m ≠ 0) ∨ suRule < 2 then .error CIF_ARGUMENT_ERROR
  else if su.m = 0 then
    -- an exact number
    initNumb val su (exactScale val msp) DEFAULT_MAX_LEAD_ZEROES msp
  else
    initNumb val su (autoScale su suRule) DEFAULT_MAX_LEAD_ZEROES msp

/-! ### cif_value_get_number / cif_value_get_su -/

def negDbl : Dbl → Dbl
  | .fin n m e => .fin (!n) m e
  | .inf n => .inf (!n)
  | .nan => .nan

/-- the in-place coercion both getters start with: the (possibly converted) value, or the error code -/
def coerceNumb (v : V) : Except Code V :=
  match v with
  | .chr q t =>
    match parseNumb t with
    | some f => .ok (V.numb q (cstr t) f.neg f.digits f.su f.scale)
    | none => .error CIF_INVALID_NUMBER
  | .numb .. => .ok v
  | _ => .error CIF_ARGUMENT_ERROR

/-- `cif_value_get_number`: the value object afterwards and the double -/
def getNumber (v : V) : Except Code (V × Dbl) :=
  match coerceNumb v with
  | .error c => .error c
  | .ok w =>
    match w with
    | .numb _ _ neg digits _ scale =>
      let d := toDoubleBig digits scale
      .ok (w, if neg then negDbl d else d)
    | _ => .error CIF_INTERNAL_ERROR

/-- `cif_value_get_su` -/
def getSu (v : V) : Except Code (V × Dbl) :=
  match coerceNumb v with
  | .error c => .error c
  | .ok w =>
    match w with
    | .numb _ _ _ _ su scale =>
      .ok (w, match su with | none => .fin false 0 0 | some sd => toDoubleBig sd scale)
    | _ => .error CIF_INTERNAL_ERROR

end CifModel.Model.Numb
