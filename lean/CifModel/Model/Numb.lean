import CifModel.Model.Types
import CifModel.Gen.ErrCodes
/-
  CifModel.Model.Numb — executable model of the number code of src/value.c (property C10).

    cif_value_parse_numb                      ↦ parseNumb        (text → sign, digits, su digits, scale)
    cif_value_convert_to_numb (char → numb)   ↦ numbOfText
    to_double (+ round_to_int/round_it/compare_half/is_zero), exact-arithmetic level ↦ toDoubleBig
    to_digits, exact-arithmetic level         ↦ toDigitsBig
    format_text_decimal / format_text_sci     ↦ formatDecimal / formatSci
    cif_value_init_numb / cif_value_autoinit_numb ↦ initNumb / autoinitNumb
    cif_value_get_number / cif_value_get_su   ↦ getNumber / getSu

  Core Lean only.  Strings are `List Nat` (UTF-16 code units); digit strings inside a number value are lists of the
  digit VALUES 0‥9 (see `V.numb` in Model/Types.lean).  C `int`s are unbounded `Int`s here; the places where the C
  arithmetic could leave the range of `int` are covered by the bound theorems of Props/C10.lean
  (`C10_exponent_no_overflow`) and stated there with their hypotheses.
-/
namespace CifModel.Model.Numb

/-! ### constants the model assumes (link lemmas against Gen.NumbConsts are in Lemmas/NumbLink.lean) -/

def UCHAR_PLUS : Nat := 43      -- '+'
def UCHAR_MINUS : Nat := 45     -- '-'
def UCHAR_DECIMAL : Nat := 46   -- '.'
def UCHAR_0 : Nat := 48
def UCHAR_9 : Nat := 57
def UCHAR_E : Nat := 69
def UCHAR_e : Nat := 101
def UCHAR_OPEN : Nat := 40      -- '('
def UCHAR_CLOSE : Nat := 41     -- ')'
/-- `INT_MAX` of the platform the library is built for (32-bit `int`) -/
def INT_MAX : Nat := 2147483647
/-- `(INT_MAX / 10) - 1`: the exponent accumulator stops taking digits once it reaches this value -/
def expSatLimit : Nat := 214748363
def CIF_LINE_LENGTH : Nat := 2048
def DBL_MANT_DIG : Nat := 53
def DBL_DIG : Nat := 15
def DBL_MAX_10_EXP : Int := 308
def DBL_MIN_10_EXP : Int := -307
def DBL_MAX_EXP : Int := 1024
def DBL_MIN_EXP : Int := -1021
/-- `LEAST_DBL_10_DIGIT = 1 + DBL_MIN_10_EXP - DBL_DIG` -/
def LEAST_DBL_10_DIGIT : Int := -321
def DEFAULT_MAX_LEAD_ZEROES : Nat := 5
def BBASE : Nat := 1000000000
def DDIG_PER_DIG : Nat := 9
/-- `BDIG_PER_DIG = LOG2_32BIT(BBASE) - 1` -/
def BDIG_PER_DIG : Nat := 28
/-- `BUF_SIZE` of cif_value_autoinit_numb -/
def BUF_SIZE : Nat := 50

/- result codes come from the generated table of cif.h -/
export CifModel.Gen.ErrCodes (CIF_OK CIF_ARGUMENT_ERROR CIF_INVALID_NUMBER CIF_INTERNAL_ERROR)

/-! ### cif_value_parse_numb -/

/-- `(c >= UCHAR_0) && (c <= UCHAR_9)` -/
def isDigit (c : Nat) : Bool := decide (UCHAR_0 ≤ c) && decide (c ≤ UCHAR_9)

/-- a C string ends at its first NUL: the part of a unit list that the C code can see -/
def cstr (s : Str) : Str := s.takeWhile (· ≠ 0)

/-- the fields of `struct numb_value_s` that parsing determines -/
structure NumbFields where
  neg : Bool
  digits : List Nat            -- digit values, most significant first; never empty
  su : Option (List Nat)       -- `none` ⇔ `su_digits == NULL`
  scale : Int
deriving Repr, DecidableEq, Inhabited

/-- "Consume … any leading insignificant zeroes": the loop
    `while ((text[digit_start] == '0' || text[digit_start] == '.') && digit_start < digit_end - 1) digit_start += 1`
    on the region `text[digit_start .. digit_end)` -/
def trimLead : Str → Str
  | [] => []
  | c :: rest =>
    if (c = UCHAR_0 ∨ c = UCHAR_DECIMAL) ∧ rest ≠ [] then trimLead rest else c :: rest

/-- "consume leading, insignificant zeroes" of the su:
    `while (text[su_start] == '0' && su_start < pos - 1) su_start += 1` -/
def trimZeros : Str → Str
  | [] => []
  | c :: rest => if c = UCHAR_0 ∧ rest ≠ [] then trimZeros rest else c :: rest

/-- one step of the exponent accumulation, with the saturation introduced by the overflow fix:
    `if (exponent < (INT_MAX / 10) - 1) exponent = exponent * 10 + (c - '0');` -/
def expStep (e : Nat) (c : Nat) : Nat :=
  if e < expSatLimit then e * 10 + (c - UCHAR_0) else e

/-- the exponent digit loop -/
def expAccum (ds : Str) : Nat := ds.foldl expStep 0

/-- character codes → digit values -/
def digitVals (s : Str) : List Nat := s.map (· - UCHAR_0)

/-- the optional leading sign: `(negative, rest)` -/
def takeSign (s : Str) : Bool × Str :=
  match s with
  | c :: r => if c = UCHAR_MINUS then (true, r) else if c = UCHAR_PLUS then (false, r) else (false, s)
  | [] => (false, [])

/-- the optional exponent part, entered when the next unit is `E`/`e`: `none` = CIF_INVALID_NUMBER,
    `some (scale contribution, rest)` -/
def parseExp (s : Str) : Option (Int × Str) :=
  match s with
  | c :: r =>
    if c = UCHAR_E ∨ c = UCHAR_e then
      let (eneg, r1) := takeSign r
      let ex := r1.takeWhile isDigit
      let r2 := r1.dropWhile isDigit
      if ex = [] then none                                  -- no exponent digits
      else
        let e : Int := (expAccum ex : Nat)
        -- n_temp.scale = exponent * (-exp_sign)
        some (if eneg then e else -e, r2)
    else some (0, s)
  | [] => some (0, [])

/-- the optional uncertainty: `none` = CIF_INVALID_NUMBER, `some (su digit characters or none, rest)` -/
def parseSu (s : Str) : Option (Option Str × Str) :=
  match s with
  | c :: r =>
    if c = UCHAR_OPEN then
      let sd := r.takeWhile isDigit
      let r1 := r.dropWhile isDigit
      match r1 with
      | c1 :: r2 =>
        if sd = [] ∨ c1 ≠ UCHAR_CLOSE then none
        else some (some (trimZeros sd), r2)
      | [] => none                                          -- missing ')'
    else some (none, s)
  | [] => some (none, [])

/-- `cif_value_parse_numb` on a NUL-free text: `none` = CIF_INVALID_NUMBER (value object untouched). -/
def parseNumbZ (text : Str) : Option NumbFields :=
  -- optional leading sign
  let (neg, s0) := takeSign text
  -- mandatory digit string with optional single decimal point
  let a := s0.takeWhile isDigit
  let s1 := s0.dropWhile isDigit
  let hasPoint : Bool := match s1 with | c :: _ => c = UCHAR_DECIMAL | [] => false
  let s2 := if hasPoint then s1.drop 1 else s1
  let b := if hasPoint then s2.takeWhile isDigit else []
  let s3 := if hasPoint then s2.dropWhile isDigit else s2
  -- pos <= digit_start + num_decimal : no digits
  if a.length + b.length = 0 then none
  else
    -- a trailing decimal point is consumed: num_decimal = 0, digit_end = pos - 1
    let numDecimal : Bool := hasPoint && !b.isEmpty
    let region : Str := if numDecimal then a ++ UCHAR_DECIMAL :: b else a
    let kept := trimLead region
    match parseExp s3 with
    | none => none
    | some (esc, s4) =>
      -- if (num_decimal == 1) scale += digit_end - (decimal_pos + 1)
      let scale : Int := if numDecimal then esc + (b.length : Nat) else esc
      match parseSu s4 with
      | none => none
      | some (su, s5) =>
        if s5 ≠ [] then none                                -- unparsed tail
        else
          some { neg := neg
                 digits := digitVals (kept.filter (· ≠ UCHAR_DECIMAL))
                 su := su.map digitVals
                 scale := scale }

/-- `cif_value_parse_numb(n, text)`: the fields on success, `none` when the C returns CIF_INVALID_NUMBER and leaves
    the value object unchanged. -/
def parseNumb (text : Str) : Option NumbFields := parseNumbZ (cstr text)

/-- The value object after a character value with the given quoting flag and text has gone through the
    char→numb coercion (`cif_value_convert_to_numb`, used by `cif_value_get_number`/`cif_value_get_su`) — and equally
    the object `cif_value_parse_numb` leaves when applied to a value that was `chr quoted text` (there `quoted = false`
    afterwards; the coercion re-applies the flag with `cif_value_set_quoted`).  When the text is not a number the value
    stays the character value it was. -/
def numbOfText (quoted : Bool) (text : Str) : V :=
  match parseNumb text with
  | some f => V.numb quoted (cstr text) f.neg f.digits f.su f.scale
  | none => V.chr quoted text

end CifModel.Model.Numb
