import CifModel.Model.Types
import CifModel.Model.Analyze
import CifModel.Model.Names
import CifModel.Gen.ErrCodes
import CifModel.Gen.WriterConsts
/-
  CifModel.Model.Writer — executable model of `cif_write` and its handler set (src/ciffile.c), following the C as written:
  `write_cif_start/end`, `write_container_start/end`, `write_loop_start/end`, `write_packet_start/end`, `write_item`,
  `write_list`, `write_table`, `write_char`, `write_text`, `fold_line`, `write_unquoted`, `write_quoted`,
  `write_triple_quoted`, `write_numb`, `write_literal`, `write_uliteral`, `write_newline`, `ENSURE_SPACED`,
  `cif_validate_cif11_characters`, and the `write_context_t` state.

  What is NOT modelled: failures of the output stream (every `u_fprintf` / `u_fputc` is assumed to succeed and to return
  the number of UTF-16 units it wrote), and the conversion of the UTF-16 units to bytes (ICU; UTF-8 in CIF 2.0 mode, the
  default converter in CIF 1.1 mode).  The model's output is the sequence of UTF-16 units handed to the `UFILE`.

  The traversal order is an INPUT: `cif_write` drives the handlers through `cif_walk`, which enumerates blocks, frames,
  loops, packets and packet items in the order the store serves them (no property fixes that order; property group gH
  models the walk).  The writer model therefore consumes a `WCif` — the CIF *as walked*: containers with their frames
  (walked first) and loops in walk order, every loop with the names `cif_loop_get_names` returned (original spelling, used
  for the loop header) and, for every packet, the (name, value) pairs in the order and spelling `walk_packet` hands them
  to `write_item` (normalised names).  `ofCif` gives the `WCif` of an abstract `Cif` for the identity enumeration.
-/
namespace CifModel.Model.Writer
open CifModel.Gen

/-! ### constants (link lemmas tie them to the generated data) -/

def LINE : Nat := 2048
def PREFIX : Str := [62, 32]
def PREFIX_LENGTH : Nat := 2
def WINDOW : Nat := 6
def SLACK : Nat := 8
def BSL : Str := [92]
def MAGIC11 : Str := a!"#\\#CIF_1.1\n"
def MAGIC20 : Str := a!"#\\#CIF_2.0\n"
def BLOCK_HEAD : Str := a!"\ndata_"
def FRAME_HEAD : Str := a!"\nsave_"
def FRAME_END : Str := a!"\nsave_\n"
def LOOP_HEAD : Str := a!"\nloop_\n"
def TEXT_CLOSE : Str := a!"\n;"

theorem line_link : WriterConsts.lineLength = LINE := by decide
theorem prefix_link : WriterConsts.prefixUnits = PREFIX ∧ WriterConsts.prefixLength = PREFIX_LENGTH ∧ PREFIX.length = PREFIX_LENGTH := by decide
theorem window_link : WriterConsts.foldingWindow = WINDOW := by decide
theorem slack_link : WriterConsts.targetSlack = SLACK := by decide
theorem marks_link : WriterConsts.prefixMark = BSL ∧ WriterConsts.foldMark = BSL ∧ WriterConsts.foldSep = BSL
    ∧ WriterConsts.textClose = TEXT_CLOSE := by decide
theorem magic_link : WriterConsts.magic11 = MAGIC11 ∧ WriterConsts.magic20 = MAGIC20 := by decide
theorem heads_link : WriterConsts.blockHead = BLOCK_HEAD ∧ WriterConsts.frameHead = FRAME_HEAD
    ∧ WriterConsts.frameEnd = FRAME_END ∧ WriterConsts.loopHead = LOOP_HEAD := by decide

/-! ### the write context -/

/-- `write_context_t` without the `UFILE *` -/
structure Ctx where
  lastColumn : Nat := 0
  separateValues : Bool := true
  writeItemNames : Bool := false
  depth : Nat := 0
  /-- `context.version`: 1 = CIF 1.1 output, anything else CIF 2.0 -/
  version : Nat := 0
deriving Repr, DecidableEq

def Ctx.isCif1 (c : Ctx) : Bool := c.version == 1

/-- result of a writing step: the units emitted and the context afterwards, or a result code -/
abbrev W := Except Code (Str × Ctx)

/-- sequencing: emit `a`'s units, then run `f` on the context `a` leaves -/
@[inline] def andThen (a : W) (f : Ctx → W) : W :=
  match a with
  | .error e => .error e
  | .ok (o1, c1) =>
    match f c1 with
    | .error e => .error e
    | .ok (o2, c2) => .ok (o1 ++ o2, c2)

/-- `write_newline` -/
def writeNewline (c : Ctx) : Str × Ctx := ([10], { c with lastColumn := 0 })

/-! ### cif_validate_cif11_characters -/

/-- `is_allowed[u]` after initialisation -/
def isAllowed11 (u : CU) : Bool := WriterConsts.cif11Chars.contains u

/-- `cif_validate_cif11_characters(s, NULL) == CIF_OK`: every unit is below the table bound and allowed -/
def validate11 (s : Str) : Bool := s.all fun u => decide (u < WriterConsts.isAllowedBound) && isAllowed11 u

/-! ### write_literal / write_uliteral / ENSURE_SPACED -/

/-- `write_literal(context, text, strlen(text), wrap)`; `none` = `-CIF_OVERLENGTH_LINE` (nothing written) -/
def writeLiteral (c : Ctx) (text : Str) (wrap : Bool) : Option (Str × Ctx) :=
  if text.length = 0 then some ([], c)
  else if text.length + c.lastColumn > LINE then
    if wrap then some (10 :: text, { c with lastColumn := text.length })
    else none
  else some (text, { c with lastColumn := c.lastColumn + text.length })

/-- `u_countChar32(text, -1)`: code points — a lead surrogate followed by a trail surrogate counts once -/
def countChar32 : Str → Nat
  | [] => 0
  | [_] => 1
  | a :: b :: r =>
    if 0xD800 ≤ a ∧ a < 0xDC00 ∧ 0xDC00 ≤ b ∧ b < 0xE000 then 1 + countChar32 r else 1 + countChar32 (b :: r)

/-- what `u_fprintf(f, "%*.*S", n, n, text)` prints: at most `n` UNITS of `text`, left-padded with blanks to width `n` -/
def printfS (n : Nat) (text : Str) : Str := List.replicate (n - text.length) 32 ++ text.take n

/-- `write_uliteral(context, text, length, wrap)`; `length = none` is the C's negative length: the length in characters
    (`u_countChar32`) decides whether the text fits, `u_strlen` units are printed.
    `none` = `-CIF_OVERLENGTH_LINE`; otherwise (units written, context) — the C's return value is the number of units. -/
def writeULiteral (c : Ctx) (text : Str) (length : Option Nat) (wrap : Bool) : Option (Str × Ctx) :=
  let len := match length with | some n => n | none => countChar32 text
  let units := match length with | some n => n | none => text.length
  if len = 0 then some ([], c)
  else if len + c.lastColumn > LINE then
    if wrap then some (10 :: printfS units text, { c with lastColumn := (printfS units text).length })
    else none
  else some (printfS units text, { c with lastColumn := c.lastColumn + (printfS units text).length })

/-- `ENSURE_SPACED(context, t)` (always succeeds when the stream does) -/
def ensureSpaced (c : Ctx) : Str × Ctx :=
  if c.lastColumn = 0 then ([], c)
  else match writeLiteral c [32] false with
    | none => writeNewline c
    | some r => r

/-! ### fold_line -/

def isBlank (u : CU) : Bool := u == 32 || u == 9

/-- `IS_SURROGATE_PAIR(u1, u2)` -/
def isSurrogatePair (u1 u2 : CU) : Bool := decide (0xDC00 ≤ u2 ∧ u2 ≤ 0xDFFF ∧ 0xD800 ≤ u1 ∧ u1 < 0xDC00)

/-- `line[i]` of the NUL-terminated C string -/
def at0 (line : Str) (i : Nat) : CU := line.getD i 0

/-- the test of the three fall-back scans: "may fold before `line[len]`" -/
def foldOk (line : Str) (forPrefix : Bool) (len : Nat) : Bool :=
  (at0 line len != 59 || forPrefix) && !isSurrogatePair (at0 line (len - 1)) (at0 line len)

/-- first loop: `for (len = 0; len <= target; len++)` — returns `.inl len` when the terminator is met, else `.inr low`
    (`low_candidate`, −1 encoded as `none`) -/
def foldScanLow (line : Str) (target : Nat) : Nat → Nat → Option Nat → Sum Nat (Option Nat)
  | 0, _, low => .inr low
  | fuel + 1, len, low =>
    if len > target then .inr low
    else if len ≥ line.length then .inl len
    else foldScanLow line target fuel (len + 1) (if isBlank (at0 line len) then some len else low)

/-- the candidates of the third scan, in the order the C visits them: target, +1, −1, +2, −2, … -/
def windowOrder (target window : Nat) : List Nat :=
  target :: (List.range window).flatMap fun k => [target + (k + 1), target - (k + 1)]

/-- `fold_line(line, do_fold, target_length, window, for_prefix)`; 0 = "no fold point was found".
    Assumes `window < target` (asserted by the caller). -/
def foldLine (line : Str) (doFold : Bool) (target window : Nat) (forPrefix : Bool) : Nat :=
  if doFold = false then line.length
  else
    match foldScanLow line target (target + 2) 0 none with
    | .inl len => len
    | .inr low =>
      -- second loop: target < len <= target + window
      if line.length ≤ target + window then line.length                 -- "the whole string can fit in this fold"
      else
        match (List.range' (target + 1) window).find? (fun len => isBlank (at0 line len)) with
        | some high =>
          -- the forward scan for the terminator fails here (the line is longer than target + window)
          match low with
          | none => high                                               -- low_candidate = -1 < target - window
          | some lo =>
            if lo + window < target then high
            else if (high + lo) / 2 < target then high else lo
        | none =>
          match (windowOrder target window).find? (foldOk line forPrefix) with
          | some len => len
          | none =>
            -- "scan downward from there": len = target - window - 1 … 1
            match ((List.range' 1 (target - window - 1)).reverse).find? (foldOk line forPrefix) with
            | some len => len
            | none =>
              -- "as a last resort, scan upward from the end of the window", up to the terminator (exclusive)
              match (List.range' (target + window + 1) (line.length - (target + window + 1))).find? (foldOk line forPrefix) with
              | some len => len
              | none => 0

/-! ### write_text -/

/-- the end-of-line analysis of write_text: the last unit of the line that is not a blank is a backslash -/
def endsBslBlank : Str → Bool
  | [] => false
  | c :: r =>
    if endsBslBlank r then true
    else r.all isBlank && c == 92

/-- split at LF: the logical lines of a text (at least one) -/
def splitLines : Str → List Str
  | [] => [[]]
  | c :: r =>
    if c = 10 then [] :: splitLines r
    else match splitLines r with
      | [] => [[c]]            -- unreachable: splitLines never returns []
      | l :: ls => (c :: l) :: ls

/-- "each folded segment, until the line is consumed": the PHYSICAL lines of one non-empty logical line, each without
    the LF that the C prints in front of it (`u_fprintf(…, "\n%s%*.*S%s", prefix_text, len, len, tok, …)`).
    `fuel` ≥ the length of the line.  `.error CIF_INTERNAL_ERROR` when fold_line finds no fold point. -/
def segLines (fold pre : Bool) (protect : Bool) (target : Nat) : Nat → Str → Except Code (List Str)
  | 0, _ => .ok []
  | _ + 1, [] => .ok []
  | fuel + 1, c :: cs =>
    let tok := c :: cs
    let len := foldLine tok fold target WINDOW pre
    if len = 0 then .error ErrCodes.CIF_INTERNAL_ERROR
    else
      let more := decide (len < tok.length)                -- tok[len] != 0
      match segLines fold pre protect target fuel (tok.drop len) with
      | .error e => .error e
      | .ok rest =>
        .ok (((if pre then PREFIX else []) ++ printfS len tok ++ (if more || protect then BSL else [])) :: rest)

/-- the physical lines of one logical line of a folded and/or prefixed text field: an empty logical line is one empty
    physical line (no prefix); a protected line (ends in a backslash, folding on) is followed by an empty physical line -/
def logicalLinePhys (fold pre : Bool) (target : Nat) (line : Str) : Except Code (List Str) :=
  match line with
  | [] => .ok [[]]
  | _ :: _ =>
    let protect := fold && endsBslBlank line
    match segLines fold pre protect target line.length line with
    | .error e => .error e
    | .ok ps => .ok (ps ++ (if protect then [[]] else []))

def textPhys (fold pre : Bool) (target : Nat) : List Str → Except Code (List Str)
  | [] => .ok []
  | l :: ls =>
    match logicalLinePhys fold pre target l with
    | .error e => .error e
    | .ok ps =>
      match textPhys fold pre target ls with
      | .error e => .error e
      | .ok qs => .ok (ps ++ qs)

/-- every physical line is printed behind a LF -/
def flat : List Str → Str
  | [] => []
  | p :: ps => 10 :: (p ++ flat ps)

/-- `target_length` of write_text -/
def targetLength (pre : Bool) : Nat := LINE - SLACK - (if pre then PREFIX_LENGTH else 0)

/-- the opening line of a text field after its `;`: the prefix / fold markers -/
def textMarker (fold pre : Bool) : Str := (if pre then PREFIX ++ BSL else []) ++ (if fold then BSL else [])

/-- the BODY of the text field written by `write_text(context, text, length, fold, prefix)`: everything between the
    opening `<LF>;` and the closing `<LF>;` — this is what `scan_text` hands to `decode_text`. -/
def textBody (text : Str) (fold pre : Bool) : Except Code Str :=
  if fold = false ∧ pre = false then .ok text
  else
    match textPhys fold pre (targetLength pre) (splitLines text) with
    | .error e => .error e
    | .ok ps => .ok (textMarker fold pre ++ flat ps)

/-- `write_text` (requires `text ≠ []`, asserted by the C) -/
def writeText (c : Ctx) (text : Str) (fold pre : Bool) : W :=
  match textBody text fold pre with
  | .error e => .error e
  | .ok body => .ok (a!"\n;" ++ body ++ TEXT_CLOSE, { c with lastColumn := 1 })

/-! ### write_unquoted / write_quoted / write_triple_quoted -/

/-- `write_unquoted(context, text, length)` -/
def writeUnquoted (c : Ctx) (text : Str) (length : Nat) : W :=
  match writeULiteral c text (some length) true with
  | none => .error ErrCodes.CIF_OVERLENGTH_LINE             -- unreachable with wrap
  | some (o, c') =>
    -- nchars = units written after any newline
    let nchars := if length = 0 then 0 else (printfS length text).length
    if length = nchars then .ok (o, c') else .error ErrCodes.CIF_ERROR

/-- `write_quoted(context, text, length, delimiter)` -/
def writeQuoted (c : Ctx) (text : Str) (length : Nat) (delim : CU) : W :=
  let wrapNow := decide (c.lastColumn + length + 2 > LINE)
  let col := if wrapNow then 0 else c.lastColumn
  let body := [delim] ++ printfS length text ++ [delim]
  let o := (if wrapNow then [10] else []) ++ body
  if body.length = length + 2 then .ok (o, { c with lastColumn := col + body.length })
  else .error ErrCodes.CIF_ERROR

/-- `write_triple_quoted(context, text, line1_length, last_line_length, delimiter)` -/
def writeTripleQuoted (c : Ctx) (text : Str) (line1 lastLine : Nat) (delim : CU) : W :=
  let multiline := decide (line1 < text.length)              -- text[line1_length] != 0
  let dl := if multiline then 3 else 6
  let wrapNow := decide (c.lastColumn + line1 + dl > LINE)
  let col := if multiline then 0 else if wrapNow then 0 else c.lastColumn
  let body := [delim, delim, delim] ++ text ++ [delim, delim, delim]
  let o := (if wrapNow then [10] else []) ++ body
  if body.length ≥ line1 + 6 then .ok (o, { c with lastColumn := col + lastLine + dl })
  else .error ErrCodes.CIF_ERROR

/-! ### write_char / write_numb -/

/-- `write_char(context, value, allow_text)` behind its two opening tests: CIF 1.1 character validation, `cif_analyze_string`,
    the four presentations -/
def writeCharCore (c : Ctx) (text : Str) (quoted : Bool) (allowText : Bool) : W :=
  if c.isCif1 ∧ validate11 text = false then .error ErrCodes.CIF_DISALLOWED_CHAR
  else
    let a := analyze text (!quoted) (!c.isCif1) LINE
    if a.delimLength = 0 then writeUnquoted c text a.lengthMax
    else if a.delimLength = 1 then writeQuoted c text a.length (a.delim.headD 0)
    else if a.delimLength = 3 then writeTripleQuoted c text a.lengthFirst a.lengthLast (a.delim.headD 0)
    else if a.delimLength = 2 then
      if allowText = false ∨ (a.containsTextDelim ∧ c.isCif1) then .error ErrCodes.CIF_DISALLOWED_VALUE
      else
        let fold0 : Bool := decide (a.lengthFirst ≥ LINE) || decide (a.lengthMax > LINE) || a.hasReservedStart
                              || decide (a.maxSemiRun ≥ LINE - 1)
        let pre : Bool := a.containsTextDelim || (fold0 && decide (a.maxSemiRun > 0))
        let fold : Bool := if pre ∧ a.lengthMax + PREFIX_LENGTH > LINE then true else fold0
        writeText c text fold pre
    else .error ErrCodes.CIF_INTERNAL_ERROR

/-- `write_char(context, value, allow_text)` on the value's text and quoted flag: a text holding a carriage return is refused
    (`u_strchr(text, UCHAR_CR)`: no CIF reader gives a CR back), and so is — in CIF 2.0 mode — a text holding a character CIF 2.0
    does not allow (`cif_text_has_disallowed_chars` = `cif_has_disallowed_chars` of utils.c, model `Model.hasDisallowed`); CIF 1.1
    mode validates its characters in `writeCharCore` -/
def writeChar (c : Ctx) (text : Str) (quoted : Bool) (allowText : Bool) : W :=
  if (13 : CU) ∈ text then .error ErrCodes.CIF_DISALLOWED_VALUE
  else if c.isCif1 = false ∧ hasDisallowed text = true then .error ErrCodes.CIF_DISALLOWED_CHAR
  else writeCharCore c text quoted allowText

/-- `write_numb(context, value)` on the number's text and quoted flag -/
def writeNumb (c : Ctx) (text : Str) (quoted : Bool) : W :=
  if quoted then writeChar c text true true
  else if text.length > LINE then writeChar c text false true      -- "does not fit on any line": a (folded) text field
  else match writeULiteral c text none true with
    | none => .error ErrCodes.CIF_OVERLENGTH_LINE
    | some (o, c') => if o.isEmpty then .error ErrCodes.CIF_ERROR else .ok (o, c')

/-! ### write_item / write_list / write_table -/

/-- `u_strHasMoreChar32Than(s, -1, number)`; `number` is a C `int32_t` (may be negative: then true) -/
def hasMoreChar32Than (s : Str) (number : Int) : Bool := decide ((countChar32 s : Int) > number)

/-- the part of `write_item` before the value: the data name (when names are being written) and the separator -/
def writeItemHead (c : Ctx) (name : Str) : W :=
  let named : W :=
    if c.writeItemNames then
      if c.isCif1 ∧ validate11 name = false then .error ErrCodes.CIF_DISALLOWED_CHAR
      else
        let (o1, c1) := if c.lastColumn > 0 then writeNewline c else ([], c)
        match writeULiteral c1 name none false with
        | none => .error ErrCodes.CIF_ERROR
        | some (o2, c2) => if o2.length < 2 then .error ErrCodes.CIF_ERROR else .ok (o1 ++ o2, c2)
    else .ok ([], c)
  andThen named fun c' => .ok (if c'.separateValues then ensureSpaced c' else ([], c'))

/-- a literal that the C requires to be written completely (`write_literal(...) == n`), else CIF_ERROR -/
def literalOrError (c : Ctx) (text : Str) (wrap : Bool) : W :=
  match writeLiteral c text wrap with
  | none => .error ErrCodes.CIF_ERROR
  | some r => .ok r

mutual
  /-- `write_item(name, value, context)`; `name = []` stands for the NULL name passed for list elements / table values -/
  def writeItem (name : Str) (v : V) (c : Ctx) : W :=
    andThen (writeItemHead c name) fun c1 =>
      match v with
      | .chr q t => writeChar c1 t q true
      | .numb q t _ _ _ _ => writeNumb c1 t q
      | .lst vs =>
        if c1.isCif1 then .error ErrCodes.CIF_DISALLOWED_VALUE
        else
          -- write_list
          andThen (literalOrError c1 [91] true) fun c2 =>
            andThen (writeElems vs { c2 with writeItemNames := false, separateValues := true }) fun c3 =>
              andThen (literalOrError c3 [32, 93] true) fun c4 =>
                .ok ([], { c4 with separateValues := c2.separateValues, writeItemNames := c2.writeItemNames })
      | .tbl es =>
        if c1.isCif1 then .error ErrCodes.CIF_DISALLOWED_VALUE
        else
          -- write_table
          andThen (literalOrError c1 [123] true) fun c2 =>
            andThen (writeEntries es { c2 with writeItemNames := false }) fun c3 =>
              andThen (literalOrError c3 [32, 125] true) fun c4 =>
                .ok ([], { c4 with separateValues := c2.separateValues, writeItemNames := c2.writeItemNames })
      | .na => literalOrError c1 [46] true
      | .unk => literalOrError c1 [63] true
  /-- the element loop of `write_list` -/
  def writeElems (vs : List V) (c : Ctx) : W :=
    match vs with
    | [] => .ok ([], c)
    | v :: rest => andThen (writeItem [] v c) fun c1 => writeElems rest c1
  /-- the entry loop of `write_table` (keys in the order `cif_value_get_keys` returns them, original spelling) -/
  def writeEntries (es : List (Str × Str × V)) (c : Ctx) : W :=
    match es with
    | [] => .ok ([], c)
    | (_, key, v) :: rest =>
      -- "start a new line unless the key certainly fits … with the preceding space, the widest delimiters and its colon"
      let (o0, c0) := if (key.length : Int) > (LINE : Int) - (c.lastColumn + 8) then writeNewline c else ([], c)
      let c1 := { c0 with separateValues := false }
      let (o1, c2) := ensureSpaced c1
      andThen (.ok (o0 ++ o1, c2)) fun c2 =>
        andThen (writeChar c2 key true false) fun c3 =>
          -- a key that leaves no room for its colon cannot be written as a table key
          andThen (match writeLiteral c3 [58] false with
                   | none => .error ErrCodes.CIF_DISALLOWED_VALUE
                   | some r => .ok r) fun c4 =>
            andThen (writeItem [] v c4) fun c5 => writeEntries rest c5
end

/-! ### the walk: loops, packets, containers, the CIF -/

/-- a loop as walked: category, header names (`cif_loop_get_names`), packets as (name, value) lists in walk order -/
structure WLoop where
  category : Option Str
  header : List Str
  packets : List (List (Str × V))
deriving Repr, Inhabited

/-- a container as walked: code, frames (walked first), loops -/
inductive WContainer where
  | mk (code : Str) (frames : List WContainer) (loops : List WLoop)
deriving Repr, Inhabited

abbrev WCif := List WContainer

/-- `walk_packet`: `write_packet_start` (nothing), the items, `write_packet_end` (a newline) -/
def writeItems : List (Str × V) → Ctx → W
  | [], c => .ok ([], c)
  | (n, v) :: rest, c => andThen (writeItem n v c) fun c1 => writeItems rest c1

def writePacket (p : List (Str × V)) (c : Ctx) : W :=
  andThen (writeItems p c) fun c1 => .ok (writeNewline c1)

def writePackets : List (List (Str × V)) → Ctx → W
  | [], c => .ok ([], c)
  | p :: rest, c => andThen (writePacket p c) fun c1 => writePackets rest c1

/-- the item-name lines of a loop header; in CIF 1.1 mode each name is validated first -/
def writeHeaderNames : List Str → Ctx → W
  | [], c => .ok ([], c)
  | n :: rest, c =>
    if c.isCif1 ∧ validate11 n = false then .error ErrCodes.CIF_DISALLOWED_CHAR
    else
      -- a name that fills the line is not indented
      let indent : Str := if countChar32 n < LINE then [32] else []
      andThen (.ok (indent ++ n ++ [10], { c with lastColumn := 0 })) fun c1 => writeHeaderNames rest c1

/-- `CIF_SCALARS`: the category of the scalar loop is the empty string -/
def isScalars (cat : Option Str) : Bool := cat == some []

/-- `walk_loop` with `write_loop_start` / `write_loop_end`; a loop without packets makes the walk return CIF_EMPTY_LOOP -/
def writeLoop (l : WLoop) (c : Ctx) : W :=
  let start : W :=
    if isScalars l.category then
      let (o, c1) := writeNewline c
      .ok (o, { c1 with writeItemNames := true })
    else
      andThen (.ok (LOOP_HEAD, { c with writeItemNames := false, lastColumn := 0 })) fun c1 => writeHeaderNames l.header c1
  andThen start fun c1 =>
    if l.packets.isEmpty then .error ErrCodes.CIF_EMPTY_LOOP
    else andThen (writePackets l.packets c1) fun c2 => .ok (writeNewline c2)

def writeLoops : List WLoop → Ctx → W
  | [], c => .ok ([], c)
  | l :: rest, c => andThen (writeLoop l c) fun c1 => writeLoops rest c1

mutual
  /-- `walk_container` with `write_container_start` / `write_container_end` -/
  def writeContainer : WContainer → Ctx → W
    | .mk code frames loops, c =>
      if c.isCif1 ∧ validate11 code = false then .error ErrCodes.CIF_DISALLOWED_CHAR
      else
        let head := (if c.depth = 0 then BLOCK_HEAD else FRAME_HEAD) ++ code ++ [10]
        andThen (.ok (head, { c with lastColumn := 0, depth := c.depth + 1 })) fun c1 =>
          andThen (writeContainers frames c1) fun c2 =>
            andThen (writeLoops loops c2) fun c3 =>
              let c4 := { c3 with depth := c3.depth - 1, lastColumn := 0 }
              if c4.depth = 0 then .ok (writeNewline c4) else .ok (FRAME_END, c4)
  def writeContainers : List WContainer → Ctx → W
    | [], c => .ok ([], c)
    | k :: rest, c => andThen (writeContainer k c) fun c1 => writeContainers rest c1
end

/-- `cif_write(stream, options, cif)`: `version = 1` ⇔ `options->cif_version == 1`.
    `.ok units` = CIF_OK with the units written; `.error code` = the result code (the units written before the failure
    are not part of the model's answer). -/
def writeCif (version : Nat) (cif : WCif) : Except Code Str :=
  let c0 : Ctx := { version := if version = 1 then 1 else 0 }
  let magic := if c0.isCif1 then MAGIC11 else MAGIC20
  match andThen (.ok (magic, c0)) fun c1 => andThen (writeContainers cif c1) fun c2 => .ok (writeNewline c2) with
  | .error e => .error e
  | .ok (o, _) => .ok o

/-! ### the walked form of an abstract CIF under the identity enumeration -/

def ofLoop (l : Loop) : WLoop :=
  { category := l.category, header := l.names, packets := l.packets.map fun p => List.zip l.names p }

mutual
  def ofContainer : Container → WContainer
    | .mk code frames loops => .mk code (ofContainers frames) (loops.map ofLoop)
  def ofContainers : List Container → List WContainer
    | [] => []
    | k :: rest => ofContainer k :: ofContainers rest
end

def ofCif (c : Cif) : WCif := ofContainers c

end CifModel.Model.Writer
