import CifModel.Model.Store
import CifModel.Model.PktItr
import CifModel.Model.Columns
/-
  Model/StoreCodec (group gG, property C07) — the store operations COMPOSED with the value codec.

  The store model of group gF (Model/Store.lean) keeps a value `V` per cell of item_value.  What the C keeps is the row of
  columns that SET_VALUE_PROPS binds (`toColumns`: kind, quoted, val_text, val, val_digits, su_digits, scale; lists and
  tables as the serialised blob), accepted by the table's CHECK constraints (`checks`), and what a reader gets is what
  GET_VALUE_PROPS rebuilds from that row (`fromColumns`: lists and tables deserialised, their numbers re-parsed from their
  text).  `image v` is that composition; a cell of the store model holds the image of the value that was bound.  The
  operations below are the API functions with every value passed through `image` on its way into the table: a value whose
  serialisation fails or whose row a CHECK constraint refuses makes the call fail (the C reports CIF_ERROR and rolls back).
-/
namespace CifModel.Store.Codec
open CifModel CifModel.Store CifModel.Model.Columns Gen.ErrCodes

/-- bind with SET_VALUE_PROPS, pass the CHECK constraints, rebuild with GET_VALUE_PROPS -/
def image (v : V) : Option V :=
  match toColumns v with
  | none => none
  | some row => if checks row then fromColumns parseFields row else none

def imagePacket : List (Str × V) → Option (List (Str × V))
  | [] => some []
  | (k, v) :: es =>
    match image v, imagePacket es with
    | some v', some es' => some ((k, v') :: es')
    | _, _ => none

/-- cif_container_set_value(container, name, v) -/
def setValueC (s : Store) (h : CH) (n : Name) (v : V) : R Unit :=
  match image v with
  | none => (s, .error CIF_ERROR)
  | some v' => setValue s h (some n) (some v')

/-- cif_loop_add_item(loop, name, v) -/
def addItemC (s : Store) (l : LH) (n : Name) (v : V) : R Unit :=
  match image v with
  | none => (s, .error CIF_ERROR)
  | some v' => addItem s l (some n) (some v')

/-- cif_loop_add_packet(loop, packet) -/
def addPacketC (s : Store) (l : LH) (pkt : List (Str × V)) : R Unit :=
  match imagePacket pkt with
  | none => (s, .error CIF_ERROR)
  | some pkt' => addPacket s l pkt'

/-- cif_pktitr_update_packet(iterator, packet) -/
def updatePacketC (s : Store) (it : Iter) (pkt : List (Str × V)) : R Unit :=
  match imagePacket pkt with
  | none => (s, .error CIF_ERROR)
  | some pkt' => updatePacket s it pkt'

end CifModel.Store.Codec
