import CifModel.Model.StoreCodec
import CifModel.Model.Walk
/-
  Model/StoreRead (group gY, property C07) — the two READ PATHS of the API that hand whole packets to the caller, as compositions of
  the model functions of group gF (Model/Store.lean, Model/PktItr.lean) and group gH (Model/Walk.lean):

    * `drain` / `readLoop`     the caller's loop   cif_loop_get_packets; while (cif_pktitr_next_packet(it, &pkt) == CIF_OK) …
    * `wloopOf` / `wcifOf`     what cif_walk (cif.c) does to obtain the things it shows to the handlers: cif_get_all_blocks,
                               cif_container_get_all_frames, cif_container_get_all_loops, and per loop (walk_loop) cif_loop_get_names +
                               cif_loop_get_packets + cif_pktitr_next_packet until CIF_FINISHED + cif_pktitr_close; walk_packet shows
                               the entries of the packet the iterator delivered, in the packet's order
    * `walkStore`              cif_walk on a managed CIF = `Walk.walk` on that

  Nothing here is new modelling of C code: every function below calls the existing models in the order cif.c calls the C functions.
  (An all-continue / read-only walk leaves the store as it is: cif_pktitr_close after an iteration without updates commits nothing new,
  so every loop is read in the same state `s`.)  The driver of family `storeval` answers its `i=` and `w=` fields through these
  functions (lean/Driver/Fam/Storeval.lean), and Props/C07Read.lean proves what they deliver.
-/
namespace CifModel.Store
open Gen.ErrCodes CifModel.Walk

/-- `while ((rc = cif_pktitr_next_packet(it, &pkt)) == CIF_OK)`: the packets delivered, in order, and the code that ended the loop
    (`none`: fuel exhausted — `drain_spec`: never with fuel > number of packets) -/
def drain (s : Store) : Nat → Iter → List (List (Str × V)) × Option Code
  | 0, _ => ([], none)
  | fuel + 1, it =>
    match nextPacket s it with
    | (it', .ok p) => (p :: (drain s fuel it').1, (drain s fuel it').2)
    | (_, .error c) => ([], some c)

/-- cif_loop_get_packets, then next_packet to the end: the packets and the code that ended the iteration, or the code with which
    cif_loop_get_packets refused (CIF_EMPTY_LOOP, CIF_INVALID_HANDLE, CIF_ERROR inside a transaction) -/
def readLoop (s : Store) (l : LH) (fuel : Nat) : Except Code (List (List (Str × V)) × Option Code) :=
  match getPackets s l with
  | (s2, .ok it) => .ok (drain s2 fuel it)
  | (_, .error c) => .error c

/-- enough fuel for any loop of the store: a packet has at least one stored value -/
def readFuel (s : Store) : Nat := s.db.values.length + 1

/-- cif_packet_get_item on a delivered packet (keys are normalised names) -/
def pktGet (p : List (Str × V)) (k : Str) : Option V := (p.find? (fun e => e.1 == k)).map (·.2)

/-- walk_loop's view of one loop: category of the handle, names by cif_loop_get_names (as spelled), packets through the iterator -/
def wloopOf (s : Store) (l : LH) : WLoop :=
  { category := l.category
    names := match (getNames s l).2 with | .ok ns => ns.map (·.2) | .error _ => []
    packets := match readLoop s l (readFuel s) with | .ok r => r.1 | .error _ => [] }

/-- walk_loops: cif_container_get_all_loops, each loop through `wloopOf` -/
def wloopsOf (s : Store) (h : CH) : List WLoop :=
  match (allLoops s h).2 with
  | .ok ls => ls.map (wloopOf s)
  | .error _ => []

/-- walk_container: the save frames by cif_container_get_all_frames (recursively; fuel bounds the nesting depth, frame ids exceed
    their parents' ids), then the loops -/
def wcontOf (s : Store) : Nat → CH → WCont
  | 0, h => .mk h.code [] (wloopsOf s h)
  | fuel + 1, h =>
    .mk h.code (match (allFrames s h).2 with | .ok fs => fs.map (wcontOf s fuel) | .error _ => []) (wloopsOf s h)

/-- cif_walk's view of the managed CIF: the blocks by cif_get_all_blocks -/
def wcifOf (s : Store) : WCif :=
  match (allBlocks s).2 with
  | .ok bs => bs.map (wcontOf s (s.db.frames.length + 1))
  | .error _ => []

/-- cif_walk on a managed CIF -/
def walkStore (p : Prog) (s : Store) : List Ev × Int := walk p (wcifOf s)

end CifModel.Store
