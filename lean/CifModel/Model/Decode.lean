import CifModel.Basic
/-
  CifModel.Model.Decode — `decode_text` of src/parser.c (the inverse of `write_text`): first-line prefix / fold signature
  analysis, prefix stripping, fold rewinding, CR / CR LF → LF.

  The input is the body of a text field as delimited by `scan_text`: everything between the opening `;` and the closing
  `<EOL>;`, exclusive.  Units are UTF-16 code units; the input is assumed to contain no NUL.

  Character classes are those of a scanner without `extra_ws_chars` / `extra_eol_chars`: WS_CLASS = {space, tab},
  EOL_CLASS = {LF, CR} (the extra sets are options of `cif_parse` that the properties served by this model leave at
  their defaults).

  Output buffers are accumulated in REVERSE (newest unit first), so that the driver is linear in the input length.
-/
namespace CifModel.Model.Decode

/-- WS_CLASS of a scanner without extra whitespace characters -/
def isWs (c : CU) : Bool := c == 32 || c == 9
/-- EOL_CLASS of a scanner without extra end-of-line characters -/
def isEol (c : CU) : Bool := c == 10 || c == 13

/-- consume the LF of a CR LF pair: what follows a CR at `in_pos` -/
def afterCR : Str → Str
  | 10 :: r => r
  | r => r

/-- statistics of the first-line scan (parser.c: `prefix_length`, `backslash_count`, `nonws`) -/
structure FirstLine where
  /-- `prefix_length` while scanning: number of units preceding the last backslash; −1 if none -/
  lastBsl : Int := -1
  bslCount : Nat := 0
  nonws : Bool := false
deriving Repr, DecidableEq

/-- The scan of the first line: every unit is copied to the buffer (`buf`, reversed); a backslash records its position;
    CR / CR LF / LF end the line and leave a LF in the buffer.
    Returns (statistics, buffer, rest of the input after the line terminator). -/
def scanFirst : Str → Nat → FirstLine → Str → FirstLine × Str × Str
  | [], _, st, buf => (st, buf, [])
  | c :: cs, i, st, buf =>
    if c = 92 then scanFirst cs (i + 1) { lastBsl := i, bslCount := st.bslCount + 1, nonws := false } (c :: buf)
    else if c = 13 then (st, 10 :: buf, afterCR cs)
    else if c = 10 then (st, 10 :: buf, cs)
    else if isWs c then scanFirst cs (i + 1) st (c :: buf)
    else scanFirst cs (i + 1) { st with nonws := true } (c :: buf)

/-- state of the line-terminator conversion: the buffer (reversed) and "the previous unit was a CR" -/
structure EolSt where
  out : Str
  cr : Bool
deriving Repr, DecidableEq

/-- CR becomes LF; a LF directly after a CR is dropped -/
def eolStep (s : EolSt) (c : CU) : EolSt :=
  if c = 13 then { out := 10 :: s.out, cr := true }
  else if c = 10 ∧ s.cr = true then { s with cr := false }
  else { out := c :: s.out, cr := false }

/-- "copy the rest of the text, performing line terminator conversion": CR LF and CR become LF (`buf` reversed) -/
def convertEol (inp buf : Str) : Str := (inp.foldl eolStep { out := buf, cr := false }).out

/-- state while copying one physical line: the output buffer (reversed) and `buf_temp` — the length the buffer had just
    before the most recent backslash that has been followed by whitespace only (`none` = NULL) -/
structure LineSt where
  out : Str
  mark : Option Nat
deriving Repr, DecidableEq

/-- a unit that is not a line terminator, inside the per-line loop -/
def lineStep (folded : Bool) (s : LineSt) (c : CU) : LineSt :=
  if c = 92 ∧ folded then { out := c :: s.out, mark := some s.out.length }
  else if isWs c then { s with out := c :: s.out }
  else { out := c :: s.out, mark := none }

/-- a line terminator: it is copied as LF; if `buf_temp` is set the buffer is rewound to the backslash -/
def lineEnd (s : LineSt) : Str :=
  match s.mark with
  | some m => s.out.drop (s.out.length - m)
  | none => 10 :: s.out

/-- copy one physical line (the prefix already consumed) up to and including its terminator.
    Returns (buffer, rest of the input). -/
def copyLine (folded : Bool) : Str → LineSt → Str × Str
  | [], s => (s.out, [])
  | c :: cs, s =>
    if isEol c then (lineEnd s, if c = 13 then afterCR cs else cs)
    else copyLine folded cs (lineStep folded s c)

/-- "consume the prefix, if any": only when enough input remains and it matches -/
def stripPrefix (pre inp : Str) : Str :=
  if pre ≠ [] ∧ pre.isPrefixOf inp then inp.drop pre.length else inp

/-- "process the text line-by-line, confirming and consuming prefixes and unfolding as appropriate".
    `fuel` bounds the number of lines (callers pass `inp.length + 1`; `decLines_fuel` shows that this suffices). -/
def decLines (pre : Str) (folded : Bool) : Nat → Str → Str → Str
  | 0, _, buf => buf
  | _ + 1, [], buf => buf
  | fuel + 1, c :: cs, buf =>
    let r := copyLine folded (stripPrefix pre (c :: cs)) { out := buf, mark := none }
    decLines pre folded fuel r.2 r.1

/-- `decode_text`: `unfold` ⇔ `scanner->line_unfolding > 0`, `prem` ⇔ `scanner->prefix_removing > 0`.
    The result is the text of the value (in order). -/
def decodeText (unfold prem : Bool) (raw : Str) : Str :=
  match raw with
  | [] => []                                                    -- text_length <= 0: the empty char value
  | c0 :: _ =>
    if c0 = 59 ∨ (unfold = false ∧ prem = false) then
      (convertEol raw []).reverse                               -- neither prefixed nor folded
    else
      let r := scanFirst raw 0 {} []
      let st := r.1
      let buf := r.2.1
      let rest := r.2.2
      let pl : Int := if prem then st.lastBsl + 1 - st.bslCount else 0
      if st.nonws = false ∧ (st.bslCount = 1 ∨ (st.bslCount = 2 ∧ pl > 0 ∧ raw[pl.toNat]? = some 92)) then
        -- prefixed or folded or both: the buffered first line is discarded
        let folded : Bool := (pl = 0 ∨ st.bslCount = 2) ∧ unfold = true
        if folded = false ∧ pl = 0 then (convertEol rest []).reverse
        else (decLines (raw.take pl.toNat) folded (rest.length + 1) rest []).reverse
      else
        (convertEol rest buf).reverse                           -- keep the buffered text

end CifModel.Model.Decode
