import CifModel.Model.Normalize
import CifModel.Gen.ErrCodes
/-
  CifModel.Model.NormalizeBuf — `cif_unicode_normalize`, `cif_fold_case`, `cif_normalize` and the three `cif_normalize_*` entry
  points of src/utils.c AT BUFFER LEVEL: source pointer + `srclen` convention, destination buffers with a capacity, the
  `U_BUFFER_OVERFLOW_ERROR` retry loops, the `U_STRING_NOT_TERMINATED_WARNING` branch with its `realloc`, the terminator.

  ICU is a PARAMETER once more, one level lower than in Model/Normalize.lean: an `IcuCall` is a string function called WITH A
  DESTINATION CAPACITY; it answers with the length it reports, the status it stores through `UErrorCode *`, and the units it
  wrote into the destination.  What the theorems assume of such a call is the hypothesis structure `CallContract f call`
  ("`call` computes `f` under ICU's `u_terminateUChars` convention"), never an axiom; family `norm icu` tests the contract against
  the real `unorm_normalize` / `u_strFoldCase` with every capacity from 0 to length + 2.

  Memory: a heap block of UChars is `Buf` — its capacity and the initialised prefix of its contents.  Every store into a block
  is checked against the capacity (`Err.oobWrite`), every read of a source against its extent (`Err.oobRead`); the refinement
  theorem (Props/C09Buf.lean) shows neither can happen.  Allocation failure and ICU failure codes other than overflow are not
  produced by a call that satisfies the contract; the branch the C has for them is modelled (`IcuStatus.failure`).

  Every function also delivers the trace of what it did (`Ev`: malloc / realloc / free with sizes in UChars, ICU calls with the
  capacity passed and the answer), which the executor of family `norm buf` observes on the real code by interposing the
  allocator and the two ICU entry points inside utils.c.
-/
namespace CifModel.Model.NormBuf
open CifModel.Gen.ErrCodes

/-- what an ICU string function stores through its `UErrorCode *` argument, as far as utils.c distinguishes -/
inductive IcuStatus
  | zero            -- U_ZERO_ERROR, or a warning other than the next one: `U_SUCCESS(code)`
  | notTerminated   -- U_STRING_NOT_TERMINATED_WARNING: the result fills the destination exactly, no terminator written
  | overflow        -- U_BUFFER_OVERFLOW_ERROR: the returned length is the length needed
  | failure         -- any other failure code
deriving DecidableEq, Repr, Inhabited

/-- the answer of one ICU call -/
structure IcuResult where
  /-- the returned length -/
  len : Nat
  status : IcuStatus
  /-- the units stored into `dest[0 ..]`; `dest[written.length ..]` is left alone -/
  written : Str
deriving DecidableEq, Repr, Inhabited

/-- an ICU string transformation: source string (pointer + explicit length, as utils.c always calls it) and destination capacity -/
abbrev IcuCall := Str → Nat → IcuResult

/-- `unorm_normalize(…, UNORM_NFD, …)`, `u_strFoldCase(…, U_FOLD_CASE_DEFAULT, …)`, `unorm_normalize(…, UNORM_NFC, …)` -/
structure IcuOps where
  nfd : IcuCall
  fold : IcuCall
  nfc : IcuCall

/-- **the capacity contract** (ICU's `u_terminateUChars` convention) of a call that computes the string function `f`:
    * the result and a terminator fit: result + NUL written, `U_ZERO_ERROR`;
    * the result fits exactly: result written without terminator, `U_STRING_NOT_TERMINATED_WARNING`;
    * the result does not fit: the NEEDED length is returned with `U_BUFFER_OVERFLOW_ERROR`, and nothing is written beyond the
      capacity (what is written below it is unspecified). -/
structure CallContract (f : Str → Str) (call : IcuCall) : Prop where
  fits : ∀ x cap, (f x).length < cap → call x cap = ⟨(f x).length, .zero, f x ++ [0]⟩
  exact : ∀ x cap, (f x).length = cap → call x cap = ⟨cap, .notTerminated, f x⟩
  over : ∀ x cap, cap < (f x).length →
    (call x cap).len = (f x).length ∧ (call x cap).status = .overflow ∧ (call x cap).written.length ≤ cap

/-- the three ICU entry points compute the three functions of `U` under the capacity contract -/
structure Contract (U : UnicodeOps) (I : IcuOps) : Prop where
  nfd : CallContract U.nfd I.nfd
  fold : CallContract U.fold I.fold
  nfc : CallContract U.nfc I.nfc

/-- the canonical call computing `f` (on overflow it writes the part that fits, as ICU happens to do); used by the driver to
    instantiate the model from the executor's observations of ICU, and as the non-vacuity witness of `CallContract` -/
def icuOf (f : Str → Str) : IcuCall := fun x cap =>
  if (f x).length < cap then ⟨(f x).length, .zero, f x ++ [0]⟩
  else if (f x).length = cap then ⟨cap, .notTerminated, f x⟩
  else ⟨(f x).length, .overflow, (f x).take cap⟩

def IcuOps.of (U : UnicodeOps) : IcuOps := { nfd := icuOf U.nfd, fold := icuOf U.fold, nfc := icuOf U.nfc }

/-! ### memory -/

/-- a heap block of `cap` UChars whose first `data.length` units are initialised -/
structure Buf where
  cap : Nat
  data : Str
deriving DecidableEq, Repr, Inhabited

inductive Err
  | oobWrite        -- a store outside the block
  | oobRead         -- a read outside the source's extent / of uninitialised memory
  | fuel            -- the retry loop did not finish within the fuel given
  | code (c : Code) -- the C returns this result code
deriving DecidableEq, Repr, Inhabited

/-- what the code does to the allocator and to ICU, in order (sizes in UChars) -/
inductive Ev
  | malloc (n : Nat)
  | realloc (n : Nat)
  | free
  | icu (cap len : Nat) (st : IcuStatus)
deriving DecidableEq, Repr, Inhabited

abbrev Res (α : Type) := List Ev × Except Err α

/-- ICU storing `w` at the start of a fresh block of `cap` units -/
def Buf.fill (cap : Nat) (w : Str) : Except Err Buf :=
  if w.length ≤ cap then .ok ⟨cap, w⟩ else .error .oobWrite

/-- `realloc(buf, n * sizeof(UChar))`: contents preserved up to the smaller size -/
def Buf.realloc (b : Buf) (n : Nat) : Buf := ⟨n, b.data.take n⟩

/-- `buf[i] = v` -/
def Buf.store (b : Buf) (i : Nat) (v : CU) : Except Err Buf :=
  if i < b.cap then
    if i < b.data.length then .ok { b with data := b.data.set i v }
    else if i = b.data.length then .ok { b with data := b.data ++ [v] }
    else .ok b            -- stored behind an uninitialised gap: the initialised PREFIX is unchanged
  else .error .oobWrite

/-- `src_chars = (srclen >= 0) ? srclen : u_strlen(src)`, for a source whose block holds the units `mem` from `src` on.  An
    explicit length beyond the block, or a missing terminator, makes the C read outside the block ("must not exceed the actual
    number of UChars in the source string", cif.h). -/
def srcChars (mem : Str) (srclen : Int) : Except Err Nat :=
  if 0 ≤ srclen then
    if srclen.toNat ≤ mem.length then .ok srclen.toNat else .error .oobRead
  else if mem.contains 0 then .ok (mem.takeWhile (· != 0)).length else .error .oobRead

/-- the string the two functions work on ("the logical string"): the first `src_chars` units -/
def logical (mem : Str) (n : Nat) : Str := mem.take n

/-! ### cif_unicode_normalize -/

/-- the `while (buf)` loop of `cif_unicode_normalize`, entered with a block of `cap` units (`buffer_chars`); `x` is the logical
    source string.  One unit of fuel per iteration. -/
def normLoop (call : IcuCall) (x : Str) (terminate : Bool) : Nat → Nat → Res (Buf × Nat)
  | 0, _ => ([], .error .fuel)
  | fuel + 1, cap =>
    let r := call x cap
    let ev := Ev.icu cap r.len r.status
    match Buf.fill cap r.written with
    | .error e => ([ev], .error e)
    | .ok buf =>
      if r.status = .notTerminated ∧ terminate = true then
        -- (only) the terminator did not fit: realloc to normalized_chars + 1, temp[normalized_chars] = 0
        match (buf.realloc (r.len + 1)).store r.len 0 with
        | .error e => ([ev, .realloc (r.len + 1)], .error e)
        | .ok b => ([ev, .realloc (r.len + 1)], .ok (b, r.len))
      else if r.status = .zero ∨ r.status = .notTerminated then       -- U_SUCCESS(code)
        ([ev], .ok (buf, r.len))
      else if r.status = .overflow then
        -- free(buf); buffer_chars = normalized_chars + 1; buf = malloc(…); continue
        let rest := normLoop call x terminate fuel (r.len + 1)
        (ev :: .free :: .malloc (r.len + 1) :: rest.1, rest.2)
      else ([ev, .free], .error (.code CIF_ERROR))                      -- soft failure: free(buf); FAILURE_TERMINUS

/-- `cif_unicode_normalize(src, srclen, mode, &result, &result_length, terminate)`; `guess src_chars` is the capacity of the
    first buffer (the C: `src_chars + 1`, see `cGuess`).  Delivers the block and `*result_length`. -/
def unicodeNormalize (call : IcuCall) (guess : Nat → Nat) (mem : Str) (srclen : Int) (terminate : Bool) (fuel : Nat) :
    Res (Buf × Nat) :=
  match srcChars mem srclen with
  | .error e => ([], .error e)
  | .ok n =>
    let r := normLoop call (logical mem n) terminate fuel (guess n)
    (.malloc (guess n) :: r.1, r.2)

/-! ### cif_fold_case -/

/-- the `while (buf)` loop of `cif_fold_case`: every success status returns the buffer as it is (no terminator promised) -/
def foldLoop (call : IcuCall) (x : Str) : Nat → Nat → Res (Buf × Nat)
  | 0, _ => ([], .error .fuel)
  | fuel + 1, cap =>
    let r := call x cap
    let ev := Ev.icu cap r.len r.status
    match Buf.fill cap r.written with
    | .error e => ([ev], .error e)
    | .ok buf =>
      if r.status = .zero ∨ r.status = .notTerminated then ([ev], .ok (buf, r.len))
      else if r.status = .overflow then
        let rest := foldLoop call x fuel (r.len + 1)
        (ev :: .free :: .malloc (r.len + 1) :: rest.1, rest.2)
      else ([ev, .free], .error (.code CIF_ERROR))

/-- `cif_fold_case(src, srclen, &result, &result_length)` -/
def foldCase (call : IcuCall) (guess : Nat → Nat) (mem : Str) (srclen : Int) (fuel : Nat) : Res (Buf × Nat) :=
  match srcChars mem srclen with
  | .error e => ([], .error e)
  | .ok n =>
    let r := foldLoop call (logical mem n) fuel (guess n)
    (.malloc (guess n) :: r.1, r.2)

/-- the first buffer of both functions: `buffer_chars = src_chars + 1` -/
def cGuess (n : Nat) : Nat := n + 1

/-! ### cif_normalize -/

/-- `cif_normalize(src, srclen, normalized)`: NFD (unterminated) → fold the `result_length` units of that buffer → NFC
    (terminated) of the `result_length` units of the folded buffer; the intermediate buffers are freed; the final block is
    handed to the caller (`want = true`) or freed (`normalized == NULL`).  `.ok b`: CIF_OK with `*normalized` pointing at `b`. -/
def cifNormalizeBuf (I : IcuOps) (guess : Nat → Nat) (mem : Str) (srclen : Int) (want : Bool) (fuel : Nat) : Res Buf :=
  match unicodeNormalize I.nfd guess mem srclen false fuel with
  | (t1, .error e) => (t1, .error e)
  | (t1, .ok (buf, len1)) =>
    match foldCase I.fold guess buf.data (len1 : Int) fuel with
    | (t2, .error e) => (t1 ++ t2 ++ [.free], .error e)
    | (t2, .ok (buf2, len2)) =>
      match unicodeNormalize I.nfc guess buf2.data (len2 : Int) true fuel with
      | (t3, .error e) => (t1 ++ t2 ++ [.free] ++ t3 ++ [.free], .error e)
      | (t3, .ok (buf3, _)) =>
        (t1 ++ t2 ++ [.free] ++ t3 ++ [.free] ++ (if want then [] else [.free]), .ok buf3)

/-- the NUL-terminated string a caller reads at a block -/
def Buf.cstr (b : Buf) : Str := b.data.takeWhile (· != 0)

/-- the C string at a source pointer (what `cif_is_valid_name` / `cif_has_disallowed_chars` read, whatever `namelen` says) -/
def cstrOf (mem : Str) : Str := mem.takeWhile (· != 0)

/-! ### cif_normalize_name / _item_name / _table_index -/

/-- `cif_normalize_name(name, namelen, &out, invalidityCode)` (`forItem = false`) and `cif_normalize_item_name` (`true`): the
    validity verdict is taken on the NUL-terminated string at `name`, then `cif_normalize(name, namelen, out)` -/
def normalizeNameBuf (I : IcuOps) (guess : Nat → Nat) (forItem : Bool) (name : Option Str) (namelen : Int) (invalidityCode : Code)
    (want : Bool) (fuel : Nat) : Res Buf :=
  match name with
  | none => ([], .error (.code invalidityCode))
  | some mem =>
    if mem.contains 0 = false then ([], .error .oobRead)            -- the validity tests run to the terminator
    else if isValidName forItem (cstrOf mem) then cifNormalizeBuf I guess mem namelen want fuel
    else ([], .error (.code invalidityCode))

/-- `cif_normalize_table_index(name, namelen, &out, invalidityCode)`: `cif_has_disallowed_chars` on the NUL-terminated string,
    then NFC only, terminated -/
def normalizeTableIndexBuf (I : IcuOps) (guess : Nat → Nat) (name : Option Str) (namelen : Int) (invalidityCode : Code)
    (want : Bool) (fuel : Nat) : Res Buf :=
  match name with
  | none => ([], .error (.code invalidityCode))
  | some mem =>
    if mem.contains 0 = false then ([], .error .oobRead)
    else if hasDisallowed (cstrOf mem) then ([], .error (.code invalidityCode))
    else
      match unicodeNormalize I.nfc guess mem namelen true fuel with
      | (t, .error e) => (t, .error e)
      | (t, .ok (buf, _)) => (t ++ (if want then [] else [.free]), .ok buf)

/-- number of ICU calls in a trace -/
def icuCalls (t : List Ev) : Nat := (t.filter fun e => match e with | .icu .. => true | _ => false).length

/-- allocations minus releases in a trace (`realloc` keeps the balance) -/
def liveBlocks : List Ev → Int
  | [] => 0
  | .malloc _ :: t => liveBlocks t + 1
  | .free :: t => liveBlocks t - 1
  | _ :: t => liveBlocks t

end CifModel.Model.NormBuf
