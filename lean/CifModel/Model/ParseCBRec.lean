import CifModel.Model.ParseCBDup
/-
  CifModel.Model.ParseCBRec — the productions of Model/ParseCBDup.lean extended by the RECOVERY paths of src/parser.c for the
  token-level defects a handler program can meet, with an error callback that accepts (as the `pcb` executor installs it):

    * CIF_MISSING_VALUE (parse_item: the token after a data name is no value): a synthetic unknown value, the token is not consumed;
      the item handler is called with it (named item), nothing for a rejected / skipped one;
    * CIF_UNEXPECTED_VALUE (parse_container: a value in element position): the value is parsed as a nameless item and dropped;
    * CIF_UNEXPECTED_DELIM (parse_container, parse_loop_packets: a stray `]` / `}`): dropped;
    * CIF_NULL_LOOP (parse_loop: `loop_` not followed by a data name): ignored — NO loop_start, but the code after label `loop_end`
      runs: `skip_depth` is popped or handle_loop_end is called with a NULL loop;
    * CIF_EMPTY_LOOP (parse_loop_packets: header without values): nothing; the loop (if created) stays without packets and is
      pruned when its container ends;
    * CIF_PARTIAL_PACKET (parse_loop_packets: the body ends inside a packet): the missing values of the retained columns are filled
      with unknown values; then exactly the bookkeeping of a complete packet: `skip_depth -= 1` while the packet is being skipped,
      otherwise handle_packet_end with its switch (CONTINUE ↦ the packet is recorded; SKIP_CURRENT ↦ not; SKIP_SIBLINGS ↦ not,
      `skip_depth := 1`; anything else is the result); the loop body ends there.

  The error callback is made whatever `skip_depth` is (only handler and syntax callbacks are gated).  `parseCBR` coincides with
  `parseCBD` whenever none of these diagnostics is made (cross-checked on every generated case by the `pcb` driver); the models of
  Model/ParseCB.lean and Model/ParseCBDup.lean are NOT changed.  Core Lean only.
-/
namespace CifModel.ParseCB
open CifModel.Gen.ErrCodes (CIF_DUP_ITEMNAME CIF_DUP_BLOCKCODE CIF_DUP_FRAMECODE CIF_MISSING_VALUE CIF_UNEXPECTED_VALUE
  CIF_UNEXPECTED_DELIM CIF_NULL_LOOP CIF_EMPTY_LOOP CIF_PARTIAL_PACKET)

/-- parse_item with the CIF_MISSING_VALUE recovery -/
def parseItemR (p : Prog) (fuel : Nat) (cont : Bool) (name : Option Str) (s : St) : Int × St × Option (Str × V) :=
  let s1 := inc (nextToken s).2
  if !isValueStart (nextToken s).1 then
    let s2 := report s1 CIF_MISSING_VALUE
    match name with
    | none => (OK, dec s2, none)
    | some nm =>
      let it := scalarItemStep p cont nm .unk s2
      (it.1, dec it.2.1, it.2.2)
  else
    let pv := parseValue fuel s1
    if pv.1 = OK then
      match name with
      | none => (OK, dec pv.2.2, none)
      | some nm =>
        let it := scalarItemStep p cont nm pv.2.1 pv.2.2
        (it.1, dec it.2.1, it.2.2)
    else (pv.1, dec pv.2.2, none)

/-- the `while` of parse_loop_packets with the CIF_UNEXPECTED_DELIM / CIF_PARTIAL_PACKET / CIF_EMPTY_LOOP recoveries -/
def packetsLoopR (p : Prog) (loopH : Bool) (slots : List (Option Str)) : Nat → St → PkSt → Int × St × PkSt
  | 0, s, k => (NOFUEL, s, k)
  | fuel + 1, s, k =>
    let names := slots.filterMap id
    if isValueStart (nextToken s).1 then
      let s1 := if k.col = 0 then pktStartStep p (nextToken s).2 else (OK, (nextToken s).2)
      if s1.1 ≠ OK then (s1.1, s1.2, k) else
      let pv := parseValue fuel s1.2
      let slot := slots.getD k.col none
      let row := if slot.isSome then k.row ++ [pv.2.1] else k.row
      let it := itemStepD p slot pv.1 pv.2.1 pv.2.2
      let col := (k.col + 1) % slots.length
      if it.1 ≠ OK then (it.1, it.2, { k with col := col, row := row })
      else if col = 0 then
        let pe := pktEndStep p (List.zip names row) it.2
        if pe.1 ≠ OK then (pe.1, pe.2.1, { k with col := 0, row := row })
        else packetsLoopR p loopH slots fuel pe.2.1
          { col := 0, row := [], havePk := true, stored := if pe.2.2 && loopH then k.stored ++ [row] else k.stored }
      else packetsLoopR p loopH slots fuel it.2 { k with col := col, row := row }
    else if (nextToken s).1 = .clist ∨ (nextToken s).1 = .ctable then
      -- CIF_UNEXPECTED_DELIM: dropped; the loop body is not terminated
      packetsLoopR p loopH slots fuel (consume (report (nextToken s).2 CIF_UNEXPECTED_DELIM)) k
    else if k.col ≠ 0 then
      -- CIF_PARTIAL_PACKET: unknown values for the retained columns still missing, then the end of a packet
      let row := k.row ++ ((slots.drop k.col).filterMap id).map (fun _ => V.unk)
      let pe := pktEndStep p (List.zip names row) (report (nextToken s).2 CIF_PARTIAL_PACKET)
      (pe.1, pe.2.1, { k with row := row, stored := if pe.2.2 && loopH then k.stored ++ [row] else k.stored })
    else if !k.havePk then (OK, report (nextToken s).2 CIF_EMPTY_LOOP, k)
    else (OK, (nextToken s).2, k)

/-- parse_loop with the CIF_NULL_LOOP recovery -/
def parseLoopR (p : Prog) (norm : Str → Str) (fuel : Nat) (cont : Bool) (c : Content) (s : St) : Int × St × Option Loop :=
  let hd := headerLoopD norm cont c fuel (inc s) []
  let slots := hd.2.1
  let names := slots.filterMap id
  if hd.1 ≠ OK then
    let e := loopEndStep p none hd.1 hd.2.2; (e.1, e.2, none)
  else if slots.isEmpty then
    -- CIF_NULL_LOOP: ignored; the code after label `loop_end` runs with result CIF_OK and a NULL loop
    let e := loopEndStep p none OK (report hd.2.2 CIF_NULL_LOOP); (e.1, e.2, none)
  else if names.isEmpty then
    let e := loopEndStep p none MALFORMED hd.2.2; (e.1, e.2, none)      -- every name dropped: outside
  else
    let ls := loopStartStep p cont names hd.2.2
    let created := ls.2.2.1
    if ls.2.2.2 then
      let pk := packetsLoopR p created slots fuel ls.2.1 { col := 0, row := [], havePk := false, stored := [] }
      let e := loopEndStep p (if created then some names else none) pk.1 pk.2.1
      (e.1, e.2, if created then some { category := none, names := names, packets := pk.2.2.stored } else none)
    else
      let e := loopEndStep p (if created then some names else none) ls.1 ls.2.1
      (e.1, e.2, if created then some { category := none, names := names, packets := [] } else none)

mutual
  def parseContainerR (p : Prog) (norm : Str → Str) (maxFrameDepth : Int) : Nat → Bool → Bool → Str → St → Content → Int × St × Content
    | 0, _, _, _, s, c0 => (NOFUEL, s, c0)
    | fuel + 1, cont, isBlock, code, s, c0 =>
      let st := contStartStep p cont isBlock code s
      if st.1 ≠ OK then containerEnd p cont isBlock code st.1 st.2 c0
      else
        let el := elemsLoopR p norm maxFrameDepth fuel cont isBlock st.2 c0
        containerEnd p cont isBlock code el.1 el.2.1 el.2.2
  def elemsLoopR (p : Prog) (norm : Str → Str) (maxFrameDepth : Int) : Nat → Bool → Bool → St → Content → Int × St × Content
    | 0, _, _, s, c => (NOFUEL, s, c)
    | fuel + 1, cont, isBlock, s0, c =>
      let s := (nextToken s0).2
      match (nextToken s0).1 with
      | .blockHead => if isBlock then (OK, s, c) else (MALFORMED, s, c)
      | .frameHead =>
        let code := (cur s).text
        if !cont ∨ s.skip > 0 then
          let f := parseContainerR p norm maxFrameDepth fuel false false code (consume s) .empty
          if f.1 = OK then elemsLoopR p norm maxFrameDepth fuel cont isBlock f.2.1 c else (f.1, f.2.1, c)
        else if maxFrameDepth = 0 then (MALFORMED, s, c)
        else if maxFrameDepth = 1 ∧ !isBlock then (MALFORMED, s, c)
        else
          match findC norm c.frames code with
          | some old =>
            let f := parseContainerR p norm maxFrameDepth fuel true false old.code (consume (report s CIF_DUP_FRAMECODE))
              ⟨old.frames, old.loops⟩
            let c1 : Content := { c with frames := replaceC norm c.frames code (.mk old.code f.2.2.frames f.2.2.loops) }
            if f.1 = OK then elemsLoopR p norm maxFrameDepth fuel cont isBlock f.2.1 c1 else (f.1, f.2.1, c1)
          | none =>
            let f := parseContainerR p norm maxFrameDepth fuel true false code (consume s) .empty
            if f.1 = OK then elemsLoopR p norm maxFrameDepth fuel cont isBlock f.2.1 (c.addFrame (.mk code f.2.2.frames f.2.2.loops))
            else (f.1, f.2.1, c.addFrame (.mk code f.2.2.frames f.2.2.loops))
      | .frameTerm => if isBlock then (MALFORMED, consume s, c) else (OK, consume s, c)
      | .loopKw =>
        let s1 := if s.skip ≤ 0 then note s (.keyword (cur s).text) else s
        let l := parseLoopR p norm fuel cont c (consume s1)
        let c1 := match l.2.2 with | some lp => c.addLoop lp | none => c
        if l.1 = OK then elemsLoopR p norm maxFrameDepth fuel cont isBlock l.2.1 c1 else (l.1, l.2.1, c1)
      | .name =>
        if s.skip > 0 then
          let it := parseItemR p fuel cont none (consume s)
          if it.1 = OK then elemsLoopR p norm maxFrameDepth fuel cont isBlock it.2.1 c else (it.1, it.2.1, c)
        else if cont && hasName norm c (cur s).text then
          let it := parseItemR p fuel cont none (report (consume (note s (.dataname (cur s).text))) CIF_DUP_ITEMNAME)
          if it.1 = OK then elemsLoopR p norm maxFrameDepth fuel cont isBlock it.2.1 c else (it.1, it.2.1, c)
        else
          let it := parseItemR p fuel cont (some (cur s).text) (consume (note s (.dataname (cur s).text)))
          let c1 := match it.2.2 with | some (n, v) => c.setScalar n v | none => c
          if it.1 = OK then elemsLoopR p norm maxFrameDepth fuel cont isBlock it.2.1 c1 else (it.1, it.2.1, c1)
      | .value | .qvalue | .tvalue | .olist | .otable =>
        -- CIF_UNEXPECTED_VALUE: the value is parsed as a nameless item and dropped (the token is still pending)
        let it := parseItemR p fuel cont none (report s CIF_UNEXPECTED_VALUE)
        if it.1 = OK then elemsLoopR p norm maxFrameDepth fuel cont isBlock it.2.1 c else (it.1, it.2.1, c)
      | .clist | .ctable =>
        -- CIF_UNEXPECTED_DELIM: dropped
        elemsLoopR p norm maxFrameDepth fuel cont isBlock (consume (report s CIF_UNEXPECTED_DELIM)) c
      | .end_ => if isBlock then (OK, s, c) else (MALFORMED, s, c)
      | _ => (MALFORMED, s, c)
end

def blocksLoopR (p : Prog) (norm : Str → Str) (maxFrameDepth : Int) (cif : Bool) : Nat → St → List Container → Int × St × List Container
  | 0, s, acc => (NOFUEL, s, acc)
  | fuel + 1, s0, acc =>
    let s := (nextToken s0).2
    match (nextToken s0).1 with
    | .blockHead =>
      let code := (cur s).text
      let block := cif && decide (s.skip ≤ 0)
      if block then
        match findC norm acc code with
        | some old =>
          let b := parseContainerR p norm maxFrameDepth fuel true true old.code (consume (report s CIF_DUP_BLOCKCODE))
            ⟨old.frames, old.loops⟩
          let acc1 := replaceC norm acc code (.mk old.code b.2.2.frames b.2.2.loops)
          if b.1 = OK then blocksLoopR p norm maxFrameDepth cif fuel b.2.1 acc1 else (b.1, b.2.1, acc1)
        | none =>
          let b := parseContainerR p norm maxFrameDepth fuel true true code (consume s) .empty
          let acc1 := acc ++ [.mk code b.2.2.frames b.2.2.loops]
          if b.1 = OK then blocksLoopR p norm maxFrameDepth cif fuel b.2.1 acc1 else (b.1, b.2.1, acc1)
      else
        let b := parseContainerR p norm maxFrameDepth fuel false true code (consume s) .empty
        if b.1 = OK then blocksLoopR p norm maxFrameDepth cif fuel b.2.1 acc else (b.1, b.2.1, acc)
    | .end_ => (OK, s, acc)
    | _ => (MALFORMED, s, acc)

def parseCifR (p : Prog) (norm : Str → Str) (maxFrameDepth : Int) (cif : Bool) (fuel : Nat) (s : St) : Int × St × List Container :=
  if p s.n (.cifStart cif) = END then (OK, push s (.cifStart cif), []) else
  let st := site p s (.cifStart cif) (some 1) (some 1)
  if st.1 = OK then
    let b := blocksLoopR p norm maxFrameDepth cif fuel st.2 []
    ((cifEndStep p cif b.1 b.2.1).1, (cifEndStep p cif b.1 b.2.1).2, b.2.2)
  else ((cifEndStep p cif st.1 st.2).1, (cifEndStep p cif st.1 st.2).2, [])

/-- cif_parse with the duplicate diagnostics, the token-level recoveries and an accepting error callback -/
def parseCBR (p : Prog) (norm : Str → Str) (storing : Bool) (toks : List Tok) : List Ev × Int × Cif :=
  ((parseCifR p norm 1 storing (fuelFor toks) (St.init toks)).2.1.log.reverse,
   (parseCifR p norm 1 storing (fuelFor toks) (St.init toks)).1,
   (parseCifR p norm 1 storing (fuelFor toks) (St.init toks)).2.2)

end CifModel.ParseCB
