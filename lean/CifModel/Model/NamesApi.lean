import CifModel.Model.Normalize
import CifModel.Model.Store
import CifModel.Model.Value
/-
  CifModel.Model.NamesApi — what the name-taking entry points of the API make of a caller's spelling (C09): the parameter of the
  entry-point models (store: a `Store.Name` record; tables and packets: a normaliser `Str → Option Str`) built from the models of
  utils.c.  In a Model file (core Lean, no lemmas) so that the driver families can run the COMPOSED terms
  (`Value.tableSet (tableNorm U) …`, `Value.packetSet (itemNorm U) …`) the C09 theorems are stated about.
-/
namespace CifModel.Model

/-- what `cif_normalize_name` / `cif_normalize_item_name` hand to an entry point of cif.c / container.c / loop.c -/
def apiName (U : UnicodeOps) (forItem : Bool) (s : Str) : Store.Name :=
  { key := cifNormalize U s, orig := s, valid := isValidName forItem s }

/-- the normaliser of a table (`cif_normalize_table_index`): `none` = refused -/
def tableNorm (U : UnicodeOps) (k : Str) : Option Str := if hasDisallowed k then none else some (U.nfc k)

/-- the normaliser of a packet (`cif_normalize_item_name`) -/
def itemNorm (U : UnicodeOps) (n : Str) : Option Str := if isValidName true n then some (cifNormalize U n) else none

end CifModel.Model
