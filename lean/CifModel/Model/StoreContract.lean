import CifModel.Model.StoreStep
/-
  Model/StoreContract — the documented contract of the managed-CIF API as a decidable predicate on (world, op): `inContract w op`.
  It is evaluated by the model driver on every op of every generated history (families store / iter / storefault), and it is the
  hypothesis of `C04_wok_step` (Props/C04): in-contract ops keep `WOk`.

  cif.h: a handle argument "must be non-NULL and valid" — here: its container / loop exists in the store and, for a loop handle,
  the category the handle carries is the stored one (cif_loop_destroy, cif_container_destroy and an aborted transaction invalidate
  handles: their rows are gone, cif.h:1872); "behavior is undefined if the underlying loop is accessed (even just for reading) other
  than via the iterator" while an iterator is open, other modifications of the same CIF made meanwhile may or may not survive, and
  users are advised "to minimize non-iterator operations performed while any iterator is active on the same target CIF" (cif.h:1999)
  — here, conservatively: while an iterator is open on a CIF, only that iterator's own calls work on that CIF, with one exception:
  a further cif_loop_get_packets on that CIF is in contract — it is refused (one iterator at a time per CIF) and must leave the
  open iterator and its transaction intact (`WOk.itOpenBusy`; seeded change C06_6).  The packet handed to cif_loop_add_packet /
  cif_pktitr_update_packet is a map: no key twice (`keysDistinct`).
  An op that is not executed (dead handle: the harness skips it, `rc = none`) calls nothing and is in contract.
-/
namespace CifModel.Store
open World

namespace World
/-- an iterator is open on CIF `c` -/
def cifBusy (w : World) (c : Nat) : Bool := w.its.any (fun e => match e with | some e => e.cif == c | none => false)
end World

/-- the container handle's row exists (necessary, not sufficient, for validity: see `CH.okB`) -/
def CH.validB (h : CH) (d : Db) : Bool := d.hasContainer h.id
/-- the loop handle's loop exists and the category it carries is the stored one (necessary for validity: see `LH.okB`) -/
def LH.validB (l : LH) (d : Db) : Bool :=
  match d.loops.find? (fun x => x.cid == l.cid && x.loopNum == l.loopNum) with
  | some x => x.category == l.category
  | none => false

/-- climbing from container `c` towards a data block: `c` is a block, or it has a save_frame row whose parent container exists and
    climbs on (fuel bounds the depth; `frames.length + 1` suffices: a frame's container is younger than its parent, `InvTree.frameOrder`) -/
def Db.upB (d : Db) : Nat → Nat → Bool
  | 0, _ => false
  | fuel + 1, c =>
    d.blocks.any (fun b => b.cid == c) ||
    (match d.frames.find? (fun f => f.cid == c) with
     | some f => d.hasContainer f.parent && d.upB fuel f.parent
     | none => false)

/-- the container is PART OF THE CIF: its row exists and it hangs, through save frames, under a data block.  cif_container_destroy
    "removes the associated container and all its contents" (cif.h) — in the store only the destroyed container's row and the
    save_frame rows below it cascade, the `container` rows of nested frames (with their loops, items, values) stay behind as garbage
    no query reaches: such containers are NOT part of the CIF, and a handle on one is not valid (review rA, finding A.9) -/
def Db.inCif (d : Db) (c : Nat) : Bool := d.hasContainer c && d.upB (d.frames.length + 1) c

/-- a container handle the contract accepts: its row exists AND the container is part of the CIF -/
def CH.okB (h : CH) (d : Db) : Bool := h.validB d && d.inCif h.id
/-- a loop handle the contract accepts: its loop exists with the cached category AND its container is part of the CIF -/
def LH.okB (l : LH) (d : Db) : Bool := l.validB d && d.inCif l.cid

def okC (w : World) (c : Nat) : Bool := match w.liveC c with | none => true | some _ => !w.cifBusy c
def okH (w : World) (h : Nat) : Bool := match w.liveH h with | none => true | some (e, s) => !w.cifBusy e.cif && e.h.okB s.db
def okL (w : World) (l : Nat) : Bool := match w.liveL l with | none => true | some (e, s) => !w.cifBusy e.cif && e.h.okB s.db
/-- cif_loop_get_packets: through a valid handle, or on a CIF that has an open iterator (then it is refused) -/
def okLOpen (w : World) (l : Nat) : Bool := match w.liveL l with | none => true | some (e, s) => w.cifBusy e.cif || e.h.okB s.db

/-- a packet is a map: no key twice -/
def keysDistinct : List (Str × V) → Bool
  | [] => true
  | e :: es => !es.any (fun x => x.1 == e.1) && keysDistinct es

def inContract (w : World) : Op → Bool
  | .cifNew => true
  | .cifDel c | .mkBlock c _ _ | .getBlock c _ | .blocks c => okC w c
  | .mkFrame h _ _ | .getFrame h _ | .frames h | .cdestroy h | .code h | .isBlock h | .mkLoop h _ _ | .catLoop h _
  | .itemLoop h _ | .loops h | .prune h | .getVal h _ | .setVal h _ _ | .rmItem h _ => okH w h
  | .ldestroy l | .getCat l | .setCat l _ | .names l | .addItem l _ _ => okL w l
  | .itOpen l => okLOpen w l
  | .addPkt l p => okL w l && keysDistinct p
  | .itUpd _ p => keysDistinct p
  | .itNext _ | .itRem _ | .itClose _ | .itAbort _ => true

/-- a whole history keeps to the contract: every op is in contract in the world it meets -/
def inContractHist : World → List Op → Bool
  | _, [] => true
  | w, op :: ops => inContract w op && inContractHist (step w op).1 ops

end CifModel.Store
