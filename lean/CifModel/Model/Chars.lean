import CifModel.Model.Types
import CifModel.Gen.CharClass
/-
  CifModel.Model.Chars — the scanner's character classification (parser.c: INIT_V2_SCANNER / SET_V1 / CLASS_OF /
  METACLASS_OF), hand-written; the link theorems to the tables regenerated from the sources (Gen.CharClass) are in
  Lemmas/CharsLink.lean.

  Classes and metaclasses are inductive types here; the numeric codes of the C (`#define WS_CLASS 2` …) enter only
  through `Cls.code` / `Meta.code`, which are defined FROM the generated constants.  So a harmless renumbering of the
  class codes in ciftypes.h keeps every theorem checking (as long as the codes stay distinct — `Cls.code_injective`),
  while a changed table entry breaks `classV2_link` / `classV1_link` / `meta_link`.
-/
namespace CifModel.Model.Chars
open CifModel

/-- scanner character classes (internal/ciftypes.h) -/
inductive Cls
  | no | general | ws | eol | hash | undersc | quote | semi | obrak | cbrak | ocurl | ccurl | dollar | obrak1 | cbrak1
  | a | b | d | e | g | l | o | p | s | t | v
deriving DecidableEq, Repr, Inhabited

/-- character metaclasses (parser.c) -/
inductive Meta | no | general | ws | open_ | close
deriving DecidableEq, Repr, Inhabited

open Gen.CharClass in
/-- the C's numeric code of a class, taken from the generated constants -/
def Cls.code : Cls → Nat
  | .no => NO_CLASS | .general => GENERAL_CLASS | .ws => WS_CLASS | .eol => EOL_CLASS | .hash => HASH_CLASS
  | .undersc => UNDERSC_CLASS | .quote => QUOTE_CLASS | .semi => SEMI_CLASS | .obrak => OBRAK_CLASS
  | .cbrak => CBRAK_CLASS | .ocurl => OCURL_CLASS | .ccurl => CCURL_CLASS | .dollar => DOLLAR_CLASS
  | .obrak1 => OBRAK1_CLASS | .cbrak1 => CBRAK1_CLASS | .a => A_CLASS | .b => B_CLASS | .d => D_CLASS | .e => E_CLASS
  | .g => G_CLASS | .l => L_CLASS | .o => O_CLASS | .p => P_CLASS | .s => S_CLASS | .t => T_CLASS | .v => V_CLASS

open Gen.CharClass in
def Meta.code : Meta → Nat
  | .no => NO_META | .general => GENERAL_META | .ws => WS_META | .open_ => OPEN_META | .close => CLOSE_META

def Cls.all : List Cls :=
  [.no, .general, .ws, .eol, .hash, .undersc, .quote, .semi, .obrak, .cbrak, .ocurl, .ccurl, .dollar, .obrak1, .cbrak1,
   .a, .b, .d, .e, .g, .l, .o, .p, .s, .t, .v]

/-- `char_class[c]` for `c < CHAR_TABLE_MAX` as INIT_V2_SCANNER(s, NULL, NULL) assigns it (CIF 2.0 mode).
    The order of the tests is irrelevant (all conditions are disjoint). -/
def classV2 (c : CU) : Cls :=
  if c = 0x09 then .ws else if c = 0x0A then .eol else if c = 0x0D then .eol
  else if c < 32 then .no
  else if c = 0x20 then .ws
  else if c = 0x22 then .quote else if c = 0x23 then .hash else if c = 0x24 then .dollar else if c = 0x27 then .quote
  else if c = 0x3B then .semi
  else if c = 0x5B then .obrak else if c = 0x5D then .cbrak else if c = 0x5F then .undersc
  else if c = 0x7B then .ocurl else if c = 0x7D then .ccurl
  else if c = 0x41 then .a else if c = 0x61 then .a
  else if c = 0x42 then .b else if c = 0x62 then .b
  else if c = 0x44 then .d else if c = 0x64 then .d
  else if c = 0x45 then .e else if c = 0x65 then .e
  else if c = 0x47 then .g else if c = 0x67 then .g
  else if c = 0x4C then .l else if c = 0x6C then .l
  else if c = 0x4F then .o else if c = 0x6F then .o
  else if c = 0x50 then .p else if c = 0x70 then .p
  else if c = 0x53 then .s else if c = 0x73 then .s
  else if c = 0x54 then .t else if c = 0x74 then .t
  else if c = 0x56 then .v else if c = 0x76 then .v
  else if c < 127 then .general
  else .no

/-- the table after SET_V1 (CIF 1.1 mode) -/
def classV1 (c : CU) : Cls :=
  if c = 0x5B then .obrak1 else if c = 0x5D then .cbrak1
  else if c = 0x7B then .general else if c = 0x7D then .general
  else classV2 c

/-- `CLASS_OF(c, s)` -/
def classOf (dia : Dialect) (c : CU) : Cls :=
  if c < 160 then (match dia with | .cif2 => classV2 c | .cif1 => classV1 c)
  else (match dia with | .cif2 => .general | .cif1 => .no)

/-- `meta_class[cls]` (the same in both modes: SET_V1 does not touch it) -/
def metaOfCls (k : Cls) : Meta :=
  match k with
  | .no => .no
  | .ws => .ws
  | .eol => .ws
  | .obrak => .open_
  | .ocurl => .open_
  | .cbrak => .close
  | .ccurl => .close
  | _ => .general

/-- `METACLASS_OF(c, s)` -/
def metaOf (dia : Dialect) (c : CU) : Meta := metaOfCls (classOf dia c)

/-- `(c & 0xfc00) == 0xdc00` : a trail surrogate.  (Arithmetic form; `mask_link` ties it to the bit masks.) -/
def isTrail (c : CU) : Bool := c / 1024 == 55
/-- `(c & 0xfc00) == 0xd800` : a lead surrogate -/
def isLead (c : CU) : Bool := c / 1024 == 54

/-! ### link theorems: the hand-written functions against the tables regenerated from the sources -/

theorem forall_lt_of_range_all {n : Nat} {p : Nat → Bool} (h : (List.range n).all p = true) : ∀ c, c < n → p c = true :=
  fun c hc => List.all_eq_true.mp h c (List.mem_range.mpr hc)

theorem classOf_high (dia : Dialect) (c : CU) (h : 160 ≤ c) : classOf dia c = classOf dia 160 := by
  have : ¬ c < 160 := Nat.not_lt.mpr h
  simp [classOf, this]

/- The link theorems against the regenerated tables (`classV2_link`, `classV1_link`, `classHigh_link`, `meta_link`,
   `tableLength_link`, `Cls.code_injective`) live in Lemmas/CharsLink.lean, so that the model driver still builds — and the
   search for a concrete failing input can run — when a table in the sources changes. -/

end CifModel.Model.Chars
