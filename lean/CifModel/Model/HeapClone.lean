import CifModel.Model.Heap
/-
  CifModel.Model.HeapClone (group gG, property C19) — `cif_value_clone` and the container operations as functions of the
  SOURCE ADDRESS.

  Model/Heap.lean builds copies from a pure value (`buildVal h v`): there "the clone equals the source" is true by
  construction.  Here the clone READS the source object cell by cell, as value.c does: `cloneH` follows the pointers of
  the source's fields (text, digit strings, the element array and every element object, every entry with its two keys and
  its inline value), allocates a block per block read and copies the contents.  Reading a block that is not live, or that
  is not of the expected shape, yields `none` (a use-after-free / wild pointer in the C).
  The container operations below take the address of the caller's object (or NULL) where Model/Heap takes a pure value.
  Lemmas/HeapClone.lean proves that on a represented source these functions compute exactly what the pure-value forms
  compute from the value the source represents — which is where "the clone denotes the same value" is actually proved.
-/
namespace CifModel.Model.Heap
open CifModel

mutual
  /-- `cif_value_clone` of the fields `hv`, reading heap `h`: fresh copies of every component; the fields of the clone -/
  def cloneH : Nat → Heap → HVal → Option (HVal × Heap)
    | 0, _, _ => none
    | _ + 1, h, .unk => some (.unk, h)
    | _ + 1, h, .na => some (.na, h)
    | _ + 1, h, .chr q a =>
        match read h a with
        | some (.str t) => match alloc h (.str t) with | (a', h1) => some (.chr q a', h1)
        | _ => none
    | _ + 1, h, .numb q neg sc a b su =>
        match read h a, read h b with
        | some (.str t), some (.str d) =>
          match alloc h (.str t) with
          | (a', h1) =>
            match alloc h1 (.str d) with
            | (b', h2) =>
              match su with
              | none => some (.numb q neg sc a' b' none, h2)
              | some c =>
                match read h c with
                | some (.str s) => match alloc h2 (.str s) with | (c', h3) => some (.numb q neg sc a' b' (some c'), h3)
                | _ => none
        | _, _ => none
    | _ + 1, h, .lst none _ =>                        -- cif_value_clone_list: malloc(sizeof(ptr) * 0), capacity = size = 0
        match alloc h (.arr [] 0) with | (arr, h1) => some (.lst (some arr) 0, h1)
    | fuel + 1, h, .lst (some arr) _ =>
        match read h arr with
        | some (.arr xs _) =>
          match cloneElems fuel h xs with
          | none => none
          | some (ys, h1) => match alloc h1 (.arr ys ys.length) with | (arr', h2) => some (.lst (some arr') ys.length, h2)
        | _ => none
    | fuel + 1, h, .tbl ents =>
        match cloneEntries fuel h ents with
        | none => none
        | some (es, h1) => some (.tbl es, h1)
  /-- the loop of cif_value_clone_list: `cif_value_clone(value->elements[i], &clone->elements[i])` with a NULL target -/
  def cloneElems : Nat → Heap → List Nat → Option (List Nat × Heap)
    | 0, _, _ => none
    | _ + 1, h, [] => some ([], h)
    | fuel + 1, h, x :: xs =>
        match read h x with
        | some (.val hv) =>
          match cloneH fuel h hv with
          | none => none
          | some (hv', h1) =>
            match alloc h1 (.val hv') with
            | (y, h2) =>
              match cloneElems fuel h2 xs with
              | none => none
              | some (ys, h3) => some (y :: ys, h3)
        | _ => none
  /-- the HASH_ITER loop of cif_value_clone_table: per entry `cif_u_strdup(entry->key)`, `cif_u_strdup(entry->key_orig)`
      (two blocks even when the source entry shares one), the value cloned into the new entry -/
  def cloneEntries : Nat → Heap → List Nat → Option (List Nat × Heap)
    | 0, _, _ => none
    | _ + 1, h, [] => some ([], h)
    | fuel + 1, h, e :: es =>
        match read h e with
        | some (.entry hv k ko) =>
          match read h k, read h ko with
          | some (.str ks), some (.str kos) =>
            match alloc h (.str ks) with
            | (ka, h1) =>
              match alloc h1 (.str kos) with
              | (koa, h2) =>
                match cloneH fuel h2 hv with
                | none => none
                | some (hv', h3) =>
                  match alloc h3 (.entry hv' ka koa) with
                  | (e', h4) =>
                    match cloneEntries fuel h4 es with
                    | none => none
                    | some (es', h5) => some (e' :: es', h5)
          | _, _ => none
        | _ => none
end

/-- the fields of the value object at address `a`: a free-standing object, or the inline value of a map entry (a pointer
    to an entry's value is the address of the entry) -/
def fieldsAt (h : Heap) (a : Nat) : Option HVal :=
  match read h a with
  | some (.val hv) => some hv
  | some (.entry hv _ _) => some hv
  | _ => none

/-- `cif_value_clone(src, &clone)` with `*clone == NULL`: a new free-standing object holding a copy of what `src` points to -/
def cloneNewH (fuel : Nat) (h : Heap) (src : Nat) : Option (Nat × Heap) :=
  match fieldsAt h src with
  | none => none
  | some hv =>
    match cloneH fuel h hv with
    | none => none
    | some (hv', h1) => some (alloc h1 (.val hv'))

/-- the element handed to a container: a copy of the caller's object, or a fresh unknown value for NULL -/
def copyOrUnknown (fuel : Nat) (h : Heap) : Option Nat → Option (Nat × Heap)
  | none => some (alloc h (.val .unk))
  | some s => cloneNewH fuel h s

/-- `cif_value_insert_element_at(list, i, src)` with the address of the caller's object (`none` = NULL) -/
def listInsertAddrH (fuel : Nat) (h : Heap) (hv : HVal) (i : Nat) (src : Option Nat) : Option (HVal × Heap) :=
  match hv with
  | .lst elems size =>
    if i > size then none else
    match copyOrUnknown fuel h src with
    | none => none
    | some (c, h1) =>
      match elems with
      | none =>
        match alloc h1 (.arr [c] (growCap 0)) with
        | (arr, h2) => some (.lst (some arr) 1, h2)
      | some arr =>
        match read h1 arr with
        | some (.arr xs cap) =>
          if size ≥ cap then
            match alloc h1 (.arr (xs.insertIdx i c) (growCap cap)) with
            | (arr', h2) =>
              match free h2 arr with
              | none => none
              | some h3 => some (.lst (some arr') (size + 1), h3)
          else
            match write h1 arr (.arr (xs.insertIdx i c) cap) with
            | none => none
            | some h2 => some (.lst (some arr) (size + 1), h2)
        | _ => none
  | _ => none

/-- `cif_value_clone(src, &dst)` with `*dst` the existing free-standing object at `t` (order of f1b092b): the source is
    copied into a scratch object FIRST, then the target is cleaned, the scratch object's fields are moved into it and the
    scratch object is released — so a source inside the target, or the target itself, is read while it is still intact -/
def cloneOntoAddrH (fuelSrc fuel : Nat) (h : Heap) (t src : Nat) : Option Heap :=
  match cloneNewH fuelSrc h src with
  | none => none
  | some (c, h1) =>
    match read h1 c, read h1 t with
    | some (.val new), some (.val old) =>
      match cleanVal fuel h1 old with
      | none => none
      | some h2 =>
        match write h2 t (.val new) with
        | none => none
        | some h3 => free h3 c
    | _, _ => none

/-- the components a container copies out of the caller's object (`none` = NULL: the unknown value, nothing to allocate) -/
def copyFields (fuel : Nat) (h : Heap) : Option Nat → Option (HVal × Heap)
  | none => some (.unk, h)
  | some s =>
    match fieldsAt h s with
    | none => none
    | some hv => cloneH fuel h hv

/-- `cif_map_set_item(map, key, src)` on a standalone map, with the address of the caller's object: as `mapSetItemH`, the
    copy read from the source.  (On the existing-entry path the copy is taken after the old value has been released, as in
    `mapSetItemH`; the C takes it before — the two orders give the same heap whenever the source is not part of the entry
    replaced; the aliasing cases are those of `cloneOntoAddrH`.) -/
def mapSetItemAddrH (fuelSrc fuel : Nat) (h : Heap) (ents : List Nat) (nk key : Str) (src : Option Nat) : Option (List Nat × Heap) :=
  match alloc h (.str nk) with
  | (kn, h0) =>
    match findEntry h0 ents nk with
    | none => none
    | some (some e) =>
      match entryRespell false h0 e key with
      | none => none
      | some h1 =>
        match read h1 e with
        | some (.entry old k ko) =>
          match cleanVal fuel h1 old with
          | none => none
          | some h1' =>
            match copyFields fuelSrc h1' src with
            | none => none
            | some (new, h1'') =>
              match write h1'' e (.entry new k ko) with
              | none => none
              | some h2 =>
                match free h2 kn with
                | none => none
                | some h3 => some (ents, h3)
        | _ => none
    | some none =>
      match alloc h0 (.str key) with
      | (koa, h1) =>
        match copyFields fuelSrc h1 src with
        | none => none
        | some (hv, h2) =>
          match alloc h2 (.entry hv kn koa) with
          | (e, h3) => some (ents ++ [e], h3)

/-- `cif_value_set_element_at(list, i, src)` with the address of the caller's object (an object outside the list; for a
    source inside the list see `cloneOntoAddrH` applied to the element): as `listSetH`, the copy read from the source -/
def listSetAddrH (fuelSrc fuel : Nat) (h : Heap) (hv : HVal) (i : Nat) (src : Option Nat) : Option Heap :=
  match hv with
  | .lst (some arr) _ =>
    match read h arr with
    | some (.arr xs _) =>
      match xs[i]? with
      | none => none
      | some t =>
        match read h t with
        | some (.val old) =>
          match cleanVal fuel h old with
          | none => none
          | some h1 =>
            match copyFields fuelSrc h1 src with
            | none => none
            | some (new, h2) => write h2 t (.val new)
        | _ => none
    | _ => none
  | _ => none

/-! ### members by reference -/

/-- `cif_value_get_element_at(list, i, &element)`: the address of the element object ITSELF (no copy) -/
def listGetH (h : Heap) (hv : HVal) (i : Nat) : Option Nat :=
  match hv with
  | .lst (some arr) _ =>
    match read h arr with
    | some (.arr xs _) => xs[i]?
    | _ => none
  | _ => none

/-- `cif_value_get_item_by_key` / `cif_packet_get_item`: the address of the entry (= of its inline value), no copy
    (`some none` = CIF_NOSUCH_ITEM) -/
def tableGetH (h : Heap) (ents : List Nat) (nk : Str) : Option (Option Nat) := findEntry h ents nk

end CifModel.Model.Heap
