import CifModel.Model.Serialize
import CifModel.Model.Numb
/-
  CifModel.Model.Columns — value object ↔ columns of table `item_value`
  (internal/utils.h: SET_VALUE_PROPS / GET_VALUE_PROPS; misc/cif_schema.sql: the CHECK constraints of item_value).
  Core Lean only.

  SET_VALUE_PROPS binds, relative to the first value parameter of INSERT_VALUE_SQL / UPDATE_VALUE_SQL / SET_ALL_VALUES_SQL
  (`kind, quoted, val_text, val, val_digits, su_digits, scale`):
      1 kind   2 quoted   3 val_text   4 val   5 val_digits   6 su_digits   7 scale
  GET_VALUE_PROPS reads, relative to the first value column of GET_VALUE_SQL / GET_LOOP_VALUES_SQL
  (`kind, quoted, val, val_text, val_digits, su_digits, scale`):
      0 kind   1 quoted   2 val   3 val_text   4 val_digits   5 su_digits   6 scale
  Both orders are re-extracted from sql.h and utils.h on every run (Gen/ValueCols.lean) and compared with the
  assignment of named columns below by `colOrder_link` (Lemmas/Columns.lean).

  Not modelled (assumed, observed by the `storeval` family): SQLite returns a bound UTF-16 text / blob / integer
  unchanged (well-formed text, no NUL), unbound parameters are NULL (the callers clear the bindings), and the double
  `cif_value_get_number` computes for column `val` is not a NaN (SQLite would store NULL).
-/
namespace CifModel.Model.Columns
open CifModel CifModel.Model.Serialize

inductive SqlVal where
  | null
  | text (s : Str)
  | real                                  -- some non-NaN double (its value is the subject of C10)
  | blob (ws : List Word)
deriving Repr, DecidableEq, Inhabited

/-- one row of `item_value`, value columns only -/
structure Row where
  kind : Nat
  quoted : Option Nat
  val : SqlVal
  valText : Option Str
  valDigits : Option (List Nat)          -- decimal digits (the C stores them as ASCII text)
  suDigits : Option (List Nat)
  scale : Option Int
deriving Repr, DecidableEq, Inhabited

def emptyRow (kind : Nat) : Row :=
  { kind := kind, quoted := none, val := .null, valText := none, valDigits := none, suDigits := none, scale := none }

/-- SET_VALUE_PROPS.  `none` = the `ondataerr` exit (serialisation of a list/table failed or did not terminate). -/
def toColumns : V → Option Row
  | .unk => some (emptyRow 5)
  | .na => some (emptyRow 4)
  | .chr q t => some { emptyRow 0 with quoted := some (qcode q), valText := some t, val := .text t }
  | .numb q t _ digits su scale =>
      some { emptyRow 1 with quoted := some (qcode q), valText := some t, val := .real,
                             valDigits := some digits, suDigits := su, scale := some scale }
  | .lst vs =>
      match serialize (.lst vs) with
      | .ok b => some { emptyRow 2 with val := .blob b.contents }
      | _ => none
  | .tbl es =>
      match serialize (.tbl es) with
      | .ok b => some { emptyRow 3 with val := .blob b.contents }
      | _ => none

/-- `sqlite3_column_int(...) ? CIF_QUOTED : CIF_NOT_QUOTED` (NULL reads as 0) -/
def quotedOf (c : Option Nat) : Bool :=
  match c with
  | some n => n != 0
  | none => false

/-- GET_VALUE_PROPS (`none` = CIF_INTERNAL_ERROR).  Numbers: text, digits, su digits and scale come from their columns,
    the sign from the first character of the text. -/
def fromColumns (parse : Str → Option NumbFields) (r : Row) : Option V :=
  if r.kind = 0 then
    match r.valText with
    | some t => some (.chr (quotedOf r.quoted) t)
    | none => none
  else if r.kind = 1 then
    match r.valText, r.valDigits with
    | some t, some d =>
      if t ≠ [] ∧ d ≠ [] then
        some (.numb (quotedOf r.quoted) t (t.head? == some 45) d r.suDigits (r.scale.getD 0))
      else none
    | _, _ => none
  else if r.kind = 2 ∨ r.kind = 3 then
    match r.val with
    | .blob ws =>
      match deserialize parse ws with
      | some (v, _) => some v
      | none => none
    | _ => none
  else if r.kind = 4 then some .na
  else if r.kind = 5 then some .unk
  else none

/-! ### the CHECK constraints of `item_value` that concern the value columns -/

def allDigits (d : List Nat) : Bool := d.all (fun x => x < 10)

/-- `check (case when (val is null) then kind in (4, 5) else kind in (0, 1, 2, 3) end)` -/
def check1 (r : Row) : Bool :=
  if r.val = .null then r.kind = 4 || r.kind = 5 else r.kind ≤ 3

/-- `check ((val_text is null) = (kind not in (0, 1)))` -/
def check2 (r : Row) : Bool :=
  r.valText.isNone == !(r.kind = 0 || r.kind = 1)

/-- `check (case when (kind = 1) then (scale is not null) and (length(val_digits) > 0) and (val_digits not glob '*[^0-9]*')
      and ((su_digits is null) or ((length(su_digits) > 0) and (su_digits not glob '*[^0-9]*')))
    else (coalesce(val_digits, su_digits, scale) is null) end)`
    (`length(NULL) > 0` is NULL, which a CHECK constraint accepts — SQL three-valued logic; the disjunct below
    therefore treats a NULL `val_digits` as not violating, exactly as SQLite does.) -/
def check3 (r : Row) : Bool :=
  if r.kind = 1 then
    r.scale.isSome
      && (match r.valDigits with | none => true | some d => d.length > 0 && allDigits d)
      && (match r.suDigits with | none => true | some d => d.length > 0 && allDigits d)
  else r.valDigits.isNone && r.suDigits.isNone && r.scale.isNone

def checks (r : Row) : Bool := check1 r && check2 r && check3 r

/-- the constraint texts this model was written against (compared with the current schema by `checks_link`) -/
def assumedChecks : List (List Nat) := [
  a!"check (row_num > 0)",
  a!"check (case when (val is null) then kind in (4, 5) else kind in (0, 1, 2, 3) end)",
  a!"check ((val_text is null) = (kind not in (0, 1)))",
  a!"check (case when (kind = 1) then (scale is not null) and (length(val_digits) > 0) and (val_digits not glob '*[^0-9]*') and ((su_digits is null) or ((length(su_digits) > 0) and (su_digits not glob '*[^0-9]*'))) else (coalesce(val_digits, su_digits, scale) is null) end)"
]

/-- parameter order of SET_VALUE_PROPS / column order of GET_VALUE_PROPS this model was written against -/
def assumedSetOrder : List (List Nat) := [a!"kind", a!"quoted", a!"val_text", a!"val", a!"val_digits", a!"su_digits", a!"scale"]
def assumedGetOrder : List (List Nat) := [a!"kind", a!"quoted", a!"val", a!"val_text", a!"val_digits", a!"su_digits", a!"scale"]

/-! ### well-formed values: what the API can construct and the store can hold -/

def numbOk (t : Str) (neg : Bool) (digits : List Nat) (su : Option (List Nat)) : Bool :=
  t != [] && digits != [] && allDigits digits
    && (match su with | none => true | some d => d != [] && allDigits d)
    && (neg == (t.head? == some 45))

mutual
  /-- every number inside the value is what `parse` makes of its text -/
  def numbsParse (parse : Str → Option NumbFields) : V → Bool
    | .numb _ t neg d su sc => parse t == some (neg, d, su, sc)
    | .lst vs => numbsParseList parse vs
    | .tbl es => numbsParseEntries parse es
    | _ => true
  def numbsParseList (parse : Str → Option NumbFields) : List V → Bool
    | [] => true
    | v :: vs => numbsParse parse v && numbsParseList parse vs
  def numbsParseEntries (parse : Str → Option NumbFields) : List (Str × Str × V) → Bool
    | [] => true
    | (_, _, v) :: es => numbsParse parse v && numbsParseEntries parse es
end

/-- a value the store can hold: a scalar number has consistent fields; a list/table is smaller than the address
    space and the numbers inside it are parse-consistent (they are rebuilt from their text) -/
def wfValue (parse : Str → Option NumbFields) : V → Bool
  | .numb _ t neg d su _ => numbOk t neg d su
  | .lst vs => decide (widthSum (ser (.lst vs)) < SZ) && numbsParseList parse vs
  | .tbl es => decide (widthSum (ser (.tbl es)) < SZ) && numbsParseEntries parse es
  | _ => true

/-- `cif_value_parse_numb` (group gB's model `Numb.parseNumb`) in the shape the deserialiser takes -/
def parseFields (t : Str) : Option NumbFields :=
  (Numb.parseNumb t).map (fun f => (f.neg, f.digits, f.su, f.scale))

end CifModel.Model.Columns
