import CifModel.Model.Walk
/-
  CifModel.Model.WalkH — `cif_walk` with the HANDLES it passes to the callbacks (src/cif.c, same functions as Model/Walk.lean):

    cif_walk        ↔ walkWH / walkBlocksH     block `i` of cif_get_all_blocks:            handle  .cont [i]
    walk_container  ↔ walkContH / walkFramesH  frame `j` of cif_container_get_all_frames:  handle  .cont (path ++ [j])
    walk_loops      ↔ walkLoopsFromH           loop `i` of cif_container_get_all_loops:    handle  .loop path i
    walk_loop       ↔ walkLoopH / walkPacketsH packet `j` of the iteration:                handle  .packet path i j
    walk_packet     ↔ walkPacketH / walkItemsH item `k` of the packet's map:               handle  .item path i j k

  A container handle of the C is (cif, id, code, parent_id); a loop handle is (container, loop_num).  The model's identity of a
  container is its PATH — the positions from the list of data blocks downwards — which determines the id (one container per path),
  the parent (the path without its last position; none for a data block) and the kind (data block ⇔ no parent ⇔ path of length 1:
  `cif_container_assert_block` tests `parent_id`).  Packets and values are objects owned by the walker (copies), identified by their
  position in the iteration.

  The handler program sees what `Walk.Prog` sees (invocation index and event): the control flow is literally that of Model/Walk.lean
  (`Lemmas/WalkH.lean`: erasing the handles gives `Walk.walkW`).  Queries through a handle are answered by looking the handle up in
  the CIF (`lookup`, `q…` below) — the CIF is not modified during the walk (cif.h: handlers must not modify it; assumption of C14).
  Core Lean only.
-/
namespace CifModel.Walk

abbrev Path := List Nat

inductive Handle where
  | cif
  | cont (path : Path)
  | loop (path : Path) (i : Nat)
  | packet (path : Path) (i j : Nat)
  | item (path : Path) (i j k : Nat)
deriving Inhabited, DecidableEq

def WCont.code : WCont → Str
  | .mk c _ _ => c
def WCont.frames : WCont → List WCont
  | .mk _ f _ => f
def WCont.loops : WCont → List WLoop
  | .mk _ _ l => l

/-- the container a path denotes, from the list of data blocks downwards -/
def lookup : List WCont → Path → Option WCont
  | _, [] => none
  | cs, i :: rest =>
    match cs[i]? with
    | none => none
    | some c => if rest.isEmpty then some c else lookup c.frames rest

/-- the loop a loop handle denotes -/
def lookupLoop (c : WCif) (path : Path) (i : Nat) : Option WLoop :=
  match lookup c path with
  | some ct => ct.loops[i]?
  | none => none

-- ---- the queries a handler may make through a handle (cif.h), answered from the CIF ------------------------------------------------

def ARGUMENT_ERROR : Int := 6

theorem codesH_link : (a!"CIF_ARGUMENT_ERROR", 6) ∈ Gen.ErrCodes.codes := by decide +kernel

/-- cif_container_assert_block: CIF_OK for a data block (no parent), CIF_ARGUMENT_ERROR for a save frame -/
def qAssertBlock (path : Path) : Int := if path.length = 1 then OK else ARGUMENT_ERROR

/-- cif_container_get_code -/
def qCode (c : WCif) (path : Path) : Option Str := (lookup c path).map WCont.code

/-- the number of frames cif_container_get_all_frames lists -/
def qNumFrames (c : WCif) (path : Path) : Option Nat := (lookup c path).map (fun ct => ct.frames.length)

/-- the number of loops cif_container_get_all_loops lists -/
def qNumLoops (c : WCif) (path : Path) : Option Nat := (lookup c path).map (fun ct => ct.loops.length)

/-- cif_container_get_frame(handle, code): the handle of the save frame of that code in the container the handle denotes -/
def qGetFrame (c : WCif) (path : Path) (code : Str) : Option Handle :=
  match lookup c path with
  | some ct => (ct.frames.findIdx? (fun f => f.code == code)).map (fun j => Handle.cont (path ++ [j]))
  | none => none

/-- cif_container_get_item_loop(handle, name): the handle of the loop of the container that holds `name` -/
def qItemLoop (c : WCif) (path : Path) (nm : Str) : Option Handle :=
  match lookup c path with
  | some ct => (ct.loops.findIdx? (fun l => l.names.contains nm)).map (fun i => Handle.loop path i)
  | none => none

/-- cif_loop_get_category / cif_loop_get_names through a loop handle -/
def qLoopCategory (c : WCif) (path : Path) (i : Nat) : Option (Option Str) := (lookupLoop c path i).map (·.category)
def qLoopNames (c : WCif) (path : Path) (i : Nat) : Option (List Str) := (lookupLoop c path i).map (·.names)

/-- a handler's own pass over the packets through a loop handle: the number of packets cif_loop_get_packets / next_packet deliver -/
def qLoopPackets (c : WCif) (path : Path) (i : Nat) : Option Nat := (lookupLoop c path i).map (·.packets.length)

-- ---- the walk ------------------------------------------------------------------------------------------------------------------

/-- walker state: number of callbacks made so far and the log (event, handle passed), most recent first -/
structure WH where
  n : Nat
  log : List (Ev × Handle)
deriving Inhabited

def WH.init : WH := ⟨0, []⟩

def callH (p : Prog) (w : WH) (e : Ev) (h : Handle) : Int × WH := (p w.n e, { n := w.n + 1, log := (e, h) :: w.log })

def walkItemsH (p : Prog) (path : Path) (i j : Nat) : Nat → List (Str × V) → WH → Option Int × WH
  | _, [], w => (none, w)
  | k, (nm, v) :: is, w =>
    let (r, w) := callH p w (.item nm v) (.item path i j k)
    if r = CONTINUE ∨ r = SKIP_CURRENT then walkItemsH p path i j (k + 1) is w
    else if r = SKIP_SIBLINGS then (some CONTINUE, w)
    else (some r, w)

def walkPacketH (p : Prog) (path : Path) (i j : Nat) (pk : List (Str × V)) (w : WH) : Int × WH :=
  let (r, w) := callH p w (.pktStart pk) (.packet path i j)
  if r ≠ CONTINUE then (r, w) else
  match walkItemsH p path i j 0 pk w with
  | (some r, w) => (r, w)
  | (none, w) => callH p w (.pktEnd pk) (.packet path i j)

def walkPacketsH (p : Prog) (path : Path) (i : Nat) : Nat → List (List (Str × V)) → WH → Bool × Int × WH
  | _, [], w => (false, FINISHED, w)
  | j, pk :: pks, w =>
    let (r, w) := walkPacketH p path i j pk w
    if r = CONTINUE ∨ r = SKIP_CURRENT then walkPacketsH p path i (j + 1) pks w
    else if r = SKIP_SIBLINGS then (true, CONTINUE, w)
    else (true, r, w)

def walkLoopH (p : Prog) (path : Path) (i : Nat) (l : WLoop) (w : WH) : Int × WH :=
  let (r, w) := callH p w (.loopStart l.category l.names) (.loop path i)
  if r ≠ CONTINUE then (r, w) else
  if l.packets.isEmpty then (EMPTY_LOOP, w)
  else
    let (stopped, r, w) := walkPacketsH p path i 0 l.packets w
    if stopped ∨ r ≠ FINISHED then (r, w)
    else callH p w (.loopEnd l.category l.names) (.loop path i)

def walkLoopsFromH (p : Prog) (path : Path) : Nat → List WLoop → Int → WH → Int × WH
  | _, [], res, w => (res, w)
  | i, l :: ls, _, w =>
    let (r, w) := walkLoopH p path i l w
    if r = SKIP_CURRENT ∨ r = CONTINUE then walkLoopsFromH p path (i + 1) ls r w
    else (r, w)

mutual
  /-- walk_container on the container `path` -/
  def walkContH (p : Prog) (depth : Nat) (path : Path) : WCont → WH → Int × WH
    | .mk code frames loops, w =>
      let (r, w) := callH p w (if depth = 0 then .blockStart code else .frameStart code) (.cont path)
      if r ≠ CONTINUE then (r, w) else
      match walkFramesH p (depth + 1) path 0 frames w with
      | (some r, w) => (r, w)
      | (none, w) =>
        let (r, w) := walkLoopsFromH p path 0 loops OK w
        if r = CONTINUE ∨ r = SKIP_CURRENT then
          callH p w (if depth = 0 then .blockEnd code else .frameEnd code) (.cont path)
        else if r = SKIP_SIBLINGS then (CONTINUE, w)
        else (r, w)
  /-- the frame loop of walk_container on the container `parent`: frames from position `j` on -/
  def walkFramesH (p : Prog) (depth : Nat) (parent : Path) : Nat → List WCont → WH → Option Int × WH
    | _, [], w => (none, w)
    | j, f :: fs, w =>
      let (r, w) := walkContH p depth (parent ++ [j]) f w
      if r = CONTINUE ∨ r = SKIP_CURRENT then walkFramesH p depth parent (j + 1) fs w
      else if r = SKIP_SIBLINGS then (none, w)
      else (some r, w)
end

def walkBlocksH (p : Prog) : Nat → List WCont → WH → Option Int × WH
  | _, [], w => (none, w)
  | i, b :: bs, w =>
    let (r, w) := walkContH p 0 [i] b w
    if r = CONTINUE ∨ r = SKIP_CURRENT then walkBlocksH p (i + 1) bs w
    else if r = SKIP_SIBLINGS ∨ r = END then (some OK, w)
    else (some r, w)

def walkWH (p : Prog) (c : WCif) : Int × WH :=
  let (r, w) := callH p WH.init .cifStart .cif
  if r = CONTINUE then
    match walkBlocksH p 0 c w with
    | (some r, w) => (r, w)
    | (none, w) =>
      let (r, w) := callH p w .cifEnd .cif
      if r = CONTINUE ∨ r = SKIP_CURRENT ∨ r = SKIP_SIBLINGS ∨ r = END then (OK, w) else (r, w)
  else if r = SKIP_CURRENT ∨ r = SKIP_SIBLINGS ∨ r = END then (OK, w)
  else (r, w)

/-- cif_walk: the callbacks made, in order, each with the handle passed, and the return value -/
def walkH (p : Prog) (c : WCif) : List (Ev × Handle) × Int :=
  let (r, w) := walkWH p c
  (w.log.reverse, r)

end CifModel.Walk
