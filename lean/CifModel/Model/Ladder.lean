import CifModel.Basic
/-
  CifModel.Model.Ladder — allocation / clean-up "ladders" of the library under a single allocation failure (C17).

  A run of a library function is abstracted to the sequence of its dynamic-memory events inside the call:
  the i-th allocation request (i = 1, 2, …) either succeeds (`alloc i`) or — if i is the chosen fault position —
  fails (`fail i`); `free i` releases the block obtained by the i-th request.  The functions below transcribe the
  C control flow (including the FAILURE_HANDLER ladders) of

    * dup_ustrings                     (loop.c)     — copy a NULL-terminated array of n strings
    * cif_value_clone                  (value.c)    — for character, number, unknown/na and (nested) list values,
                                                      with a fresh target (`*clone == NULL`)
    * cif_value_insert_element_at      (value.c)    — clone the element, grow the element array when full
    * cif_value_set_element_at         (value.c)    — clone the element into the EXISTING target (`*clone != NULL`):
                                                      via a scratch object, target replaced only on success
    * cif_loop_get_names               (loop.c)     — cif_loop_get_names_internal(normalize = 0) on a stored loop:
                                                      linked list of (node, string), then the array of strings
    * cif_value_copy_char              (value.c)    — copy the text, then cif_value_init_char (clean + take ownership)
    * cif_value_deserialize            (value.c)    — DESERIALIZE / cif_list_deserialize for list blobs without numbers
    * cif_packet_create                (packet.c)   — array of normalised names (cif_normalize: three buffers per ASCII
                                                      name), cif_packet_create_norm (packet, entries, uthash's table and
                                                      bucket array on the first HASH_ADD), copies of respelled names

  into this event language.  Table values are not covered here (uthash's own out-of-memory behaviour is a recorded
  open finding, see known_findings.json, F31).  `failAt = 0` means no failure.
-/
namespace CifModel.Model.Ladder

inductive Ev
  | alloc (i : Nat)      -- i-th allocation request of the call, succeeded
  | fail (i : Nat)       -- i-th allocation request of the call, failed (returned NULL)
  | free (i : Nat)       -- release of the block obtained by the i-th request
deriving DecidableEq, Repr

/-- state threaded through a run: number of allocation requests so far, events so far (in order) -/
structure St where
  count : Nat := 0
  evs : List Ev := []
deriving Repr

/-- one allocation request under fault position `failAt` -/
def alloc (failAt : Nat) (s : St) : Option Nat × St :=
  let i := s.count + 1
  if i = failAt then (none, { count := i, evs := s.evs ++ [.fail i] })
  else (some i, { count := i, evs := s.evs ++ [.alloc i] })

def free (i : Nat) (s : St) : St := { s with evs := s.evs ++ [.free i] }

def freeAll (ids : List Nat) (s : St) : St := ids.foldl (fun s i => free i s) s

/-- result codes used here -/
def OK : Nat := 0
def MEMORY_ERROR : Nat := 3
def ERROR : Nat := 2
def INVALID_HANDLE : Nat := 4
/-- not a code of the library: the modelled path runs into undefined behaviour of the C (see `createNorm`) -/
def UNDEFINED : Nat := 99

-- ---------------------------------------------------------------------------------------------------------------
-- dup_ustrings(dest, src) with n source strings (src != NULL)

/-- the copy loop: `done` = ids of the strings copied so far (most recent first) -/
def dupLoop (failAt : Nat) (arr : Nat) : Nat → List Nat → St → Nat × List Nat × St
  | 0, done, s => (OK, arr :: done, s)                              -- success: array and all strings live
  | n + 1, done, s =>
    match alloc failAt s with
    | (some i, s') => dupLoop failAt arr n (i :: done) s'
    | (none, s') =>
      -- FAILURE_HANDLER(soft): while (counter > dest_temp) free(*(--counter));  free(dest_temp);
      (MEMORY_ERROR, [], free arr (freeAll done s'))

/-- returns (result code, ids owned by the caller afterwards, final state) -/
def dupUstrings (failAt : Nat) (n : Nat) (s : St := {}) : Nat × List Nat × St :=
  match alloc failAt s with
  | (none, s') => (MEMORY_ERROR, [], s')
  | (some arr, s') => dupLoop failAt arr n [] s'

-- ---------------------------------------------------------------------------------------------------------------
-- cif_value_clone with a fresh target

/-- the shape of a value as far as allocation is concerned -/
inductive Shape
  | scalar                       -- unknown / not-applicable: no component allocations
  | chr                          -- character value: the text
  | numb (hasSu : Bool)          -- number: text, digits, optionally su_digits
  | lst (elems : List Shape)     -- list: element array + the elements
deriving Repr

/-- what a successfully cloned value owns (ids of its blocks) -/
inductive Owned
  | scalar (obj : Nat)
  | chr (obj text : Nat)
  | numb (obj text digits : Nat) (su : Option Nat)
  | lst (obj arr : Nat) (elems : List Owned)       -- elements in index order
deriving Repr

mutual
  def Owned.ids : Owned → List Nat
    | .scalar o => [o]
    | .chr o t => [o, t]
    | .numb o t d su => [o, t, d] ++ su.toList
    | .lst o a es => [o, a] ++ Owned.idsList es
  def Owned.idsList : List Owned → List Nat
    | [] => []
    | e :: es => e.ids ++ Owned.idsList es
end

mutual
  /-- events of `cif_value_free(v)`: `cif_value_clean` then `free(v)` -/
  def freeOwned : Owned → St → St
    | .scalar o, s => free o s
    | .chr o t, s => free o (free t s)
    | .numb o t d su, s =>
      -- cif_numb_value_clean: text, digits, su_digits
      let s := free t s
      let s := free d s
      let s := match su with | some x => free x s | none => s
      free o s
    | .lst o a es, s =>
      -- cif_list_value_clean: elements from the last to the first, then the array; then the object
      free o (free a (freeOwnedRev es s))
  /-- free the elements of a list from the last to the first -/
  def freeOwnedRev : List Owned → St → St
    | [], s => s
    | e :: es, s => freeOwned e (freeOwnedRev es s)
end

mutual
  /-- the `switch (value->kind)` part of `cif_value_clone` for a freshly created target object `obj`; on failure
      `free(to_free)` -/
  def cloneInto (failAt : Nat) (obj : Nat) : Shape → St → Option Owned × St
    | .scalar, s => (some (.scalar obj), s)
    | .chr, s =>
      match alloc failAt s with                                   -- cif_u_strdup(text)
      | (none, s') => (none, free obj s')
      | (some t, s') => (some (.chr obj t), s')
    | .numb hasSu, s =>
      match alloc failAt s with                                   -- text
      | (none, s') => (none, free obj s')
      | (some t, s') =>
        match alloc failAt s' with                                -- digits
        | (none, s'') => (none, free obj (free t s''))
        | (some d, s'') =>
          if hasSu then
            match alloc failAt s'' with                           -- su_digits
            | (none, s3) => (none, free obj (free t (free d s3)))   -- FAILURE_HANDLER(su): digits, then text
            | (some u, s3) => (some (.numb obj t d (some u)), s3)
          else (some (.numb obj t d none), s'')
    | .lst elems, s =>
      match alloc failAt s with                                   -- the element array
      | (none, s') => (none, free obj s')                          -- cif_list_value_clean of the empty list frees nothing
      | (some arr, s') =>
        match cloneElems failAt elems [] s' with
        | (some es, s'') => (some (.lst obj arr es), s'')
        | (none, s'') => (none, free obj (free arr s''))           -- …then the array, then `free(to_free)`
  /-- the element loop of cif_value_clone_list; `done` = elements cloned so far, most recent first.  Each element is
      cloned by `cif_value_clone(elem, &NULL)`: allocate the value object (cif_value_create), then `cloneInto`.  On
      failure the soft handler runs cif_list_value_clean: the elements cloned so far, last to first. -/
  def cloneElems (failAt : Nat) : List Shape → List Owned → St → Option (List Owned) × St
    | [], done, s => (some done.reverse, s)
    | sh :: rest, done, s =>
      match alloc failAt s with
      | (none, s') => (none, freeOwnedRev done.reverse s')
      | (some obj, s') =>
        match cloneInto failAt obj sh s' with
        | (some o, s'') => cloneElems failAt rest (o :: done) s''
        | (none, s'') => (none, freeOwnedRev done.reverse s'')
end

/-- `cif_value_clone(value, &clone)` with `*clone == NULL` -/
def clone (failAt : Nat) (sh : Shape) (s : St := {}) : Option Owned × St :=
  match alloc failAt s with                                       -- cif_value_create(CIF_UNK_KIND, &temp)
  | (none, s') => (none, s')
  | (some obj, s') => cloneInto failAt obj sh s'

-- ---------------------------------------------------------------------------------------------------------------
-- cif_value_insert_element_at(list, index, element) on a list whose element array is the pre-existing block `arr0`
-- (not allocated during the call, so its release by realloc is not an event of the window)

/-- returns (result code, what the list gained, final state).  `full` = size ≥ capacity (the array must grow). -/
def insertElement (failAt : Nat) (full : Bool) (elem : Shape) (s : St := {}) : Nat × Option (Owned × Option Nat) × St :=
  match clone failAt elem s with
  | (none, s') => (MEMORY_ERROR, none, s')
  | (some o, s') =>
    if full then
      match alloc failAt s' with                                  -- realloc(elements, new_cap)
      | (none, s'') => (MEMORY_ERROR, none, freeOwned o s'')      -- FAILURE_HANDLER(soft): cif_value_free(clone)
      | (some arr, s'') => (OK, some (o, some arr), s'')
    else (OK, some (o, none), s')

-- ---------------------------------------------------------------------------------------------------------------
-- cif_value_set_element_at(list, index, element) with element != NULL and element != the current target:
-- `cif_value_clone(element, &target)` with a pre-existing target object (`*clone != NULL`, `*clone != value`).
-- Since /repo commit f1b092b the copy is built in a scratch object first; only on success is the target cleaned, the
-- scratch struct-copied into it and the scratch OBJECT released (its components now belong to the target).  On
-- failure the target is not touched at all.

/-- the value object itself -/
def Owned.obj : Owned → Nat
  | .scalar o => o
  | .chr o _ => o
  | .numb o _ _ _ => o
  | .lst o _ _ => o

/-- the component blocks (everything but the value object) -/
def Owned.parts : Owned → List Nat
  | .scalar _ => []
  | .chr _ t => [t]
  | .numb _ t d su => [t, d] ++ su.toList
  | .lst _ a es => a :: Owned.idsList es

/-- events of `cif_value_clean(v)`: as `freeOwned` without the final `free(v)` -/
def cleanOwned : Owned → St → St
  | .scalar _, s => s
  | .chr _ t, s => free t s
  | .numb _ t d su, s =>
    let s := free t s
    let s := free d s
    match su with | some x => free x s | none => s
  | .lst _ a es, s => free a (freeOwnedRev es s)

/-- `old` = the target element as it is before the call (its blocks are live in `s`: they were obtained earlier).
    Returns (result code, component ids the target owns afterwards if it was replaced, final state). -/
def setElement (failAt : Nat) (old : Owned) (elem : Shape) (s : St) : Nat × Option (List Nat) × St :=
  match clone failAt elem s with                                  -- cif_value_clone(value, &scratch), scratch == NULL
  | (none, s') => (MEMORY_ERROR, none, s')                         -- return result;  (target untouched)
  | (some o, s') =>
    -- cif_value_clean(*clone);  **clone = *scratch;  free(scratch);
    (OK, some o.parts, free o.obj (cleanOwned old s'))

-- ---------------------------------------------------------------------------------------------------------------
-- cif_loop_get_names(loop, &names) = cif_loop_get_names_internal(loop, &names, CIF_FALSE) for a stored loop
-- (loop_num ≥ 0) with n item names.  Only the library's own requests are events (SQLite's are not).

/-- FAILURE_HANDLER(name): LL_FOREACH_SAFE from the head of the list (most recent row first): free(string); free(node) -/
def freeNodes : List (Nat × Nat) → St → St
  | [], s => s
  | (nd, str) :: rest, s => freeNodes rest (free nd (free str s))

/-- the success path's LL_FOREACH_SAFE: the string moves into the array, free(node) -/
def freeNodeObjs : List (Nat × Nat) → St → St
  | [], s => s
  | (nd, _) :: rest, s => freeNodeObjs rest (free nd s)

/-- the `SQLITE_ROW` iterations; `nodes` = the list built so far (LL_PREPEND: most recent first) as (node, string).
    `fixed = false` is the code AS IT IS: when GET_COLUMN_STRING's malloc fails it jumps to FAILURE_HANDLER(name), but
    the fresh node has not been prepended yet and the handler re-uses the variable `next_name` as its cursor, so the node
    is never released (open finding F31 get_names/…/leak).  `fixed = true` releases it before the jump. -/
def namesRows (fixed : Bool) (failAt : Nat) : Nat → List (Nat × Nat) → St → Option (List (Nat × Nat)) × St
  | 0, nodes, s => (some nodes, s)
  | n + 1, nodes, s =>
    match alloc failAt s with                                     -- malloc(sizeof(string_element_tp))
    | (none, s') => (none, freeNodes nodes s')                     -- SET_RESULT; break; falls into FAILURE_HANDLER(name)
    | (some nd, s') =>
      match alloc failAt s' with                                  -- GET_COLUMN_STRING: malloc(value_bytes + 2)
      | (none, s'') => (none, freeNodes nodes (if fixed then free nd s'' else s''))
      | (some str, s'') => namesRows fixed failAt n ((nd, str) :: nodes) s''

/-- returns (result code, ids owned by the caller afterwards, final state) -/
def getNamesGen (fixed : Bool) (failAt : Nat) (n : Nat) (s : St := {}) : Nat × List Nat × St :=
  match namesRows fixed failAt n [] s with
  | (none, s') => (MEMORY_ERROR, [], s')
  | (some nodes, s') =>
    if n = 0 then (INVALID_HANDLE, [], s')                        -- name_count <= 0: FAIL(name, …) with an empty list
    else
      match alloc failAt s' with                                  -- malloc(sizeof(UChar *) * (name_count + 1))
      | (none, s'') => (MEMORY_ERROR, [], freeNodes nodes s'')     -- break; FAILURE_HANDLER(name)
      | (some arr, s'') => (OK, arr :: nodes.map (·.2), freeNodeObjs nodes s'')

/-- the code as it is (leaks one list node when a string allocation fails) -/
def getNamesPinned (failAt : Nat) (n : Nat) (s : St := {}) : Nat × List Nat × St := getNamesGen false failAt n s
/-- with the one-line repair (`free(next_name)` before jumping to the handler) -/
def getNames (failAt : Nat) (n : Nat) (s : St := {}) : Nat × List Nat × St := getNamesGen true failAt n s

-- ---------------------------------------------------------------------------------------------------------------
-- cif_value_copy_char(value, text) with text != NULL: copy = cif_u_strdup(text); cif_value_init_char(value, copy)

/-- `old` = the value as it is before the call (live in `s`).  cif_value_init_char cannot fail for a non-NULL text: it
    cleans the value and takes ownership of the copy (the `free(copy)` after a failed init is dead code).
    Returns (result code, component ids the value owns afterwards if it was changed, final state). -/
def copyChar (failAt : Nat) (old : Owned) (s : St) : Nat × Option (List Nat) × St :=
  match alloc failAt s with                                       -- cif_u_strdup(text)
  | (none, s') => (MEMORY_ERROR, none, s')                         -- value untouched
  | (some t, s') => (OK, some [t], cleanOwned old s')              -- cif_value_clean(value); value->as_char.text = copy

-- ---------------------------------------------------------------------------------------------------------------
-- cif_packet_create(&packet, names) for n distinct, valid ASCII item names, few enough (n ≤ 9 in the correspondence
-- runs) that uthash never expands its bucket array.  ICU's own allocations are not events.

/-- cif_normalize on an ASCII name (nothing expands, every buffer is big enough at the first attempt): NFD buffer,
    case-folded buffer, NFC buffer; returns the id of the result -/
def normalize (failAt : Nat) (s : St) : Option Nat × St :=
  match alloc failAt s with                                       -- cif_unicode_normalize(NFD): malloc
  | (none, s1) => (none, s1)
  | (some b1, s1) =>
    match alloc failAt s1 with                                    -- cif_fold_case: malloc
    | (none, s2) => (none, free b1 s2)
    | (some b2, s2) =>
      match alloc failAt (free b1 s2) with                        -- free(buf); cif_unicode_normalize(NFC): malloc
      | (none, s3) => (none, free b2 s3)
      | (some b3, s3) => (some b3, free b2 s3)

/-- the normalisation loop of cif_packet_create; `done` = normalised names so far, most recent first.  On failure:
    `while (counter > 0) free(names_norm[--counter]); free(names_norm);` -/
def normNames (failAt : Nat) (arr : Nat) : Nat → List Nat → St → Option (List Nat) × St
  | 0, done, s => (some done.reverse, s)
  | n + 1, done, s =>
    match normalize failAt s with
    | (none, s') => (none, free arr (freeAll done s'))
    | (some k, s') => normNames failAt arr n (k :: done) s'

/-- one entry of the packet's map -/
structure Entry where
  ent : Nat                      -- the struct entry_s (its first member is the value object)
  key : Nat                      -- the normalised name (aliases names_norm[i] while the packet is not stand-alone)
  orig : Option Nat := none      -- separate copy of the original spelling, if that differs from the normalised one
deriving Repr

/-- cif_map_entry_free_internal: `if (key != key_orig) free(key); if (map->is_standalone) free(key_orig);` then
    cif_value_free(&entry->as_value) = free(entry) (the value is of kind UNK) -/
def freeEntry (standalone : Bool) (e : Entry) (s : St) : St :=
  let s := match e.orig with | some _ => free e.key s | none => s
  let s := if standalone then free (match e.orig with | some o => o | none => e.key) s else s
  free e.ent s

/-- cif_map_clean: HASH_ITER in insertion order, HASH_DEL then free the entry; HASH_DEL of the last remaining entry
    first releases the bucket array (free(NULL) if it was never obtained) and the table -/
def freeEntries (standalone : Bool) (tbl : Nat) (bkts : Option Nat) : List Entry → St → St
  | [], s => s
  | e :: es, s =>
    let s := if es.isEmpty then free tbl (match bkts with | some b => free b s | none => s) else s
    freeEntries standalone tbl bkts es (freeEntry standalone e s)

/-- cif_packet_free: cif_map_clean, then free(packet).  `tbl = none`: the map is empty (head == NULL). -/
def packetFree (standalone : Bool) (pkt : Nat) (tbl : Option (Nat × Option Nat)) (es : List Entry) (s : St) : St :=
  match tbl with
  | some (t, b) => free pkt (freeEntries standalone t b es s)
  | none => free pkt s

/-- outcome of a sub-ladder that can run into undefined behaviour -/
inductive Outcome (α : Type)
  | ok (a : α)
  | err
  | undefined
deriving Repr

/-- the 2nd, 3rd, … entry of cif_packet_create_norm (HASH_ADD_KEYPTR into the existing table: no request);
    `done` = entries so far, most recent first -/
def moreEntries (failAt : Nat) (pkt tbl bkts : Nat) : List Nat → List Entry → St → Option (List Entry) × St
  | [], done, s => (some done.reverse, s)
  | key :: rest, done, s =>
    match alloc failAt s with                                     -- malloc(sizeof(struct entry_s))
    | (none, s') => (none, packetFree false pkt (some (tbl, some bkts)) done.reverse s')   -- FAIL(soft): cif_packet_free
    | (some ent, s') => moreEntries failAt pkt tbl bkts rest ({ ent := ent, key := key } :: done) s'

/-- cif_packet_create_norm(packet, names, avoid_aliasing = 0) on the (distinct) normalised names `keys`.
    `fixed = false` is the code AS IT IS: when uthash cannot allocate its table for the first entry, HASH_ADD_KEYPTR has
    already made that entry the head, with `hh.tbl == NULL`; `uthash_fatal` jumps to the handler, cif_packet_free →
    cif_map_clean → HASH_DEL dereferences the NULL table: undefined behaviour (open finding F31 packet_create …
    ubsan:map.c).  `fixed = true`: the handler first releases such a table-less head entry. -/
def createNorm (fixed : Bool) (failAt : Nat) (keys : List Nat) (s : St) :
    Outcome (Nat × Option (Nat × Nat) × List Entry) × St :=
  match alloc failAt s with                                       -- malloc(sizeof(cif_packet_tp))
  | (none, s1) => (.err, s1)
  | (some pkt, s1) =>
    match keys with
    | [] => (.ok (pkt, none, []), s1)
    | key :: rest =>
      match alloc failAt s1 with                                  -- malloc(sizeof(struct entry_s))
      | (none, s2) => (.err, packetFree false pkt none [] s2)
      | (some ent, s2) =>
        match alloc failAt s2 with                                -- HASH_MAKE_TABLE: uthash_malloc(sizeof(UT_hash_table))
        | (none, s3) => if fixed then (.err, free pkt (free ent s3)) else (.undefined, s3)
        | (some t, s3) =>
          match alloc failAt s3 with                              -- uthash_malloc(32 * sizeof(UT_hash_bucket))
          | (none, s4) => (.err, packetFree false pkt (some (t, none)) [{ ent := ent, key := key }] s4)
          | (some b, s4) =>
            match moreEntries failAt pkt t b rest [{ ent := ent, key := key }] s4 with
            | (none, s5) => (.err, s5)
            | (some es, s5) => (.ok (pkt, some (t, b), es), s5)

/-- "assign the original item names": for every respelled name a copy of the original spelling; `todo` = (respelled?,
    entry) in insertion order, `done` most recent first.  On failure: is_standalone = 1; cif_packet_free;
    free(names_norm); return CIF_MEMORY_ERROR -/
def respell (failAt : Nat) (pkt arr : Nat) (tbl : Option (Nat × Nat)) : List (Bool × Entry) → List Entry → St →
    Option (List Entry) × St
  | [], done, s => (some done.reverse, s)
  | (r, e) :: rest, done, s =>
    if r then
      match alloc failAt s with                                   -- cif_u_strdup(*next)
      | (none, s') =>
        (none, free arr (packetFree true pkt (tbl.map (fun tb => (tb.1, some tb.2))) (done.reverse ++ e :: rest.map (·.2)) s'))
      | (some o, s') => respell failAt pkt arr tbl rest ({ e with orig := some o } :: done) s'
    else respell failAt pkt arr tbl rest (e :: done) s

/-- what a successfully created packet owns -/
structure PacketOwned where
  pkt : Nat
  tbl : Option (Nat × Nat)
  entries : List Entry
deriving Repr

def Entry.ids (e : Entry) : List Nat := e.ent :: e.key :: e.orig.toList

def entriesIds : List Entry → List Nat
  | [] => []
  | e :: es => e.ids ++ entriesIds es

def PacketOwned.ids (p : PacketOwned) : List Nat :=
  p.pkt :: ((match p.tbl with | some (t, b) => [t, b] | none => []) ++ entriesIds p.entries)

/-- `respelled` = for each name (in order) whether its original spelling differs from the normalised one.
    Returns (result code, the packet if one was created, final state). -/
def packetCreateGen (fixed : Bool) (failAt : Nat) (respelled : List Bool) (s : St := {}) : Nat × Option PacketOwned × St :=
  match alloc failAt s with                                       -- names_norm = malloc(sizeof(UChar *) * (n + 1))
  | (none, s1) => (MEMORY_ERROR, none, s1)
  | (some arr, s1) =>
    match normNames failAt arr respelled.length [] s1 with
    | (none, s2) => (MEMORY_ERROR, none, s2)
    | (some keys, s2) =>
      match createNorm fixed failAt keys s2 with
      | (.err, s3) => (MEMORY_ERROR, none, free arr (freeAll keys.reverse s3))   -- counter == element_count: all names, array
      | (.undefined, s3) => (UNDEFINED, none, s3)
      | (.ok (pkt, tbl, es), s3) =>
        match respell failAt pkt arr tbl (respelled.zip es) [] s3 with
        | (none, s4) => (MEMORY_ERROR, none, s4)
        | (some es', s4) => (OK, some { pkt := pkt, tbl := tbl, entries := es' }, free arr s4)

/-- the code as it is (NULL dereference when uthash's table allocation fails) -/
def packetCreatePinned (failAt : Nat) (respelled : List Bool) (s : St := {}) := packetCreateGen false failAt respelled s
/-- with the proposed repair of cif_packet_create_norm's failure handler -/
def packetCreate (failAt : Nat) (respelled : List Bool) (s : St := {}) := packetCreateGen true failAt respelled s

-- ---------------------------------------------------------------------------------------------------------------
-- cif_loop_get_names_internal(loop, &names, normalize = 1) (as called by cif_loop_get_packets) for a stored loop with n
-- ASCII item names: the rows and the array as for `getNames`, then every name is normalised (cif_normalize: three
-- requests, see `normalize`) into the array while its list node and stored string are released.  Since /repo c161ded a
-- failing normalisation releases the names normalised so far AND the array, then the rest of the list.

/-- the transfer loop with normalisation; `todo` = list nodes not yet visited (head first), `done` = normalised names so
    far, most recent first -/
def namesNormLoop (failAt : Nat) (arr : Nat) : List (Nat × Nat) → List Nat → St → Option (List Nat) × St
  | [], done, s => (some done, s)
  | (nd, str) :: rest, done, s =>
    match normalize failAt s with
    | (none, s') =>
      -- free(next_name->string); free(next_name); FAILURE_HANDLER(normalization): the names so far, the array;
      -- then FAILURE_HANDLER(name): the rest of the list
      (none, freeNodes rest (free arr (freeAll done (free nd (free str s')))))
    | (some nm, s') => namesNormLoop failAt arr rest (nm :: done) (free nd (free str s'))

/-- returns (result code, ids owned by the caller afterwards, final state) -/
def getNamesNorm (failAt : Nat) (n : Nat) (s : St := {}) : Nat × List Nat × St :=
  match namesRows true failAt n [] s with
  | (none, s') => (MEMORY_ERROR, [], s')
  | (some nodes, s') =>
    if n = 0 then (INVALID_HANDLE, [], s')
    else
      match alloc failAt s' with                                  -- the array
      | (none, s'') => (MEMORY_ERROR, [], freeNodes nodes s'')
      | (some arr, s'') =>
        match namesNormLoop failAt arr nodes [] s'' with
        | (none, s3) => (MEMORY_ERROR, [], s3)
        | (some names, s3) => (OK, arr :: names, s3)

-- ---------------------------------------------------------------------------------------------------------------
-- cif_value_deserialize(blob, len, dest) for the blob of a LIST value (the library stores only lists and tables as
-- blobs) whose elements are unknown/na values, character values, numbers and lists of such; `dest` exists before the call.
-- (Table blobs: Model/LadderMap.lean, `deserTable`.)  Not covered: tables nested inside list elements or table entries.
-- Since /repo 2b403f6 the failure code is CIF_MEMORY_ERROR (it used to be the default CIF_ERROR), since fe019d6 the text
-- of a number is released when cif_value_parse_numb fails.

/-- shapes covered by the deserialisation ladder -/
inductive DShape
  | scalar                        -- unknown / not-applicable
  | chr                           -- character value: the text
  | numb (hasSu : Bool)           -- number: the text, then cif_value_parse_numb: su_digits (if any), digits
  | lst (elems : List DShape)     -- list: element array (none when empty) + the elements
deriving Repr

mutual
  /-- the DESERIALIZE macro for a list element: the value object `obj` has just been allocated by the macro
      (`value == NULL`); on failure `FAILURE_HANDLER(vfail): if (val != value) free(val);`.  An empty list owns no element
      array (cif_list_deserialize: `capacity == 0`), so its ownership is that of a scalar. -/
  def deserInto (failAt : Nat) (obj : Nat) : DShape → St → Option Owned × St
    | .scalar, s => (some (.scalar obj), s)
    | .chr, s =>
      match alloc failAt s with                                   -- DESERIALIZE_USTRING: malloc((size + 1) * sizeof(UChar))
      | (none, s') => (none, free obj s')
      | (some t, s') => (some (.chr obj t), s')
    | .numb hasSu, s =>
      match alloc failAt s with                                   -- DESERIALIZE_USTRING: the text
      | (none, s') => (none, free obj s')
      | (some t, s') =>
        -- cif_value_parse_numb(v, text): su_digits first (when the text has an uncertainty), then digits; on failure
        -- `free(v->as_char.text)` (since fe019d6), then vfail
        if hasSu then
          match alloc failAt s' with                              -- n_temp.su_digits
          | (none, s'') => (none, free obj (free t s''))           -- FAIL(early): nothing of its own to release
          | (some u, s'') =>
            match alloc failAt s'' with                           -- n_temp.digits
            | (none, s3) => (none, free obj (free t (free u s3)))   -- FAILURE_HANDLER(late): free(su_digits)
            | (some d, s3) => (some (.numb obj t d (some u)), s3)
        else
          match alloc failAt s' with                              -- n_temp.digits
          | (none, s'') => (none, free obj (free t s''))
          | (some d, s'') => (some (.numb obj t d none), s'')
    | .lst elems, s =>
      if elems.isEmpty then (some (.scalar obj), s)
      else
        match alloc failAt s with                                 -- cif_list_deserialize: the element array
        | (none, s') => (none, free obj s')
        | (some arr, s') =>
          match deserElems failAt elems [] s' with
          | (some es, s'') => (some (.lst obj arr es), s'')
          | (none, s'') => (none, free obj (free arr s''))          -- handler(element) … free(elements); then vfail
  /-- the element loop of cif_list_deserialize; `done` = elements so far, most recent first.  On failure
      `while (size > 0) cif_value_free(elements[--size]);` -/
  def deserElems (failAt : Nat) : List DShape → List Owned → St → Option (List Owned) × St
    | [], done, s => (some done.reverse, s)
    | sh :: rest, done, s =>
      match alloc failAt s with                                   -- DESERIALIZE: malloc(sizeof(cif_value_tp))
      | (none, s') => (none, freeOwnedRev done.reverse s')
      | (some obj, s') =>
        match deserInto failAt obj sh s' with
        | (some o, s'') => deserElems failAt rest (o :: done) s''
        | (none, s'') => (none, freeOwnedRev done.reverse s'')
end

/-- `cif_value_deserialize` of a list blob onto the existing object `dest` (not a block of the window).
    Returns (result code, component ids `dest` gained, final state); the failure code is CIF_MEMORY_ERROR. -/
def deserialize (failAt : Nat) (elems : List DShape) (s : St := {}) : Nat × Option (List Nat) × St :=
  if elems.isEmpty then (OK, some [], s)
  else
    match alloc failAt s with
    | (none, s') => (MEMORY_ERROR, none, s')
    | (some arr, s') =>
      match deserElems failAt elems [] s' with
      | (some es, s'') => (OK, some (arr :: Owned.idsList es), s'')
      | (none, s'') => (MEMORY_ERROR, none, free arr s'')

end CifModel.Model.Ladder
