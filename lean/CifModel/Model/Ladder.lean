import CifModel.Basic
/-
  CifModel.Model.Ladder — allocation / clean-up "ladders" of the library under a single allocation failure (C17).

  A run of a library function is abstracted to the sequence of its dynamic-memory events inside the call:
  the i-th allocation request (i = 1, 2, …) either succeeds (`alloc i`) or — if i is the chosen fault position —
  fails (`fail i`); `free i` releases the block obtained by the i-th request.  The functions below transcribe the
  C control flow (including the FAILURE_HANDLER ladders) of

    * dup_ustrings                     (loop.c)     — copy a NULL-terminated array of n strings
    * cif_value_clone                  (value.c)    — for character, number, unknown/na and (nested) list values,
                                                      with a fresh target (`*clone == NULL`)
    * cif_value_insert_element_at      (value.c)    — clone the element, grow the element array when full
    * cif_value_set_element_at         (value.c)    — clone the element into the EXISTING target (`*clone != NULL`):
                                                      via a scratch object, target replaced only on success
    * cif_loop_get_names               (loop.c)     — cif_loop_get_names_internal(normalize = 0) on a stored loop:
                                                      linked list of (node, string), then the array of strings

  into this event language.  Table values are not covered here (uthash's own out-of-memory behaviour is a recorded
  open finding, see known_findings.json, F31).  `failAt = 0` means no failure.
-/
namespace CifModel.Model.Ladder

inductive Ev
  | alloc (i : Nat)      -- i-th allocation request of the call, succeeded
  | fail (i : Nat)       -- i-th allocation request of the call, failed (returned NULL)
  | free (i : Nat)       -- release of the block obtained by the i-th request
deriving DecidableEq, Repr

/-- state threaded through a run: number of allocation requests so far, events so far (in order) -/
structure St where
  count : Nat := 0
  evs : List Ev := []
deriving Repr

/-- one allocation request under fault position `failAt` -/
def alloc (failAt : Nat) (s : St) : Option Nat × St :=
  let i := s.count + 1
  if i = failAt then (none, { count := i, evs := s.evs ++ [.fail i] })
  else (some i, { count := i, evs := s.evs ++ [.alloc i] })

def free (i : Nat) (s : St) : St := { s with evs := s.evs ++ [.free i] }

def freeAll (ids : List Nat) (s : St) : St := ids.foldl (fun s i => free i s) s

/-- result codes used here -/
def OK : Nat := 0
def MEMORY_ERROR : Nat := 3
def ERROR : Nat := 2
def INVALID_HANDLE : Nat := 4

-- ---------------------------------------------------------------------------------------------------------------
-- dup_ustrings(dest, src) with n source strings (src != NULL)

/-- the copy loop: `done` = ids of the strings copied so far (most recent first) -/
def dupLoop (failAt : Nat) (arr : Nat) : Nat → List Nat → St → Nat × List Nat × St
  | 0, done, s => (OK, arr :: done, s)                              -- success: array and all strings live
  | n + 1, done, s =>
    match alloc failAt s with
    | (some i, s') => dupLoop failAt arr n (i :: done) s'
    | (none, s') =>
      -- FAILURE_HANDLER(soft): while (counter > dest_temp) free(*(--counter));  free(dest_temp);
      (MEMORY_ERROR, [], free arr (freeAll done s'))

/-- returns (result code, ids owned by the caller afterwards, final state) -/
def dupUstrings (failAt : Nat) (n : Nat) (s : St := {}) : Nat × List Nat × St :=
  match alloc failAt s with
  | (none, s') => (MEMORY_ERROR, [], s')
  | (some arr, s') => dupLoop failAt arr n [] s'

-- ---------------------------------------------------------------------------------------------------------------
-- cif_value_clone with a fresh target

/-- the shape of a value as far as allocation is concerned -/
inductive Shape
  | scalar                       -- unknown / not-applicable: no component allocations
  | chr                          -- character value: the text
  | numb (hasSu : Bool)          -- number: text, digits, optionally su_digits
  | lst (elems : List Shape)     -- list: element array + the elements
deriving Repr

/-- what a successfully cloned value owns (ids of its blocks) -/
inductive Owned
  | scalar (obj : Nat)
  | chr (obj text : Nat)
  | numb (obj text digits : Nat) (su : Option Nat)
  | lst (obj arr : Nat) (elems : List Owned)       -- elements in index order
deriving Repr

mutual
  def Owned.ids : Owned → List Nat
    | .scalar o => [o]
    | .chr o t => [o, t]
    | .numb o t d su => [o, t, d] ++ su.toList
    | .lst o a es => [o, a] ++ Owned.idsList es
  def Owned.idsList : List Owned → List Nat
    | [] => []
    | e :: es => e.ids ++ Owned.idsList es
end

mutual
  /-- events of `cif_value_free(v)`: `cif_value_clean` then `free(v)` -/
  def freeOwned : Owned → St → St
    | .scalar o, s => free o s
    | .chr o t, s => free o (free t s)
    | .numb o t d su, s =>
      -- cif_numb_value_clean: text, digits, su_digits
      let s := free t s
      let s := free d s
      let s := match su with | some x => free x s | none => s
      free o s
    | .lst o a es, s =>
      -- cif_list_value_clean: elements from the last to the first, then the array; then the object
      free o (free a (freeOwnedRev es s))
  /-- free the elements of a list from the last to the first -/
  def freeOwnedRev : List Owned → St → St
    | [], s => s
    | e :: es, s => freeOwned e (freeOwnedRev es s)
end

mutual
  /-- the `switch (value->kind)` part of `cif_value_clone` for a freshly created target object `obj`; on failure
      `free(to_free)` -/
  def cloneInto (failAt : Nat) (obj : Nat) : Shape → St → Option Owned × St
    | .scalar, s => (some (.scalar obj), s)
    | .chr, s =>
      match alloc failAt s with                                   -- cif_u_strdup(text)
      | (none, s') => (none, free obj s')
      | (some t, s') => (some (.chr obj t), s')
    | .numb hasSu, s =>
      match alloc failAt s with                                   -- text
      | (none, s') => (none, free obj s')
      | (some t, s') =>
        match alloc failAt s' with                                -- digits
        | (none, s'') => (none, free obj (free t s''))
        | (some d, s'') =>
          if hasSu then
            match alloc failAt s'' with                           -- su_digits
            | (none, s3) => (none, free obj (free t (free d s3)))   -- FAILURE_HANDLER(su): digits, then text
            | (some u, s3) => (some (.numb obj t d (some u)), s3)
          else (some (.numb obj t d none), s'')
    | .lst elems, s =>
      match alloc failAt s with                                   -- the element array
      | (none, s') => (none, free obj s')                          -- cif_list_value_clean of the empty list frees nothing
      | (some arr, s') =>
        match cloneElems failAt elems [] s' with
        | (some es, s'') => (some (.lst obj arr es), s'')
        | (none, s'') => (none, free obj (free arr s''))           -- …then the array, then `free(to_free)`
  /-- the element loop of cif_value_clone_list; `done` = elements cloned so far, most recent first.  Each element is
      cloned by `cif_value_clone(elem, &NULL)`: allocate the value object (cif_value_create), then `cloneInto`.  On
      failure the soft handler runs cif_list_value_clean: the elements cloned so far, last to first. -/
  def cloneElems (failAt : Nat) : List Shape → List Owned → St → Option (List Owned) × St
    | [], done, s => (some done.reverse, s)
    | sh :: rest, done, s =>
      match alloc failAt s with
      | (none, s') => (none, freeOwnedRev done.reverse s')
      | (some obj, s') =>
        match cloneInto failAt obj sh s' with
        | (some o, s'') => cloneElems failAt rest (o :: done) s''
        | (none, s'') => (none, freeOwnedRev done.reverse s'')
end

/-- `cif_value_clone(value, &clone)` with `*clone == NULL` -/
def clone (failAt : Nat) (sh : Shape) (s : St := {}) : Option Owned × St :=
  match alloc failAt s with                                       -- cif_value_create(CIF_UNK_KIND, &temp)
  | (none, s') => (none, s')
  | (some obj, s') => cloneInto failAt obj sh s'

-- ---------------------------------------------------------------------------------------------------------------
-- cif_value_insert_element_at(list, index, element) on a list whose element array is the pre-existing block `arr0`
-- (not allocated during the call, so its release by realloc is not an event of the window)

/-- returns (result code, what the list gained, final state).  `full` = size ≥ capacity (the array must grow). -/
def insertElement (failAt : Nat) (full : Bool) (elem : Shape) (s : St := {}) : Nat × Option (Owned × Option Nat) × St :=
  match clone failAt elem s with
  | (none, s') => (MEMORY_ERROR, none, s')
  | (some o, s') =>
    if full then
      match alloc failAt s' with                                  -- realloc(elements, new_cap)
      | (none, s'') => (MEMORY_ERROR, none, freeOwned o s'')      -- FAILURE_HANDLER(soft): cif_value_free(clone)
      | (some arr, s'') => (OK, some (o, some arr), s'')
    else (OK, some (o, none), s')

-- ---------------------------------------------------------------------------------------------------------------
-- cif_value_set_element_at(list, index, element) with element != NULL and element != the current target:
-- `cif_value_clone(element, &target)` with a pre-existing target object (`*clone != NULL`, `*clone != value`).
-- Since /repo commit f1b092b the copy is built in a scratch object first; only on success is the target cleaned, the
-- scratch struct-copied into it and the scratch OBJECT released (its components now belong to the target).  On
-- failure the target is not touched at all.

/-- the value object itself -/
def Owned.obj : Owned → Nat
  | .scalar o => o
  | .chr o _ => o
  | .numb o _ _ _ => o
  | .lst o _ _ => o

/-- the component blocks (everything but the value object) -/
def Owned.parts : Owned → List Nat
  | .scalar _ => []
  | .chr _ t => [t]
  | .numb _ t d su => [t, d] ++ su.toList
  | .lst _ a es => a :: Owned.idsList es

/-- events of `cif_value_clean(v)`: as `freeOwned` without the final `free(v)` -/
def cleanOwned : Owned → St → St
  | .scalar _, s => s
  | .chr _ t, s => free t s
  | .numb _ t d su, s =>
    let s := free t s
    let s := free d s
    match su with | some x => free x s | none => s
  | .lst _ a es, s => free a (freeOwnedRev es s)

/-- `old` = the target element as it is before the call (its blocks are live in `s`: they were obtained earlier).
    Returns (result code, component ids the target owns afterwards if it was replaced, final state). -/
def setElement (failAt : Nat) (old : Owned) (elem : Shape) (s : St) : Nat × Option (List Nat) × St :=
  match clone failAt elem s with                                  -- cif_value_clone(value, &scratch), scratch == NULL
  | (none, s') => (MEMORY_ERROR, none, s')                         -- return result;  (target untouched)
  | (some o, s') =>
    -- cif_value_clean(*clone);  **clone = *scratch;  free(scratch);
    (OK, some o.parts, free o.obj (cleanOwned old s'))

-- ---------------------------------------------------------------------------------------------------------------
-- cif_loop_get_names(loop, &names) = cif_loop_get_names_internal(loop, &names, CIF_FALSE) for a stored loop
-- (loop_num ≥ 0) with n item names.  Only the library's own requests are events (SQLite's are not).

/-- FAILURE_HANDLER(name): LL_FOREACH_SAFE from the head of the list (most recent row first): free(string); free(node) -/
def freeNodes : List (Nat × Nat) → St → St
  | [], s => s
  | (nd, str) :: rest, s => freeNodes rest (free nd (free str s))

/-- the success path's LL_FOREACH_SAFE: the string moves into the array, free(node) -/
def freeNodeObjs : List (Nat × Nat) → St → St
  | [], s => s
  | (nd, _) :: rest, s => freeNodeObjs rest (free nd s)

/-- the `SQLITE_ROW` iterations; `nodes` = the list built so far (LL_PREPEND: most recent first) as (node, string).
    `fixed = false` is the code AS IT IS: when GET_COLUMN_STRING's malloc fails it jumps to FAILURE_HANDLER(name), but
    the fresh node has not been prepended yet and the handler re-uses the variable `next_name` as its cursor, so the node
    is never released (open finding F31 get_names/…/leak).  `fixed = true` releases it before the jump. -/
def namesRows (fixed : Bool) (failAt : Nat) : Nat → List (Nat × Nat) → St → Option (List (Nat × Nat)) × St
  | 0, nodes, s => (some nodes, s)
  | n + 1, nodes, s =>
    match alloc failAt s with                                     -- malloc(sizeof(string_element_tp))
    | (none, s') => (none, freeNodes nodes s')                     -- SET_RESULT; break; falls into FAILURE_HANDLER(name)
    | (some nd, s') =>
      match alloc failAt s' with                                  -- GET_COLUMN_STRING: malloc(value_bytes + 2)
      | (none, s'') => (none, freeNodes nodes (if fixed then free nd s'' else s''))
      | (some str, s'') => namesRows fixed failAt n ((nd, str) :: nodes) s''

/-- returns (result code, ids owned by the caller afterwards, final state) -/
def getNamesGen (fixed : Bool) (failAt : Nat) (n : Nat) (s : St := {}) : Nat × List Nat × St :=
  match namesRows fixed failAt n [] s with
  | (none, s') => (MEMORY_ERROR, [], s')
  | (some nodes, s') =>
    if n = 0 then (INVALID_HANDLE, [], s')                        -- name_count <= 0: FAIL(name, …) with an empty list
    else
      match alloc failAt s' with                                  -- malloc(sizeof(UChar *) * (name_count + 1))
      | (none, s'') => (MEMORY_ERROR, [], freeNodes nodes s'')     -- break; FAILURE_HANDLER(name)
      | (some arr, s'') => (OK, arr :: nodes.map (·.2), freeNodeObjs nodes s'')

/-- the code as it is (leaks one list node when a string allocation fails) -/
def getNamesPinned (failAt : Nat) (n : Nat) (s : St := {}) : Nat × List Nat × St := getNamesGen false failAt n s
/-- with the one-line repair (`free(next_name)` before jumping to the handler) -/
def getNames (failAt : Nat) (n : Nat) (s : St := {}) : Nat × List Nat × St := getNamesGen true failAt n s

end CifModel.Model.Ladder
