import CifModel.Model.StoreStep
/-
  CifModel.Model.StoreFault — one failing micro-step (a dynamic allocation or an SQL statement) inside one API call (property C17).

  Every modelled function of cif.c / container.c / loop.c / pktitr.c has the same shape (`Gen.Schema.txUses`, linked by
  `C05_paths_link`): allocations and statement preparation; then BEGIN / BEGIN_NESTTX / SAVE (or nothing for the one-statement
  functions); then statements; then COMMIT / COMMIT_NESTTX / RELEASE.  The documented failure paths are:
    * a failure BEFORE the transaction statement (allocation: CIF_MEMORY_ERROR; PREPARE_STMT or BEGIN itself: CIF_ERROR)
      returns at once — nothing was touched;
    * a failure INSIDE (a statement returns a hard error, an allocation fails, COMMIT fails) goes to the function's failure
      handler, which executes ROLLBACK / ROLLBACK_NESTTX / ROLLBACK_TO and returns CIF_ERROR or CIF_MEMORY_ERROR; for the
      one-statement functions SQLite itself undoes the failing statement.
  `stepFaultAt` is that behaviour (the partial effect of the statements executed before the failure is an arbitrary database `mid`); `stepFault w op k` places the fault at micro-step `k` of a per-op layout (beyond the last
  micro-step the op runs without fault).  Handle tables are not touched by a faulted call (it returns no handle).
  cif_create / cif_destroy and cif_pktitr_close / cif_pktitr_abort are not covered here (`closeFault` states the latter).
-/
namespace CifModel.Store
open Gen.ErrCodes World

inductive FaultAt where
  | none
  | before (mem : Bool)
  | inside (mem : Bool)
deriving Repr, Inhabited

/-- the CIF (slot, store) an op works on, if it is executed at all -/
def target (w : World) : Op → Option (Nat × Store)
  | .cifNew | .cifDel _ | .itClose _ | .itAbort _ => none
  | .mkBlock c _ _ | .getBlock c _ | .blocks c => (w.liveC c).map (fun s => (c, s))
  | .mkFrame h _ _ | .getFrame h _ | .frames h | .mkLoop h _ _ | .catLoop h _ | .itemLoop h _ | .loops h | .prune h
  | .setVal h _ _ | .rmItem h _ => (w.liveH h).map (fun p => (p.1.cif, p.2))
  | .code _ | .isBlock _ | .getCat _ => none                 -- do not touch the database, allocate one string at most
  | .getVal h n => if n.isNone then none else (w.liveH h).map (fun p => (p.1.cif, p.2))
  | .cdestroy h => if w.itOnCh h then none else (w.liveH h).map (fun p => (p.1.cif, p.2))
  | .ldestroy l => if w.itOnLh l then none else (w.liveL l).map (fun p => (p.1.cif, p.2))
  | .setCat l _ | .names l | .addPkt l _ | .itOpen l => (w.liveL l).map (fun p => (p.1.cif, p.2))
  | .addItem l n _ => if n.isNone then none else (w.liveL l).map (fun p => (p.1.cif, p.2))
  | .itNext i | .itUpd i _ | .itRem i => (w.liveI i).map (fun p => (p.1.cif, p.2))

/-- how the op's function brackets its statements (Gen.Schema.txUses, `C05_paths_link`) -/
inductive TxClass where
  | top      -- BEGIN … COMMIT, failure handler: ROLLBACK
  | nest     -- BEGIN_NESTTX … COMMIT_NESTTX / ROLLBACK_NESTTX
  | save     -- SAVE … RELEASE, failure handler: ROLLBACK_TO (the iterator's update / remove)
  | opening  -- cif_loop_get_packets: get_names (BEGIN_NESTTX … ROLLBACK_NESTTX), then BEGIN, failure handler: ROLLBACK
  | stmt     -- one statement, no bracket: SQLite undoes the failing statement
deriving Repr, Inhabited, DecidableEq

def txClass : Op → TxClass
  | .mkBlock .. | .mkFrame .. | .setVal .. | .rmItem .. => .top
  | .mkLoop .. | .loops _ | .names _ | .addItem .. | .addPkt .. => .nest
  | .itUpd .. | .itRem _ => .save
  | .itOpen _ => .opening
  | _ => .stmt

/-- the store after a failure INSIDE the op's function: the function ran its transaction statement, executed some of its statements
    — which left the database in SOME state `mid`, about which nothing is assumed — hit the failure and ran its failure handler
    (ROLLBACK / ROLLBACK_NESTTX / ROLLBACK_TO on the transaction stack).  `failPath_same` proves from the transaction semantics that
    the content is what it was, whatever `mid` is. -/
def failPath (op : Op) (s : Store) (mid : Db) : Store :=
  match txClass op with
  | .top =>
    match s.begin with
    | none => s                                   -- BEGIN itself fails inside a transaction: nothing was touched
    | some s1 => (({ s1 with db := mid } : Store).rollback).getD s1
  | .nest =>
    let (s1, top) := s.beginNest
    ({ s1 with db := mid } : Store).rollbackNest top
  | .save =>
    -- outside a transaction the iterator calls return CIF_INVALID_HANDLE before anything else
    if s.autocommit then s else (({ s.save with db := mid } : Store).rollbackTo).getD s.save
  | .opening =>
    let s0 := (s.nestRO (fun _ => (Except.ok () : Except Code Unit))).1
    match s0.begin with
    | none => s0
    | some s1 => (({ s1 with db := mid } : Store).rollback).getD s1
  | .stmt => s

def faultCode (mem : Bool) : Code := if mem then CIF_MEMORY_ERROR else CIF_ERROR

def stepFaultAt (w : World) (op : Op) (fa : FaultAt) (mid : Db := {}) : World × Result :=
  match fa with
  | .none => step w op
  | .before m => match target w op with
    | none => step w op
    | some _ => (w, { rc := some (faultCode m) })
  | .inside m => match target w op with
    | none => step w op
    | some (c, s) => (w.setCif c (failPath op s mid), { rc := some (faultCode m) })

/-- statements (and the allocations between them) an op executes inside its transaction bracket, at most -/
def stmts : Op → Nat
  | .mkLoop _ _ names => 2 + names.length
  | .addPkt _ p => 3 + 2 * p.length          -- UPDATE_PACKET_NUM, GET_PACKET_NUM, per entry CHECK_ITEM_LOOP + INSERT_VALUE, FILL_PACKET
  | .itUpd _ p => p.length
  | .setVal .. => 8
  | .rmItem .. | .mkBlock .. | .mkFrame .. | .addItem .. | .itRem _ | .itOpen _ => 2
  | _ => 1

/-- micro-step layout: 0, 1 allocations / PREPARE_STMT; 2 the BEGIN / SAVE statement; then statements and allocations inside
    (odd: an allocation, even: a statement); then COMMIT / RELEASE; beyond that: no fault -/
def faultAt (op : Op) (k : Nat) : FaultAt :=
  if k < 2 then .before (k == 0) else if k == 2 then .before false
  else if k < 4 + 2 * stmts op then .inside (k % 2 == 1) else .none

def stepFault (w : World) (op : Op) (k : Nat) (mid : Db := {}) : World × Result := stepFaultAt w op (faultAt op k) mid

/-- cif_pktitr_close when COMMIT fails: CIF_ERROR and ROLLBACK — the changes made through the iterator are lost (the iterator
    is released either way) -/
def closeFault (s : Store) : R Unit := ((abortIter s).1, .error CIF_ERROR)

end CifModel.Store
