import CifModel.Model.Types
import CifModel.Gen.ErrCodes
/-
  CifModel.Model.Analyze — executable model of
    * `cif_is_reserved_string`  (src/utils.c)            ↦ `isReserved`
    * `cif_analyze_string`      (src/utils.c)            ↦ `analyze`   (counting loop `scan`, then `finishCounts`, then the
                                                                         delimiter cascade `chooseDelim`)
    * `cif_value_set_quoted_impl` / `cif_value_set_quoted` / `cif_value_try_quoted` (src/value.c) ↦ `setQuoted`
  following the C as written (same case splits, same order of tests).  Core Lean only.

  Conventions
  * a C string is the list of its code units WITHOUT the terminating NUL; `str[i]` is `unitAt s i` (= 0 at `i = length`, which is
    what the C reads there; the C never reads further).  Inputs are assumed NUL-free (a NUL would end the C string).
  * `length_limit` is a `Nat` (the only caller passes the line length; a negative limit is outside the model).  The C's
    `x <= limit - k` on `int32_t` is written `x + k ≤ limit`.
  * `char_counts[c]` (c < 127) after the loop is the number of occurrences of `c` in the string: `cnt s c`.  Only the three
    counters the loop itself consults (`char_counts[NL]`, `char_counts[CR]`, `crlf_count`) are carried in the loop state.

  INTERFACE (stable; used by the writer model): `Analysis`, `analyze`, `isReserved`, `setQuoted`.
-/
namespace CifModel.Model

/-- `str[i]` of a NUL-terminated string -/
def unitAt (s : Str) (i : Nat) : CU := s.getD i 0

/-! ### cif_is_reserved_string -/

/-- case-insensitive test of one unit against an upper-case ASCII letter: `(str[i] == UCHAR_X) || (str[i] == UCHAR_x)` -/
def ci (s : Str) (i : Nat) (upper : CU) : Bool := unitAt s i == upper || unitAt s i == upper + 32

/-- `cif_is_reserved_string(str)` -/
def isReserved (s : Str) : Bool :=
  let c0 := unitAt s 0
  if c0 = 95 ∨ c0 = 35 ∨ c0 = 36 ∨ c0 = 39 ∨ c0 = 34 then true          -- _ # $ ' "
  else if c0 = 68 ∨ c0 = 100 then                                        -- D d : data_*
    ci s 1 65 && ci s 2 84 && ci s 3 65 && unitAt s 4 == 95
  else if c0 = 71 ∨ c0 = 103 then                                        -- G g : global_ (exact)
    ci s 1 76 && ci s 2 79 && ci s 3 66 && ci s 4 65 && ci s 5 76 && unitAt s 6 == 95 && unitAt s 7 == 0
  else if c0 = 76 ∨ c0 = 108 then                                        -- L l : loop_ (exact)
    ci s 1 79 && ci s 2 79 && ci s 3 80 && unitAt s 4 == 95 && unitAt s 5 == 0
  else if c0 = 83 ∨ c0 = 115 then                                        -- S s
    let c1 := unitAt s 1
    if c1 = 65 ∨ c1 = 97 then                                            -- save_*
      ci s 2 86 && ci s 3 69 && unitAt s 4 == 95
    else if c1 = 84 ∨ c1 = 116 then                                      -- stop_ (exact)
      ci s 2 79 && ci s 3 80 && unitAt s 4 == 95 && unitAt s 5 == 0
    else false
  else false

/-! ### cif_analyze_string: the counting loop -/

/-- the loop variables of `cif_analyze_string` -/
structure Ctr where
  nl : Nat := 0              -- char_counts[UCHAR_NL]
  cr : Nat := 0              -- char_counts[UCHAR_CR]
  crlf : Nat := 0            -- crlf_count
  firstLine : Nat := 0
  thisLine : Nat := 0
  maxLine : Nat := 0
  consecSemis : Nat := 0
  mostSemis : Nat := 0
  hasNlSemi : Bool := false
  hasTrailingWs : Bool := false
  length : Nat := 0          -- index of the unit being looked at
  prev : CU := 0             -- str[length - 1] (meaningful when length > 0)
deriving Repr, DecidableEq

/-- SP, TAB or VT: what `TRACK_TRAILING_WS` looks for at `str[length - 1]` -/
def isTrailWs (c : CU) : Bool := c == 32 || c == 9 || c == 11

/-- `TRACK_TRAILING_WS` -/
def trackWs (st : Ctr) : Bool := st.hasTrailingWs || (decide (st.length > 0) && isTrailWs st.prev)

/-- `REMEMBER_SEMIS` -/
def rememberSemis (st : Ctr) : Nat := if st.consecSemis > st.mostSemis then st.consecSemis else st.mostSemis

/-- one iteration of the loop body on unit `ch = str[length]`, with `next = str[length + 1]` (0 at the end) -/
def step (st : Ctr) (ch next : CU) : Ctr :=
  if ch = 13 ∧ next = 10 then
    -- CR of a CR LF pair: counted, trailing blanks tracked, nothing else (the LF does the line accounting)
    { st with cr := st.cr + 1, crlf := st.crlf + 1, hasTrailingWs := trackWs st, length := st.length + 1, prev := ch }
  else if ch = 13 ∨ ch = 10 then
    let nl := if ch = 10 then st.nl + 1 else st.nl
    let cr := if ch = 13 then st.cr + 1 else st.cr
    let first := nl + cr - st.crlf == 1
    { st with
      nl := nl, cr := cr,
      hasNlSemi := st.hasNlSemi || next == 59,
      hasTrailingWs := trackWs st,
      firstLine := if first then st.thisLine else st.firstLine,
      maxLine := if first then st.thisLine else if st.thisLine > st.maxLine then st.thisLine else st.maxLine,
      mostSemis := rememberSemis st,
      consecSemis := 0,
      thisLine := 0,
      length := st.length + 1, prev := ch }
  else if ch = 59 then
    { st with consecSemis := st.consecSemis + 1, thisLine := st.thisLine + 1, length := st.length + 1, prev := ch }
  else
    { st with mostSemis := rememberSemis st, consecSemis := 0, thisLine := st.thisLine + 1,
              length := st.length + 1, prev := ch }

/-- the whole loop from state `st` over the remaining units -/
def scan : Ctr → Str → Ctr
  | st, [] => st
  | st, c :: rest => scan (step st c (rest.headD 0)) rest

/-- the statements between the loop and the cascade ("handle the stats for the last line") -/
def finishCounts (st : Ctr) : Ctr :=
  let numLines := 1 + st.nl + st.cr - st.crlf
  { st with
    mostSemis := rememberSemis st,
    hasTrailingWs := trackWs st,
    firstLine := if numLines = 1 then st.thisLine else st.firstLine,
    maxLine := if numLines = 1 then st.thisLine else if st.thisLine > st.maxLine then st.thisLine else st.maxLine }

/-- `num_lines` -/
def Ctr.numLines (st : Ctr) : Nat := 1 + st.nl + st.cr - st.crlf

/-! ### the delimiter cascade -/

/-- `char_counts[c]` after the loop (for c < 127) -/
def cnt (s : Str) (c : CU) : Nat := s.count c

/-- `u_strstr(str, {q,q,q}) != NULL` -/
def hasTriple (q : CU) : Str → Bool
  | [] => false
  | a :: rest => [q, q, q].isPrefixOf (a :: rest) || hasTriple q rest

/-- `(str[length - 1] != q) && (u_strstr(str, qqq) == NULL)` -/
def tripleOk (q : CU) (s : Str) : Bool := s.getLast? != some q && !hasTriple q s

/-- the backwards scan over the first line that sets `has_reserved_start`; argument: the first line reversed -/
def reservedStartScan : Str → Bool
  | [] => false
  | c :: r => if c = 9 ∨ c = 32 then reservedStartScan r else c == 92

/-- the recommended delimiter -/
inductive Delim | none | apos | quot | apos3 | quot3 | text
deriving DecidableEq, Repr, Inhabited

def Delim.units : Delim → Str
  | .none => [] | .apos => [39] | .quot => [34] | .apos3 => [39, 39, 39] | .quot3 => [34, 34, 34] | .text => [10, 59]

/-- whitespace-delimited form admitted?  (the long conjunction of the "Maybe whitespace-delimited" test) -/
def unquotedOk (s : Str) (allowUnq : Bool) : Bool :=
  allowUnq && decide (s.length > 0)
    && (cnt s 32 + cnt s 9 + cnt s 91 + cnt s 93 + cnt s 123 + cnt s 125 == 0)
    && unitAt s 0 != 39 && unitAt s 0 != 34 && unitAt s 0 != 35 && unitAt s 0 != 36 && unitAt s 0 != 95 && unitAt s 0 != 59
    && (decide (s.length > 1) || (unitAt s 0 != 63 && unitAt s 0 != 46))
    && !isReserved s

/-- the cascade, on the final counters `st` (after `finishCounts`) -/
def chooseDelim (s : Str) (allowUnq allowTriple : Bool) (limit : Nat) (st : Ctr) : Delim :=
  if st.maxLine ≤ limit then
    if st.numLines = 1 then
      if unquotedOk s allowUnq then .none
      else if st.maxLine + 2 ≤ limit ∧ cnt s 39 = 0 then .apos
      else if st.maxLine + 2 ≤ limit ∧ cnt s 34 = 0 then .quot
      else if allowTriple ∧ st.maxLine + 6 ≤ limit ∧ tripleOk 39 s then .apos3
      else if allowTriple ∧ st.maxLine + 6 ≤ limit ∧ tripleOk 34 s then .quot3
      else .text
    else
      if allowTriple ∧ st.thisLine + 3 < limit ∧ st.firstLine + 3 ≤ limit ∧ tripleOk 39 s then .apos3
      else if allowTriple ∧ st.thisLine + 3 < limit ∧ st.firstLine + 3 ≤ limit ∧ tripleOk 34 s then .quot3
      else .text
  else .text

/-- `has_reserved_start`, computed only when the text-field delimiter is recommended -/
def reservedStart (s : Str) (st : Ctr) : Bool :=
  if unitAt s 0 = 59 then false else reservedStartScan (s.take st.firstLine).reverse

/-- `struct cif_string_analysis_s` -/
structure Analysis where
  delim : Str
  delimLength : Nat
  length : Nat
  lengthFirst : Nat
  lengthLast : Nat
  lengthMax : Nat
  numLines : Nat
  maxSemiRun : Nat
  containsTextDelim : Bool
  hasReservedStart : Bool
  hasTrailingWs : Bool
deriving Repr, DecidableEq, Inhabited

/-- the counters after the loop and the last-line fix-up -/
def counters (s : Str) : Ctr := finishCounts (scan {} s)

/-- the delimiter recommended for `s` -/
def recommend (s : Str) (allowUnq allowTriple : Bool) (limit : Nat) : Delim :=
  chooseDelim s allowUnq allowTriple limit (counters s)

/-- `cif_analyze_string(str, allow_unquoted, allow_triple_quoted, length_limit, &result)` (always returns CIF_OK) -/
def analyze (s : Str) (allowUnq allowTriple : Bool) (limit : Nat) : Analysis :=
  let st := counters s
  let d := chooseDelim s allowUnq allowTriple limit st
  { delim := d.units
    delimLength := d.units.length
    length := st.length
    lengthFirst := st.firstLine
    lengthLast := st.thisLine
    lengthMax := st.maxLine
    numLines := st.numLines
    maxSemiRun := st.mostSemis
    containsTextDelim := st.hasNlSemi
    hasReservedStart := if d = .text then reservedStart s st else false
    hasTrailingWs := st.hasTrailingWs }

/-! ### cif_value_set_quoted / cif_value_try_quoted -/

/-- `u_strpbrk(text, "[]{} \t\n\r") == NULL` -/
def noDisallowed (s : Str) : Bool := s.all fun c => !(c == 91 || c == 93 || c == 123 || c == 125 || c == 32 || c == 9 || c == 10 || c == 13)

/-- `u_strpbrk(tail, " \t\n\r") != NULL` where `tail` starts at the first disallowed unit — every whitespace unit is itself
    disallowed, so this is "the string contains SP, TAB, NL or CR" -/
def hasHardDisallowed (s : Str) : Bool :=
  (s.dropWhile fun c => !(c == 91 || c == 93 || c == 123 || c == 125 || c == 32 || c == 9 || c == 10 || c == 13)).any
    fun c => c == 32 || c == 9 || c == 10 || c == 13

/-- `cif_value_set_quoted_impl(value, quoted, conditional_char_result)`; `lenient = true` is `cif_value_try_quoted`
    (conditional result CIF_OK), `false` is `cif_value_set_quoted` (CIF_ARGUMENT_ERROR).  `.error code`: the value is
    unchanged.  `.ok v'`: the value afterwards (possibly unchanged). -/
def setQuoted (lenient : Bool) (v : V) (q : Bool) : Except Code V :=
  match v with
  | .unk => if q then .ok (.chr true [63]) else .ok .unk
  | .na => if q then .ok (.chr true [46]) else .ok .na
  | .lst vs => if q then .error Gen.ErrCodes.CIF_ARGUMENT_ERROR else .ok (.lst vs)
  | .tbl es => if q then .error Gen.ErrCodes.CIF_ARGUMENT_ERROR else .ok (.tbl es)
  | .numb _ t n d su sc => .ok (.numb q t n d su sc)
  | .chr quoted text =>
    if q ∨ quoted = false then .ok (.chr q text)
    else if text = [] then .error Gen.ErrCodes.CIF_ARGUMENT_ERROR
    else if text = [63] then .ok .unk
    else if text = [46] then .ok .na
    else if isReserved text then .error Gen.ErrCodes.CIF_ARGUMENT_ERROR
    else if noDisallowed text then .ok (.chr false text)
    else if hasHardDisallowed text then .error Gen.ErrCodes.CIF_ARGUMENT_ERROR
    else if lenient then .ok (.chr true text) else .error Gen.ErrCodes.CIF_ARGUMENT_ERROR

end CifModel.Model
