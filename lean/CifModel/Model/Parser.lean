import CifModel.Model.Lexer
import CifModel.Model.Decode
import CifModel.Model.Analyze
import CifModel.Model.Names
import CifModel.Model.Normalize
/-
  CifModel.Model.Parser — executable model of the INTEGRATED parser of src/parser.c, from the point where
  cif_parse_internal() knows the CIF version (the version decision is Model/Dialect.lean) to its return value:

    cif_parse_internal (first character, BOM, the two start-up reports)   ↔ parseInternal
    parse_cif            ↔ parseCif / blocksLoop          parse_container     ↔ parseContainer / elemsLoop
    parse_item           ↔ parseItem                      parse_loop          ↔ parseLoop
    parse_loop_header    ↔ headerLoop (find_header_name ↔ findHeaderName)
    parse_loop_packets   ↔ parseLoopPackets / packetsLoop
    parse_list           ↔ listLoop                       parse_table         ↔ tableLoop
    parse_value          ↔ parseValue (value construction: decodeText of Model/Decode, setQuoted of Model/Analyze)

  with EVERY error_callback call site of the productions and its recovery action, the result propagation (a non-zero
  callback answer unwinds; parse_cif clamps answers < 0 to CIF_OK) and the storage calls at the level of the documented
  data model `CifModel.Cif` (cif_create_block(_internal), cif_get_block, cif_container_create_frame(_internal),
  cif_container_get_frame, cif_container_get_item_loop, cif_container_set_value, cif_container_create_loop,
  cif_packet_create, cif_loop_add_packet, cif_container_prune).

  The scanner is the model of Model/Lexer.lean (`nextToken`), used unchanged; this file adds what the productions do to the
  scanner beyond "next token": keeping a token pending (not consumed), pushing the colon of a KEY / TKEY back, TRIM_TOKEN
  of an unquoted or null table key.

  The monad `P` threads the callback policy and the state that SURVIVES an abort: the report log and the target CIF.
  `policy : Nat → Report → Int` is an arbitrary function of the invocation index and the report — the quantification over
  all accept/reject decision sequences of property C03.  The only ways to leave a production abnormally are `report`
  (the callback answered non-zero) and `fail code`, placed exactly where the C returns a code WITHOUT calling the callback.

  No handler callbacks (cif_handler_tp all NULL, the default): `skip_depth` stays 0.  Memory exhaustion is not modelled.
  Core Lean only.
-/
namespace CifModel.Model.Parser
open CifModel CifModel.Model CifModel.Model.Lexer
open CifModel.Gen.ErrCodes

/-! ### options -/

structure Opts where
  dia : Dialect
  /-- `scanner->max_frame_depth` (= MIN(options->max_frame_depth, 1)) -/
  maxFrameDepth : Int
  /-- `scanner->line_unfolding > 0` after INIT_V2_SCANNER / SET_V1 -/
  unfold : Bool
  /-- `scanner->prefix_removing > 0` -/
  prem : Bool
  /-- the `not_utf8` argument of cif_parse_internal -/
  notUtf8 : Bool
  /-- a target CIF is present (`cif != NULL`); `false` = syntax-only parse -/
  store : Bool
  /-- `cif_normalize` on block codes, frame codes and data names (a parameter: ICU) -/
  norm : Str → Str
  /-- `cif_normalize_table_index` on table keys (NFC; a parameter) -/
  normKey : Str → Str

/-- how cif_parse() derives the scanner fields from the option record: `MIN(modifier, 1)`, then `+ 1` in
    INIT_V2_SCANNER and `- 1` again in SET_V1 -/
def modifierOn (dia : Dialect) (modifier : Int) : Bool :=
  let m := if modifier < 1 then modifier else 1
  match dia with
  | .cif2 => decide (m + 1 > 0)
  | .cif1 => decide (m > 0)

def clampDepth (d : Int) : Int := if d < 1 then d else 1

/-! ### the reporting monad -/

/-- what survives an abort -/
structure W where
  log : List Report        -- newest first; `log.length` = number of callback invocations so far
  cif : Cif                -- the target CIF (unused in syntax-only mode)
deriving Inhabited

inductive PRes (α : Type) where
  | ok (a : α) (w : W)
  | abort (rv : Int) (w : W)

def P (α : Type) := Policy → W → PRes α

@[inline] def P.pure {α} (a : α) : P α := fun _ w => .ok a w
@[inline] def P.bind {α β} (m : P α) (f : α → P β) : P β := fun pol w =>
  match m pol w with
  | .ok a w' => f a pol w'
  | .abort rv w' => .abort rv w'

instance : Monad P where
  pure := P.pure
  bind := P.bind

/-- a scanner action inside the parser -/
def liftL {α} (m : L α) : P α := fun pol w =>
  match m pol w.log with
  | .ok a log => .ok a { w with log := log }
  | .abort rv log => .abort rv { w with log := log }

/-- `result = scanner->error_callback(code, line, column, …)` WITHOUT the test of the result -/
def ask (code : Code) (line col : Nat) : P Int := fun pol w =>
  let r : Report := ⟨code, line, col⟩
  .ok (pol w.log.length r) { w with log := r :: w.log }

/-- leave with a result code that no callback produced (`return CIF_INTERNAL_ERROR;` …) -/
def fail {α} (code : Int) : P α := fun _ w => .abort code w

/-- `if ((result = callback(...)) != CIF_OK) goto <end>;` -/
def report (code : Code) (line col : Nat) : P Unit := do
  let rv ← ask code line col
  if rv = 0 then pure () else fail rv

def getCif : P Cif := fun _ w => .ok w.cif w
def setCif (c : Cif) : P Unit := fun _ w => .ok () { w with cif := c }

/-- parse_cif's `return ((result > CIF_OK) ? result : CIF_OK);` -/
def clamp (m : P Unit) : P Unit := fun pol w =>
  match m pol w with
  | .ok a w' => .ok a w'
  | .abort rv w' => if rv > 0 then .abort rv w' else .ok () w'

/-- result of the fuel running out (never for the fuel `parse` passes: `Lemmas/ParserFuel`) -/
def NOFUEL : Int := 1001

/-! ### C strings -/

/-- what `u_strncpy(dst, src, n); dst[n] = 0` / writing a terminator into the buffer leaves as a C string: the units up to
    the first NUL -/
def cstr (s : Str) : Str := s.takeWhile (· ≠ 0)

/-! ### the store, at the level of the documented data model -/

/-- a container inside the CIF: the normalised codes from the data block down -/
abbrev Path := List Str

def codeIs (norm : Str → Str) (k : Str) (c : Container) : Bool := norm c.code == k

/-- apply `f` to the container at `path` below the list `cs` -/
def updIn (norm : Str → Str) (f : Container → Container) : Path → List Container → List Container
  | [], cs => cs
  | [k], cs => cs.map fun c => if codeIs norm k c then f c else c
  | k :: k' :: ks, cs => cs.map fun c =>
      if codeIs norm k c then Container.mk c.code (updIn norm f (k' :: ks) c.frames) c.loops else c

/-- the container at `path` below the list `cs` -/
def getIn (norm : Str → Str) : Path → List Container → Option Container
  | [], _ => none
  | [k], cs => cs.find? (codeIs norm k)
  | k :: k' :: ks, cs =>
    match cs.find? (codeIs norm k) with
    | none => none
    | some c => getIn norm (k' :: ks) c.frames

def isScalarLoop (l : Loop) : Bool := l.category == some []

/-- is the (normalised) item name `k` defined in the container? -/
def hasItem (norm : Str → Str) (c : Container) (k : Str) : Bool :=
  c.loops.any fun l => l.names.any fun n => norm n == k

/-- `cif_container_add_scalar`: append the item to the scalar loop (category ""), creating the loop on demand -/
def addScalar : List Loop → Str → V → List Loop
  | [], nm, v => [{ category := some [], names := [nm], packets := [[v]] }]
  | l :: ls, nm, v =>
    if isScalarLoop l then
      { l with names := l.names ++ [nm],
               packets := if l.packets.isEmpty then [l.names.map (fun _ => V.unk) ++ [v]] else l.packets.map (· ++ [v]) } :: ls
    else l :: addScalar ls nm v

/-- `cif_container_set_all_values`: the item's value in every packet of its loop -/
def setAll (norm : Str → Str) (k : Str) (v : V) (l : Loop) : Loop :=
  match l.names.findIdx? (fun n => norm n == k) with
  | none => l
  | some i => { l with packets := l.packets.map fun p => p.set i v }

/-- `cif_container_prune`: drop the loops of THIS container that have no packet -/
def pruneC : Container → Container
  | .mk code fs ls => .mk code fs (ls.filter fun l => !l.packets.isEmpty)

/-- append a packet to the most recently created loop (the one the parser is filling) -/
def addPacketLast : List Loop → List V → List Loop
  | [], _ => []
  | [l], p => [{ l with packets := l.packets ++ [p] }]
  | l :: l' :: ls, p => l :: addPacketLast (l' :: ls) p

def hasDup : List Str → Bool
  | [] => false
  | k :: ks => ks.contains k || hasDup ks

/-! ### parser state -/

/-- the scanner as the productions see it -/
structure PS where
  /-- position behind the pending token (or behind the last consumed one); `lastType` = `scanner->ttype` -/
  scan : Scan
  /-- the token that is ready (`text_start < next_char`), carrying its CURRENT type -/
  tok : Option Tok
deriving Inhabited

/-- next_token(): hands out the pending token again, or scans a new one -/
def nextTok (o : Opts) (s : PS) : P (Tok × PS) :=
  match s.tok with
  | some t => pure (t, s)
  | none => do
    let r ← liftL (nextToken o.dia s.scan)
    pure (r.1, { scan := r.2, tok := some r.1 })

/-- CONSUME_TOKEN -/
def consume (s : PS) : PS := { s with tok := none }

/-- "recover by pushing back the colon": `next_char -= 1; column -= 1; ttype = alt` -/
def pushColon (s : PS) (t : Tok) (alt : TokType) : Tok × PS :=
  let t' : Tok := { t with ty := alt }
  (t', { scan := { rest := colon :: s.scan.rest, line := s.scan.line, col := s.scan.col - 1, lastType := alt }, tok := some t' })

/-- TRIM_TOKEN(scanner, n) followed by a new token type: the units of the token text after the first `n` go back to the
    input, and their characters are taken out of the column again (since 68c62f8) -/
def trimTok (s : PS) (t : Tok) (n : Nat) (ty : TokType) : Tok × PS :=
  let t' : Tok := { t with ty := ty, text := t.text.take n }
  (t', { scan := { s.scan with rest := t.text.drop n ++ s.scan.rest, col := s.scan.col - countChar32 (t.text.drop n), lastType := ty },
         tok := some t' })

def altOf (ty : TokType) : TokType := if ty = .tkey then .tvalue else .qvalue

def isValueStart : TokType → Bool
  | .olist | .otable | .tvalue | .qvalue | .value => true
  | _ => false

def isKeyTok : TokType → Bool
  | .key | .tkey => true
  | _ => false

/-- index of the first colon at an index ≥ 1 -/
def colonIdx (t : Str) : Option Nat :=
  match (t.drop 1).findIdx? (· == colon) with
  | none => none
  | some i => some (i + 1)

/-! ### values -/

/-- the value a VALUE (whitespace-delimited) token denotes, or `none` when cif_value_set_quoted / try_quoted answer
    CIF_ARGUMENT_ERROR (the parser then reports CIF_INVALID_BARE_VALUE and leaves the value quoted) -/
def bareValue (dia : Dialect) (text : Str) : Option V :=
  if text = [63] then some .unk
  else if text = [46] then some .na
  else match setQuoted (dia == .cif1) (.chr true (cstr text)) false with
    | .ok v => some v
    | .error _ => none

/-- `cif_value_set_item_by_key(table, key, NULL)` … parse into the entry: an existing entry keeps its place and takes the
    new spelling and value -/
def tableSet (normKey : Str → Str) (es : List (Str × Str × V)) (key : Str) (v : V) : List (Str × Str × V) :=
  let k := normKey key
  if es.any (fun e => e.1 == k) then es.map fun e => if e.1 == k then (k, key, v) else e
  else es ++ [(k, key, v)]

mutual
  /-- parse_value -/
  def parseValue (o : Opts) : Nat → PS → P (V × PS)
    | 0, _ => fail NOFUEL
    | fuel + 1, s => do
      let (t, s) ← nextTok o s
      match t.ty with
      | .olist => do
        let (vs, s) ← listLoop o fuel (consume s) []
        pure (.lst vs, s)
      | .otable => do
        let (es, s) ← tableLoop o fuel (consume s) []
        pure (.tbl es, s)
      | .tvalue => pure (.chr true (cstr (Decode.decodeText o.unfold o.prem t.text)), consume s)
      | .qvalue => pure (.chr true (cstr t.text), consume s)
      | .value =>
        match bareValue o.dia t.text with
        | some v => pure (v, consume s)
        | none => do
          report CIF_INVALID_BARE_VALUE s.scan.line s.scan.col
          pure (.chr true (cstr t.text), consume s)
      | _ => fail CIF_INTERNAL_ERROR
  /-- the `while` of parse_list; `acc` = the elements so far -/
  def listLoop (o : Opts) : Nat → PS → List V → P (List V × PS)
    | 0, _, _ => fail NOFUEL
    | fuel + 1, s, acc => do
      let (t, s) ← nextTok o s
      if isKeyTok t.ty then do
        report CIF_MISSING_SPACE s.scan.line (s.scan.col - t.text.length)
        let (_, s) := pushColon s t (altOf t.ty)
        let (v, s) ← parseValue o fuel s
        listLoop o fuel s (acc ++ [v])
      else if isValueStart t.ty then do
        let (v, s) ← parseValue o fuel s
        listLoop o fuel s (acc ++ [v])
      else if t.ty = .clist then pure (acc, consume s)
      else do
        report CIF_MISSING_DELIM s.scan.line (s.scan.col - t.text.length)
        pure (acc, s)
  /-- the `while` of parse_table; `acc` = the entries so far -/
  def tableLoop (o : Opts) : Nat → PS → List (Str × Str × V) → P (List (Str × Str × V) × PS)
    | 0, _, _ => fail NOFUEL
    | fuel + 1, s, acc => do
      let (t, s) ← nextTok o s
      match t.ty with
      | .value =>
        if t.text.head? = some colon then do
          report CIF_NULL_KEY s.scan.line (s.scan.col - t.text.length)
          -- since 4804559 the trimmed token is a KEY: the value may follow the colon directly
          let s := if t.text.length > 1 then (trimTok s t 1 .key).2 else s
          tableEntry o fuel (consume s) acc none
        else match colonIdx t.text with
          | some i => do
            report CIF_UNQUOTED_KEY s.scan.line (s.scan.col - t.text.length)
            let (t', s) := trimTok s t (i + 1) .key
            tableEntry o fuel (consume s) acc (some (cstr (t'.text.take i)))
          | none => do
            report CIF_MISSING_KEY s.scan.line (s.scan.col - t.text.length)
            tableLoop o fuel (consume s) acc
      | .key => tableEntry o fuel (consume s) acc (some (cstr t.text))
      | .tkey => do
        report CIF_MISQUOTED_KEY s.scan.line (s.scan.col - t.text.length)
        tableEntry o fuel (consume s) acc (some (cstr (Decode.decodeText o.unfold o.prem t.text)))
      | .qvalue | .tvalue | .olist | .otable => do
        report CIF_MISSING_KEY s.scan.line (s.scan.col - t.text.length)
        let (_, s) ← parseValue o fuel s
        tableLoop o fuel s acc
      | .ctable => pure (acc, consume s)
      | _ => do
        report CIF_MISSING_DELIM s.scan.line (s.scan.col - t.text.length)
        pure (acc, s)
  /-- the second half of an iteration of parse_table: "scan the value" for key `key` (`none` = the NULL key) -/
  def tableEntry (o : Opts) : Nat → PS → List (Str × Str × V) → Option Str → P (List (Str × Str × V) × PS)
    | 0, _, _, _ => fail NOFUEL
    | fuel + 1, s, acc, key => do
      -- cif_value_set_item_by_key(table, key, NULL): cif_normalize_table_index refuses disallowed characters; since 8375485
      -- that is reported (CIF_INVALID_INDEX) and recovered from by dropping the entry: the value is parsed as for a NULL key
      let key ← match key with
        | some k => if hasDisallowed k then do
                      report CIF_INVALID_INDEX s.scan.line s.scan.col
                      pure none
                    else pure (some k)
        | none => pure none
      let (t, s) ← nextTok o s
      if isValueStart t.ty then do
        let (v, s) ← parseValue o fuel s
        tableLoop o fuel s (match key with | some k => tableSet o.normKey acc k v | none => acc)
      else do
        report CIF_MISSING_VALUE s.scan.line (s.scan.col - t.text.length)
        tableLoop o fuel s (match key with | some k => tableSet o.normKey acc k .unk | none => acc)
end

/-! ### items -/

/-- `cif_container_set_value(container, name, value)` for the container at `path` -/
def setValue (o : Opts) (path : Path) (name : Str) (v : V) : P Unit := do
  if !isValidName true name then fail CIF_INVALID_ITEMNAME
  let cif ← getCif
  let k := o.norm name
  setCif (updIn o.norm (fun c =>
    if hasItem o.norm c k then Container.mk c.code c.frames (c.loops.map (setAll o.norm k v))
    else Container.mk c.code c.frames (addScalar c.loops name v)) path cif)

/-- `cif_container_get_item_loop(container, name, NULL) == CIF_OK`; an invalid name is answered CIF_NOSUCH_ITEM -/
def itemExists (o : Opts) (path : Path) (name : Str) : P Bool := do
  if !isValidName true name then pure false
  else
    let cif ← getCif
    match getIn o.norm path cif with
    | none => pure false
    | some c => pure (hasItem o.norm c (o.norm name))

/-- parse_item(scanner, container, name): `name = none` ⇒ the value is parsed and dropped -/
def parseItem (o : Opts) (fuel : Nat) (s : PS) (cont : Option Path) (name : Option Str) : P PS := do
  let (t, s) ← nextTok o s
  let (v, s) ←
    if isKeyTok t.ty then do
      report CIF_MISSING_SPACE s.scan.line (s.scan.col - 1)
      let (_, s) := pushColon s t (altOf t.ty)
      parseValue o fuel s
    else if isValueStart t.ty then parseValue o fuel s
    else do
      report CIF_MISSING_VALUE s.scan.line (s.scan.col - t.text.length)
      pure (V.unk, s)
  match name, cont with
  | some n, some path => do setValue o path n v; pure s
  | _, _ => pure s

/-! ### loops -/

/-- find_header_name(): CIF_INVALID_ITEMNAME (`some true`) for a name that is not a valid data name, CIF_OK (`some false`)
    when it duplicates one of the earlier, retained header names, CIF_NOSUCH_ITEM (`none`) otherwise -/
def findHeaderName (o : Opts) (earlier : List (Option Str)) (name : Str) : Option Bool :=
  if !isValidName true name then some true
  else if earlier.any (fun e =>
    match e with
    | some n => isValidName true n && o.norm n == o.norm name
    | none => false) then some false
  else none

/-- the `while` of parse_loop_header: `slots` = one entry per data name so far (`none` = a dropped duplicate) -/
def headerLoop (o : Opts) (cont : Option Path) : Nat → PS → List (Option Str) → P (List (Option Str) × PS)
  | 0, _, _ => fail NOFUEL
  | fuel + 1, s, slots => do
    let (t, s) ← nextTok o s
    if t.ty = .name then do
      let name := cstr t.text
      -- cif_container_get_item_loop (only with a container), then find_header_name (always, since 0e7a3a9)
      let e ← match cont with
        | none => pure false
        | some path => itemExists o path name
      if e then do
        report CIF_DUP_ITEMNAME s.scan.line (s.scan.col - t.text.length)
        headerLoop o cont fuel (consume s) (slots ++ [none])
      else match findHeaderName o slots name with
        | some true => do
          report CIF_INVALID_ITEMNAME s.scan.line (s.scan.col - t.text.length)
          headerLoop o cont fuel (consume s) (slots ++ [none])
        | some false => do
          report CIF_DUP_ITEMNAME s.scan.line (s.scan.col - t.text.length)
          headerLoop o cont fuel (consume s) (slots ++ [none])
        | none => headerLoop o cont fuel (consume s) (slots ++ [some name])
    else pure (slots, s)

/-- state of parse_loop_packets -/
structure Pk where
  idx : Nat                -- column_index
  some : Bool              -- have_packets
  cur : List V             -- values of the retained columns of the packet being read, in column order
deriving Inhabited

/-- `cif_loop_add_packet(loop, packet)` when there is a loop -/
def addPacket (o : Opts) (loopAt : Option Path) (p : List V) : P Unit :=
  match loopAt with
  | none => pure ()
  | some path => do
    let cif ← getCif
    setCif (updIn o.norm (fun c => Container.mk c.code c.frames (addPacketLast c.loops p)) path cif)

/-- the `while (next_token)` of parse_loop_packets -/
def packetsLoop (o : Opts) (loopAt : Option Path) (slots : List (Option Str)) : Nat → PS → Pk → P PS
  | 0, _, _ => fail NOFUEL
  | fuel + 1, s, k => do
    let (t, s) ← nextTok o s
    if isKeyTok t.ty || isValueStart t.ty then do
      let s ← if isKeyTok t.ty then do
                report CIF_MISSING_SPACE s.scan.line (s.scan.col - t.text.length)
                pure (pushColon s t (altOf t.ty)).2
              else pure s
      let (v, s) ← parseValue o fuel s
      let kept := (slots.getD k.idx none).isSome
      let cur := if kept then k.cur ++ [v] else k.cur
      let idx := (k.idx + 1) % slots.length
      if idx = 0 then do
        addPacket o loopAt cur
        packetsLoop o loopAt slots fuel s { idx := 0, some := true, cur := [] }
      else packetsLoop o loopAt slots fuel s { idx := idx, some := k.some, cur := cur }
    else if t.ty = .clist || t.ty = .ctable then do
      report CIF_UNEXPECTED_DELIM s.scan.line (s.scan.col - t.text.length)
      packetsLoop o loopAt slots fuel (consume s) k
    else if k.idx ≠ 0 then do
      report CIF_PARTIAL_PACKET s.scan.line (s.scan.col - t.text.length)
      let missing := ((slots.drop k.idx).filter Option.isSome).map fun _ => V.unk
      addPacket o loopAt (k.cur ++ missing)
      pure s
    else if !k.some then do
      report CIF_EMPTY_LOOP s.scan.line (s.scan.col - t.text.length)
      pure s
    else pure s

/-- parse_loop (after the `loop_` keyword has been consumed) -/
def parseLoop (o : Opts) (fuel : Nat) (s : PS) (cont : Option Path) : P PS := do
  let (slots, s) ← headerLoop o cont fuel s []
  if slots.isEmpty then do
    -- name_count == 0
    let t := s.tok.getD default
    report CIF_NULL_LOOP s.scan.line (s.scan.col - t.text.length)
    pure s
  else do
    let names := slots.filterMap id
    let loopAt ← match cont with
      | none => pure none
      | some path =>
        if names.isEmpty then pure none                       -- CIF_NULL_LOOP: "tolerable"
        else if names.any (fun n => !isValidName true n) then fail CIF_INTERNAL_ERROR   -- CIF_INVALID_ITEMNAME: "should not happen"
        else do
          let cif ← getCif
          let clash := match getIn o.norm path cif with
            | none => false
            | some c => names.any (fun n => hasItem o.norm c (o.norm n)) || hasDup (names.map o.norm)
          if clash then fail CIF_INTERNAL_ERROR                -- CIF_DUP_ITEMNAME: "should not happen"
          else do
            setCif (updIn o.norm (fun c => Container.mk c.code c.frames (c.loops ++ [{ category := none, names := names, packets := [] }])) path cif)
            pure (some path)
    -- cif_packet_create(&packet, names)
    if names.any (fun n => !isValidName true n) then fail CIF_INVALID_ITEMNAME
    if hasDup (names.map o.norm) then fail CIF_DUP_ITEMNAME
    packetsLoop o loopAt slots fuel s { idx := 0, some := false, cur := [] }

/-! ### containers -/

/-- outcome of the creation switch of a block / frame header: the path of the container to parse into -/
def createIn (o : Opts) (isBlock : Bool) (parent : Path) (code : Str) (line col : Nat) : P Path := do
  let cif ← getCif
  let k := o.norm code
  let siblings : List Container := if isBlock then cif else ((getIn o.norm parent cif).map Container.frames).getD []
  let exists_ := siblings.any (codeIs o.norm k)
  let add : P Unit :=
    if isBlock then setCif (cif ++ [Container.mk code [] []])
    else setCif (updIn o.norm (fun c => Container.mk c.code (c.frames ++ [Container.mk code [] []]) c.loops) parent cif)
  let reportInvalid : P Unit := if isBlock then report CIF_INVALID_BLOCKCODE line col else report CIF_INVALID_FRAMECODE line col
  let reportDup : P Unit := if isBlock then report CIF_DUP_BLOCKCODE line col else report CIF_DUP_FRAMECODE line col
  if !isValidName false code then do
    reportInvalid
    -- recover by using the code anyway (lenient creation)
    if exists_ then reportDup else add
  else if exists_ then reportDup          -- recover by reopening the existing container
  else add
  pure (parent ++ [k])

mutual
  /-- parse_container(scanner, container, is_block): `cont = none` ⇔ `container == NULL` -/
  def parseContainer (o : Opts) : Nat → PS → Option Path → Bool → P PS
    | 0, _, _, _ => fail NOFUEL
    | fuel + 1, s, cont, isBlock => do
      let s ← elemsLoop o fuel s cont isBlock
      -- container_end with result == CIF_OK
      match cont with
      | none => pure s
      | some path => do
        let cif ← getCif
        setCif (updIn o.norm pruneC path cif)
        pure s
  /-- the `while` of parse_container; returns at `goto container_end` with result CIF_OK -/
  def elemsLoop (o : Opts) : Nat → PS → Option Path → Bool → P PS
    | 0, _, _, _ => fail NOFUEL
    | fuel + 1, s, cont, isBlock => do
      let (t, s) ← nextTok o s
      let len := t.text.length
      match t.ty with
      | .blockHead =>
        if isBlock then pure s
        else do
          report CIF_NO_FRAME_TERM s.scan.line (s.scan.col - len)
          pure s
      | .frameHead =>
        match cont with
        | none => do
          let s ← parseContainer o fuel (consume s) none false
          elemsLoop o fuel s cont isBlock
        | some path =>
          if o.maxFrameDepth = 0 ∧ !isBlock then do
            report CIF_FRAME_NOT_ALLOWED s.scan.line (s.scan.col - len)
            pure s
          else if o.maxFrameDepth = 1 ∧ !isBlock then do
            report CIF_NO_FRAME_TERM s.scan.line (s.scan.col - len)
            pure s
          else do
            -- in a data block CIF_FRAME_NOT_ALLOWED is recovered by acting as if max_frame_depth were 1
            if o.maxFrameDepth = 0 then report CIF_FRAME_NOT_ALLOWED s.scan.line (s.scan.col - len)
            let fpath ← createIn o false path (cstr t.text) s.scan.line (s.scan.col - len)
            let s ← parseContainer o fuel (consume s) (some fpath) false
            elemsLoop o fuel s cont isBlock
      | .frameTerm =>
        if isBlock then do
          report CIF_UNEXPECTED_TERM s.scan.line s.scan.col
          elemsLoop o fuel (consume s) cont isBlock
        else pure (consume s)
      | .loopKw => do
        let s ← parseLoop o fuel (consume s) cont
        elemsLoop o fuel s cont isBlock
      | .name => do
        let name := cstr t.text
        let s := consume s
        -- cif_container_get_item_loop, then (for CIF_NOSUCH_ITEM) the validity of the name — only with a container
        let e ← match cont with
          | none => pure false
          | some path => itemExists o path name
        if e then do
          report CIF_DUP_ITEMNAME s.scan.line s.scan.col
          -- recover by rejecting the item (but still parsing the associated value)
          let s ← parseItem o fuel s cont none
          elemsLoop o fuel s cont isBlock
        else if cont.isSome ∧ !isValidName true name then do
          report CIF_INVALID_ITEMNAME s.scan.line s.scan.col
          let s ← parseItem o fuel s cont none
          elemsLoop o fuel s cont isBlock
        else do
          let s ← parseItem o fuel s cont (some name)
          elemsLoop o fuel s cont isBlock
      | .key | .tkey => do
        report CIF_MISSING_SPACE s.scan.line (s.scan.col - 1)
        let (t', s) := pushColon s t (altOf t.ty)
        report CIF_UNEXPECTED_VALUE s.scan.line (1 + s.scan.col - t'.text.length)
        let s ← parseItem o fuel s cont none
        elemsLoop o fuel s cont isBlock
      | .tvalue | .qvalue | .value | .olist | .otable => do
        report CIF_UNEXPECTED_VALUE s.scan.line (1 + s.scan.col - len)
        let s ← parseItem o fuel s cont none
        elemsLoop o fuel s cont isBlock
      | .ctable | .clist => do
        report CIF_UNEXPECTED_DELIM s.scan.line (s.scan.col - len)
        elemsLoop o fuel (consume s) cont isBlock
      | .end_ =>
        if isBlock then pure s
        else do
          report CIF_EOF_IN_FRAME s.scan.line s.scan.col
          pure s
      | .error => fail CIF_INTERNAL_ERROR
end

/-- the `while` of parse_cif -/
def blocksLoop (o : Opts) : Nat → PS → P PS
  | 0, _ => fail NOFUEL
  | fuel + 1, s => do
    let (t, s) ← nextTok o s
    let len := t.text.length
    match t.ty with
    | .blockHead => do
      let cont ← if o.store then do
                   let p ← createIn o true [] (cstr t.text) s.scan.line (s.scan.col - len)
                   pure (some p)
                 else pure none
      let s ← parseContainer o fuel (consume s) cont true
      blocksLoop o fuel s
    | .end_ => pure s
    | _ => do
      report CIF_NO_BLOCK_HEADER s.scan.line (s.scan.col - len)
      -- an anonymous block (created leniently, or the one that already exists); the token is not consumed
      let cont ← if o.store then do
                   let cif ← getCif
                   let k := o.norm []
                   if cif.any (codeIs o.norm k) then pure () else setCif (cif ++ [Container.mk [] [] []])
                   pure (some [k])
                 else pure none
      let s ← parseContainer o fuel s cont true
      blocksLoop o fuel s

/-- parse_cif (no handler): the block loop, then the clamp of navigation codes -/
def parseCif (o : Opts) (fuel : Nat) (s : PS) : P Unit :=
  clamp (do let _ ← blocksLoop o fuel s; pure ())

/-! ### cif_parse_internal -/

/-- the test of get_first_char(): made on the class table of INIT_V2_SCANNER, before SET_V1 -/
def disallowedInitial (c : CU) : Bool :=
  if c > cif1MaxChar then c != 0xFEFF else Chars.classOf .cif2 c == .no

/-- what cif_parse_internal does once get_first_char() has delivered the first character `c` (and the callback, if asked,
    accepted it): an initial U+FEFF is consumed; in CIF 1.1 mode it is reported (CIF_DISALLOWED_CHAR); CIF 2.0 text in another
    encoding than UTF-8 is reported (CIF_WRONG_ENCODING); a non-zero answer to either is returned AS IS (no clamp); parse_cif -/
def afterFirst (o : Opts) (fuel : Nat) (c : CU) (rest : Str) : P Unit :=
  let bom := c == 0xFEFF
  let input := if bom then rest else c :: rest
  if bom ∧ rest.isEmpty then pure ()                           -- BOM-only CIF
  else do
    if o.dia = .cif1 then
      (if bom then report CIF_DISALLOWED_CHAR 1 0 else pure ())
    else
      (if o.notUtf8 then report CIF_WRONG_ENCODING 1 1 else pure ())
    parseCif o fuel { scan := Scan.init input, tok := none }

/-- cif_parse_internal on the units the character source delivers to the scanner (line terminators already converted by
    get_first_char / get_more_chars: Model/Fill.lean).  `fuel` bounds the nesting of calls and the iterations of each loop. -/
def parseInternal (o : Opts) (fuel : Nat) (units : Str) : P Unit :=
  match units with
  | [] => P.pure ()                                              -- empty CIF
  | c :: rest =>
    -- get_first_char(): a non-zero answer of the callback is returned to cif_parse_internal, which takes the value -1 for
    -- CIF_EOF ("empty CIF": nothing is parsed, the result is CIF_OK) and returns any other value unchanged
    P.bind (if disallowedInitial c then ask CIF_DISALLOWED_INITIAL_CHAR 1 0 else P.pure 0)
      (fun rv => if rv = -1 then P.pure () else if rv ≠ 0 then fail rv else afterFirst o fuel c rest)

/-- outcome of a whole parse: return value, reports in order of occurrence, the target CIF afterwards -/
structure Outcome where
  rc : Int
  log : List Report
  cif : Cif
deriving Inhabited

/-- fuel that always suffices (`Lemmas/ParserFuel`) -/
def fuelFor (units : Str) : Nat := 2 * units.length + 16

def run (o : Opts) (pol : Policy) (pre : Cif) (fuel : Nat) (units : Str) : Outcome :=
  match parseInternal o fuel units pol { log := [], cif := pre } with
  | .ok _ w => { rc := 0, log := w.log.reverse, cif := w.cif }
  | .abort rv w => { rc := rv, log := w.log.reverse, cif := w.cif }

/-- the integrated parser: option record, callback policy, initial content of the target, the units seen by the scanner -/
def parse (o : Opts) (pol : Policy) (pre : Cif) (units : Str) : Outcome := run o pol pre (fuelFor units) units

end CifModel.Model.Parser
