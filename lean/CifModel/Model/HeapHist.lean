import CifModel.Model.Value
import CifModel.Model.Heap
import CifModel.Model.HeapClone
/-
  CifModel.Model.HeapHist (group gM, property C19) — operation HISTORIES.

  An operation language `HOp` over a set of caller slots (8 value slots, 4 packet slots; members addressed by paths), with
  two interpretations:
    * `stepH` / `runH` on the HEAP model (Model/Heap, Model/HeapClone): explicit blocks, malloc / free, the caller's objects
      given by address — this is what family `valheap` executes against the C library (Driver/Fam/Valheap.lean calls
      `stepC` = `stepH` + tabulation of the cell map, operation by operation, i.e. `traceH`); `stepH? fuel` is the same with the
      fuel of the pointer-following functions as a parameter, `stepH` computes it from the heap (`fuelOf`);
    * `stepP` / `runP` on immutable values (`V`), the pure reading of the same history — compared with the C library (and
      with the older hand-written interpreter) by family `val`.
  Lemmas/HeapHist*.lean prove that every state `runH` reaches from the empty heap is well-formed and represents the
  state `runP` reaches (Props/C19Hist.lean: `C19_history_heap`, `C19_history_release`).

  An operation that "does not resolve" (an empty slot, a path without a member, an occupied destination slot: the
  executor skips such an operation) or that the library refuses with a result code (wrong kind, index out of range,
  rejected key) leaves the state as it is, in both interpretations.  Core Lean only.
-/
namespace CifModel.Model.Hist
open CifModel CifModel.Model.Heap
open CifModel.Model.Value (Step Entry resolve update mapFind mapSet mapReplace mapErase insertAt removeAt getAt defaultOf)

/-! ### slots, references, operations -/

inductive Root where
  | val (k : Nat)
  | pkt (k : Nat)
deriving DecidableEq, Repr, Inhabited

structure Ref where
  root : Root
  path : List Step
deriving DecidableEq, Repr

def NV : Nat := 8
def NP : Nat := 4

/-- the slots that exist -/
def Root.ok : Root → Bool
  | .val k => decide (k < NV)
  | .pkt k => decide (k < NP)

def allRoots : List Root := (List.range NV).map Root.val ++ (List.range NP).map Root.pkt

/-- a reference to a VALUE object: a value slot or a member of it, or a member of a packet (a packet itself is not a value) -/
def Ref.isVal (r : Ref) : Bool :=
  match r.root, r.path with
  | .pkt _, [] => false
  | rt, _ => rt.ok

/-- the member `r/s` -/
def Ref.member (r : Ref) (s : Step) : Ref := { r with path := r.path ++ [s] }

inductive HOp where
  | nop
  | new (i : Nat) (kind : Nat)                                      -- cif_value_create into the empty slot s<i>
  | bld (i : Nat) (v : V)                                           -- build a value through the API into the empty slot
  | free (i : Nat)                                                  -- cif_value_free
  | cln (src dst : Ref)                                             -- cif_value_clone(src, &dst): empty slot or existing object
  | init (r : Ref) (kind : Nat)                                     -- cif_value_init
  | ichr (r : Ref) (t : Str)                                        -- cif_value_init_char / copy_char with a text
  | lget (r : Ref) (i : Nat)                                        -- cif_value_get_element_at (no effect on the state)
  | lset (r : Ref) (i : Nat) (src : Option Ref)                     -- cif_value_set_element_at
  | lins (r : Ref) (i : Nat) (src : Option Ref)                     -- cif_value_insert_element_at
  | lrem (r : Ref) (i : Nat) (dst : Option Nat)                     -- cif_value_remove_element_at (into slot / released)
  | mget (r : Ref) (nk : Option Str)                                -- get_item_by_key / packet_get_item (no effect)
  | mset (r : Ref) (key : Str) (nk : Option Str) (src : Option Ref) -- set_item_by_key / packet_set_item
  | mrem (r : Ref) (nk : Option Str) (dst : Option Nat)             -- remove_item_by_key / packet_remove_item
  | pnew (i : Nat) (names : List (Str × Option Str))                -- cif_packet_create (name as given, normalised form)
  | pfree (i : Nat)                                                 -- cif_packet_free
deriving Repr

/-! ### the pure interpretation -/

/-- the pure state: what each slot holds (a packet is held as the table of its entries).  A structure, not a bare function
    type: the compiled `stepP` then returns an evaluated state instead of a closure that would re-run the operation on
    every look-up. -/
structure PState where
  get : Root → Option V

def PState.empty : PState := ⟨fun _ => none⟩

def setP (p : PState) (r : Root) (x : Option V) : PState := ⟨fun r' => if r' = r then x else p.get r'⟩

def getP (p : PState) (r : Ref) : Option V :=
  match p.get r.root with
  | some v => resolve v r.path
  | none => none

def putP (p : PState) (r : Ref) (x : V) : Option PState :=
  match p.get r.root with
  | some v =>
    match update v r.path x with
    | some v' => some (setP p r.root (some v'))
    | none => none
  | none => none

/-- what `build_value` of the harness makes of a value description: lists by successive inserts, tables by successive
    `set_item_by_key` calls (a repeated key replaces) -/
def apiValue : V → V
  | .tbl es => .tbl (es.foldl (fun acc e => mapSet acc e.1 e.2.1 (some e.2.2)) [])
  | v => v

/-- the value handed to a container: a copy of the object at the reference, or the unknown value for NULL
    (`none` = the reference does not resolve) -/
def srcP (p : PState) : Option Ref → Option (Option V)
  | none => some none
  | some s => if s.isVal then (getP p s).map some else none

/-- copy the object at `src` onto the EXISTING object at `dst` (`cif_value_clone(src, &dst)`; the same object: nothing) -/
def copyOntoP (p : PState) (src dst : Ref) : Option PState :=
  if src.isVal && dst.isVal then
    match getP p src, getP p dst with
    | some sv, some _ => if src = dst then some p else putP p dst sv
    | _, _ => none
  else none

/-- `cif_value_clean` of the object at a reference (`set_element_at` / `set_item` with a NULL value) -/
def cleanP (p : PState) (r : Ref) : Option PState :=
  match getP p r with
  | some _ => putP p r .unk
  | none => none

/-- the value part of `set_element_at` / `set_item` on an EXISTING member: NULL cleans it, an object is cloned onto it -/
def setValueP (p : PState) (src : Option Ref) (target : Ref) : Option PState :=
  match src with
  | none => cleanP p target
  | some s => copyOntoP p s target

def emptyNames : List (Str × Option Str) → Option (List (Str × Str))
  | [] => some []
  | (n, some nk) :: rest => (emptyNames rest).map (fun l => (n, nk) :: l)
  | (_, none) :: _ => none

def stepP? (p : PState) : HOp → Option PState
  | .nop => none
  | .new i kind =>
    if (Root.val i).ok && (p.get (.val i)).isNone then (defaultOf kind).map (fun v => setP p (.val i) (some v)) else none
  | .bld i v =>
    if (Root.val i).ok && (p.get (.val i)).isNone then some (setP p (.val i) (some (apiValue v))) else none
  | .free i =>
    match p.get (.val i) with
    | some _ => some (setP p (.val i) none)
    | none => none
  | .cln src dst =>
    match dst.root, dst.path with
    | .val i, [] =>
      if (p.get (.val i)).isNone then
        if src.isVal && (Root.val i).ok then (getP p src).map (fun sv => setP p (.val i) (some sv)) else none
      else copyOntoP p src dst
    | _, _ => copyOntoP p src dst
  | .init r kind =>
    if r.isVal then
      match getP p r with
      | some _ => putP p r ((defaultOf kind).getD .unk)
      | none => none
    else none
  | .ichr r t =>
    if r.isVal then
      match getP p r with
      | some _ => putP p r (.chr true t)
      | none => none
    else none
  | .lget _ _ => none
  | .mget _ _ => none
  | .lset r i src =>
    if r.isVal then
      match getP p r with
      | some (.lst vs) =>
        if i < vs.length then setValueP p src (r.member (.idx i)) else none
      | _ => none
    else none
  | .lins r i src =>
    if r.isVal then
      match getP p r, srcP p src with
      | some (.lst vs), some x => if i ≤ vs.length then putP p r (.lst (insertAt (x.getD .unk) i vs)) else none
      | _, _ => none
    else none
  | .lrem r i dst =>
    if r.isVal then
      match getP p r with
      | some (.lst vs) =>
        match getAt i vs with
        | some x =>
          match putP p r (.lst (removeAt i vs)) with
          | some p1 =>
            match dst with
            | none => some p1
            | some k => if (Root.val k).ok && (p1.get (.val k)).isNone then some (setP p1 (.val k) (some x)) else none
          | none => none
        | none => none
      | _ => none
    else none
  | .mset r key nk src =>
    if r.root.ok then
      match getP p r, nk with
      | some (.tbl es), some nk =>
        match mapFind es nk with
        | none =>
          match srcP p src with
          | some x => putP p r (.tbl (mapSet es nk key x))
          | none => none
        | some e =>
          -- existing entry: the spelling first, then the value (unless the source is the very same object)
          match putP p r (.tbl (mapReplace es nk key e.2.2)) with
          | some p1 => setValueP p1 src (r.member (.key nk))
          | none => none
      | _, _ => none
    else none
  | .mrem r nk dst =>
    if r.root.ok then
      match getP p r, nk with
      | some (.tbl es), some nk =>
        match mapFind es nk with
        | some e =>
          match putP p r (.tbl (mapErase es nk)) with
          | some p1 =>
            match dst with
            | none => some p1
            | some k => if (Root.val k).ok && (p1.get (.val k)).isNone then some (setP p1 (.val k) (some e.2.2)) else none
          | none => none
        | none => none
      | _, _ => none
    else none
  | .pnew i names =>
    if (Root.pkt i).ok && (p.get (.pkt i)).isNone then
      match emptyNames names with
      | some ns =>
        if (ns.map (·.2)).Nodup then some (setP p (.pkt i) (some (.tbl (ns.map (fun n => (n.2, n.1, V.unk))))))
        else none
      | none => none
    else none
  | .pfree i =>
    match p.get (.pkt i) with
    | some _ => some (setP p (.pkt i) none)
    | none => none

def stepP (p : PState) (op : HOp) : PState := (stepP? p op).getD p

def runP : List HOp → PState → PState
  | [], p => p
  | op :: ops, p => runP ops (stepP p op)

/-! ### the heap interpretation -/

structure HState where
  h : Heap
  slot : Root → Option Nat

def HState.empty : HState := { h := Heap.empty, slot := fun _ => none }

def setSlot (s : HState) (r : Root) (a : Option Nat) : HState := { s with slot := fun r' => if r' = r then a else s.slot r' }

/-- the same heap with its cell map tabulated (every alloc / free / write wraps the cell function once more; tabulating
    keeps look-ups cheap).  On a well-formed heap this is the identity (`compact_eq`). -/
def compact (h : Heap) : Heap :=
  let arr : Array (Option Cell) := (Array.range h.next).map h.cell
  { cell := fun a => if hlt : a < arr.size then arr[a] else none, next := h.next }

/-- the value fields held in the block at `a`: a free-standing object, the inline value of a map entry, or — for a packet —
    its map seen as a table -/
def getHV (h : Heap) (a : Nat) : Option HVal :=
  match h.cell a with
  | some (.val hv) => some hv
  | some (.entry hv _ _) => some hv
  | some (.pkt ents _) => some (.tbl ents)
  | _ => none

/-- the block with other value fields -/
def reShell : Cell → HVal → Option Cell
  | .val _, hv => some (.val hv)
  | .entry _ k ko, hv => some (.entry hv k ko)
  | .pkt _ sa, .tbl ents => some (.pkt ents sa)
  | _, _ => none

def putHV (h : Heap) (a : Nat) (hv : HVal) : Option Heap :=
  match h.cell a with
  | some c =>
    match reShell c hv with
    | some c' => write h a c'
    | none => none
  | none => none

/-- the member one step below the fields `hv` -/
def stepF (h : Heap) (hv : HVal) (s : Step) : Option Nat :=
  match hv, s with
  | .lst (some arr) _, .idx i =>
    match h.cell arr with
    | some (.arr xs _) => xs[i]?
    | _ => none
  | .tbl ents, .key nk =>
    match findEntry h ents nk with
    | some (some e) => some e
    | _ => none
  | _, _ => none

def resolveF (h : Heap) : HVal → List Step → Nat → Option Nat
  | _, [], a => some a
  | hv, s :: p, _ =>
    match stepF h hv s with
    | some b =>
      match getHV h b with
      | some hvb => resolveF h hvb p b
      | none => none
    | none => none

/-- address of the object a path designates below the object at `a` -/
def resolveAddr (h : Heap) (a : Nat) (p : List Step) : Option Nat :=
  match getHV h a with
  | some hv => resolveF h hv p a
  | none => none

def resolveRef (s : HState) (r : Ref) : Option Nat :=
  match s.slot r.root with
  | some a => resolveAddr s.h a r.path
  | none => none

/-- cif_value_create -/
def createVal (h : Heap) (kind : Nat) : Option (Nat × Heap) :=
  if kind = 2 then some (alloc h (.val (.lst none 0)))
  else if kind = 3 then some (alloc h (.val (.tbl [])))
  else (defaultOf kind).map (buildNew h)

/-- release whatever a value slot holds: a free-standing object, or an entry handed out by a remove -/
def freeObj (fuel : Nat) (h : Heap) (a : Nat) : Option Heap :=
  match h.cell a with
  | some (.val _) => freeVal fuel h a
  | some (.entry _ _ _) => freeDetached fuel h a
  | _ => none

/-- `cif_value_clean` + the new fields `new` on the existing object at `t` -/
def installAt (fuel : Nat) (h : Heap) (t : Nat) (new : HVal) : Option Heap :=
  match getHV h t with
  | some old =>
    match cleanVal fuel h old with
    | some h1 => putHV h1 t new
    | none => none
  | none => none

/-- `cif_value_clone(src, &dst)` onto the existing object at `t` (order of f1b092b): scratch copy made by READING the source
    object at `sa` (`cloneNewH`), then clean, move, release the scratch object -/
def cloneOntoAt (fuel : Nat) (h : Heap) (t sa : Nat) : Option Heap :=
  match cloneNewH fuel h sa with
  | some (c, h1) =>
    match getHV h1 c with
    | some new =>
      match installAt fuel h1 t new with
      | some h3 => free h3 c
      | none => none
    | none => none
  | none => none

/-- the components of the new value are built first, then the object is cleaned and takes them (`cif_value_init_numb`,
    `cif_value_init_char`, `cif_value_copy_char`) -/
def buildOntoAt (fuel : Nat) (h : Heap) (t : Nat) (x : V) : Option Heap :=
  match buildVal h x with
  | (new, h1) => installAt fuel h1 t new

/-- the fields `cif_value_init` gives an object it has just cleaned (an invalid kind leaves the unknown value) -/
def initFields (h : Heap) (kind : Nat) : HVal × Heap :=
  if kind = 2 then (.lst none 0, h)
  else if kind = 3 then (.tbl [], h)
  else
    match defaultOf kind with
    | some d => buildVal h d
    | none => (.unk, h)

/-- `cif_value_init(v, kind)` for a kind other than NUMB: clean first, then the default content -/
def cleanInitAt (fuel : Nat) (h : Heap) (t : Nat) (kind : Nat) : Option Heap :=
  match installAt fuel h t .unk with
  | some h1 =>
    match initFields h1 kind with
    | (hv, h2) => putHV h2 t hv
  | none => none

/-- the `size` field of a list object; while `elements` is NULL (capacity 0) it is 0 -/
def lstSize (elems : Option Nat) (size : Nat) : Nat :=
  match elems with
  | none => 0
  | some _ => size

/-- the element handed to a container -/
def srcH (s : HState) : Option Ref → Option (Option Nat)
  | none => some none
  | some r => if r.isVal then (resolveRef s r).map some else none

def copyOntoH (fuel : Nat) (s : HState) (src dst : Ref) : Option HState :=
  if src.isVal && dst.isVal then
    match resolveRef s src, resolveRef s dst with
    | some sa, some t =>
      -- the pointer test of cif_value_clone / set_element_at / cif_map_set_item: the same object — nothing to do
      if t = sa then some s else (cloneOntoAt fuel s.h t sa).map (fun h' => { s with h := h' })
    | _, _ => none
  else none

/-- the value part of `set_element_at` / `set_item` on an EXISTING member: NULL cleans it (`cif_value_clean`), an object is
    cloned onto it -/
def setValueH (fuel : Nat) (s : HState) (src : Option Ref) (target : Ref) : Option HState :=
  match src with
  | none =>
    match resolveRef s target with
    | some t => (installAt fuel s.h t .unk).map (fun h' => { s with h := h' })
    | none => none
  | some sr => copyOntoH fuel s sr target

/-- the temporary normalised key `k` is released at the end of `cif_map_set_item` on an existing key -/
def freeKey (k : Nat) : Option HState → Option HState
  | some s2 => (free s2.h k).map (fun h' => { s2 with h := h' })
  | none => none

/-- fuel for the pointer-following heap functions (`cleanVal`, `cloneH`), computed from the heap: more than any value
    represented in `h` — or in a heap whose bump pointer is at most two blocks further — needs (Lemmas/HeapHistFuel.lean:
    a footprint lists each block once and lies below the bump pointer) -/
def fuelOf (h : Heap) : Nat := 3 * h.next + 9

/-- `build_value` for a list: successive `cif_value_insert_element_at(list, n, x)` at the end -/
def apiBuildList (h : Heap) (a : Nat) : List V → Nat → Option Heap
  | [], _ => some h
  | x :: xs, n =>
    match getHV h a with
    | some hv =>
      match listInsertH h hv n (some x) with
      | some (hv', h1) =>
        match putHV h1 a hv' with
        | some h2 => apiBuildList (compact h2) a xs (n + 1)
        | none => none
      | none => none
    | none => none

/-- `build_value` for a table: successive `cif_value_set_item_by_key` -/
def apiBuildTable (h : Heap) (a : Nat) : List (Str × Str × V) → Option Heap
  | [] => some h
  | (k, ko, x) :: es =>
    match getHV h a with
    | some (.tbl ents) =>
      match mapSetItemH (fuelOf h) h ents k ko (some x) with
      | some (ents', h1) =>
        match putHV h1 a (.tbl ents') with
        | some h2 => apiBuildTable (compact h2) a es
        | none => none
      | none => none
    | _ => none

def apiBuild (h : Heap) (v : V) : Option (Nat × Heap) :=
  match v with
  | .lst vs =>
    match alloc h (.val (.lst none 0)) with
    | (a, h1) => (apiBuildList h1 a vs 0).map (fun g => (a, g))
  | .tbl es =>
    match alloc h (.val (.tbl [])) with
    | (a, h1) => (apiBuildTable h1 a es).map (fun g => (a, g))
  | _ => some (buildNew h v)

/-- `cif_map_set_item`, key not present: the normalised key (allocated by the normaliser), a copy of the key as given, a copy
    of the value read from the caller's object (NULL: the unknown value), the entry block; the entry is appended -/
def mapAddH (fuel : Nat) (h : Heap) (ents : List Nat) (nk key : Str) (x : Option Nat) : Option (List Nat × Heap) :=
  match alloc h (.str nk) with
  | (kn, h0) =>
    match alloc h0 (.str key) with
    | (koa, h1) =>
      match copyFields fuel h1 x with
      | some (hv, h2) =>
        match alloc h2 (.entry hv kn koa) with
        | (e, h3) => some (ents ++ [e], h3)
      | none => none

def stepH? (fuel : Nat) (s : HState) : HOp → Option HState
  | .nop => none
  | .new i kind =>
    if (Root.val i).ok && (s.slot (.val i)).isNone then
      (createVal s.h kind).map (fun r => { (setSlot s (.val i) (some r.1)) with h := r.2 })
    else none
  | .bld i v =>
    if (Root.val i).ok && (s.slot (.val i)).isNone then
      (apiBuild s.h v).map (fun r => { (setSlot s (.val i) (some r.1)) with h := r.2 })
    else none
  | .free i =>
    match s.slot (.val i) with
    | some a => (freeObj fuel s.h a).map (fun h' => { (setSlot s (.val i) none) with h := h' })
    | none => none
  | .cln src dst =>
    match dst.root, dst.path with
    | .val i, [] =>
      if (s.slot (.val i)).isNone then
        if src.isVal && (Root.val i).ok then
          match resolveRef s src with
          | some sa => (cloneNewH fuel s.h sa).map (fun r => { (setSlot s (.val i) (some r.1)) with h := r.2 })
          | none => none
        else none
      else copyOntoH fuel s src dst
    | _, _ => copyOntoH fuel s src dst
  | .init r kind =>
    if r.isVal then
      match resolveRef s r with
      | some t =>
        if kind = 1 then (buildOntoAt fuel s.h t (.numb false [48] false [0] none 0)).map (fun h' => { s with h := h' })
        else (cleanInitAt fuel s.h t kind).map (fun h' => { s with h := h' })
      | none => none
    else none
  | .ichr r t =>
    if r.isVal then
      match resolveRef s r with
      | some a => (buildOntoAt fuel s.h a (.chr true t)).map (fun h' => { s with h := h' })
      | none => none
    else none
  | .lget _ _ => none
  | .mget _ _ => none
  | .lset r i src =>
    if r.isVal then
      match resolveRef s r with
      | some la =>
        match getHV s.h la with
        | some (.lst elems size) =>
          if i < lstSize elems size then setValueH fuel s src (r.member (.idx i)) else none
        | _ => none
      | none => none
    else none
  | .lins r i src =>
    if r.isVal then
      match resolveRef s r, srcH s src with
      | some la, some x =>
        match getHV s.h la with
        | some (.lst elems size) =>
          if i ≤ lstSize elems size then
            match listInsertAddrH fuel s.h (.lst elems (lstSize elems size)) i x with
            | some (hv', h1) => (putHV h1 la hv').map (fun h' => { s with h := h' })
            | none => none
          else none
        | _ => none
      | _, _ => none
    else none
  | .lrem r i dst =>
    if r.isVal then
      match resolveRef s r with
      | some la =>
        match getHV s.h la with
        | some (.lst elems size) =>
          if i < lstSize elems size then
            match listRemoveH fuel s.h (.lst elems size) i dst.isSome with
            | some (hv', x, h1) =>
              match putHV h1 la hv' with
              | some h2 =>
                match dst, x with
                | none, _ => some { s with h := h2 }
                | some k, some xa =>
                  if (Root.val k).ok && (s.slot (.val k)).isNone then some { (setSlot s (.val k) (some xa)) with h := h2 } else none
                | some _, none => none
              | none => none
            | none => none
          else none
        | _ => none
      | none => none
    else none
  | .mset r key nk src =>
    if r.root.ok then
      match nk with
      | some nk =>
        -- the normaliser allocates the normalised key (block `s.h.next`); the lookup uses it
        match resolveRef { s with h := (alloc s.h (.str nk)).2 } r with
        | some m0 =>
          match getHV (alloc s.h (.str nk)).2 m0 with
          | some (.tbl ents0) =>
            match findEntry (alloc s.h (.str nk)).2 ents0 nk with
            | some none =>
              -- key not present: a new entry that keeps the normalised key (`mapAddH` allocates that block itself, so this
              -- branch is computed from the state before the normaliser ran)
              match resolveRef s r, srcH s src with
              | some m, some x =>
                match getHV s.h m with
                | some (.tbl ents) =>
                  match mapAddH fuel s.h ents nk key x with
                  | some (ents', h3) => (putHV h3 m (.tbl ents')).map (fun h' => { s with h := h' })
                  | none => none
                | _ => none
              | _, _ => none
            | some (some e) =>
              -- existing entry: new spelling, then cif_value_clone(src, &entry value) resp. clean for NULL; normalised key released
              match entryRespell false (alloc s.h (.str nk)).2 e key with
              | some h1 => freeKey s.h.next (setValueH fuel { s with h := h1 } src (r.member (.key nk)))
              | none => none
            | none => none
          | _ => none
        | none => none
      | none => none
    else none
  | .mrem r nk dst =>
    if r.root.ok then
      match resolveRef s r, nk with
      | some m, some nk =>
        match getHV s.h m with
        | some (.tbl ents) =>
          match mapRemoveItemH s.h ents nk with
          | some (some (e, ents'), h1) =>
            match putHV h1 m (.tbl ents') with
            | some h2 =>
              match dst with
              | none => (freeDetached fuel h2 e).map (fun h' => { s with h := h' })
              | some k =>
                if (Root.val k).ok && (s.slot (.val k)).isNone then some { (setSlot s (.val k) (some e)) with h := h2 } else none
            | none => none
          | _ => none
        | _ => none
      | _, _ => none
    else none
  | .pnew i names =>
    if (Root.pkt i).ok && (s.slot (.pkt i)).isNone then
      match emptyNames names with
      | some ns =>
        match packetCreateH s.h ns with
        | some (some (pa, _), h') => some { (setSlot s (.pkt i) (some pa)) with h := h' }
        | _ => none     -- CIF_DUP_ITEMNAME: every block allocated on the way has been released again (packetCreateH_spec)
      | none => none
    else none
  | .pfree i =>
    match s.slot (.pkt i) with
    | some pa => (packetFreeH fuel s.h pa).map (fun h' => { (setSlot s (.pkt i) none) with h := h' })
    | none => none

/-- one operation; the fuel of the pointer-following functions is computed from the heap (`fuelOf`) -/
def stepH (s : HState) (op : HOp) : HState := (stepH? (fuelOf s.h) s op).getD s

/-- one operation as the driver executes it: `stepH`, then the cell map is tabulated -/
def stepC (s : HState) (op : HOp) : HState :=
  let s' := stepH s op
  { s' with h := compact s'.h }

def runH : List HOp → HState → HState
  | [], s => s
  | op :: ops, s => runH ops (stepC s op)

/-- the states after each operation (what the driver prints its observations from) -/
def traceH : List HOp → HState → List HState
  | [], _ => []
  | op :: ops, s => stepC s op :: traceH ops (stepC s op)

/-- release every slot: `cif_value_free` of each value slot, `cif_packet_free` of each packet slot -/
def releaseOne (fuel : Nat) (r : Root) (h : Heap) (a : Nat) : Option Heap :=
  match r with
  | .val _ => freeObj fuel h a
  | .pkt _ => packetFreeH fuel h a

def releaseRoots (fuel : Nat) (s : HState) : List Root → Heap → Option Heap
  | [], h => some h
  | r :: rs, h =>
    match s.slot r with
    | none => releaseRoots fuel s rs h
    | some a =>
      match releaseOne fuel r h a with
      | some h' => releaseRoots fuel s rs h'
      | none => none

def releaseAll (s : HState) : Option Heap := releaseRoots (fuelOf s.h) s allRoots s.h

end CifModel.Model.Hist
