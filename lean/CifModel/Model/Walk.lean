import CifModel.Model.Types
import CifModel.Gen.ErrCodes
/-
  CifModel.Model.Walk — executable model of `cif_walk` (src/cif.c), following the C as written:

    cif_walk        ↔ walk / walkBlocks         (the `handle_blocks` flag, SKIP_SIBLINGS/END → CIF_OK)
    walk_container  ↔ walkCont / walkFrames     (the `handle_frames` / `handle_loops` flags, the fall-through switch)
    walk_loops      ↔ walkLoops                 (`result` = result of the last loop walked; CIF_OK for no loops)
    walk_loop       ↔ walkLoop / walkPackets    (CIF_EMPTY_LOOP for a packet-less loop; the `stopped` flag)
    walk_packet     ↔ walkPacket / walkItems
    walk_item       ↔ call … (.item …)

  Handler results are the C `int`s themselves (`Int`): 0 CONTINUE, -1 SKIP_CURRENT, -2 SKIP_SIBLINGS, -3 END,
  anything else is handled by the `default:` branches exactly as in the C.  A handler program is an arbitrary function
  of the invocation index and the event.  Core Lean only.
-/
namespace CifModel.Walk

/-- a loop as the walker sees it: `names` as `cif_loop_get_names` reports them; each packet as the list of
    (name, value) pairs in the order of the packet's map (what `walk_packet` iterates over).  No relation between the
    two is assumed. -/
structure WLoop where
  category : Option Str
  names : List Str
  packets : List (List (Str × V))
deriving Inhabited

/-- a container as the walker sees it: frames in the order of `cif_container_get_all_frames`, loops in the order of
    `cif_container_get_all_loops` -/
inductive WCont where
  | mk (code : Str) (frames : List WCont) (loops : List WLoop)
deriving Inhabited

/-- data blocks in the order of `cif_get_all_blocks` -/
abbrev WCif := List WCont

/-- the data model of Types.lean read as a walker input (item names of a packet = the loop's names, in order) -/
def WLoop.ofLoop (l : Loop) : WLoop :=
  { category := l.category, names := l.names, packets := l.packets.map (fun p => List.zip l.names p) }

mutual
  def WCont.ofContainer : Container → WCont
    | .mk code fs ls => .mk code (WCont.ofContainers fs) (ls.map WLoop.ofLoop)
  def WCont.ofContainers : List Container → List WCont
    | [] => []
    | c :: cs => WCont.ofContainer c :: WCont.ofContainers cs
end

def WCif.ofCif (c : Cif) : WCif := WCont.ofContainers c

/-- one callback invocation, with the identity of the element it is about -/
inductive Ev where
  | cifStart | cifEnd
  | blockStart (code : Str) | blockEnd (code : Str)
  | frameStart (code : Str) | frameEnd (code : Str)
  | loopStart (cat : Option Str) (names : List Str) | loopEnd (cat : Option Str) (names : List Str)
  | pktStart (items : List (Str × V)) | pktEnd (items : List (Str × V))
  | item (name : Str) (v : V)
deriving Inhabited

/-- result / navigation codes (cif.h) -/
def OK : Int := 0
def CONTINUE : Int := 0
def SKIP_CURRENT : Int := -1
def SKIP_SIBLINGS : Int := -2
def END : Int := -3
def FINISHED : Int := 1
def EMPTY_LOOP : Int := 36

/-- link to the generated table of cif.h codes -/
theorem codes_link :
    (a!"CIF_OK", 0) ∈ Gen.ErrCodes.codes ∧ (a!"CIF_FINISHED", 1) ∈ Gen.ErrCodes.codes
      ∧ (a!"CIF_EMPTY_LOOP", 36) ∈ Gen.ErrCodes.codes := by decide +kernel

/-- handler program: invocation index and event ↦ the handler's return value -/
abbrev Prog := Nat → Ev → Int

/-- walker state: number of callbacks made so far and the log, most recent first -/
structure W where
  n : Nat
  log : List Ev
deriving Inhabited

def W.init : W := ⟨0, []⟩

/-- `HANDLER_RESULT(...)` with every handler installed -/
def call (p : Prog) (w : W) (e : Ev) : Int × W := (p w.n e, { n := w.n + 1, log := e :: w.log })

/-- the item loop of walk_packet.  `none` = the end of the packet was reached (go on to packet_end);
    `some r` = walk_packet returns `r` at once -/
def walkItems (p : Prog) : List (Str × V) → W → Option Int × W
  | [], w => (none, w)
  | (nm, v) :: is, w =>
    let (r, w) := call p w (.item nm v)
    if r = CONTINUE ∨ r = SKIP_CURRENT then walkItems p is w
    else if r = SKIP_SIBLINGS then (some CONTINUE, w)
    else (some r, w)

/-- walk_packet -/
def walkPacket (p : Prog) (pk : List (Str × V)) (w : W) : Int × W :=
  let (r, w) := call p w (.pktStart pk)
  if r ≠ CONTINUE then (r, w) else
  match walkItems p pk w with
  | (some r, w) => (r, w)
  | (none, w) => call p w (.pktEnd pk)

/-- the packet iteration of walk_loop: the `stopped` flag (a handler, not the iterator, ended the iteration) and the
    value of `result` when the `while` is left (`FINISHED` when `cif_pktitr_next_packet` ran out of packets) -/
def walkPackets (p : Prog) : List (List (Str × V)) → W → Bool × Int × W
  | [], w => (false, FINISHED, w)
  | pk :: pks, w =>
    let (r, w) := walkPacket p pk w
    if r = CONTINUE ∨ r = SKIP_CURRENT then walkPackets p pks w
    else if r = SKIP_SIBLINGS then (true, CONTINUE, w)
    else (true, r, w)

/-- walk_loop -/
def walkLoop (p : Prog) (l : WLoop) (w : W) : Int × W :=
  let (r, w) := call p w (.loopStart l.category l.names)
  if r ≠ CONTINUE then (r, w) else
  if l.packets.isEmpty then (EMPTY_LOOP, w)          -- cif_loop_get_packets fails
  else
    let (stopped, r, w) := walkPackets p l.packets w
    if stopped ∨ r ≠ FINISHED then (r, w)
    else call p w (.loopEnd l.category l.names)

/-- the packet iteration as it was before fix d1128e2 (no `stopped` flag): only `result` -/
def walkPacketsPinned (p : Prog) : List (List (Str × V)) → W → Int × W
  | [], w => (FINISHED, w)
  | pk :: pks, w =>
    let (r, w) := walkPacket p pk w
    if r = CONTINUE ∨ r = SKIP_CURRENT then walkPacketsPinned p pks w
    else if r = SKIP_SIBLINGS then (CONTINUE, w)
    else (r, w)

/-- walk_loop before fix d1128e2: "iterator exhausted" was recognised by `result == CIF_FINISHED` alone, so a handler
    answering 1 was taken for the end of the iteration (finding F32, fixed) -/
def walkLoopPinned (p : Prog) (l : WLoop) (w : W) : Int × W :=
  let (r, w) := call p w (.loopStart l.category l.names)
  if r ≠ CONTINUE then (r, w) else
  if l.packets.isEmpty then (EMPTY_LOOP, w)
  else
    let (r, w) := walkPacketsPinned p l.packets w
    if r ≠ FINISHED then (r, w)
    else call p w (.loopEnd l.category l.names)

/-- the loop of walk_loops, `res` = current value of `result` -/
def walkLoopsFrom (p : Prog) : List WLoop → Int → W → Int × W
  | [], res, w => (res, w)
  | l :: ls, _, w =>
    let (r, w) := walkLoop p l w
    if r = SKIP_CURRENT ∨ r = CONTINUE then walkLoopsFrom p ls r w
    else (r, w)                                         -- handle_loops = false: `result` stays

/-- walk_loops (`result` starts as the CIF_OK of cif_container_get_all_loops) -/
def walkLoops (p : Prog) (ls : List WLoop) (w : W) : Int × W := walkLoopsFrom p ls OK w

mutual
  /-- walk_container -/
  def walkCont (p : Prog) (depth : Nat) : WCont → W → Int × W
    | .mk code frames loops, w =>
      let (r, w) := call p w (if depth = 0 then .blockStart code else .frameStart code)
      if r ≠ CONTINUE then (r, w) else
      match walkFrames p (depth + 1) frames w with
      | (some r, w) => (r, w)                            -- handle_loops = false
      | (none, w) =>
        let (r, w) := walkLoops p loops w
        if r = CONTINUE ∨ r = SKIP_CURRENT then
          call p w (if depth = 0 then .blockEnd code else .frameEnd code)
        else if r = SKIP_SIBLINGS then (CONTINUE, w)
        else (r, w)
  /-- the frame loop of walk_container: `none` = go on to the loops (handle_loops still true),
      `some r` = return `r` without looking at the loops -/
  def walkFrames (p : Prog) (depth : Nat) : List WCont → W → Option Int × W
    | [], w => (none, w)
    | f :: fs, w =>
      let (r, w) := walkCont p depth f w
      if r = CONTINUE ∨ r = SKIP_CURRENT then walkFrames p depth fs w
      else if r = SKIP_SIBLINGS then (none, w)
      else (some r, w)
end

/-- the block loop of cif_walk: `none` = all blocks handled (`handle_blocks` still true), `some r` = stopped with
    `result = r` -/
def walkBlocks (p : Prog) : List WCont → W → Option Int × W
  | [], w => (none, w)
  | b :: bs, w =>
    let (r, w) := walkCont p 0 b w
    if r = CONTINUE ∨ r = SKIP_CURRENT then walkBlocks p bs w
    else if r = SKIP_SIBLINGS ∨ r = END then (some OK, w)
    else (some r, w)

/-- cif_walk: result code and final walker state -/
def walkW (p : Prog) (c : WCif) : Int × W :=
  let (r, w) := call p W.init .cifStart
  if r = CONTINUE then
    match walkBlocks p c w with
    | (some r, w) => (r, w)
    | (none, w) =>
      let (r, w) := call p w .cifEnd
      if r = CONTINUE ∨ r = SKIP_CURRENT ∨ r = SKIP_SIBLINGS ∨ r = END then (OK, w) else (r, w)
  else if r = SKIP_CURRENT ∨ r = SKIP_SIBLINGS ∨ r = END then (OK, w)
  else (r, w)

/-- cif_walk: the callbacks made, in order, and the return value -/
def walk (p : Prog) (c : WCif) : List Ev × Int :=
  let (r, w) := walkW p c
  (w.log.reverse, r)

end CifModel.Walk
