import CifModel.Gen.ErrCodes
/-
  CifModel.Model.ErrList — what an application sees when it prints `cif_errlist[rc]`.
  The table and its size are the generated data; an index at or beyond `cif_nerr` is outside the table.
-/
namespace CifModel.Model.ErrList
open CifModel.Gen

/-- `cif_errlist[code]`, or `none` when `code ≥ cif_nerr` or beyond the initialiser (out of the table) -/
def message (code : Nat) : Option (List Nat) :=
  if code < ErrCodes.nerr then ErrCodes.errlist[code]? else none

end CifModel.Model.ErrList
