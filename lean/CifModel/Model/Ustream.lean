import CifModel.Basic
import CifModel.Gen.ErrCodes
import CifModel.Gen.CharClass
import CifModel.Gen.ParseConsts
/-
  CifModel.Model.Ustream — the BYTE-LEVEL character source of `cif_parse` (ciffile.c): `ustream_read_chars()`, the
  to-Unicode callback `ustream_to_unicode_callback()`, and the part of `cif_parse()` that sets the stream up.

  Three layers, as in the C / ICU:

  1. `Conv` — ICU's *incremental converter* as a PARAMETER: `step` = one run of the converter's inner loop
     (`cnv->sharedData->impl->toUnicode`, e.g. `ucnv_toUnicode_UTF8`) over the bytes `[source, sourceLimit)` with room for
     `cap` units in the target: units delivered, bytes consumed, new converter state, and how it stopped (`ok`: source
     exhausted; `overflow`: target full with input or converted units pending; `invalid k`: an ill-formed / unmappable
     sequence of `k` bytes has been taken out of the input and must be reported).  The contract it has to meet is `Laws`
     (prefix-incrementality, progress, overflow keeps everything).  `Trans` / `Trans.toConv` build such a converter from a
     byte-at-a-time transducer (the shape of ICU's UTF-8 / UTF-16 loops); `utf8` is the UTF-8 instance (ill-formed
     input reported per maximal subpart, as ICU >= 60 does), `utf16` the UTF-16LE/BE one.
  2. `toUnicode` — `ucnv_toUnicode()` = `_toUnicodeWithCallback()`: drain the overflow buffer, run the converter, on
     `invalid` call the callback (`ustream_to_unicode_callback`: asks the CIF error callback; answer 0 = write one
     replacement unit through `ucnv_cbToUWriteUChars` — into the target if it has room, else into the overflow buffer
     with U_BUFFER_OVERFLOW_ERROR — and go on; anything else = leave the ICU error standing).
  3. `readChars` — `ustream_read_chars()` as written: the `count <= 0 || eof_status > 0` test, the `do … while (num_read
     == 0)` loop with the refill of the 4096-byte buffer by `fread`, `eof_status` 0 / -1 / 1, `last_error`.
-/
namespace CifModel.Model.Ustream
open CifModel.Gen

/-! ### 1. the converter as a parameter -/

/-- how one run of the converter's inner loop ended -/
inductive Status
  | ok                                   -- all of the source consumed (U_ZERO_ERROR)
  | overflow                             -- U_BUFFER_OVERFLOW_ERROR: target full, something is still pending
  | invalid (k : Nat) (unassigned : Bool) -- U_ILLEGAL_CHAR_FOUND / U_TRUNCATED_CHAR_FOUND (false), U_INVALID_CHAR_FOUND (true)
deriving Repr, DecidableEq

structure StepR (σ : Type) where
  units : List Nat       -- written to the target
  used : Nat             -- bytes taken from the source
  st : σ
  status : Status

/-- what a decoder makes of a byte stream: UTF-16 units and reports of ill-formed sequences -/
inductive Ev
  | unit (u : Nat)
  | bad (k : Nat) (unassigned : Bool)
deriving Repr, DecidableEq

def Status.evs : Status → List Ev
  | .invalid k u => [.bad k u]
  | _ => []

/-- an incremental byte → UTF-16 converter.  `tail s bs` is its DENOTATION: everything still to come out of a converter in
    state `s` when `bs` is all the input that remains (to the end of the file).  `weight` is a termination measure. -/
structure Conv where
  σ : Type
  init : σ
  step : σ → List Nat → (flush : Bool) → (cap : Nat) → StepR σ
  tail : σ → List Nat → List Ev
  weight : σ → Nat

/-- the contract of an incremental converter -/
structure Laws (c : Conv) : Prop where
  /-- never more than the target holds, never more than the source holds -/
  cap_le : ∀ s bs f cap, (c.step s bs f cap).units.length ≤ cap
  used_le : ∀ s bs f cap, (c.step s bs f cap).used ≤ bs.length
  /-- PREFIX-INCREMENTALITY: whatever follows the bytes given (`more`; nothing when flushing), what the whole remaining
      input denotes = what this run delivered, its report, and what the new state denotes on the unconsumed rest -/
  sound : ∀ s bs f cap more, (f = true → more = []) →
      c.tail s (bs ++ more) = (c.step s bs f cap).units.map .unit ++ (c.step s bs f cap).status.evs
                              ++ c.tail (c.step s bs f cap).st (bs.drop (c.step s bs f cap).used ++ more)
  /-- `ok` = the source is consumed entirely … -/
  ok_drained : ∀ s bs f cap, (c.step s bs f cap).status = .ok → (c.step s bs f cap).used = bs.length
  /-- … and after a flush nothing is left in the converter -/
  ok_flushed : ∀ s bs cap, (c.step s bs true cap).status = .ok → c.tail (c.step s bs true cap).st [] = []
  /-- OVERFLOW only when the target is full (so it never loses anything: `sound` accounts for what is pending) -/
  overflow_full : ∀ s bs f cap, (c.step s bs f cap).status = .overflow → (c.step s bs f cap).units.length = cap
  /-- PROGRESS: a run that stops for a report has consumed input or simplified the state -/
  progress : ∀ s bs f cap k u, (c.step s bs f cap).status = .invalid k u →
      c.weight (c.step s bs f cap).st + 2 * (bs.length - (c.step s bs f cap).used) < c.weight s + 2 * bs.length

/-- the units an accept-all callback with replacement unit `repl` turns a denotation into -/
def render (repl : Nat) : List Ev → List Nat
  | [] => []
  | .unit u :: r => u :: render repl r
  | .bad _ _ :: r => repl :: render repl r

/-- ONE-SHOT decoding of a whole file: the denotation of the initial state, every report answered 0 -/
def decodeAll (c : Conv) (repl : Nat) (bytes : List Nat) : List Nat := render repl (c.tail c.init bytes)

/-! ### 1b. converters made from byte-at-a-time transducers -/

/-- what one byte does to a transducer -/
inductive FeedR (σ : Type)
  | emit (us : List Nat) (s : σ)        -- byte consumed; 0, 1 or 2 units completed
  | badTake (k : Nat) (s : σ)           -- byte consumed; it ends (or is) an ill-formed sequence of `k` bytes
  | badHeld (k : Nat) (s : σ)           -- byte NOT consumed: the first `k` held bytes are ill-formed; go on in state `s`

/-- byte-at-a-time transducer.  `held s` = number of bytes the state holds (`cnv->toULength`); `flushStep` = what the end
    of the input makes of a state: `some k` = the `k` held bytes are reported as ONE truncated sequence
    (U_TRUNCATED_CHAR_FOUND in `_toUnicodeWithCallback`) and the converter is reset -/
structure Trans where
  σ : Type
  init : σ
  feed : σ → Nat → FeedR σ
  held : σ → Nat
  flushStep : σ → Option Nat

structure Trans.Ok (t : Trans) : Prop where
  emit_held : ∀ s b us s', t.feed s b = .emit us s' → t.held s' ≤ t.held s + 1
  take_held : ∀ s b k s', t.feed s b = .badTake k s' → t.held s' ≤ t.held s + 1
  badHeld_lt : ∀ s b k s', t.feed s b = .badHeld k s' → t.held s' < t.held s
  badHeld_once : ∀ s b k s' k' s'', t.feed s b = .badHeld k s' → t.feed s' b ≠ .badHeld k' s''
  flush_pos : ∀ s k, t.flushStep s = some k → 0 < t.held s
  init_held : t.held t.init = 0
  init_flush : t.flushStep t.init = none

/-- state of the converter built from a transducer: the units that did not fit into the target
    (`cnv->UCharErrorBuffer`, e.g. the trail surrogate of a pair whose lead took the last slot) and the transducer state -/
structure TS (t : Trans) where
  pend : List Nat
  s : t.σ

/-- the inner loop (`while (mySource < sourceLimit && myTarget < targetLimit)`), one byte per iteration -/
def Trans.run (t : Trans) : t.σ → List Nat → Bool → Nat → StepR (TS t)
  | s, [], flush, _ =>
    if flush = true then
      match t.flushStep s with
      | some k => ⟨[], 0, ⟨[], t.init⟩, .invalid k false⟩
      | none => ⟨[], 0, ⟨[], s⟩, .ok⟩
    else ⟨[], 0, ⟨[], s⟩, .ok⟩
  | s, b :: rest, flush, room =>
    if room = 0 then ⟨[], 0, ⟨[], s⟩, .overflow⟩
    else
      match t.feed s b with
      | .emit us s' =>
        if us.length ≤ room then
          let q := t.run s' rest flush (room - us.length)
          ⟨us ++ q.units, q.used + 1, q.st, q.status⟩
        else ⟨us.take room, 1, ⟨us.drop room, s'⟩, .overflow⟩
      | .badTake k s' => ⟨[], 1, ⟨[], s'⟩, .invalid k false⟩
      | .badHeld k s' => ⟨[], 0, ⟨[], s'⟩, .invalid k false⟩

/-- denotation of a transducer state over the remaining input -/
def Trans.evs (t : Trans) : t.σ → List Nat → List Ev
  | s, [] => match t.flushStep s with
    | some k => [.bad k false]
    | none => []
  | s, b :: rest =>
    match t.feed s b with
    | .emit us s' => us.map .unit ++ t.evs s' rest
    | .badTake k s' => .bad k false :: t.evs s' rest
    | .badHeld k s' =>
      .bad k false ::
        (match t.feed s' b with
         | .emit us s'' => us.map .unit ++ t.evs s'' rest
         | .badTake k' s'' => .bad k' false :: t.evs s'' rest
         | .badHeld _ _ => [])          -- excluded by `Trans.Ok.badHeld_once`

def Trans.toConv (t : Trans) : Conv where
  σ := TS t
  init := ⟨[], t.init⟩
  step := fun st bs flush cap =>
    if cap < st.pend.length then ⟨st.pend.take cap, 0, ⟨st.pend.drop cap, st.s⟩, .overflow⟩
    else
      let q := t.run st.s bs flush (cap - st.pend.length)
      ⟨st.pend ++ q.units, q.used, q.st, q.status⟩
  tail := fun st bs => st.pend.map .unit ++ t.evs st.s bs
  weight := fun st => t.held st.s

/-! ### 1c. UTF-8 (ICU's `ucnv_toUnicode_UTF8`: ill-formed input is reported per maximal subpart) -/

def isCont (b : Nat) : Bool := 0x80 ≤ b && b ≤ 0xBF

/-- `icu::UTF8::isValidTrail` for the SECOND byte of a sequence with lead `l` (Unicode Table 3-7) -/
def validSecond (l b : Nat) : Bool :=
  if l = 0xE0 then 0xA0 ≤ b && b ≤ 0xBF
  else if l = 0xED then 0x80 ≤ b && b ≤ 0x9F
  else if l = 0xF0 then 0x90 ≤ b && b ≤ 0xBF
  else if l = 0xF4 then 0x80 ≤ b && b ≤ 0x8F
  else isCont b

/-- the UTF-16 form of a code point -/
def utf16Units (cp : Nat) : List Nat :=
  if cp < 0x10000 then [cp] else [0xD800 + (cp - 0x10000) / 0x400, 0xDC00 + (cp - 0x10000) % 0x400]

/-- state = the bytes of the sequence begun (`toUBytes[0 .. toULength)`) -/
def utf8Feed (h : List Nat) (b : Nat) : FeedR (List Nat) :=
  match h with
  | [] =>
    if b < 0x80 then .emit [b] []
    else if 0xC2 ≤ b ∧ b ≤ 0xF4 then .emit [] [b]           -- U8_IS_LEAD
    else .badTake 1 []                                      -- trail byte, C0, C1, F5..FF: U8_COUNT_BYTES_NON_ASCII = 0
  | [l] =>
    if validSecond l b = true then
      if l < 0xE0 then .emit [(l - 0xC0) * 0x40 + (b - 0x80)] [] else .emit [] [l, b]
    else .badHeld 1 []
  | [l, m] =>
    if isCont b = true then
      if l < 0xF0 then .emit [(l - 0xE0) * 0x1000 + (m - 0x80) * 0x40 + (b - 0x80)] [] else .emit [] [l, m, b]
    else .badHeld 2 []
  | [l, m, n] =>
    if isCont b = true then
      .emit (utf16Units ((l - 0xF0) * 0x40000 + (m - 0x80) * 0x1000 + (n - 0x80) * 0x40 + (b - 0x80))) []
    else .badHeld 3 []
  | _ => .badHeld h.length []                               -- unreachable: at most three bytes are ever held

def utf8T : Trans where
  σ := List Nat
  init := []
  feed := utf8Feed
  held := List.length
  flushStep := fun h => if h = [] then none else some h.length

/-- the UTF-8 converter (`ucnv_open("UTF-8")`) -/
def utf8 : Conv := utf8T.toConv

/-! ### 1d. UTF-16LE / UTF-16BE (ICU's `_UTF16LEToUnicodeWithOffsets` / `_UTF16BEToUnicodeWithOffsets`) -/

def isLead (u : Nat) : Bool := 0xD800 ≤ u && u ≤ 0xDBFF
def isTrail (u : Nat) : Bool := 0xDC00 ≤ u && u ≤ 0xDFFF

/-- the code unit made of two successive bytes -/
def unit16 (be : Bool) (x y : Nat) : Nat := if be = true then x * 256 + y else y * 256 + x

/-- state = the bytes held: one byte of a unit, a lead surrogate (2), a lead surrogate and one byte (3).  An unmatched
    lead is reported alone and the unit after it is read again (ICU backs the source up, or keeps the byte it had
    already taken in `toUnicodeStatus`). -/
def utf16Feed (be : Bool) (h : List Nat) (b : Nat) : FeedR (List Nat) :=
  match h with
  | [] => .emit [] [b]
  | [x] =>
    if isLead (unit16 be x b) = true then .emit [] [x, b]
    else if isTrail (unit16 be x b) = true then .badTake 2 []
    else .emit [unit16 be x b] []
  | [x, y] => .emit [] [x, y, b]
  | [x, y, z] =>
    if isTrail (unit16 be z b) = true then .emit [unit16 be x y, unit16 be z b] [] else .badHeld 2 [z]
  | _ => .badHeld h.length []                               -- unreachable

def utf16T (be : Bool) : Trans where
  σ := List Nat
  init := []
  feed := utf16Feed be
  held := List.length
  flushStep := fun h => if h = [] then none else some h.length

/-- `ucnv_open("UTF-16BE")` (`be`) / `ucnv_open("UTF-16LE")` -/
def utf16 (be : Bool) : Conv := (utf16T be).toConv

/-! ### 2. `ucnv_toUnicode` with the CIF callback -/

/-- the CIF error callback as the character source sees it: 0-based index of the report and its code ↦ answer -/
abbrev Policy := Nat → Nat → Int

def acceptAll : Policy := fun _ _ => 0

/-- converter object: ICU's overflow buffer as far as the callback's replacement unit is concerned + the converter proper -/
structure CS (c : Conv) where
  ovf : List Nat
  core : c.σ

inductive IStatus
  | ok | overflow | failed | nofuel
deriving Repr, DecidableEq

structure IcuR (c : Conv) where
  units : List Nat
  used : Nat
  st : CS c
  status : IStatus
  reports : List Nat     -- codes handed to the error callback, in order
  lastErr : Int          -- `ustream->last_error` afterwards

/-- the `for (;;)` of `_toUnicodeWithCallback`: converter run, callback on error, again.  `nrep` = reports made before. -/
def convLoop (c : Conv) (pol : Policy) (repl : Nat) :
    Nat → Nat → c.σ → List Nat → Bool → Nat → Int → IcuR c
  | 0, _, s, _, _, _, le => ⟨[], 0, ⟨[], s⟩, .nofuel, [], le⟩
  | fuel + 1, nrep, s, src, flush, room, le =>
    let r := c.step s src flush room
    match r.status with
    | .ok => ⟨r.units, r.used, ⟨[], r.st⟩, .ok, [], le⟩
    | .overflow => ⟨r.units, r.used, ⟨[], r.st⟩, .overflow, [], le⟩
    | .invalid _ una =>
      -- ustream_to_unicode_callback: reason UCNV_UNASSIGNED → CIF_UNMAPPED_CHAR, UCNV_ILLEGAL / IRREGULAR → CIF_INVALID_CHAR
      let code := if una = true then ErrCodes.CIF_UNMAPPED_CHAR else ErrCodes.CIF_INVALID_CHAR
      let ans := pol nrep code
      if ans ≠ 0 then ⟨r.units, r.used, ⟨[], r.st⟩, .failed, [code], ans⟩
      else if r.units.length < room then
        -- ucnv_cbToUWriteUChars(args, &repl, 1, …): there is room in the target
        let q := convLoop c pol repl fuel (nrep + 1) r.st (src.drop r.used) flush (room - r.units.length - 1) 0
        ⟨r.units ++ repl :: q.units, r.used + q.used, q.st, q.status, code :: q.reports, q.lastErr⟩
      else
        -- target full: the unit goes to the overflow buffer, U_BUFFER_OVERFLOW_ERROR
        ⟨r.units, r.used, ⟨[repl], r.st⟩, .overflow, [code], 0⟩

/-- `ucnv_toUnicode(converter, &target, target + cap, &source, sourceLimit, NULL, flush, &err)` -/
def toUnicode (c : Conv) (pol : Policy) (repl : Nat) (nrep : Nat) (st : CS c) (src : List Nat) (flush : Bool)
    (cap : Nat) (le : Int) : IcuR c :=
  if cap < st.ovf.length then
    -- ucnv_outputOverflowToUnicode: the target fills before the overflow buffer is empty
    ⟨st.ovf.take cap, 0, ⟨st.ovf.drop cap, st.core⟩, .overflow, [], le⟩
  else
    let q := convLoop c pol repl (c.weight st.core + 2 * src.length + 1) nrep st.core src flush (cap - st.ovf.length) le
    ⟨st.ovf ++ q.units, q.used, q.st, q.status, q.reports, q.lastErr⟩

/-! ### 3. `ustream_read_chars` -/

/-- `uchar_stream_t` (+ the file behind `byte_stream`, + the number of reports made so far, + a ghost count of the bytes
    the converter has taken) -/
structure UState (c : Conv) where
  file : List Nat        -- bytes `fread` has not delivered yet
  buf : List Nat         -- `[buffer_position, buffer_limit)`
  cs : CS c
  eof : Int              -- `eof_status`: 0, -1 (end of file seen, data may be pending), 1 (all converted)
  lastErr : Int
  nrep : Nat
  fed : Nat

structure CallR (c : Conv) where
  ret : Int              -- return value (-2 = the model ran out of fuel; `C03_ustream_total`: never)
  err : Int              -- what the call wrote to `*error_code` (0 = nothing written)
  units : List Nat
  reports : List Nat
  st : UState c

/-- the refill: `bytes_read = fread(byte_buffer, 1, buffer_size, byte_stream)`; a short count without `ferror` = end of
    file (the I/O-error return is not modelled) -/
def refill {c : Conv} (B : Nat) (u : UState c) : UState c :=
  { u with file := u.file.drop B, buf := u.file.take B,
           eof := if (u.file.take B).length < B then -1 else u.eof }

/-- the `do { … } while (num_read == 0)` loop; `count ≥ 1` -/
def readLoop (c : Conv) (pol : Policy) (repl : Nat) (B : Nat) : Nat → UState c → Nat → CallR c
  | 0, u, _ => ⟨-2, 0, [], [], u⟩
  | fuel + 1, u, count =>
    let u1 := if u.buf = [] ∧ u.eof = 0 then refill B u else u
    let r := toUnicode c pol repl u1.nrep u1.cs u1.buf (u1.eof != 0) count u1.lastErr
    let u2 : UState c :=
      { u1 with buf := u1.buf.drop r.used, cs := r.st, nrep := u1.nrep + r.reports.length, lastErr := r.lastErr,
                fed := u1.fed + r.used }
    match r.status with
    | .overflow => ⟨r.units.length, 0, r.units, r.reports, u2⟩                       -- break; return num_read
    | .failed => ⟨-1, if u2.lastErr = 0 then ErrCodes.CIF_ERROR else u2.lastErr, [], r.reports, u2⟩
    | .nofuel => ⟨-2, 0, [], r.reports, u2⟩
    | .ok =>
      if u2.eof ≠ 0 then ⟨r.units.length, 0, r.units, r.reports, { u2 with eof := 1 }⟩
      else if r.units.length = 0 then
        let q := readLoop c pol repl B fuel u2 count
        { q with reports := r.reports ++ q.reports }
      else ⟨r.units.length, 0, r.units, r.reports, u2⟩

/-- `ustream_read_chars(char_source, dest, count, &error_code)` -/
def readChars (c : Conv) (pol : Policy) (repl : Nat) (B : Nat) (u : UState c) (count : Int) : CallR c :=
  if count ≤ 0 ∨ u.eof > 0 then ⟨0, 0, [], [], u⟩
  else readLoop c pol repl B (u.file.length + 2) u count.toNat

/-- successive calls (as `get_first_char` / `get_more_chars` make them); nothing is called after a negative return -/
def runCalls (c : Conv) (pol : Policy) (repl : Nat) (B : Nat) : UState c → List Int → List (CallR c)
  | _, [] => []
  | u, n :: ns =>
    let r := readChars c pol repl B u n
    r :: (if r.ret < 0 then [] else runCalls c pol repl B r.st ns)

/-- the set-up part of `cif_parse()`: with `sniffed` the first `fread` of BUFFER_SIZE bytes (made to look for a signature
    and a magic code) is already in the buffer — the BOM, if any, is NOT skipped: it is decoded and dealt with by
    `cif_parse_internal` —; with `force_default_encoding` nothing has been read (`count = 0`).  `eof_status = 0` in both
    cases, even when the first read was short. -/
def initStream (c : Conv) (B : Nat) (bytes : List Nat) (sniffed : Bool) : UState c :=
  if sniffed = true then ⟨bytes.drop B, bytes.take B, ⟨[], c.init⟩, 0, 0, 0, 0⟩
  else ⟨bytes, [], ⟨[], c.init⟩, 0, 0, 0, 0⟩

/-- the replacement unit `ustream_to_unicode_callback` writes: `(scanner->cif_version >= 2) ? REPL_CHAR : REPL1_CHAR` -/
def replFor (cifVersion : Int) : Nat := if cifVersion ≥ 2 then CharClass.REPL_CHAR else CharClass.REPL1_CHAR

/-- the buffer size of `cif_parse` (re-read from the source on every run) -/
def bufferSize : Nat := ParseConsts.byteBufferSize

end CifModel.Model.Ustream
