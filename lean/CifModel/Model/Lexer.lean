import CifModel.Model.Chars
import CifModel.Gen.ErrCodes
/-
  CifModel.Model.Lexer — executable model of the CIF scanner of src/parser.c:
  next_token, scan_ws, scan_to_ws, scan_to_eol, scan_unquoted, scan_delim_string, scan_triple_delim_string, scan_text,
  SCAN_UCHAR / HANDLE_UNPAIRED_LEAD, HANDLE_EOL, reserved-word reclassification, KEY/TKEY colon peek, line/column
  bookkeeping, and every error_callback call site inside those functions.

  The scanner is modelled over a complete input `Str` (buffer management — get_more_chars, text_start rebasing — is
  another module's; `get_more_chars` only ever appears here as "no more units").  The C mutates the buffer when it
  recovers from unpaired surrogates (the unit is overwritten with a replacement character); the model therefore
  accumulates the token text (`acc`, newest unit first) as the buffer holds it after the scan.

  Error reporting: `L α` threads the callback policy and the log.  `report` appends to the log and aborts with the
  callback's return value iff that value is non-zero — exactly `if ((ev = callback(...)) != 0) return ev`.
  Core Lean only.
-/
namespace CifModel.Model.Lexer
open CifModel CifModel.Model.Chars
open CifModel.Gen.ErrCodes (CIF_INVALID_CHAR CIF_DISALLOWED_CHAR CIF_MISSING_SPACE CIF_MISSING_ENDQUOTE CIF_UNCLOSED_TEXT
  CIF_OVERLENGTH_LINE CIF_RESERVED_WORD)

/-! ### reports, policy, the reporting monad -/

/-- one invocation of the error callback: code, line, column (as passed by the C) -/
structure Report where
  code : Code
  line : Nat
  col : Nat
deriving DecidableEq, Repr, Inhabited

/-- what the callback answers on its `k`-th invocation (0-based) for report `r`; non-zero aborts the scan -/
abbrev Policy := Nat → Report → Int

def acceptAll : Policy := fun _ _ => 0
/-- `cif_parse_error_die` -/
def dieAll : Policy := fun _ r => r.code
/-- accept everything except the `k`-th invocation, which is answered with the error code -/
def rejectAt (k : Nat) : Policy := fun i r => if i = k then r.code else 0

/-- outcome of a scanner action: normal completion, or abort with the callback's non-zero answer.
    `log` is the list of reports so far, NEWEST FIRST (`log.length` = number of callback invocations so far). -/
inductive Res (α : Type) where
  | ok (a : α) (log : List Report)
  | abort (rv : Int) (log : List Report)
deriving Repr

def L (α : Type) := Policy → List Report → Res α

@[inline] def L.pure {α} (a : α) : L α := fun _ log => .ok a log
@[inline] def L.bind {α β} (m : L α) (f : α → L β) : L β := fun pol log =>
  match m pol log with
  | .ok a log' => f a pol log'
  | .abort rv log' => .abort rv log'

instance : Monad L where
  pure := L.pure
  bind := L.bind

/-- `ev = scanner->error_callback(code, line, column, …); if (ev != 0) return ev;` -/
def report (code : Code) (line col : Nat) : L Unit := fun pol log =>
  let r : Report := ⟨code, line, col⟩
  let rv := pol log.length r
  if rv = 0 then .ok () (r :: log) else .abort rv (r :: log)

/-- `if (cond) report …` -/
@[inline] def reportIf (cond : Bool) (code : Code) (line col : Nat) : L Unit :=
  if cond then report code line col else pure ()

/-! ### tokens and scanner state -/

/-- a token as the parser sees it after `next_token` returned: type, value text (`tvalue_start`, `tvalue_length`),
    and `scanner->line` / `scanner->column` at that moment (i.e. the position just AFTER the token) -/
structure Tok where
  ty : TokType
  text : Str
  line : Nat
  col : Nat
deriving DecidableEq, Repr, Inhabited

/-- `scanner_s` without the buffer: the input from `next_char` on (the current token already consumed),
    line, column, and the type of the most recent token (`scanner->ttype`) -/
structure Scan where
  rest : Str
  line : Nat
  col : Nat
  lastType : TokType
deriving DecidableEq, Repr, Inhabited

/-- state after INIT_V2_SCANNER: line 1, column 0, ttype END -/
def Scan.init (input : Str) : Scan := ⟨input, 1, 0, .end_⟩

def lineLength : Nat := 2048          -- CIF_LINE_LENGTH   (link: `consts_link` in Lemmas/CharsLink.lean)
def cif1MaxChar : Nat := 0x7E         -- CIF1_MAX_CHAR
def eofChar : Nat := 0xFFFF           -- EOF_CHAR
def colon : CU := 0x3A
def replChar (dia : Dialect) : CU := match dia with | .cif2 => 0xFFFD | .cif1 => 0x2A   -- REPL_CHAR / REPL1_CHAR

/-! ### SCAN_UCHAR / HANDLE_UNPAIRED_LEAD -/

/-- result of scanning one code unit: the unit as it now stands in the buffer, whether the PREVIOUS unit (an unpaired
    lead surrogate) was overwritten with the replacement character, the new column, the new lead-surrogate flag -/
structure UStep where
  c : CU
  fixPrev : Bool
  col : Nat
  lead : Bool
deriving DecidableEq, Repr

/-- the "disallowed BMP character" test of SCAN_UCHAR -/
def disallowedBmp (dia : Dialect) (c : CU) : Bool :=
  if c < 160 then classOf dia c == .no
  else (c / 2 == 0x7FFF) || c == 0xFEFF || (0xFDD0 ≤ c && c ≤ 0xFDEF)

/-- SCAN_UCHAR(s, c, lead_fl, ev).  `prev` = `*(next_char - 1)`; `col` = column before the unit. -/
def scanUChar (dia : Dialect) (line col : Nat) (prev c : CU) (lead : Bool) : L UStep := do
  let col1 := col + 1
  if isTrail c then
    if lead then
      -- `((c & 0xfffe) == 0xdffe) && ((prev & 0xfc3f) == 0xd83f)`: a supplementary-plane not-a-character
      reportIf ((c / 2 == 0x6FFF) && (prev / 1024 == 54 && prev % 64 == 63)) CIF_DISALLOWED_CHAR line col1
      pure ⟨c, false, col1 - 1, false⟩
    else
      report CIF_INVALID_CHAR line col1            -- unpaired trail surrogate; replaced
      pure ⟨replChar dia, false, col1, false⟩
  else
    reportIf (disallowedBmp dia c) CIF_DISALLOWED_CHAR line col1
    reportIf (dia == .cif1 && decide (c > cif1MaxChar)) CIF_DISALLOWED_CHAR line col1
    reportIf lead CIF_INVALID_CHAR line col1       -- HANDLE_UNPAIRED_LEAD: the previous unit is replaced
    pure ⟨c, lead, col1, isLead c⟩

/-- the buffer edit of HANDLE_UNPAIRED_LEAD on the accumulated token text -/
def fixAcc (dia : Dialect) (fix : Bool) (acc : Str) : Str :=
  if fix then (match acc with | [] => [] | _ :: t => replChar dia :: t) else acc

/-- HANDLE_UNPAIRED_LEAD_OR_FAIL at end of input -/
def leadAtEof (dia : Dialect) (line col : Nat) (lead : Bool) (acc : Str) : L Str := do
  reportIf lead CIF_INVALID_CHAR line col
  pure (fixAcc dia lead acc)

/-! ### HANDLE_EOL -/

/-- HANDLE_EOL(s, ch, state): `col` = characters scanned so far on the line (terminator excluded).
    Returns (line', column' = 0, state'). -/
def handleEol (line col sol : Nat) (c : CU) : L (Nat × Nat × Nat) := do
  reportIf (decide (col > lineLength)) CIF_OVERLENGTH_LINE line col
  let sol' := (sol * 4 + (if c = 10 then 1 else if c = 13 then 2 else 3)) % 16
  pure (line + (if sol' = 9 then 0 else 1), 0, sol')

/-! ### the scan functions (structural recursion over the remaining input) -/

/-- position after a scan: remaining input, line, column -/
structure Pos where
  rest : Str
  line : Nat
  col : Nat
deriving DecidableEq, Repr

/-- scan_ws -/
def scanWs (dia : Dialect) : Str → Nat → Nat → Nat → L Pos
  | [], line, col, _ => pure ⟨[], line, col⟩
  | c :: r, line, col, sol =>
    if classOf dia c = .ws then scanWs dia r line (col + 1) 0
    else if classOf dia c = .eol then do
      let (l', c', s') ← handleEol line col sol c
      scanWs dia r l' c' s'
    else pure ⟨c :: r, line, col⟩

/-- result of a token scan: accumulated text (newest first), position after it -/
structure Scanned where
  acc : Str
  pos : Pos
deriving DecidableEq, Repr

/-- scan_to_ws (data names) -/
def scanToWs (dia : Dialect) : Str → Nat → Nat → Bool → Str → L Scanned
  | [], line, col, lead, acc => do
    let acc ← leadAtEof dia line col lead acc
    pure ⟨acc, ⟨[], line, col⟩⟩
  | c :: r, line, col, lead, acc => do
    let u ← scanUChar dia line col (acc.headD 0) c lead
    let acc := fixAcc dia u.fixPrev acc
    if metaOf dia u.c = .ws then pure ⟨acc, ⟨u.c :: r, line, u.col - 1⟩⟩      -- BACK_UP
    else scanToWs dia r line u.col u.lead (u.c :: acc)

/-- scan_to_eol (comments) -/
def scanToEol (dia : Dialect) : Str → Nat → Nat → Bool → Str → L Scanned
  | [], line, col, lead, acc => do
    let acc ← leadAtEof dia line col lead acc
    pure ⟨acc, ⟨[], line, col⟩⟩
  | c :: r, line, col, lead, acc => do
    let u ← scanUChar dia line col (acc.headD 0) c lead
    let acc := fixAcc dia u.fixPrev acc
    if classOf dia u.c = .eol then pure ⟨acc, ⟨u.c :: r, line, u.col - 1⟩⟩     -- BACK_UP
    else scanToEol dia r line u.col u.lead (u.c :: acc)

/-- `data_classes[k]` / `save_classes[k]` of scan_unquoted -/
def dataCls (k : Nat) : Cls := match k with | 0 => .d | 1 => .a | 2 => .t | 3 => .a | _ => .undersc
def saveCls (k : Nat) : Cls := match k with | 0 => .s | 1 => .a | 2 => .v | 3 => .e | _ => .undersc

/-- scan_unquoted.  `k` = `offset` of the unit about to be scanned; `kd`/`ks` = the data_/save_ bits of `kw_flags`. -/
def scanUnquoted (dia : Dialect) : Str → Nat → Nat → Bool → Str → Nat → Bool → Bool → L Scanned
  | [], line, col, lead, acc, _, _, _ => do
    let acc ← leadAtEof dia line col lead acc
    pure ⟨acc, ⟨[], line, col⟩⟩
  | c :: r, line, col, lead, acc, k, kd, ks => do
    let u ← scanUChar dia line col (acc.headD 0) c lead
    let acc := fixAcc dia u.fixPrev acc
    let cls := classOf dia u.c
    match metaOfCls cls with
    | .general =>
      let kd' := if k < 5 then kd && (cls == dataCls k) else kd
      let ks' := if k < 5 then ks && (cls == saveCls k) else ks
      scanUnquoted dia r line u.col u.lead (u.c :: acc) (k + 1) kd' ks'
    | .open_ =>
      if (!kd && !ks) || decide (k < 5) then do
        report CIF_MISSING_SPACE line u.col
        pure ⟨acc, ⟨u.c :: r, line, u.col - 1⟩⟩                                   -- BACK_UP
      else scanUnquoted dia r line u.col u.lead (u.c :: acc) (k + 1) kd ks
    | .close =>
      if (!kd && !ks) || decide (k < 5) then pure ⟨acc, ⟨u.c :: r, line, u.col - 1⟩⟩   -- BACK_UP
      else scanUnquoted dia r line u.col u.lead (u.c :: acc) (k + 1) kd ks
    | .ws =>
      if u.c ≠ eofChar then pure ⟨acc, ⟨u.c :: r, line, u.col - 1⟩⟩                -- BACK_UP
      else pure ⟨u.c :: acc, ⟨r, line, u.col⟩⟩
    | .no => scanUnquoted dia r line u.col u.lead (u.c :: acc) (k + 1) kd ks

/-- scan_triple_delim_string.  `dcount` = `delim_count`, `sol` = the HANDLE_EOL state.
    Result text = everything after the opening delimiter, minus the closing delimiter (if any). -/
def scanTriple (dia : Dialect) (delim : CU) : Str → Nat → Nat → Bool → Str → Nat → Nat → L Scanned
  | [], line, col, lead, acc, _, _ => do
    let acc ← leadAtEof dia line col lead acc
    report CIF_UNCLOSED_TEXT line col
    pure ⟨acc, ⟨[], line, col⟩⟩
  | c :: r, line, col, lead, acc, dcount, sol => do
    let u ← scanUChar dia line col (acc.headD 0) c lead
    let acc := u.c :: fixAcc dia u.fixPrev acc
    if u.c = delim then
      if dcount + 1 ≥ 3 then pure ⟨acc.drop 3, ⟨r, line, u.col⟩⟩
      else scanTriple dia delim r line u.col u.lead acc (dcount + 1) sol
    else if classOf dia u.c = .eol then do
      let (l', c', s') ← handleEol line (u.col - 1) sol u.c           -- the terminator does not count (fix 4b875ef)
      scanTriple dia delim r l' c' u.lead acc 0 s'
    else scanTriple dia delim r line u.col u.lead acc 0 0

/-- scan_delim_string.  `first` ⇔ `next_char - text_start == 2` will hold after the unit about to be scanned. -/
def scanDelim (dia : Dialect) (delim : CU) : Str → Nat → Nat → Bool → Str → Bool → L Scanned
  | [], line, col, lead, acc, _ => do
    let acc ← leadAtEof dia line col lead acc
    report CIF_MISSING_ENDQUOTE line col
    pure ⟨acc, ⟨[], line, col⟩⟩
  | c :: r, line, col, lead, acc, first => do
    let u ← scanUChar dia line col (acc.headD 0) c lead
    let acc := fixAcc dia u.fixPrev acc
    if u.c = delim then
      match r with
      | [] => pure ⟨acc, ⟨[], line, u.col⟩⟩                                      -- PEEK_CHAR: CIF_EOF
      | d :: r' =>
        if dia = .cif1 then
          if metaOf dia d ≠ .ws then scanDelim dia delim r line u.col u.lead (u.c :: acc) false   -- part of the value
          else pure ⟨acc, ⟨r, line, u.col⟩⟩
        else if first && d == delim then
          scanTriple dia delim r' line (u.col + 1) false [] 0 0                   -- third delimiter (counted since 178c6d5)
        else pure ⟨acc, ⟨r, line, u.col⟩⟩
    else if classOf dia u.c = .eol then do
      report CIF_MISSING_ENDQUOTE line (u.col - 1)                                -- after BACK_UP
      pure ⟨acc, ⟨u.c :: r, line, u.col - 1⟩⟩
    else scanDelim dia delim r line u.col u.lead (u.c :: acc) false

/-- scan_text.  Result text = everything after the opening `;`, minus the closing (CR) LF `;` (if any). -/
def scanText (dia : Dialect) : Str → Nat → Nat → Bool → Str → Nat → L Scanned
  | [], line, col, lead, acc, _ => do
    let acc ← leadAtEof dia line col lead acc
    report CIF_UNCLOSED_TEXT line col
    pure ⟨acc, ⟨[], line, col⟩⟩
  | c :: r, line, col, lead, acc, sol => do
    let u ← scanUChar dia line col (acc.headD 0) c lead
    let acc := u.c :: fixAcc dia u.fixPrev acc
    let cls := classOf dia u.c
    if cls = .semi then
      if sol ≠ 0 then
        let dsize := if acc.getD 1 0 = 10 ∧ acc.getD 2 0 = 13 then 3 else 2
        pure ⟨acc.drop dsize, ⟨r, line, u.col⟩⟩
      else scanText dia r line u.col u.lead acc sol
    else if cls = .eol then do
      let (l', c', s') ← handleEol line (u.col - 1) sol u.c           -- the terminator does not count (fix 4b875ef)
      scanText dia r l' c' u.lead acc s'
    else scanText dia r line u.col u.lead acc 0

/-! ### next_token -/

/-- "Any token may follow these without intervening whitespace" -/
def afterWsOf (t : TokType) : Bool :=
  t == .olist || t == .otable || t == .key || t == .tkey || t == .end_

/-- classification of a whitespace-delimited token (the reserved-word block of next_token) -/
inductive Kw | value | blockHead | frameHead | frameTerm | loopKw | reserved
deriving DecidableEq, Repr

def classify (dia : Dialect) (t : Str) : Kw :=
  let cl (i : Nat) : Cls := classOf dia (t.getD i 0)
  let n := t.length
  if n > 4 ∧ cl 4 = .undersc then
    if cl 0 = .d ∧ cl 1 = .a ∧ cl 2 = .t ∧ cl 3 = .a then
      (if n = 5 then .reserved else .blockHead)
    else if cl 0 = .s ∧ cl 1 = .a ∧ cl 2 = .v ∧ cl 3 = .e then
      (if n = 5 then .frameTerm else .frameHead)
    else if n = 5 ∧ cl 2 = .o ∧ cl 3 = .p then
      (if cl 0 = .l ∧ cl 1 = .o then .loopKw
       else if cl 0 = .s ∧ cl 1 = .t then .reserved
       else .value)
    else .value
  else if n = 7 ∧ cl 6 = .undersc ∧ cl 0 = .g ∧ cl 1 = .l ∧ cl 2 = .o ∧ cl 3 = .b ∧ cl 4 = .a ∧ cl 5 = .l then .reserved
  else .value

/-- one iteration of next_token's scan loop: either a token, or "nothing yet" (whitespace, a comment or a dropped
    reserved word was consumed) with the new `after_ws` flag -/
inductive Step where
  | tok (t : Tok) (p : Pos)
  | skip (afterWs : Bool) (p : Pos)
deriving Repr

def mkTok (ty : TokType) (text : Str) (p : Pos) : Step := .tok ⟨ty, text, p.line, p.col⟩ p

/-- the reserved-word reclassification of a VALUE token with text `t` ending at `p` -/
def finishUnquoted (dia : Dialect) (afterWs : Bool) (t : Str) (p : Pos) : L Step :=
  match classify dia t with
  | .value => pure (mkTok .value t p)
  | .blockHead => pure (mkTok .blockHead (t.drop 5) p)
  | .frameHead => pure (mkTok .frameHead (t.drop 5) p)
  | .frameTerm => pure (mkTok .frameTerm (t.drop 5) p)
  | .loopKw => pure (mkTok .loopKw (t.drop 5) p)
  | .reserved => do
    report CIF_RESERVED_WORD p.line (p.col - t.length)
    pure (.skip afterWs p)                          -- CONSUME_TOKEN; the loop goes on

/-- peek for the ':' that turns a quoted string / text field into a table key -/
def keyPeek (ifKey otherwise : TokType) (text : Str) (p : Pos) : Step :=
  match p.rest with
  | [] => mkTok otherwise text p
  | c :: r => if c = colon then mkTok ifKey text ⟨r, p.line, p.col + 1⟩      -- the colon is counted since 178c6d5
              else mkTok otherwise text p

/-- body of the `while` loop of next_token, input not exhausted: first unit `c`, then `r` -/
def stepTok (dia : Dialect) (afterWs : Bool) (c : CU) (r : Str) (line col : Nat) : L Step := do
  let col1 := col + 1                                   -- NEXT_CHAR
  let cls := classOf dia c
  let m := metaOfCls cls
  reportIf (m != .close && m != .ws && !afterWs) CIF_MISSING_SPACE line (col1 - 1)
  if cls = .eol then do
    let p ← scanWs dia (c :: r) line (col1 - 1) 0       -- BACK_UP
    pure (.skip true p)
  else if cls = .ws then do
    let p ← scanWs dia r line col1 0
    pure (.skip true p)
  else if cls = .hash then do
    let s ← scanToEol dia r line col1 false [c]
    pure (.skip afterWs s.pos)
  else if cls = .undersc then do
    let s ← scanToWs dia r line col1 false [c]
    pure (mkTok .name s.acc.reverse s.pos)
  else if cls = .obrak then pure (mkTok .olist [c] ⟨r, line, col1⟩)
  else if cls = .cbrak then pure (mkTok .clist [c] ⟨r, line, col1⟩)
  else if cls = .ocurl then pure (mkTok .otable [c] ⟨r, line, col1⟩)
  else if cls = .ccurl then pure (mkTok .ctable [c] ⟨r, line, col1⟩)
  else if cls = .quote then do
    let s ← scanDelim dia c r line col1 false [] true
    pure (keyPeek .key .qvalue s.acc.reverse s.pos)
  else if cls = .semi then
    if col1 = 1 then do
      let s ← scanText dia r line col1 false [] 0
      if dia = .cif2 then pure (keyPeek .tkey .tvalue s.acc.reverse s.pos)
      else pure (mkTok .tvalue s.acc.reverse s.pos)
    else do
      let s ← scanUnquoted dia (c :: r) line (col1 - 1) false [] 0 true true   -- BACK_UP (since a4a1f62), as the default case
      finishUnquoted dia afterWs s.acc.reverse s.pos
  else do
    let s ← scanUnquoted dia (c :: r) line (col1 - 1) false [] 0 true true     -- BACK_UP
    finishUnquoted dia afterWs s.acc.reverse s.pos

/-- the `while` loop of next_token; `fuel` bounds the number of iterations (each consumes ≥ 1 unit) -/
def tokLoop (dia : Dialect) : Nat → Bool → Pos → L (Tok × Pos)
  | 0, _, p => pure (⟨.error, [], p.line, p.col⟩, p)                -- out of fuel: never reached (`tokLoop_fuel`)
  | fuel + 1, afterWs, p =>
    match p.rest with
    | [] => pure (⟨.end_, [], p.line, p.col⟩, p)                    -- NEXT_CHAR: CIF_EOF
    | c :: r => do
      let st ← stepTok dia afterWs c r p.line p.col
      match st with
      | .tok t p' => pure (t, p')
      | .skip aw p' => tokLoop dia fuel aw p'

/-- next_token on a scanner whose current token has been consumed -/
def nextToken (dia : Dialect) (s : Scan) : L (Tok × Scan) := do
  let (t, p) ← tokLoop dia (s.rest.length + 1) (afterWsOf s.lastType) ⟨s.rest, s.line, s.col⟩
  pure (t, ⟨p.rest, p.line, p.col, t.ty⟩)

/-! ### whole token streams -/

/-- repeated next_token / CONSUME_TOKEN until END or abort.  Returns the tokens (END included) in order, the return
    value of the failing call (0 if none), and the log (newest first). -/
def tokensLoop (dia : Dialect) (pol : Policy) : Nat → Scan → List Tok → List Report → List Tok × Int × List Report
  | 0, _, toks, log => (toks.reverse, 0, log)
  | fuel + 1, s, toks, log =>
    match nextToken dia s pol log with
    | .abort rv log' => (toks.reverse, rv, log')
    | .ok (t, s') log' =>
      if t.ty = .end_ then ((t :: toks).reverse, 0, log') else tokensLoop dia pol fuel s' (t :: toks) log'

/-- the token stream of `input` under policy `pol`: (tokens, return value, reports in order of occurrence) -/
def tokenizeWith (dia : Dialect) (pol : Policy) (input : Str) : List Tok × Int × List Report :=
  let (toks, rv, log) := tokensLoop dia pol (input.length + 1) (Scan.init input) [] []
  (toks, rv, log.reverse)

/-- the whole token stream under accept-all, with the reports in order of occurrence -/
def tokenize (dia : Dialect) (input : Str) : List Tok × List Report :=
  let (toks, _, log) := tokenizeWith dia acceptAll input
  (toks, log)

/-- the next token's type and value text, the remaining input, and the reports (accept-all), for an input that starts
    where a token may start (`lastType` = END ⇒ no whitespace required): the helper the value-level theorems use -/
def nextValue (dia : Dialect) (input : Str) : Option (TokType × Str × Str) :=
  match nextToken dia (Scan.init input) acceptAll [] with
  | .ok (t, s) [] => some (t.ty, t.text, s.rest)
  | _ => none

end CifModel.Model.Lexer
