import CifModel.Basic
import CifModel.Gen.ParseConsts
/-
  CifModel.Model.Fill — how characters get from the character source into the scanner's buffer (parser.c):
  `get_first_char`, `get_more_chars` (CR / CR LF conversion per fill, the `cr_pending` flag, the `nread` accounting) and
  the `HANDLE_EOL` line counter.  Follows the C as written; the buffer's compaction / expansion (where in the array a
  fill lands, how many units a read may ask for) is NOT modelled: the number of units each `read_func` call asks for is
  a parameter (`counts`), observed from the real code by the `fills` executor and universally quantified in the theorems.
-/
namespace CifModel.Model.Fill
open CifModel.Gen

/-- the character source (`read_func` + `char_source`): the chunks it will deliver, in order.  A call asking for
    `count` units gets the next chunk, or its first `count` units if it is longer (the rest stays first in line). -/
structure Src where
  rest : List Str
deriving Repr, DecidableEq

def Src.read (s : Src) (count : Nat) : Str × Src :=
  match s.rest with
  | [] => ([], s)
  | c :: cs => if c.length ≤ count then (c, ⟨cs⟩) else (c.take count, ⟨c.drop count :: cs⟩)

/-- everything the source still holds -/
def Src.flat (s : Src) : Str := s.rest.flatten

/-- every chunk is non-empty (a `read_func` returns 0 only at the end of the input) -/
def Src.ok (s : Src) : Prop := ∀ c ∈ s.rest, c ≠ []

/-- the two flags of `scanner_s` that the fill functions carry from call to call -/
structure FillSt where
  crPending : Bool
  atEof : Bool
deriving Repr, DecidableEq

/-! ### get_first_char -/

/-- `get_first_char()`: reads ONE unit; if it is a CR it is stored as LF and ONE more unit is read: an LF is swallowed
    (the buffer limit does not cover it), anything else is kept **as read** — unless `foldSecondCR` (the proposed repair of
    finding G1, selected by `Gen.ParseConsts.firstCharFoldsSecondCR`), in which case a second CR is stored as LF and
    marked pending.  `none` = `CIF_EOF` (no unit at all).  Result: the valid buffer region, the flags, the source.
    (The `CIF_DISALLOWED_INITIAL_CHAR` report of this function does not touch the buffer and is not modelled here.) -/
def getFirstChar (foldSecondCR : Bool) (src : Src) : Option (Str × FillSt × Src) :=
  let r1 := src.read 1
  if r1.1 = [] then none                                     -- nread == 0: at_eof, CIF_EOF
  else
    let ch := r1.1.headD 0
    if ch = 13 then
      let r2 := r1.2.read 1
      if r2.1 = [] then some ([10], ⟨false, true⟩, r2.2)       -- at_eof raised, one unit provided
      else
        let b1 := r2.1.headD 0
        if b1 ≠ 10 then
          if foldSecondCR = true ∧ b1 = 13 then some ([10, 10], ⟨true, false⟩, r2.2)
          else some ([10, b1], ⟨false, false⟩, r2.2)           -- buffer_limit = 2, buffer[1] as read
        else some ([10], ⟨false, false⟩, r2.2)                 -- the LF is consumed: buffer_limit = 1
    else some ([ch], ⟨false, false⟩, r1.2)

/-! ### get_more_chars: conversion of one fill -/

/-- the `u_memchr(lead, CR)` loop used by both conversion phases: walks over `l`; a CR that is not followed *within the
    fill* by an LF is overwritten with LF; stops at the first CR that is followed by LF.  Result: the units passed over
    (after the in-place replacement), and — if a CR LF was found — the rest of the fill starting AT that LF (`trail`). -/
def scanToCrLf : Str → Str × Option Str
  | [] => ([], none)
  | c :: r =>
    if c = 13 then
      if r.head? = some 10 then ([], some r)
      else let p := scanToCrLf r; (10 :: p.1, p.2)
    else let p := scanToCrLf r; (c :: p.1, p.2)

/-- second phase (`while (lead)`): one iteration per CR LF pair: `nread -= 1`, find the end of the segment that starts at
    the pair's LF, `u_memmove` it down to `dest` (= append to `out`).  `fuel` = length of the fill (each iteration
    consumes at least the LF). -/
def compact : Nat → Str → Nat → Str → Str × Nat
  | 0, out, nread, _ => (out, nread)
  | fuel + 1, out, nread, trail =>
    let p := scanToCrLf trail
    match p.2 with
    | none => (out ++ p.1, nread - 1)
    | some rest => compact fuel (out ++ p.1) (nread - 1) rest

/-- every CR of the fill that is not followed within the fill by LF, overwritten with LF (what the array holds at the
    positions the compaction never writes to) -/
def markBare : Str → Str
  | [] => []
  | c :: r => (if c = 13 ∧ r.head? ≠ some 10 then 10 else c) :: markBare r

/-- the conversion part of `get_more_chars()` on the `nread` units just read: the array region `[0, nread_before)` after
    the in-place conversion (compacted units followed by the stale tail the moves leave behind) and the final `nread`. -/
def convertFill (fill : Str) : Str × Nat :=
  let p := scanToCrLf fill
  match p.2 with
  | none => (p.1, fill.length)
  | some rest =>
    let q := compact fill.length p.1 fill.length rest
    (q.1 ++ (markBare fill).drop q.1.length, q.2)

/-- the units of a fill that the scanner will regard as valid: `buffer_limit += nread` -/
def validUnits (fill : Str) : Str := (convertFill fill).1.take (convertFill fill).2

/-! ### get_more_chars: the read loop with the pending-CR flag -/

/-- the `do { … } while (CIF_TRUE)` read loop: returns the fill to convert (empty = end of input), the new `cr_pending`
    and the source.  The loop repeats only when the fill consisted of exactly the LF that completes a pending CR; after
    that iteration `cr_pending` is false, so a third iteration is impossible (`readLoop_fuel`). -/
def readLoop : Nat → Bool → Nat → Src → Str × Bool × Src
  | 0, pend, _, src => ([], pend, src)
  | fuel + 1, pend, count, src =>
    let r := src.read count
    if r.1 = [] then ([], pend, r.2)                           -- nread == 0
    else
      let drop := pend && (r.1.head? == some 10)
      let pend' := r.1.getLast? == some 13                      -- fill[nread - 1] == UCHAR_CR (before the drop)
      if drop then
        if r.1.tail = [] then readLoop fuel pend' count r.2   -- nread == 0 after the drop: `continue`
        else (r.1.tail, pend', r.2)
      else (r.1, pend', r.2)

/-- `get_more_chars()` for a read of at most `count` units: the units appended to the valid region (empty ⇔ CIF_EOF) -/
def getMoreChars (st : FillSt) (count : Nat) (src : Src) : Str × FillSt × Src :=
  if st.atEof = true then ([], st, src)
  else
    let r := readLoop 2 st.crPending count src
    if r.1 = [] then ([], ⟨r.2.1, true⟩, r.2.2)
    else (validUnits r.1, ⟨r.2.1, false⟩, r.2.2)

/-- successive `get_more_chars()` calls, the k-th asking for `counts[k]` units, until the end of the input (or the end of
    `counts`): all units appended, final flags, what the source still holds -/
def runMore : List Nat → FillSt → Src → Str × FillSt × Src
  | [], st, src => ([], st, src)
  | n :: ns, st, src =>
    let r := getMoreChars st n src
    if r.2.1.atEof = true then (r.1, r.2.1, r.2.2)
    else
      let r2 := runMore ns r.2.1 r.2.2
      (r.1 ++ r2.1, r2.2.1, r2.2.2)

/-- the whole stream of units the scanner is given: `get_first_char` then `get_more_chars` until the end of input -/
def seenBy (foldSecondCR : Bool) (counts : List Nat) (src : Src) : Str × FillSt × Src :=
  match getFirstChar foldSecondCR src with
  | none => ([], ⟨false, true⟩, src)
  | some r =>
    let r2 := runMore counts r.2.1 r.2.2
    (r.1 ++ r2.1, r2.2.1, r2.2.2)

/-- the tree as it is now -/
def seen (counts : List Nat) (src : Src) : Str := (seenBy ParseConsts.firstCharFoldsSecondCR counts src).1

/-! ### HANDLE_EOL -/

/-- the `sol` update of `HANDLE_EOL`: new state and the line increment -/
def solStep (sol : Nat) (c : CU) : Nat × Nat :=
  let s := (sol * 4 + (if c = 10 then 1 else if c = 13 then 2 else 3)) % 16
  (s, if s = 9 then 0 else 1)

structure LineSt where
  sol : Nat
  line : Nat
deriving Repr, DecidableEq

/-- one unit as the scanners treat it for line counting: a unit of class EOL goes through `HANDLE_EOL`; any other unit
    sets `sol = 0` (within a scanner call) or ends the scanner call (a new call starts with `sol = 0`) -/
def lineStep (isEol : CU → Bool) (s : LineSt) (c : CU) : LineSt :=
  if isEol c = true then ⟨(solStep s.sol c).1, s.line + (solStep s.sol c).2⟩ else ⟨0, s.line⟩

/-- `scanner->line` after the units `l` (starting from line 1) -/
def lineCount (isEol : CU → Bool) (l : Str) : Nat := (l.foldl (lineStep isEol) ⟨0, 1⟩).line

/-- the default EOL class: LF and CR -/
def isEolDefault (c : CU) : Bool := c == 10 || c == 13

/-- maximal runs of whitespace-class units (what the whitespace callback is handed for a document made of letters and
    whitespace only) -/
def wsRuns (isWs : CU → Bool) : Str → List Str → Str → List Str
  | [], acc, cur => (if cur = [] then acc else cur.reverse :: acc).reverse
  | c :: r, acc, cur =>
    if isWs c = true then wsRuns isWs r acc (c :: cur)
    else wsRuns isWs r (if cur = [] then acc else cur.reverse :: acc) []

end CifModel.Model.Fill
