import CifModel.Model.ParseCB
/-
  CifModel.Model.ParseCBDup — the productions of Model/ParseCB.lean extended by the three duplicate diagnostics of
  src/parser.c with an error callback that accepts (returns CIF_OK), as the `pcb` executor installs it:

    * CIF_DUP_ITEMNAME for a scalar data name that the container (non-NULL, nothing being skipped) already has: the data-name
      callback has been made; the error callback is called; the value is parsed with a NULL name — NO item handler call,
      nothing stored (`parse_item(scanner, container, NULL)`);
    * CIF_DUP_ITEMNAME for a name of a loop header that the container (non-NULL; checked also while skipping) already has, or
      that an earlier name of the same header has (checked always, also without a container): the name is dropped from the
      names passed to loop_start / the loop that is created; its column stays in the body: the values are parsed, there is no
      item handler call for them and they are not part of the packet;
    * CIF_DUP_BLOCKCODE / CIF_DUP_FRAMECODE for a block / frame header whose code the CIF / the container already has
      (only with a CIF / container and nothing being skipped): the error callback is called, the EXISTING block / frame is
      reopened: its handle goes to block_start / frame_start … block_end / frame_end, the items are checked against and added
      to its content, it is pruned again at its end.

  Names and codes are compared after normalisation `norm` (parameter; the driver passes ASCII case folding, the generator
  varies only ASCII case).  The model of Model/ParseCB.lean is NOT changed (its theorems stand); `parseCBD` coincides with
  `parseCB` whenever no diagnostic is made (cross-checked on every generated case by the `pcb` driver).

  The error callback is recorded in the log as a keyword callback whose text begins with the code unit 0 (which no `loop_`
  keyword contains): `errEv code = .keyword [0, code]`; the driver prints it as `@er code`.
-/
namespace CifModel.ParseCB
open CifModel.Gen.ErrCodes (CIF_DUP_ITEMNAME CIF_DUP_BLOCKCODE CIF_DUP_FRAMECODE)

/-- an invocation of the (accepting) error callback -/
def errEv (code : Nat) : Ev := .keyword [0, code]

def report (s : St) (code : Nat) : St := note s (errEv code)

/-- `cif_container_get_item_loop(container, name, NULL) == CIF_OK` -/
def hasName (norm : Str → Str) (c : Content) (nm : Str) : Bool :=
  c.loops.any fun l => l.names.any fun n => norm n == norm nm

def findC (norm : Str → Str) (cs : List Container) (code : Str) : Option Container :=
  cs.find? fun c => norm c.code == norm code

def replaceC (norm : Str → Str) (cs : List Container) (code : Str) (new : Container) : List Container :=
  cs.map fun c => if norm c.code == norm code then new else c

-- ---- loops -----------------------------------------------------------------------------------------------------------

/-- the slot holds a name equivalent to `nm` -/
def slotIs (norm : Str → Str) (nm : Str) : Option Str → Bool
  | some n => norm n == norm nm
  | none => false

/-- parse_loop_header: one slot per data name; `none` = a dropped duplicate -/
def headerLoopD (norm : Str → Str) (cont : Bool) (c : Content) : Nat → St → List (Option Str) → Int × List (Option Str) × St
  | 0, s, acc => (NOFUEL, acc, s)
  | fuel + 1, s, acc =>
    if (nextToken s).1 = .name then
      let nm := (cur (nextToken s).2).text
      let s1 := if (nextToken s).2.skip ≤ 0 then note (nextToken s).2 (.dataname nm) else (nextToken s).2
      let dup := (cont && hasName norm c nm) || acc.any (slotIs norm nm)
      if dup then headerLoopD norm cont c fuel (consume (report s1 CIF_DUP_ITEMNAME)) (acc ++ [none])
      else headerLoopD norm cont c fuel (consume s1) (acc ++ [some nm])
    else (OK, acc, (nextToken s).2)

/-- the item handler for the value of column `name` (`none` = a dropped column: no call) -/
def itemStepD (p : Prog) (name : Option Str) (r : Int) (v : V) (s : St) : Int × St :=
  match name with
  | none => (r, s)
  | some nm => itemStep p nm r v s

/-- the `while` of parse_loop_packets over `slots` columns; `k.row` holds the values of the retained columns only -/
def packetsLoopD (p : Prog) (loopH : Bool) (slots : List (Option Str)) : Nat → St → PkSt → Int × St × PkSt
  | 0, s, k => (NOFUEL, s, k)
  | fuel + 1, s, k =>
    let names := slots.filterMap id
    if isValueStart (nextToken s).1 then
      let s1 := if k.col = 0 then pktStartStep p (nextToken s).2 else (OK, (nextToken s).2)
      if s1.1 ≠ OK then (s1.1, s1.2, k) else
      let pv := parseValue fuel s1.2
      let slot := slots.getD k.col none
      let row := if slot.isSome then k.row ++ [pv.2.1] else k.row
      let it := itemStepD p slot pv.1 pv.2.1 pv.2.2
      let col := (k.col + 1) % slots.length
      if it.1 ≠ OK then (it.1, it.2, { k with col := col, row := row })
      else if col = 0 then
        let pe := pktEndStep p (List.zip names row) it.2
        if pe.1 ≠ OK then (pe.1, pe.2.1, { k with col := 0, row := row })
        else packetsLoopD p loopH slots fuel pe.2.1
          { col := 0, row := [], havePk := true, stored := if pe.2.2 && loopH then k.stored ++ [row] else k.stored }
      else packetsLoopD p loopH slots fuel it.2 { k with col := col, row := row }
    else if (nextToken s).1 = .clist ∨ (nextToken s).1 = .ctable then (MALFORMED, (nextToken s).2, k)
    else if k.col ≠ 0 then (MALFORMED, (nextToken s).2, k)
    else if !k.havePk then (MALFORMED, (nextToken s).2, k)
    else (OK, (nextToken s).2, k)

/-- parse_loop; `c` = the content of the container so far (for the duplicate check of the header) -/
def parseLoopD (p : Prog) (norm : Str → Str) (fuel : Nat) (cont : Bool) (c : Content) (s : St) : Int × St × Option Loop :=
  let hd := headerLoopD norm cont c fuel (inc s) []
  let slots := hd.2.1
  let names := slots.filterMap id
  if hd.1 ≠ OK then
    let e := loopEndStep p none hd.1 hd.2.2; (e.1, e.2, none)
  else if names.isEmpty then
    let e := loopEndStep p none MALFORMED hd.2.2; (e.1, e.2, none)      -- CIF_NULL_LOOP / every name dropped: outside
  else
    let ls := loopStartStep p cont names hd.2.2
    let created := ls.2.2.1
    if ls.2.2.2 then
      let pk := packetsLoopD p created slots fuel ls.2.1 { col := 0, row := [], havePk := false, stored := [] }
      let e := loopEndStep p (if created then some names else none) pk.1 pk.2.1
      (e.1, e.2, if created then some { category := none, names := names, packets := pk.2.2.stored } else none)
    else
      let e := loopEndStep p (if created then some names else none) ls.1 ls.2.1
      (e.1, e.2, if created then some { category := none, names := names, packets := [] } else none)

-- ---- containers ------------------------------------------------------------------------------------------------------

mutual
  /-- parse_container into a container whose content so far is `c0` (empty for a new one) -/
  def parseContainerD (p : Prog) (norm : Str → Str) (maxFrameDepth : Int) : Nat → Bool → Bool → Str → St → Content → Int × St × Content
    | 0, _, _, _, s, c0 => (NOFUEL, s, c0)
    | fuel + 1, cont, isBlock, code, s, c0 =>
      let st := contStartStep p cont isBlock code s
      if st.1 ≠ OK then containerEnd p cont isBlock code st.1 st.2 c0
      else
        let el := elemsLoopD p norm maxFrameDepth fuel cont isBlock st.2 c0
        containerEnd p cont isBlock code el.1 el.2.1 el.2.2
  def elemsLoopD (p : Prog) (norm : Str → Str) (maxFrameDepth : Int) : Nat → Bool → Bool → St → Content → Int × St × Content
    | 0, _, _, s, c => (NOFUEL, s, c)
    | fuel + 1, cont, isBlock, s0, c =>
      let s := (nextToken s0).2
      match (nextToken s0).1 with
      | .blockHead => if isBlock then (OK, s, c) else (MALFORMED, s, c)
      | .frameHead =>
        let code := (cur s).text
        if !cont ∨ s.skip > 0 then
          let f := parseContainerD p norm maxFrameDepth fuel false false code (consume s) .empty
          if f.1 = OK then elemsLoopD p norm maxFrameDepth fuel cont isBlock f.2.1 c else (f.1, f.2.1, c)
        else if maxFrameDepth = 0 then (MALFORMED, s, c)
        else if maxFrameDepth = 1 ∧ !isBlock then (MALFORMED, s, c)
        else
          match findC norm c.frames code with
          | some old =>
            -- CIF_DUP_FRAMECODE: the existing frame is reopened
            let f := parseContainerD p norm maxFrameDepth fuel true false old.code (consume (report s CIF_DUP_FRAMECODE))
              ⟨old.frames, old.loops⟩
            let c1 : Content := { c with frames := replaceC norm c.frames code (.mk old.code f.2.2.frames f.2.2.loops) }
            if f.1 = OK then elemsLoopD p norm maxFrameDepth fuel cont isBlock f.2.1 c1 else (f.1, f.2.1, c1)
          | none =>
            let f := parseContainerD p norm maxFrameDepth fuel true false code (consume s) .empty
            if f.1 = OK then elemsLoopD p norm maxFrameDepth fuel cont isBlock f.2.1 (c.addFrame (.mk code f.2.2.frames f.2.2.loops))
            else (f.1, f.2.1, c.addFrame (.mk code f.2.2.frames f.2.2.loops))
      | .frameTerm => if isBlock then (MALFORMED, consume s, c) else (OK, consume s, c)
      | .loopKw =>
        let s1 := if s.skip ≤ 0 then note s (.keyword (cur s).text) else s
        let l := parseLoopD p norm fuel cont c (consume s1)
        let c1 := match l.2.2 with | some lp => c.addLoop lp | none => c
        if l.1 = OK then elemsLoopD p norm maxFrameDepth fuel cont isBlock l.2.1 c1 else (l.1, l.2.1, c1)
      | .name =>
        if s.skip > 0 then
          let it := parseItem p fuel cont none (consume s)
          if it.1 = OK then elemsLoopD p norm maxFrameDepth fuel cont isBlock it.2.1 c else (it.1, it.2.1, c)
        else if cont && hasName norm c (cur s).text then
          -- CIF_DUP_ITEMNAME: the value is parsed, the item is rejected
          let it := parseItem p fuel cont none (report (consume (note s (.dataname (cur s).text))) CIF_DUP_ITEMNAME)
          if it.1 = OK then elemsLoopD p norm maxFrameDepth fuel cont isBlock it.2.1 c else (it.1, it.2.1, c)
        else
          let it := parseItem p fuel cont (some (cur s).text) (consume (note s (.dataname (cur s).text)))
          let c1 := match it.2.2 with | some (n, v) => c.setScalar n v | none => c
          if it.1 = OK then elemsLoopD p norm maxFrameDepth fuel cont isBlock it.2.1 c1 else (it.1, it.2.1, c1)
      | .end_ => if isBlock then (OK, s, c) else (MALFORMED, s, c)
      | _ => (MALFORMED, s, c)
end

/-- the `while` of parse_cif -/
def blocksLoopD (p : Prog) (norm : Str → Str) (maxFrameDepth : Int) (cif : Bool) : Nat → St → List Container → Int × St × List Container
  | 0, s, acc => (NOFUEL, s, acc)
  | fuel + 1, s0, acc =>
    let s := (nextToken s0).2
    match (nextToken s0).1 with
    | .blockHead =>
      let code := (cur s).text
      let block := cif && decide (s.skip ≤ 0)
      if block then
        match findC norm acc code with
        | some old =>
          -- CIF_DUP_BLOCKCODE: the existing block is reopened
          let b := parseContainerD p norm maxFrameDepth fuel true true old.code (consume (report s CIF_DUP_BLOCKCODE))
            ⟨old.frames, old.loops⟩
          let acc1 := replaceC norm acc code (.mk old.code b.2.2.frames b.2.2.loops)
          if b.1 = OK then blocksLoopD p norm maxFrameDepth cif fuel b.2.1 acc1 else (b.1, b.2.1, acc1)
        | none =>
          let b := parseContainerD p norm maxFrameDepth fuel true true code (consume s) .empty
          let acc1 := acc ++ [.mk code b.2.2.frames b.2.2.loops]
          if b.1 = OK then blocksLoopD p norm maxFrameDepth cif fuel b.2.1 acc1 else (b.1, b.2.1, acc1)
      else
        let b := parseContainerD p norm maxFrameDepth fuel false true code (consume s) .empty
        if b.1 = OK then blocksLoopD p norm maxFrameDepth cif fuel b.2.1 acc else (b.1, b.2.1, acc)
    | .end_ => (OK, s, acc)
    | _ => (MALFORMED, s, acc)

def parseCifD (p : Prog) (norm : Str → Str) (maxFrameDepth : Int) (cif : Bool) (fuel : Nat) (s : St) : Int × St × List Container :=
  if p s.n (.cifStart cif) = END then (OK, push s (.cifStart cif), []) else
  let st := site p s (.cifStart cif) (some 1) (some 1)
  if st.1 = OK then
    let b := blocksLoopD p norm maxFrameDepth cif fuel st.2 []
    ((cifEndStep p cif b.1 b.2.1).1, (cifEndStep p cif b.1 b.2.1).2, b.2.2)
  else ((cifEndStep p cif st.1 st.2).1, (cifEndStep p cif st.1 st.2).2, [])

/-- cif_parse with the duplicate diagnostics and an accepting error callback -/
def parseCBD (p : Prog) (norm : Str → Str) (storing : Bool) (toks : List Tok) : List Ev × Int × Cif :=
  ((parseCifD p norm 1 storing (fuelFor toks) (St.init toks)).2.1.log.reverse,
   (parseCifD p norm 1 storing (fuelFor toks) (St.init toks)).1,
   (parseCifD p norm 1 storing (fuelFor toks) (St.init toks)).2.2)

end CifModel.ParseCB
