import CifModel.Spec.DialectTable
import CifModel.Gen.ParseConsts
/-
  CifModel.Model.Dialect — the two stages by which the library decides version and encoding, as written:
    stage1 = cif_parse() (ciffile.c): the cascade over prefer_cif2, force_default_encoding, ucnv_detectUnicodeSignature,
             the raw-byte magic tests, and the converter set-up (`not_utf8`);
    stage2 = the start of cif_parse_internal() (parser.c): BOM consumption, resolution of `cif_version <= 0` from the
             decoded magic code, SET_V1, CIF_WRONG_ENCODING, the CIF1+BOM CIF_DISALLOWED_CHAR report.
  The input is abstracted to a `Header` (what the tests of the two stages can see); only the enumerations are shared with
  the specification (Spec.DialectTable).
-/
namespace CifModel.Model.Dialect
open CifModel.Spec.Dialect CifModel.Gen

/-- what the two stages can see of the input -/
structure Header where
  sig : Option Enc          -- result of ucnv_detectUnicodeSignature on the first read
  rawShort : Bool           -- the first read has fewer than MAGIC_LENGTH + MAGIC_EXTRA (= 10) bytes
  rawMagic2 : Bool          -- the first 10 bytes are CIF2_UTF8_MAGIC
  rawNext : Option Nat      -- the byte after those 10 (`none`: the first read ends there)
  rawMagic7 : Bool          -- the first 7 bytes are "#\#CIF_"
  decoded : Magic           -- first token of the decoded text (after a BOM): 10 units equal to CIF2_MAGIC / starting CIF1_MAGIC[0..7)
  bomFirst : Bool           -- the decoded text starts with U+FEFF
  noText : Bool             -- the decoded text has nothing after the optional BOM
deriving DecidableEq, Repr

/-- options and environment, plus which variant of the code this is (re-read from the sources on every run) -/
structure Cfg where
  namedGiven : Bool         -- default_encoding_name != NULL
  namedIsUtf8 : Bool        -- ucnv_getName of the named default is "UTF-8"
  systemIsUtf8 : Bool       -- ucnv_getName of the system default is "UTF-8"
  fallbackNamed : Bool      -- the last branch of the cascade uses default_encoding_name (repair of G4) rather than NULL
  magicNeedsWs : Bool       -- the raw CIF 2.0 magic test also looks at the byte after the magic (repair of G3)
  magicFollowers : List Nat -- … and accepts these values for it
  magicAcceptsEnd : Bool    -- … or the end of the input (`count == MAGIC_LENGTH + MAGIC_EXTRA`)
deriving DecidableEq, Repr

/-- the test on the byte after the raw magic code, as written: `count == 10 || b == f1 || b == f2 || …` -/
def followerOk (cfg : Cfg) : Option Nat → Bool
  | none => cfg.magicAcceptsEnd
  | some b => cfg.magicFollowers.contains b

/-- … which the tree before the repair of G3 did not make at all -/
def followerPass (cfg : Cfg) (n : Option Nat) : Bool := !cfg.magicNeedsWs || followerOk cfg n

/-- `options->default_encoding_name` handed to ucnv_open: a NULL name is the system default -/
def dflt (cfg : Cfg) : Encoding := if cfg.namedGiven then .named else .system

/-- cif_parse(): the encoding handed to ucnv_open and the provisional `cif_version` (2, 1, 0 = "look at the magic code,
    default CIF 1.1", -2 = "look at the magic code, default CIF 2.0") -/
def stage1 (prefer : Int) (force : Bool) (cfg : Cfg) (h : Header) : Encoding × Int :=
  let v0 : Int := if prefer > 19 then 2 else if prefer < 0 then 1 else 0
  if force then
    (dflt cfg, if prefer < 20 ∧ prefer > 0 then -2 else v0)
  else
    match h.sig with
    | some e => (.signature e, if prefer < 20 ∧ prefer > 0 then -2 else v0)
    | none =>
      if prefer > 19 then (.utf8, v0)
      else if prefer ≥ 0 ∧ h.rawShort = false ∧ h.rawMagic2 = true ∧ followerPass cfg h.rawNext = true then (.utf8, 2)
      else if prefer > 0 ∧ (h.rawShort = true ∨ h.rawMagic7 = false) then (.utf8, 2)
      else (if cfg.fallbackNamed then dflt cfg else .system, 1)

/-- `not_utf8 = strcmp("UTF-8", converter_name)` -/
def notUtf8 (cfg : Cfg) (e : Encoding) : Bool := !isUtf8 cfg.namedIsUtf8 cfg.systemIsUtf8 e

/-- cif_parse_internal(), up to the call of parse_cif: final version, whether CIF_WRONG_ENCODING is reported, whether the
    scanned BOM is reported as CIF_DISALLOWED_CHAR.  With nothing to parse no version is resolved. -/
def stage2 (v : Int) (nu8 : Bool) (h : Header) : Int × Bool × Bool :=
  if h.noText then (v, false, false)
  else
    let ver : Int :=
      if v ≤ 0 then
        match h.decoded with
        | .v2 => 2
        | .other => 1
        | .none => if v < 0 then -v else 1
      else v
    (ver, ver == 2 && nu8, ver == 1 && h.bomFirst)

structure Out where
  encoding : Encoding
  version : Int
  wrongEncoding : Bool
  bomDisallowed : Bool
  notUtf8 : Bool
deriving DecidableEq, Repr

def select (prefer : Int) (force : Bool) (cfg : Cfg) (h : Header) : Out :=
  let s1 := stage1 prefer force cfg h
  let nu8 := notUtf8 cfg s1.1
  let s2 := stage2 s1.2 nu8 h
  { encoding := s1.1, version := s2.1, wrongEncoding := s2.2.1, bomDisallowed := s2.2.2, notUtf8 := nu8 }

/-- the tree as it is: which variant of the two branches the sources contain -/
def treeCfg (namedGiven namedIsUtf8 systemIsUtf8 : Bool) : Cfg :=
  { namedGiven, namedIsUtf8, systemIsUtf8,
    fallbackNamed := ParseConsts.fallbackUsesNamedDefault, magicNeedsWs := ParseConsts.rawMagicChecksFollowingByte,
    magicFollowers := ParseConsts.rawMagicFollowers, magicAcceptsEnd := ParseConsts.rawMagicAcceptsEnd }

/-- the raw test accepts everything the documentation allows after the magic code -/
def followersCover (cfg : Cfg) : Prop :=
  cfg.magicNeedsWs = false ∨
    (cfg.magicAcceptsEnd = true ∧ cfg.magicFollowers.contains 32 = true ∧ cfg.magicFollowers.contains 9 = true ∧
     cfg.magicFollowers.contains 10 = true ∧ cfg.magicFollowers.contains 13 = true)

instance (cfg : Cfg) : Decidable (followersCover cfg) := by unfold followersCover; infer_instance

/-- header consistency: without a signature, what the raw-byte tests say agrees with what the decoder will show, and the
    magic code is a whole token: what follows it (`rawNext`) is the end of the input or CIF whitespace — LF, CR (also as the
    first half of CR LF), blank or tab, exactly the characters the decoded-text path (`scan_to_ws`) ends a token at -/
def consistent (h : Header) : Prop :=
  h.sig = none →
    ((h.decoded = .v2 ↔ (h.rawShort = false ∧ h.rawMagic2 = true)) ∧
     (h.decoded ≠ .none ↔ (h.rawShort = false ∧ h.rawMagic7 = true)) ∧
     (h.rawMagic2 = true → commentEndsHere h.rawNext = true))

instance (h : Header) : Decidable (consistent h) := by unfold consistent; infer_instance

end CifModel.Model.Dialect
