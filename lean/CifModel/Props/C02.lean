import CifModel.Model.Writer
import CifModel.Model.Decode
import CifModel.Spec.TextProtocol
import CifModel.Lemmas.WriterFold
import CifModel.Lemmas.WriterText
import CifModel.Lemmas.DecodeMarker
import CifModel.Lemmas.WriterChar
import CifModel.Lemmas.WriterAnalysis
import CifModel.Lemmas.WriterLexFits
import CifModel.Props.C01
/-
  Property C02 — everything `cif_write` emits re-parses to an equivalent CIF.

  Theorems about the executable model of the writer (`Model/Writer.lean`) and of `decode_text` (`Model/Decode.lean`).
-/
namespace CifModel
open Model.Writer Model.Decode
open Lemmas.DecodeMarker (firstLine)

/-- side condition for writing a text field WITHOUT fold and prefix markers: the text must not itself look marked —
    it starts with the semicolon that switches decoding off, or its first line does not end in a backslash followed by
    blanks only (this is what `has_reserved_start` of cif_analyze_string establishes before `write_char` clears `fold`) -/
def C02_plainAdmissible (s : Str) : Prop :=
  s.head? = some 59 ∨ Spec.TextProtocol.endsBslBlank (firstLine s) = false

/-- **The inverse-pair theorem of the folding / prefix protocol.**  For every non-empty text `s` without CR and EVERY
    combination of the `fold` and `prefix` flags (the unmarked combination under `C02_plainAdmissible`): whenever
    `write_text` produces a body, `decode_text` (line unfolding and prefix removal enabled: the CIF 2.0 defaults, and the
    CIF 1.1 options of property C13) maps that body back to `s`. -/
theorem C02_text_protocol (s : Str) (fold pre : Bool) (body : Str)
    (hcr : (13 : CU) ∉ s)
    (hside : fold = true ∨ pre = true ∨ C02_plainAdmissible s)
    (hw : textBody s fold pre = .ok body) :
    decodeText true true body = s := by
  unfold textBody at hw
  by_cases h00 : fold = false ∧ pre = false
  · simp only [h00, and_self, ↓reduceIte] at hw
    cases hw
    apply Lemmas.DecodeMarker.decodeText_plain s hcr
    rcases hside with h | h | h
    · rw [h00.1] at h; cases h
    · rw [h00.2] at h; cases h
    · exact h
  · simp only [h00, ↓reduceIte] at hw
    have hfp : fold = true ∨ pre = true := by
      cases fold <;> cases pre <;> simp_all
    cases hq : textPhys fold pre (targetLength pre) (splitLines s) with
    | error e => simp [hq] at hw
    | ok Q =>
      simp only [hq] at hw
      cases hw
      have hsp := Lemmas.WriterText.splitLines_spec s
      have hno : ∀ l ∈ splitLines s, Lemmas.DecodeLines.NoEol l := fun l hl =>
        Lemmas.WriterText.noEol_of_no10_no13 (hsp.1 l hl)
          (fun h13 => hcr (Lemmas.WriterText.splitLines_mem s l hl 13 h13))
      obtain ⟨hne, hnoe, hunf⟩ :=
        Lemmas.WriterText.textPhys_spec fold pre hfp _ (splitLines s) Q (Lemmas.WriterText.splitLines_ne_nil s) hno hq
      cases Q with
      | nil => exact absurd rfl hne
      | cons p ps =>
        rw [Lemmas.DecodeMarker.decodeText_marked fold pre hfp p ps (hnoe p List.mem_cons_self)
          (fun q hq => hnoe q (List.mem_cons_of_mem _ hq))]
        rw [hunf, hsp.2]

/-- **`fold_line` makes progress.**  Wherever semicolons are harmless (the prefix protocol is on, or the line holds no
    semicolon — `write_char` forces the prefix whenever it folds a text containing one) the value returned for a non-empty
    line lies in `(0, length]`: the segment loop of `write_text` terminates and never returns CIF_INTERNAL_ERROR. -/
theorem C02_fold_line_progress (line : Str) (doFold : Bool) (target window : Nat) (forPrefix : Bool)
    (hne : line ≠ []) (hw : 0 < window) (hwt : window < target) (hsemi : forPrefix = true ∨ (59 : CU) ∉ line) :
    0 < foldLine line doFold target window forPrefix ∧ foldLine line doFold target window forPrefix ≤ line.length :=
  ⟨Lemmas.WriterFold.foldLine_pos line doFold target window forPrefix hne hw hwt hsemi,
   Lemmas.WriterFold.foldLine_le line doFold target window forPrefix⟩

/-- `write_text` never fails (no CIF_INTERNAL_ERROR) when it prefixes or the text holds no semicolon -/
theorem C02_text_total (s : Str) (fold pre : Bool) (hsemi : pre = true ∨ (59 : CU) ∉ s) :
    ∃ body, textBody s fold pre = .ok body := by
  unfold textBody
  split
  · exact ⟨s, rfl⟩
  · have hwt : WINDOW < targetLength pre := by cases pre <;> decide
    have hl : pre = true ∨ ∀ l ∈ splitLines s, (59 : CU) ∉ l := by
      rcases hsemi with h | h
      · left; exact h
      · right; exact fun l hl hm => h (Lemmas.WriterText.splitLines_mem s l hl 59 hm)
    obtain ⟨Q, hQ⟩ := Lemmas.WriterText.textPhys_ok fold pre (targetLength pre) hwt (splitLines s) hl
    rw [hQ]
    exact ⟨_, rfl⟩

/-- What the value-level theorems need to know about the analysis record of `s` — both facts are instances of
    `C18_stats_exact` (property C18, group gA: `maxSemiRun` is the longest run of semicolons, `lengthFirst` the length of
    the first line) together with the definition of `has_reserved_start`; they are hypotheses here only because the two
    property groups are developed on separate branches. -/
structure C02_AnalysisFacts (s : Str) (a : Model.Analysis) : Prop where
  semis : a.maxSemiRun = 0 → (59 : CU) ∉ s
  reserved : a.delimLength = 2 → a.hasReservedStart = false → C02_plainAdmissible s

/-- the facts hold of the analysis `cif_analyze_string` computes for any CR-free string (proved here directly from the
    counting loop of the model of group gA; they are also instances of `C18_stats_exact`) -/
theorem C02_analysis_facts (s : Str) (unq tri : Bool) (limit : Nat) (hcr : (13 : CU) ∉ s) :
    C02_AnalysisFacts s (Model.analyze s unq tri limit) := by
  constructor
  · exact Lemmas.WriterAnalysis.maxSemiRun_zero s unq tri limit
  · intro hd hr
    unfold Model.analyze at hd hr
    simp only at hd hr
    cases hc : Model.chooseDelim s unq tri limit (Model.counters s) <;> simp [hc, Model.Delim.units] at hd
    simp only [hc, ↓reduceIte] at hr
    unfold Model.reservedStart at hr
    by_cases h59 : Model.unitAt s 0 = 59
    · left
      cases s with
      | nil => simp [Model.unitAt] at h59
      | cons c r => simp [Model.unitAt] at h59; simp [h59]
    · right
      simp only [h59, ↓reduceIte] at hr
      have hfl := Lemmas.WriterAnalysis.firstLine_exact s {} hcr rfl rfl
      simp only [↓reduceIte, Nat.zero_add] at hfl
      have hcnt : (Model.counters s).firstLine = (s.takeWhile (· != 10)).length := hfl
      rw [hcnt] at hr
      have htake : ∀ (l : Str), l.take (l.takeWhile (· != 10)).length = l.takeWhile (· != 10) := by
        intro l
        induction l with
        | nil => rfl
        | cons a t ih =>
          by_cases ha : (a != 10) = true
          · simp [List.takeWhile, ha, ih]
          · simp [List.takeWhile, ha]
      rw [htake, Lemmas.WriterAnalysis.reservedStartScan_reverse] at hr
      exact hr

/-- the flags `write_char` derives from the analysis (`fold`, `prefix`) -/
abbrev C02_flags (a : Model.Analysis) : Bool × Bool := Lemmas.WriterChar.charFlags a

/-- with the flags `write_char` derives, semicolons are harmless: prefixing, or no semicolon at all when folding -/
theorem C02_flags_semis (s : Str) (a : Model.Analysis) (hsemis : a.maxSemiRun = 0 → (59 : CU) ∉ s) :
    (C02_flags a).1 = false ∧ (C02_flags a).2 = false ∨ (C02_flags a).2 = true ∨ (59 : CU) ∉ s := by
  unfold C02_flags Lemmas.WriterChar.charFlags
  by_cases hpre : (a.containsTextDelim || ((decide (a.lengthFirst ≥ LINE) || decide (a.lengthMax > LINE) || a.hasReservedStart
      || decide (a.maxSemiRun ≥ LINE - 1)) && decide (a.maxSemiRun > 0))) = true
  · right; left; simpa using hpre
  · simp only [hpre, Bool.false_eq_true, false_and, ↓reduceIte]
    by_cases hf : (decide (a.lengthFirst ≥ LINE) || decide (a.lengthMax > LINE) || a.hasReservedStart
        || decide (a.maxSemiRun ≥ LINE - 1)) = true
    · right; right
      apply hsemis
      simp only [Bool.or_eq_true, Bool.and_eq_true, not_or, not_and] at hpre
      have := hpre.2 (by simpa using hf)
      simpa using this
    · left; simp at hf; simp [hf]

/-- **`write_char`, text-field presentation.**  For every context, every non-empty CR-free text and quoted flag: when the
    analysis recommends a text field, `write_char` (text fields allowed) either refuses with CIF_DISALLOWED_VALUE — only in
    CIF 1.1 mode and only for a text containing `<LF>;` — or with CIF_DISALLOWED_CHAR — only in CIF 1.1 mode, for a character
    outside the CIF 1.1 set — or writes `<LF>;` body `<LF>;` such that `decode_text` maps the body back to the text.  It never
    returns CIF_INTERNAL_ERROR. -/
theorem C02_char_text_roundtrip (c : Ctx) (s : Str) (quoted : Bool)
    (hcr : (13 : CU) ∉ s) (hdis : c.isCif1 = false → Model.hasDisallowed s = false)
    (hdelim : (Model.analyze s (!quoted) (!c.isCif1) LINE).delimLength = 2)
    (hA : C02_AnalysisFacts s (Model.analyze s (!quoted) (!c.isCif1) LINE)) :
    (∃ body c', writeChar c s quoted true = .ok (a!"\n;" ++ body ++ a!"\n;", c') ∧ c'.lastColumn = 1
        ∧ decodeText true true body = s)
    ∨ (writeChar c s quoted true = .error Gen.ErrCodes.CIF_DISALLOWED_VALUE ∧ c.isCif1 = true
        ∧ (Model.analyze s (!quoted) (!c.isCif1) LINE).containsTextDelim = true)
    ∨ (writeChar c s quoted true = .error Gen.ErrCodes.CIF_DISALLOWED_CHAR ∧ c.isCif1 = true ∧ validate11 s = false) := by
  generalize ha : Model.analyze s (!quoted) (!c.isCif1) LINE = a at hdelim hA
  rw [Lemmas.WriterChar.writeChar_clean c s quoted true (Lemmas.WriterChar.strClean_of _ s hcr hdis)]
  unfold writeCharCore
  by_cases hv : c.isCif1 = true ∧ validate11 s = false
  · right; right; simp [hv]
  · simp only [hv, ↓reduceIte, ha]
    have h0 : ¬ a.delimLength = 0 := by omega
    have h1 : ¬ a.delimLength = 1 := by omega
    have h3 : ¬ a.delimLength = 3 := by omega
    simp only [h0, h1, h3, hdelim, ↓reduceIte]
    by_cases hd : a.containsTextDelim = true ∧ c.isCif1 = true
    · right; left; simp [hd]
    · have hd' : ¬((false = true) = true ∨ a.containsTextDelim = true ∧ c.isCif1 = true) := by simp [hd]
      left
      simp only [Bool.false_eq_true, hd, or_self, ↓reduceIte]
      have hflags := C02_flags_semis s a hA.semis
      unfold C02_flags Lemmas.WriterChar.charFlags at hflags
      simp only at hflags
      generalize hfold : (if (a.containsTextDelim || ((decide (a.lengthFirst ≥ LINE) || decide (a.lengthMax > LINE) || a.hasReservedStart
          || decide (a.maxSemiRun ≥ LINE - 1)) && decide (a.maxSemiRun > 0))) = true ∧ a.lengthMax + PREFIX_LENGTH > LINE then true
          else (decide (a.lengthFirst ≥ LINE) || decide (a.lengthMax > LINE) || a.hasReservedStart
          || decide (a.maxSemiRun ≥ LINE - 1))) = fold at hflags ⊢
      generalize hpre : (a.containsTextDelim || ((decide (a.lengthFirst ≥ LINE) || decide (a.lengthMax > LINE) || a.hasReservedStart
          || decide (a.maxSemiRun ≥ LINE - 1)) && decide (a.maxSemiRun > 0))) = pre at hflags hfold ⊢
      -- the body exists
      have hsemi : (fold = false ∧ pre = false) ∨ pre = true ∨ (59 : CU) ∉ s := hflags
      have hbody : ∃ body, textBody s fold pre = .ok body := by
        rcases hsemi with h | h | h
        · exact ⟨s, by simp [textBody, h]⟩
        · exact C02_text_total s fold pre (Or.inl h)
        · exact C02_text_total s fold pre (Or.inr h)
      obtain ⟨body, hb⟩ := hbody
      refine ⟨body, { c with lastColumn := 1 }, ?_, rfl, ?_⟩
      · simp [writeText, hb, TEXT_CLOSE]
      · apply C02_text_protocol s fold pre body hcr ?_ hb
        by_cases hf : fold = true
        · left; exact hf
        · by_cases hp : pre = true
          · right; left; exact hp
          · right; right
            apply hA.reserved hdelim
            -- fold = false forces has_reserved_start = false
            have hf' : fold = false := by simpa using hf
            have hp' : pre = false := by simpa using hp
            subst hp'
            simp only [Bool.false_eq_true, false_and, ↓reduceIte] at hfold
            rw [hf'] at hfold
            simp only [Bool.or_eq_false_iff] at hfold
            exact hfold.1.2

/-- `C02_char_text_roundtrip` for the analysis the C computes — no hypothesis about the analysis left -/
theorem C02_write_char_text (c : Ctx) (s : Str) (quoted : Bool)
    (hcr : (13 : CU) ∉ s) (hdis : c.isCif1 = false → Model.hasDisallowed s = false)
    (hdelim : (Model.analyze s (!quoted) (!c.isCif1) LINE).delimLength = 2) :
    (∃ body c', writeChar c s quoted true = .ok ((a!"\n;") ++ body ++ (a!"\n;"), c') ∧ c'.lastColumn = 1
        ∧ decodeText true true body = s)
    ∨ (writeChar c s quoted true = .error Gen.ErrCodes.CIF_DISALLOWED_VALUE ∧ c.isCif1 = true
        ∧ (Model.analyze s (!quoted) (!c.isCif1) LINE).containsTextDelim = true)
    ∨ (writeChar c s quoted true = .error Gen.ErrCodes.CIF_DISALLOWED_CHAR ∧ c.isCif1 = true ∧ validate11 s = false) :=
  C02_char_text_roundtrip c s quoted hcr hdis hdelim (C02_analysis_facts s _ _ _ hcr)

/-! ### the value level, through the lexer (model of group gD) -/

open Spec.Lexical in
/-- **What `write_char` writes is an admissible presentation.**  For every context (CIF 2.0 or CIF 1.1 mode) whose column
    is within the line, every well-formed string `s` of characters allowed in that dialect (in particular: no CR) and every
    quoted flag: if `write_char` succeeds, its output is — behind an optional line break — an admissible presentation `p`
    (whitespace-delimited, quoted, triple-quoted or text field) of the lexical grammar of a string `s'` that stands for
    `s` (`s` itself, or a text-field body that `decode_text` maps to `s`); no line that ends inside the output is longer
    than 2048 characters; a text field starts a line; the whitespace-delimited form is used only for unquoted values not
    beginning with `;`. -/
theorem C02_value_presented (c : Ctx) (s : Str) (q : Bool) (out : Str) (c' : Ctx)
    (hok : okUnits (Lemmas.WriterLex.diaOf c) none s = true) (hcol : c.lastColumn ≤ LINE)
    (h : writeChar c s q true = .ok (out, c')) :
    Lemmas.WriterLex.Presented (Lemmas.WriterLex.diaOf c) c s q out := by
  have h0 := h
  have h := (Lemmas.WriterChar.writeChar_ok c s q true (out, c') h).2
  by_cases hd : (Model.analyze s (!q) (!c.isCif1) LINE).delimLength = 2
  · -- the text field
    have hcr := Lemmas.WriterLex.okUnits_noCR _ s hok
    have hv : ¬(c.isCif1 = true ∧ validate11 s = false) := by
      intro hv; rw [Lemmas.WriterChar.writeChar_invalid c s q true hv] at h; cases h
    have hr : ¬((true : Bool) = false ∨ ((Model.analyze s (!q) (!c.isCif1) LINE).containsTextDelim = true ∧ c.isCif1 = true)) := by
      intro hr
      rw [Lemmas.WriterChar.writeChar_delim2_refused c s q true hv hd hr] at h; cases h
    rw [Lemmas.WriterChar.writeChar_delim2 c s q true hv hd hr] at h
    have hA := C02_analysis_facts s (!q) (!c.isCif1) LINE hcr
    have hst := C18_stats_exact s (!q) (!c.isCif1) LINE
    generalize ha : Model.analyze s (!q) (!c.isCif1) LINE = a at *
    have hflags := C02_flags_semis s a hA.semis
    unfold writeText at h
    split at h
    · cases h
    · rename_i body hb
      simp only [Except.ok.injEq, Prod.mk.injEq] at h
      -- what the flags imply when they are off
      have hfold_off : (Lemmas.WriterChar.charFlags a).1 = false →
          a.lengthFirst < LINE ∧ a.lengthMax ≤ LINE ∧ a.hasReservedStart = false ∧
          ((Lemmas.WriterChar.charFlags a).2 = true → a.lengthMax + PREFIX_LENGTH ≤ LINE) := by
        intro hf
        unfold Lemmas.WriterChar.charFlags at hf ⊢
        simp only at hf ⊢
        split at hf
        · cases hf
        · rename_i hnp
          simp only [Bool.or_eq_false_iff, decide_eq_false_iff_not, Nat.not_le, Nat.not_lt] at hf
          refine ⟨hf.1.1.1, hf.1.1.2, hf.1.2, ?_⟩
          intro hp
          simp only [hp, true_and, Nat.not_lt] at hnp
          exact hnp
      have hpre_off : (Lemmas.WriterChar.charFlags a).2 = false → a.containsTextDelim = false := by
        intro hp
        unfold Lemmas.WriterChar.charFlags at hp
        simp only [Bool.or_eq_false_iff] at hp
        exact hp.1
      have hlines : ∀ l ∈ splitLines s, l.length ≤ a.lengthMax := by
        intro l hl
        rw [hst.2.2.2.2.1, Lemmas.WriterLexFits.splitLines_eq s hcr]
        exact Lemmas.WriterLex.le_maxLen _ _ hl
      have hfirst : ((splitLines s).headD []).length = a.lengthFirst := by
        rw [hst.2.2.1, Lemmas.WriterLexFits.splitLines_eq s hcr]
      refine ⟨true, .text, body, ?_, ?_, fun _ => rfl, ?_, ?_, ?_, ?_⟩
      · rw [← h.1]; simp [Lemmas.WriterLex.wrapLf, renderValue, TEXT_CLOSE]
      · -- admissible
        simp only [admissible, textOk, Bool.and_eq_true]
        refine ⟨Lemmas.WriterLexUnits.body_units _ s _ _ body hok hb, ?_⟩
        apply Lemmas.WriterLexText.body_textBody s _ _ body hcr hb
        rcases hflags with hh | hh | hh
        · right; right
          refine ⟨hh.1, hh.2, ?_⟩
          apply Lemmas.WriterLexText.textBody_of_lines s false hcr
          · rw [← hst.2.2.2.2.2.2.1]; exact hpre_off hh.2
          · intro e; cases e
        · left; exact hh
        · right; left; exact hh
      · -- no over-long line
        intro col hc
        rw [← h.1]
        have := Lemmas.WriterLexFits.text_out_fits s _ _ body hcr hb hflags ?_ col (by omega)
        · simpa [renderValue, TEXT_CLOSE] using this
        · by_cases hf : (Lemmas.WriterChar.charFlags a).1 = true
          · left; exact hf
          · right
            have hoff := hfold_off (by simpa using hf)
            constructor
            · intro l hl
              have := hlines l hl
              cases hp : (Lemmas.WriterChar.charFlags a).2
              · simp [Lemmas.WriterLexFits.pfxLen]; omega
              · have := hoff.2.2.2 hp
                simp [Lemmas.WriterLexFits.pfxLen, PREFIX_LENGTH] at *; omega
            · rw [hfirst]; omega
      · intro hne; exact absurd rfl hne
      · intro _
        apply C02_text_protocol s _ _ body hcr ?_ hb
        by_cases hf : (Lemmas.WriterChar.charFlags a).1 = true
        · left; exact hf
        · by_cases hp : (Lemmas.WriterChar.charFlags a).2 = true
          · right; left; exact hp
          · right; right
            exact hA.reserved hd (hfold_off (by simpa using hf)).2.2.1
      · intro e; cases e
  · exact Lemmas.WriterLex.writeChar_presented_nontext c s q out c' hok hcol hd h0

open Spec.Lexical Model.Lexer in
/-- **C02_value_roundtrip.**  What `write_char` writes is read back by the lexer (next_token of parser.c, model of group
    gD) as ONE value token — for every write context (CIF 2.0 or CIF 1.1 mode), every well-formed string `s` of characters
    allowed in that dialect, every quoted flag, every start column, behind any admissible whitespace `w0`, followed by
    whitespace, the end of input or (CIF 2.0) a closing bracket, from any scanner state, whatever the error-callback policy:
    * nothing is reported (the log is unchanged) and exactly the value is consumed;
    * the token is VALUE, QVALUE or TVALUE according to the presentation; for QVALUE / VALUE its text is `s`; for TVALUE its
      text is a body that `decode_text` (unfolding and prefix removal enabled) maps to `s`;
    * a whitespace-delimited token (which the parser turns into an unquoted string) occurs only for an unquoted value —
      so a quoted value never comes back unquoted.
    (`hcolw`: the writer's column is at least the true column, which holds because it counts code units.) -/
theorem C02_value_roundtrip (c : Ctx) (s : Str) (q : Bool) (out : Str) (c' : Ctx)
    (hok : okUnits (Lemmas.WriterLex.diaOf c) none s = true) (hcol : c.lastColumn ≤ LINE)
    (h : writeChar c s q true = .ok (out, c'))
    (w0 : List WsAtom) (ctx : Str) (line col : Nat) (lt : TokType) (pol : Policy) (log : List Report)
    (hw0 : ∀ a ∈ w0, a.ok (Lemmas.WriterLex.diaOf c) = true)
    (hfirst : afterWsOf lt = true ∨ ∀ b rest, w0 ≠ WsAtom.comment b :: rest)
    (hws : (afterWsOf lt || !w0.isEmpty) = true)
    (hfitw : linesFit col (renderWs w0) = true)
    (hcolw : (posAfter line col (renderWs w0)).2 ≤ c.lastColumn)
    (hctx : followOk (Lemmas.WriterLex.diaOf c) ctx = true) :
    ∃ (p : Presentation) (s' : Str) (L C : Nat),
      nextToken (Lemmas.WriterLex.diaOf c) ⟨renderWs w0 ++ (out ++ ctx), line, col, lt⟩ pol log
        = .ok (⟨p.tokType, s', L, C⟩, ⟨ctx, L, C, p.tokType⟩) log
      ∧ (p ≠ .text → s' = s) ∧ (p = .text → decodeText true true s' = s)
      ∧ (p = .bare → q = false ∧ s.head? ≠ some 59 ∧ Model.recommend s (!q) (!c.isCif1) LINE = .none) := by
  obtain ⟨wrap, p, s', hout, hadm, htext, hfits, hs1, hs2, hbare⟩ := C02_value_presented c s q out c' hok hcol h
  -- the optional line break is one more whitespace atom
  let wl : List WsAtom := if wrap then [WsAtom.eol] else []
  have hwl : renderWs wl = Lemmas.WriterLex.wrapLf wrap := by cases wrap <;> rfl
  have hrender : renderWs (w0 ++ wl) = renderWs w0 ++ Lemmas.WriterLex.wrapLf wrap := by
    simp [renderWs, ← hwl]
  have hin : renderWs w0 ++ (out ++ ctx) = renderWs (w0 ++ wl) ++ (renderValue p s' ++ ctx) := by
    rw [hrender, hout]; simp
  -- no over-long line in the whitespace and in the value
  have hf := hfits _ hcolw
  rw [hout, linesFit_append] at hf
  simp only [Bool.and_eq_true] at hf
  have hfitw' : linesFit col (renderWs (w0 ++ wl)) = true := by
    rw [hrender, linesFit_append, hfitw, Bool.true_and]
    rw [posAfter_col_indep (renderWs w0) 0 line col]
    exact hf.1
  have hcolEq : (posAfter line col (renderWs (w0 ++ wl))).2
      = (posAfter 0 (posAfter line col (renderWs w0)).2 (Lemmas.WriterLex.wrapLf wrap)).2 := by
    rw [hrender, posAfter_append]
    exact posAfter_col_indep _ _ _ _
  have hfitv : linesFit (posAfter line col (renderWs (w0 ++ wl))).2 (renderValue p s') = true := by
    rw [hcolEq]; exact hf.2
  have hstart : startOk p s' (posAfter line col (renderWs (w0 ++ wl))).2 = true := by
    cases p with
    | text =>
      have := htext rfl
      subst this
      rw [hcolEq]
      simp [startOk, Lemmas.WriterLex.wrapLf, posAfter]
    | bare =>
      have e := hs1 (by intro e; cases e)
      subst e
      have := (hbare rfl).2.1
      simp only [startOk, semiOk, Bool.not_eq_true', Bool.and_eq_false_iff, beq_eq_false_iff_ne, ne_eq]
      left; exact this
    | squote => rfl
    | dquote => rfl
    | tsquote => rfl
    | tdquote => rfl
  have hatoms : ∀ a ∈ w0 ++ wl, a.ok (Lemmas.WriterLex.diaOf c) = true := by
    intro a ha
    rcases List.mem_append.mp ha with h1 | h1
    · exact hw0 a h1
    · cases wrap <;> simp [wl] at h1
      subst h1; rfl
  have hfirst' : afterWsOf lt = true ∨ ∀ b rest, w0 ++ wl ≠ WsAtom.comment b :: rest := by
    rcases hfirst with h1 | h1
    · left; exact h1
    · right
      intro b rest
      cases w0 with
      | nil => cases wrap <;> simp [wl]
      | cons a r =>
        intro e
        simp only [List.cons_append, List.cons.injEq] at e
        exact h1 b r (by rw [e.1])
  have hws' : (afterWsOf lt || !(w0 ++ wl).isEmpty) = true := by
    cases hlt : afterWsOf lt
    · simp only [hlt, Bool.false_or, Bool.not_eq_true', List.isEmpty_eq_false_iff] at hws ⊢
      intro e
      exact hws (List.append_eq_nil_iff.mp e).1
    · rfl
  refine ⟨p, s', (posAfter line col (renderWs (w0 ++ wl) ++ renderValue p s')).1,
    (posAfter line col (renderWs (w0 ++ wl) ++ renderValue p s')).2, ?_, hs1, hs2, hbare⟩
  rw [hin]
  exact C01_lex_value_after_ws (Lemmas.WriterLex.diaOf c) (w0 ++ wl) p s' ctx line col lt pol log hatoms hfirst' hws' hfitw'
    hadm hfitv hstart hctx

/-- **An unquoted value stays unquoted** (the other half of the quoted-status relation): a one-line unquoted string that the
    CIF 2.0 rules admit in whitespace-delimited form at any position (`unquotedOk`: what `cif_value_set_quoted` accepts, and
    not beginning with `;`) and that fits a line is written bare — `write_char` emits exactly its units, behind a line
    break if it does not fit on the current line — hence (`C02_value_roundtrip`) read back as a VALUE token.  The two
    exceptions of property C02 are exactly the hypotheses: a first character `;`, and (open finding) a line > 2048. -/
theorem C02_unquoted_stays_unquoted (c : Ctx) (s : Str) (out : Str) (c' : Ctx)
    (hv : ¬(c.isCif1 = true ∧ validate11 s = false))
    (hu : Model.unquotedOk s true = true) (h1 : (Model.counters s).numLines = 1) (hm : (Model.counters s).maxLine ≤ LINE)
    (h : writeChar c s false true = .ok (out, c')) :
    out = Lemmas.WriterLex.wrapLf (decide (s.length + c.lastColumn > LINE)) ++ s := by
  have h := (Lemmas.WriterChar.writeChar_ok c s false true (out, c') h).2
  have hrec : Model.recommend s (!false) (!c.isCif1) LINE = .none := by
    simp [Model.recommend, Model.chooseDelim, hm, h1, hu]
  have hd0 : (Model.analyze s (!false) (!c.isCif1) LINE).delimLength = 0 := by
    rw [(Lemmas.WriterChar.analyze_delim s _ _ _).2, hrec]; rfl
  rw [Lemmas.WriterChar.writeChar_delim0 c s false true hv hd0] at h
  obtain ⟨_, hmax, _⟩ := Lemmas.WriterLex.one_line s (!false) (!c.isCif1) LINE h1
  rw [hmax] at h
  have hne : s ≠ [] := by
    intro e; subst e; simp [Model.unquotedOk] at hu
  obtain ⟨c'', hout⟩ := Lemmas.WriterLex.writeUnquoted_out c s hne
  rw [hout] at h
  simp only [Except.ok.injEq, Prod.mk.injEq] at h
  exact h.1.symm

/-! ### statements that need the lexer / parser model (group gD) or the whole-document invariant: kept as `_full`
     propositions; what is proved of them is named below each -/

/-- "same, except that an unquoted string beginning with ';' may come back quoted" -/
def C02_quotedRel (q : Bool) (s : Str) (q' : Bool) : Prop :=
  q' = q ∨ (q = false ∧ s.head? = some 59 ∧ q' = true)

/-- what may follow a value: end of input or whitespace -/
def C02_sepStart (sep : Str) : Prop := sep = [] ∨ sep.head? = some 32 ∨ sep.head? = some 9 ∨ sep.head? = some 10

/-- FULL: every CIF 2.0 string value written by `write_char` is read back by the lexer (`nextValue` of
    Model/Lexer.lean, group gD) with the same text and — up to `C02_quotedRel` — the same quoted status.  The hypothesis
    `q = true ∨ s.length ≤ LINE` excludes the one open finding (an unquoted value whose single line exceeds the limit).
    SUPERSEDED by the theorem `C02_value_roundtrip` (stated against the lexer model `Model.Lexer.nextToken` of group gD)
    together with `C02_unquoted_stays_unquoted`; kept for reference. -/
def C02_value_roundtrip_full (nextValue : Dialect → Str → Option (V × Str)) : Prop :=
  ∀ (c : Ctx) (s : Str) (q : Bool) (out : Str) (c' : Ctx) (sep : Str),
    c.isCif1 = false → (13 : CU) ∉ s → (0 : CU) ∉ s → (q = true ∨ s.length ≤ LINE) → C02_sepStart sep →
    writeChar c s q true = .ok (out, c') →
    ∃ q', nextValue .cif2 (out ++ sep) = some (.chr q' s, sep) ∧ C02_quotedRel q s q'

/-- FULL: whatever `cif_write` emits in CIF 2.0 mode parses without error to an equivalent CIF (`parse` and `equiv` from
    the parser model and the data-model specification). -/
def C02_roundtrip_full (parse : Dialect → Str → Option (Cif × List Code)) (equiv : Cif → Cif → Prop) : Prop :=
  ∀ (cif : Cif) (out : Str), writeCif 0 (ofCif cif) = .ok out → ∃ cif', parse .cif2 out = some (cif', []) ∧ equiv cif cif'

/-- the lines of an output -/
abbrev C02_lines (out : Str) : List Str := splitLines out

/-- FULL: no line of a successfully written CIF 2.0 document is longer than the limit, and the first line is the
    version comment — for every walk order (`WCif`), provided block / frame codes leave room for `data_` / `save_`
    and looped item names for the blank in front of them (the latter is the open finding F-loop-header-name).
    PROVED OF IT: the bound for the segments `fold_line` returns (`C02_fold_line_progress`: ≤ the line, > 0). -/
def C02_line_bound_full (codesFit namesFit : WCif → Prop) : Prop :=
  ∀ (cif : WCif) (out : Str), codesFit cif → namesFit cif → writeCif 0 cif = .ok out →
    (∀ l ∈ C02_lines out, l.length ≤ LINE) ∧ MAGIC20 <+: out

/-- FULL: `cif_write` succeeds on every writable CIF, or refuses with CIF_DISALLOWED_VALUE.  FALSE of the current tree:
    table values can make it fail with CIF_ERROR / CIF_OVERLENGTH_LINE (open findings F-table-key-colon,
    F-table-number-overlength, F-nested-table-nowrap).  PROVED OF IT: `write_text` never fails under the flags
    `write_char` derives (`C02_text_total`, `C02_flags_semis`), hence no CIF_INTERNAL_ERROR. -/
def C02_total_full (writable : WCif → Prop) (hasUnquotableKey : WCif → Prop) : Prop :=
  ∀ (cif : WCif), writable cif →
    (∃ out, writeCif 0 cif = .ok out) ∨ (writeCif 0 cif = .error Gen.ErrCodes.CIF_DISALLOWED_VALUE ∧ hasUnquotableKey cif)

-- non-vacuity: the hypotheses are satisfiable and the statement speaks about real encodings
example : textBody (a!"ab\\\ncd;") true true = .ok (a!"> \\\\\n> ab\\\\\n\n> cd;") := by rfl
example : decodeText true true (a!"> \\\\\n> ab\\\\\n\n> cd;") = (a!"ab\\\ncd;") := by decide
example : C02_plainAdmissible (a!";\\\nx") := Or.inl rfl
example : C02_plainAdmissible (a!"ab\ncd\\") := Or.inr (by decide)
example : ¬ C02_plainAdmissible (a!"ab\\ \ncd") := by
  intro h; rcases h with h | h
  · cases h
  · revert h; decide
-- the side condition matters: an unmarked body that looks marked is NOT decoded to itself
example : decodeText true true (a!"ab\\ \ncd") ≠ (a!"ab\\ \ncd") := by decide

end CifModel
