import CifModel.Model.Writer
import CifModel.Model.Decode
namespace CifModel
end CifModel
