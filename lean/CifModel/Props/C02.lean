import CifModel.Model.Writer
import CifModel.Model.Decode
import CifModel.Spec.TextProtocol
import CifModel.Lemmas.WriterFold
import CifModel.Lemmas.WriterText
import CifModel.Lemmas.DecodeMarker
/-
  Property C02 — everything `cif_write` emits re-parses to an equivalent CIF.

  Theorems about the executable model of the writer (`Model/Writer.lean`) and of `decode_text` (`Model/Decode.lean`).
-/
namespace CifModel
open Model.Writer Model.Decode
open Lemmas.DecodeMarker (firstLine)

/-- side condition for writing a text field WITHOUT fold and prefix markers: the text must not itself look marked —
    it starts with the semicolon that switches decoding off, or its first line does not end in a backslash followed by
    blanks only (this is what `has_reserved_start` of cif_analyze_string establishes before `write_char` clears `fold`) -/
def C02_plainAdmissible (s : Str) : Prop :=
  s.head? = some 59 ∨ Spec.TextProtocol.endsBslBlank (firstLine s) = false

/-- **The inverse-pair theorem of the folding / prefix protocol.**  For every non-empty text `s` without CR and EVERY
    combination of the `fold` and `prefix` flags (the unmarked combination under `C02_plainAdmissible`): whenever
    `write_text` produces a body, `decode_text` (line unfolding and prefix removal enabled: the CIF 2.0 defaults, and the
    CIF 1.1 options of property C13) maps that body back to `s`. -/
theorem C02_text_protocol (s : Str) (fold pre : Bool) (body : Str)
    (hcr : (13 : CU) ∉ s)
    (hside : fold = true ∨ pre = true ∨ C02_plainAdmissible s)
    (hw : textBody s fold pre = .ok body) :
    decodeText true true body = s := by
  unfold textBody at hw
  by_cases h00 : fold = false ∧ pre = false
  · simp only [h00, and_self, ↓reduceIte] at hw
    cases hw
    apply Lemmas.DecodeMarker.decodeText_plain s hcr
    rcases hside with h | h | h
    · rw [h00.1] at h; cases h
    · rw [h00.2] at h; cases h
    · exact h
  · simp only [h00, ↓reduceIte] at hw
    have hfp : fold = true ∨ pre = true := by
      cases fold <;> cases pre <;> simp_all
    cases hq : textPhys fold pre (targetLength pre) (splitLines s) with
    | error e => simp [hq] at hw
    | ok Q =>
      simp only [hq] at hw
      cases hw
      have hsp := Lemmas.WriterText.splitLines_spec s
      have hno : ∀ l ∈ splitLines s, Lemmas.DecodeLines.NoEol l := fun l hl =>
        Lemmas.WriterText.noEol_of_no10_no13 (hsp.1 l hl)
          (fun h13 => hcr (Lemmas.WriterText.splitLines_mem s l hl 13 h13))
      obtain ⟨hne, hnoe, hunf⟩ :=
        Lemmas.WriterText.textPhys_spec fold pre hfp _ (splitLines s) Q (Lemmas.WriterText.splitLines_ne_nil s) hno hq
      cases Q with
      | nil => exact absurd rfl hne
      | cons p ps =>
        rw [Lemmas.DecodeMarker.decodeText_marked fold pre hfp p ps (hnoe p List.mem_cons_self)
          (fun q hq => hnoe q (List.mem_cons_of_mem _ hq))]
        rw [hunf, hsp.2]

/-- **`fold_line` makes progress.**  Wherever semicolons are harmless (the prefix protocol is on, or the line holds no
    semicolon — `write_char` forces the prefix whenever it folds a text containing one) the value returned for a non-empty
    line lies in `(0, length]`: the segment loop of `write_text` terminates and never returns CIF_INTERNAL_ERROR. -/
theorem C02_fold_line_progress (line : Str) (doFold : Bool) (target window : Nat) (forPrefix : Bool)
    (hne : line ≠ []) (hw : 0 < window) (hwt : window < target) (hsemi : forPrefix = true ∨ (59 : CU) ∉ line) :
    0 < foldLine line doFold target window forPrefix ∧ foldLine line doFold target window forPrefix ≤ line.length :=
  ⟨Lemmas.WriterFold.foldLine_pos line doFold target window forPrefix hne hw hwt hsemi,
   Lemmas.WriterFold.foldLine_le line doFold target window forPrefix⟩

/-- `write_text` never fails (no CIF_INTERNAL_ERROR) when it prefixes or the text holds no semicolon -/
theorem C02_text_total (s : Str) (fold pre : Bool) (hsemi : pre = true ∨ (59 : CU) ∉ s) :
    ∃ body, textBody s fold pre = .ok body := by
  unfold textBody
  split
  · exact ⟨s, rfl⟩
  · have hwt : WINDOW < targetLength pre := by cases pre <;> decide
    have hl : pre = true ∨ ∀ l ∈ splitLines s, (59 : CU) ∉ l := by
      rcases hsemi with h | h
      · left; exact h
      · right; exact fun l hl hm => h (Lemmas.WriterText.splitLines_mem s l hl 59 hm)
    obtain ⟨Q, hQ⟩ := Lemmas.WriterText.textPhys_ok fold pre (targetLength pre) hwt (splitLines s) hl
    rw [hQ]
    exact ⟨_, rfl⟩

-- non-vacuity: the hypotheses are satisfiable and the statement speaks about real encodings
example : textBody (a!"ab\\\ncd;") true true = .ok (a!"> \\\\\n> ab\\\\\n\n> cd;") := by rfl
example : decodeText true true (a!"> \\\\\n> ab\\\\\n\n> cd;") = (a!"ab\\\ncd;") := by decide
example : C02_plainAdmissible (a!";\\\nx") := Or.inl rfl
example : C02_plainAdmissible (a!"ab\ncd\\") := Or.inr (by decide)
example : ¬ C02_plainAdmissible (a!"ab\\ \ncd") := by
  intro h; rcases h with h | h
  · cases h
  · revert h; decide
-- the side condition matters: an unmarked body that looks marked is NOT decoded to itself
example : decodeText true true (a!"ab\\ \ncd") ≠ (a!"ab\\ \ncd") := by decide

end CifModel
