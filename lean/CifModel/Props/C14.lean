import CifModel.Model.Walk
namespace CifModel
end CifModel
