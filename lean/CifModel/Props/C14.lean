import CifModel.Lemmas.Walk
import CifModel.Lemmas.WalkH
import CifModel.Lemmas.WalkHPos
/-
  Property C14 — cif_walk visits every element once and obeys navigation directives.

  Model: `Walk.walk p c` (Model/Walk.lean, follows cif_walk / walk_container / walk_loops / walk_loop / walk_packet /
  walk_item as written).  Specification: the event tree of a CIF, its flattening `fullTraversal`, and the uniform
  pruning semantics `walkSpec` of Spec/Traversal.lean.  All theorems quantify over every CIF (`WCif`: any shape, any
  enumeration order, any per-packet item order) and every handler program (`Prog`: an arbitrary function of the
  invocation index and the event).

  History.  Before fix d1128e2 walk_loop recognised the end of the packet iteration by `result == CIF_FINISHED` alone,
  so a handler answering the positive code 1 from packet_start / item / packet_end did not stop the walk (finding F32,
  found by the correspondence oracle; the global theorems then carried a hypothesis `NoFinished p`).  The model now
  follows the repaired code (the `stopped` flag) and the theorems hold for every program; `C14_cex_finished_pinned`
  keeps the counterexample as a statement about the pinned variant `walkLoopPinned`.
-/
namespace CifModel
open Walk Spec.Traversal Lemmas.Walk Lemmas.WalkH Spec.TraversalPos

/-- the state after one more callback `e` -/
def C14_push (w : W) (e : Ev) : W := { n := w.n + 1, log := e :: w.log }

def C14_startEv (d : Nat) : WCont → Ev
  | .mk code _ _ => if d = 0 then .blockStart code else .frameStart code

/-- **All continue**: on a CIF without packet-less loops, handlers that always continue are shown every block, frame,
    loop, packet and item exactly once, parents before children, frames before loops, start before end (the
    depth-first flattening of the event tree), and cif_walk returns CIF_OK. -/
theorem C14_all_continue (c : WCif) (hc : noEmptyLoops c = true) :
    walk allCont c = (fullTraversal c, OK) := by
  rw [walk_eq_spec allCont c]
  simp only [walkSpec, fullTraversal, run_allCont _ _ (noFail_cif c hc), finalCode]
  simp [W.init]

/-- the number of callbacks of an undisturbed walk is the number of events of the tree: nothing is delivered twice -/
theorem C14_all_continue_count (c : WCif) (hc : noEmptyLoops c = true) :
    (walk allCont c).1.length = (fullTraversal c).length := by
  rw [C14_all_continue c hc]

/-- **Refinement**, for EVERY CIF and EVERY program: the callbacks delivered and the result are exactly those of the
    declarative pruning semantics over the event tree — the full traversal minus what the answers suppress.  (A loop
    without packets is a failure point of the tree: entering it ends the walk with CIF_EMPTY_LOOP.) -/
theorem C14_refines_spec (p : Prog) (c : WCif) :
    walk p c = walkSpec p c :=
  walk_eq_spec p c

/-- **What is visited is a sublist of the full traversal**, for every CIF and every program: the callbacks delivered are
    callbacks of `fullTraversal c`, in the same order, none twice — a walk with directives only ever LEAVES OUT callbacks.
    Which ones is said exactly by `walkSpec` (`C14_refines_spec`) and, per directive, by `C14_skip_current_tree`,
    `C14_skip_siblings_tree`, `C14_parent_end_after_skip_siblings`:

    removed by SKIP_CURRENT at the start callback of element `t` : the callbacks of the descendants of `t` AND the end
      callback of `t` itself (cif.h: "bypass the current element, or at least any untraversed children");
    removed by SKIP_SIBLINGS at the start callback of `t` (or at an item): the same, the callbacks of the not-yet-visited
      siblings of `t` of the same group (the loops of a container are not siblings of its frames) AND the END callback of the
      PARENT of `t` — packet_end after an item, loop_end after a packet_start, block_end / frame_end after a loop_start,
      cif_end after a block_start; the one exception: after a frame_start the parent's loops are still walked and its
      end callback is delivered;
    at an END callback SKIP_CURRENT is CONTINUE, SKIP_SIBLINGS removes the not-yet-visited siblings and the parent's end
      callback as above;
    END / an error code: everything that follows.
    The property text speaks of "exactly the callbacks for the descendants" / "additionally the not-yet-visited siblings":
    the end callbacks named above are removed IN ADDITION (the documented reading, DESIGN.md C14). -/
theorem C14_visits_sublist (p : Prog) (c : WCif) : (walk p c).1.Sublist (fullTraversal c) := by
  rw [walk_eq_spec p c]
  exact spec_sublist p c

/-- SKIP_CURRENT in traversal terms: where the full traversal has `flatten t = s :: … ++ [e]`, the walk delivers `[s]` and
    goes on with what follows `t` -/
theorem C14_skip_current_tree (p : Prog) (w : W) (s e : Ev) (g1 g2 : List ETree) (h : p w.n s = SKIP_CURRENT) :
    run p (.node s g1 g2 e) w = (.go, C14_push w s) := by
  have hne : ¬ (SKIP_CURRENT = CONTINUE) := by decide
  simp [run, h, hne, classify_go (Or.inr rfl), call, C14_push]

/-- SKIP_SIBLINGS in traversal terms: of `flattenList (t :: ts)` the walk delivers `[s]`: nothing of `t` below its start,
    nothing of the later siblings `ts` -/
theorem C14_skip_siblings_tree (p : Prog) (w : W) (s e : Ev) (g1 g2 ts : List ETree) (h : p w.n s = SKIP_SIBLINGS) :
    runList p (.node s g1 g2 e :: ts) w = (.sib, C14_push w s) := by
  have hne : ¬ (SKIP_SIBLINGS = CONTINUE) := by decide
  simp [runList, run, h, hne, classify_sib, call, C14_push]

/-- … and the parent: when a child of its LAST group of children asked to skip its siblings, the parent's end callback is
    not delivered and the parent counts as completed; when the child was a frame (first group of a container), the
    parent's loops are walked and its end callback is delivered as usual -/
theorem C14_parent_end_after_skip_siblings (p : Prog) (w w1 : W) (s e : Ev) (g1 g2 : List ETree) (hs : p w.n s = CONTINUE) :
    (runList p g1 (call p w s).2 = (.go, w1) ∨ runList p g1 (call p w s).2 = (.sib, w1)) →
    (∀ w2, runList p g2 w1 = (.sib, w2) → run p (.node s g1 g2 e) w = (.go, w2))
    ∧ (∀ w2, runList p g2 w1 = (.go, w2) → run p (.node s g1 g2 e) w = (classify (p w2.n e), (call p w2 e).2)) := by
  intro h1
  constructor
  · intro w2 h2
    rcases h1 with h1 | h1 <;> simp [run, hs, h1, h2, finish]
  · intro w2 h2
    rcases h1 with h1 | h1 <;> simp [run, hs, h1, h2, finish]

/-- **SKIP_CURRENT** at a start callback, for every element kind, in any state `w` (= after any history) and for any
    program: exactly the start callback is delivered — none for the descendants, none for the end — and the walk goes on
    with the next sibling as after a completed element.  (For an item the answer is the same as CONTINUE.) -/
theorem C14_skip_current (p : Prog) (w : W) :
    (∀ d c, p w.n (C14_startEv d c) = SKIP_CURRENT → walkCont p d c w = (SKIP_CURRENT, C14_push w (C14_startEv d c)))
    ∧ (∀ d c fs, p w.n (C14_startEv d c) = SKIP_CURRENT →
        walkFrames p d (c :: fs) w = walkFrames p d fs (C14_push w (C14_startEv d c)))
    ∧ (∀ c bs, p w.n (C14_startEv 0 c) = SKIP_CURRENT →
        walkBlocks p (c :: bs) w = walkBlocks p bs (C14_push w (C14_startEv 0 c)))
    ∧ (∀ l ls res, p w.n (.loopStart l.category l.names) = SKIP_CURRENT →
        walkLoopsFrom p (l :: ls) res w = walkLoopsFrom p ls SKIP_CURRENT (C14_push w (.loopStart l.category l.names)))
    ∧ (∀ pk pks, p w.n (.pktStart pk) = SKIP_CURRENT →
        walkPackets p (pk :: pks) w = walkPackets p pks (C14_push w (.pktStart pk)))
    ∧ (∀ nm v is, p w.n (.item nm v) = SKIP_CURRENT →
        walkItems p ((nm, v) :: is) w = walkItems p is (C14_push w (.item nm v))) := by
  have hcont : ∀ d c, p w.n (C14_startEv d c) = SKIP_CURRENT →
      walkCont p d c w = (SKIP_CURRENT, C14_push w (C14_startEv d c)) := by
    intro d c h
    rcases c with ⟨code, frames, loops⟩
    simp only [C14_startEv] at h
    have hne : ¬ (SKIP_CURRENT = CONTINUE) := by decide
    simp [walkCont, call, h, hne, C14_push, C14_startEv]
  refine ⟨hcont, ?_, ?_, ?_, ?_, ?_⟩
  · intro d c fs h
    simp [walkFrames, hcont d c h]
  · intro c bs h
    simp [walkBlocks, hcont 0 c h]
  · intro l ls res h
    have hne : ¬ (SKIP_CURRENT = CONTINUE) := by decide
    simp [walkLoopsFrom, walkLoop, call, h, hne, C14_push]
  · intro pk pks h
    have hne : ¬ (SKIP_CURRENT = CONTINUE) := by decide
    simp [walkPackets, walkPacket, call, h, hne, C14_push]
  · intro nm v is h
    simp [walkItems, call, h, C14_push]

/-- **SKIP_SIBLINGS** at a start callback (or at an item), in any state and for any program: only that callback is
    delivered for the element, and the not-yet-visited siblings are skipped — the remaining frames (the loops of the
    container are *not* siblings of its frames: `none` = go on to the loops), the remaining blocks (result CIF_OK), the
    remaining loops, packets (the loop then returns CONTINUE without loop_end) or items (the packet returns CONTINUE
    without packet_end). -/
theorem C14_skip_siblings (p : Prog) (w : W) :
    (∀ d c fs, p w.n (C14_startEv d c) = SKIP_SIBLINGS →
        walkFrames p d (c :: fs) w = (none, C14_push w (C14_startEv d c)))
    ∧ (∀ c bs, p w.n (C14_startEv 0 c) = SKIP_SIBLINGS →
        walkBlocks p (c :: bs) w = (some OK, C14_push w (C14_startEv 0 c)))
    ∧ (∀ l ls res, p w.n (.loopStart l.category l.names) = SKIP_SIBLINGS →
        walkLoopsFrom p (l :: ls) res w = (SKIP_SIBLINGS, C14_push w (.loopStart l.category l.names)))
    ∧ (∀ pk pks, p w.n (.pktStart pk) = SKIP_SIBLINGS →
        walkPackets p (pk :: pks) w = (true, CONTINUE, C14_push w (.pktStart pk)))
    ∧ (∀ nm v is, p w.n (.item nm v) = SKIP_SIBLINGS →
        walkItems p ((nm, v) :: is) w = (some CONTINUE, C14_push w (.item nm v))) := by
  have hne : ¬ (SKIP_SIBLINGS = CONTINUE) := by decide
  have hne2 : ¬ (SKIP_SIBLINGS = SKIP_CURRENT) := by decide
  have hcont : ∀ d c, p w.n (C14_startEv d c) = SKIP_SIBLINGS →
      walkCont p d c w = (SKIP_SIBLINGS, C14_push w (C14_startEv d c)) := by
    intro d c h
    rcases c with ⟨code, frames, loops⟩
    simp only [C14_startEv] at h
    simp [walkCont, call, h, hne, C14_push, C14_startEv]
  refine ⟨?_, ?_, ?_, ?_, ?_⟩
  · intro d c fs h
    simp [walkFrames, hcont d c h, hne, hne2]
  · intro c bs h
    simp [walkBlocks, hcont 0 c h, hne, hne2]
  · intro l ls res h
    simp [walkLoopsFrom, walkLoop, call, h, hne, hne2, C14_push]
  · intro pk pks h
    simp [walkPackets, walkPacket, call, h, hne, hne2, C14_push]
  · intro nm v is h
    simp [walkItems, call, h, hne, hne2, C14_push]

/-- **END**: a callback answering END is the last callback, and cif_walk returns CIF_OK — on every CIF. -/
theorem C14_end (p : Prog) (c : WCif)
    (k : Nat) (h : k < (walk p c).1.length) (hk : p k (walk p c).1[k] = END) :
    k + 1 = (walk p c).1.length ∧ (walk p c).2 = OK := by
  have := (spec_stop p c).1
  simp only [← walk_eq_spec p c] at this
  have h2 := this k h (by rw [hk]; decide)
  simpa [hk] using h2

/-- **Error codes propagate**: a callback answering anything that is not a navigation code —
    in particular any positive code — is the last callback, and cif_walk returns that code unchanged — on every CIF. -/
theorem C14_error_propagates (p : Prog) (c : WCif)
    (k : Nat) (h : k < (walk p c).1.length) (hk : p k (walk p c).1[k] > 0) :
    k + 1 = (walk p c).1.length ∧ (walk p c).2 = p k (walk p c).1[k] := by
  have := (spec_stop p c).1
  simp only [← walk_eq_spec p c] at this
  have hs : isStop (p k (walk p c).1[k]) := by
    unfold isStop CONTINUE SKIP_CURRENT SKIP_SIBLINGS
    omega
  have h2 := this k h hs
  have hne : p k (walk p c).1[k] ≠ END := by unfold END; omega
  simpa [hne] using h2

/-- **Directives are not errors**: if every answer is one of CONTINUE, SKIP_CURRENT, SKIP_SIBLINGS, END then cif_walk
    returns CIF_OK (on CIFs without packet-less loops). -/
theorem C14_returns_ok_on_directives (p : Prog) (c : WCif) (hc : noEmptyLoops c = true)
    (hd : ∀ k e, p k e = CONTINUE ∨ p k e = SKIP_CURRENT ∨ p k e = SKIP_SIBLINGS ∨ p k e = END) :
    (walk p c).2 = OK := by
  have hs := spec_stop p c
  simp only [← walk_eq_spec p c] at hs
  by_cases hex : ∃ (k : Nat) (h : k < (walk p c).1.length), isStop (p k (walk p c).1[k])
  · obtain ⟨k, h, hst⟩ := hex
    have h2 := (hs.1 k h hst).2
    have hend : p k (walk p c).1[k] = END := by
      rcases hd k (walk p c).1[k] with h' | h' | h' | h'
      · exact absurd (Or.inl h') hst
      · exact absurd (Or.inr (Or.inl h')) hst
      · exact absurd (Or.inr (Or.inr h')) hst
      · exact h'
    simpa [hend] using h2
  · -- no stopping answer: the result is CIF_OK unless the walk ran into a failure point, and there is none
    rw [walk_eq_spec p c]
    show finalCode (run p (cifTree c) W.init).1 = OK
    generalize hx : run p (cifTree c) W.init = x
    rcases x with ⟨o, w1⟩
    cases o with
    | go => rfl
    | sib => rfl
    | stop r =>
      obtain ⟨k, e, hke⟩ := run_fromprog p (cifTree c) _ _ _ (noFail_cif c hc) hx
      have hstop := run_stop p (cifTree c) _ _ _ hx
      have hend : r = END := by
        rcases hd k e with h' | h' | h' | h'
        · exact absurd (Or.inl (hke ▸ h')) hstop
        · exact absurd (Or.inr (Or.inl (hke ▸ h'))) hstop
        · exact absurd (Or.inr (Or.inr (hke ▸ h'))) hstop
        · exact hke ▸ h'
      simp [finalCode, hend]

/-- without the restriction: the only other result of a walk whose handlers answer directives only is CIF_EMPTY_LOOP -/
theorem C14_returns_ok_or_empty_loop (p : Prog) (c : WCif)
    (hd : ∀ k e, p k e = CONTINUE ∨ p k e = SKIP_CURRENT ∨ p k e = SKIP_SIBLINGS ∨ p k e = END) :
    (walk p c).2 = OK ∨ (walk p c).2 = EMPTY_LOOP := by
  have hs := spec_stop p c
  simp only [← walk_eq_spec p c] at hs
  by_cases hex : ∃ (k : Nat) (h : k < (walk p c).1.length), isStop (p k (walk p c).1[k])
  · obtain ⟨k, h, hst⟩ := hex
    have h2 := (hs.1 k h hst).2
    have hend : p k (walk p c).1[k] = END := by
      rcases hd k (walk p c).1[k] with h' | h' | h' | h'
      · exact absurd (Or.inl h') hst
      · exact absurd (Or.inr (Or.inl h')) hst
      · exact absurd (Or.inr (Or.inr h')) hst
      · exact h'
    left; simpa [hend] using h2
  · exact hs.2 (fun k h hst => hex ⟨k, h, hst⟩)

/-- **Packet-less loops** (what the code does; the property makes no claim): when the walk enters a loop without packets
    (loop_start answered CONTINUE) the loop aborts with CIF_EMPTY_LOOP and no further callback for it. -/
theorem C14_empty_loop (p : Prog) (w : W) (l : WLoop) (hl : l.packets = [])
    (h : p w.n (.loopStart l.category l.names) = CONTINUE) :
    walkLoop p l w = (EMPTY_LOOP, C14_push w (.loopStart l.category l.names)) := by
  simp [walkLoop, call, h, hl, C14_push]

-- ---- the repaired defect F32, as a statement about the pinned variant ---------------------------------------------

/-- a loop `_a` with two packets -/
def C14_cexLoop : WLoop := { category := none, names := [(a!"_a")], packets := [[((a!"_a"), .unk)], [((a!"_a"), .na)]] }
/-- answers 1 (= CIF_FINISHED) at invocation 1, the first packet_start -/
def C14_cexProg : Prog := fun k _ => if k = 1 then 1 else 0

/-- before fix d1128e2: the handler's positive code 1 at the first packet_start did not stop the walk of the loop —
    loop_end was still delivered (3 callbacks) and the loop reported CONTINUE; the repaired walk_loop stops after 2
    callbacks and returns the code 1 -/
theorem C14_cex_finished_pinned :
    (walkLoopPinned C14_cexProg C14_cexLoop W.init).2.n = 3 ∧ (walkLoopPinned C14_cexProg C14_cexLoop W.init).1 = 0
      ∧ (walkLoop C14_cexProg C14_cexLoop W.init).2.n = 2 ∧ (walkLoop C14_cexProg C14_cexLoop W.init).1 = 1 := by
  decide +kernel

-- ---- non-vacuity ----------------------------------------------------------------------------------------------------

/-- two blocks, a frame with a scalar, a loop with two packets -/
def C14_demo : WCif :=
  [.mk (a!"b1") [.mk (a!"f") [] [{ category := some [], names := [(a!"_s")], packets := [[((a!"_s"), .chr true (a!"x"))]] }]]
      [{ category := none, names := [(a!"_a"), (a!"_b")], packets := [[((a!"_a"), .unk), ((a!"_b"), .na)], [((a!"_a"), .na), ((a!"_b"), .unk)]] }],
   .mk (a!"b2") [] []]

example : noEmptyLoops C14_demo = true := by decide +kernel
example : (fullTraversal C14_demo).length = 23 := by decide +kernel
example : (walk allCont C14_demo).1.length = 23 ∧ (walk allCont C14_demo).2 = 0 := by decide +kernel
-- a program with a directive at invocation 3 (frame f's loop_start): the walk is shorter
example : (walk (fun k _ => if k = 3 then SKIP_SIBLINGS else 0) C14_demo).1.length = 18 := by decide +kernel
-- END at invocation 5 is the last callback (6 delivered), result OK; a positive code is returned
example : (walk (fun k _ => if k = 5 then END else 0) C14_demo).1.length = 6
    ∧ (walk (fun k _ => if k = 5 then END else 0) C14_demo).2 = 0 := by decide +kernel
example : (walk (fun k _ => if k = 5 then 7 else 0) C14_demo).2 = 7 := by decide +kernel
-- the code 1 (CIF_FINISHED) from a packet-level callback is returned like any other (invocation 4 = packet_start in frame f)
example : (walk (fun k _ => if k = 4 then 1 else 0) C14_demo).2 = 1 ∧ (walk (fun k _ => if k = 4 then 1 else 0) C14_demo).1.length = 5 := by decide +kernel
-- a packet-less loop: CIF_EMPTY_LOOP
example : (walk allCont [.mk (a!"b") [] [{ category := none, names := [(a!"_a")], packets := [] }]]).2 = 36 := by decide +kernel

-- ---- handles ----------------------------------------------------------------------------------------------------------------

/-- **The walk with handles is the walk.**  `walkH` (Model/WalkH.lean) is cif_walk with the handle each callback is given; forgetting the
    handles gives exactly the callbacks and the result of `walk`, for every CIF and every program — so every theorem above is a theorem
    about the callbacks of `walkH`. -/
theorem C14_handles_refine (p : Prog) (c : WCif) :
    (walkH p c).1.map (·.1) = (walk p c).1 ∧ (walkH p c).2 = (walk p c).2 :=
  walkH_erase p c

/-- **Handles passed to callbacks are the elements being walked — by POSITION, not by content** (review rA, finding A.2).
    `fullTraversalH c` (Spec/TraversalPos.lean) lists every element of the CIF with its position — block `i`: `.cont [i]`; frame `j`
    of the container at `path`: `.cont (path ++ [j])`; loop `i` of it: `.loop path i`; packet `j`: `.packet path i j`; item `k`:
    `.item path i j k` — depth first, the start and the end entry of one element with the SAME position; it is written from the
    shape of the CIF only (no program, no walker).  For every CIF and every handler program:
    1. the (callback, handle) pairs of the walk are a SUBLIST of the positional traversal: the r-th callback delivered carries the
       position of the entry of the positional traversal it is matched with, in traversal order — so a callback can not be given the
       handle of another element with equal content (the other block's frame `f`, the equal packet next to it), the handle at an
       end callback is the one of the start callback, packet and item handles lie under the `(path, i)` of their loop entry;
    2. every entry of the positional traversal is resolved, by `lookup` / indexing from the root of the CIF, to the element it
       announces (`Res`: kind of container, code; category and names; the packet at index `j`; the item at index `k`);
    3. no (callback kind, position) occurs twice in the positional traversal, hence (4.) none twice among the delivered callbacks:
       each element's handle is handed out at most once per callback kind;
    5. forgetting the positions gives the event-only `fullTraversal` of the older C14 theorems;
    6. (the previous statement) every delivered pair satisfies `Res`.
    Witness of the difference: `ReviewRC14.fakeLog` (crossed handles, one position twice) satisfies 6 entry by entry, and is refuted
    by 1 and by 4 (`example` below). -/
theorem C14_handles_are_elements (p : Prog) (c : WCif) :
    (walkH p c).1.Sublist (fullTraversalH c)
    ∧ (∀ x ∈ fullTraversalH c, Res c x)
    ∧ ((fullTraversalH c).map (fun x => (kind x.1, x.2))).Nodup
    ∧ ((walkH p c).1.map (fun x => (kind x.1, x.2))).Nodup
    ∧ (fullTraversalH c).map (·.1) = fullTraversal c
    ∧ ∀ x ∈ (walkH p c).1, Res c x := by
  refine ⟨Lemmas.WalkHPos.walkH_sublist p c, Lemmas.WalkHPos.pos_res c, Lemmas.WalkHPos.pos_nodup c, ?_,
    Lemmas.WalkHPos.pos_erase c, ?_⟩
  · exact ((Lemmas.WalkHPos.walkH_sublist p c).map _).nodup (Lemmas.WalkHPos.pos_nodup c)
  · intro x hx
    have h := walkWH_res p c
    unfold walkH at hx
    exact h x (List.mem_reverse.mp hx)

/-- **All-CONTINUE: every element's handle, exactly once, in order.**  On a CIF without packet-less loops the walk under the handlers
    that always answer CIF_TRAVERSE_CONTINUE delivers exactly the positional traversal — every element of the CIF is announced with
    the handle of ITS position (two equal packets, two equal frames of different blocks: each with its own) — and returns CIF_OK. -/
theorem C14_handles_all_continue (c : WCif) (hc : noEmptyLoops c = true) : walkH allCont c = (fullTraversalH c, OK) := by
  have hs := Lemmas.WalkHPos.walkH_sublist allCont c
  have he := walkH_erase allCont c
  have ha := C14_all_continue c hc
  have hlen : (walkH allCont c).1.length = (fullTraversalH c).length := by
    have h1 : ((walkH allCont c).1.map (·.1)).length = ((fullTraversalH c).map (·.1)).length := by
      rw [he.1, ha, Lemmas.WalkHPos.pos_erase]
    simpa using h1
  have h1 := hs.eq_of_length hlen
  have h2 : (walkH allCont c).2 = OK := by rw [he.2, ha]
  exact Prod.ext h1 h2

/-- **Queries through the handles answer as the elements announced.**  Consequences of `C14_handles_are_elements` for the queries a
    handler can make through the handle it is given (and the `walk` executor makes inside every callback): for a container callback
    announcing code `code` with handle `path`: `cif_container_get_code` gives `code`; `cif_container_assert_block` gives CIF_OK exactly
    for block callbacks; the numbers of frames and loops listed are those of the container denoted; `cif_container_get_frame` with the
    code of its first listed frame returns the handle of a frame with that code (a child path); `cif_container_get_item_loop` with the
    first name of its first listed loop returns a loop handle of this container holding that name.  For a loop callback:
    `cif_loop_get_category` / `cif_loop_get_names` give the announced category and names, and a pass over the packets through the
    handle delivers as many packets as the loop denoted has.  For a packet / item callback: the handle names the loop being walked
    (the handle passed to loop_start: same container path, same position), the packet is the one at the iterator's position in it,
    and category / names asked through that loop handle during the callback are those of this loop. -/
theorem C14_handle_queries (p : Prog) (c : WCif) :
    (∀ e path, (e, Handle.cont path) ∈ (walkH p c).1 →
      ∃ code ct, lookup c path = some ct ∧ ct.code = code ∧ qCode c path = some code
        ∧ ((e = .blockStart code ∨ e = .blockEnd code) ∧ qAssertBlock path = OK
            ∨ (e = .frameStart code ∨ e = .frameEnd code) ∧ qAssertBlock path = ARGUMENT_ERROR)
        ∧ qNumFrames c path = some ct.frames.length ∧ qNumLoops c path = some ct.loops.length
        ∧ (∀ f, ct.frames.head? = some f →
            ∃ j, qGetFrame c path f.code = some (.cont (path ++ [j])) ∧ qCode c (path ++ [j]) = some f.code)
        ∧ (∀ l nm, ct.loops.head? = some l → l.names.head? = some nm →
            ∃ i l', qItemLoop c path nm = some (.loop path i) ∧ lookupLoop c path i = some l' ∧ nm ∈ l'.names))
    ∧ (∀ e path i, (e, Handle.loop path i) ∈ (walkH p c).1 →
      ∃ cat names l, (e = .loopStart cat names ∨ e = .loopEnd cat names)
        ∧ qLoopCategory c path i = some cat ∧ qLoopNames c path i = some names
        ∧ lookupLoop c path i = some l ∧ qLoopPackets c path i = some l.packets.length)
    ∧ (∀ e path i j, (e, Handle.packet path i j) ∈ (walkH p c).1 →
      ∃ l pk, lookupLoop c path i = some l ∧ l.packets[j]? = some pk ∧ (e = .pktStart pk ∨ e = .pktEnd pk)
        ∧ qLoopCategory c path i = some l.category ∧ qLoopNames c path i = some l.names)
    ∧ (∀ e path i j k, (e, Handle.item path i j k) ∈ (walkH p c).1 →
      ∃ l pk nm v, lookupLoop c path i = some l ∧ l.packets[j]? = some pk ∧ pk[k]? = some (nm, v) ∧ e = .item nm v
        ∧ qLoopCategory c path i = some l.category ∧ qLoopNames c path i = some l.names) := by
  have hres := (C14_handles_are_elements p c).2.2.2.2.2
  refine ⟨?_, ?_, ?_, ?_⟩
  · intro e path hmem
    have hr := hres _ hmem
    have key : ∀ code (ct : WCont), lookup c path = some ct → ct.code = code →
        qCode c path = some code ∧ qNumFrames c path = some ct.frames.length ∧ qNumLoops c path = some ct.loops.length
        ∧ (∀ f, ct.frames.head? = some f →
            ∃ j, qGetFrame c path f.code = some (.cont (path ++ [j])) ∧ qCode c (path ++ [j]) = some f.code)
        ∧ (∀ l nm, ct.loops.head? = some l → l.names.head? = some nm →
            ∃ i l', qItemLoop c path nm = some (.loop path i) ∧ lookupLoop c path i = some l' ∧ nm ∈ l'.names) := by
      intro code ct hct hcode
      refine ⟨by simp [qCode, hct, hcode], by simp [qNumFrames, hct], by simp [qNumLoops, hct], ?_, ?_⟩
      · intro f hf
        cases hfr : ct.frames with
        | nil => rw [hfr] at hf; simp at hf
        | cons f0 fr =>
          rw [hfr] at hf
          simp only [List.head?_cons, Option.some.injEq] at hf
          subst hf
          refine ⟨0, ?_, ?_⟩
          · simp [qGetFrame, hct, hfr, List.findIdx?_cons]
          · simp [qCode, lookup_snoc path c ct 0 hct, hfr]
      · intro l nm hl hnm
        cases hlr : ct.loops with
        | nil => rw [hlr] at hl; simp at hl
        | cons l0 lr =>
          rw [hlr] at hl
          simp only [List.head?_cons, Option.some.injEq] at hl
          subst hl
          have hin : nm ∈ l0.names := by
            cases hnn : l0.names with
            | nil => rw [hnn] at hnm; simp at hnm
            | cons a r => rw [hnn] at hnm; simp at hnm; simp [hnm]
          refine ⟨0, l0, ?_, ?_, hin⟩
          · have : l0.names.contains nm = true := by simpa using hin
            simp [qItemLoop, hct, hlr, List.findIdx?_cons, hin]
          · simp [lookupLoop, hct, hlr]
    cases e with
    | blockStart code =>
      obtain ⟨hlen, ct, hct, hcode⟩ := hr
      obtain ⟨k1, k2, k3, k4, k5⟩ := key code ct hct hcode
      exact ⟨code, ct, hct, hcode, k1, Or.inl ⟨Or.inl rfl, by simp [qAssertBlock, hlen]⟩, k2, k3, k4, k5⟩
    | blockEnd code =>
      obtain ⟨hlen, ct, hct, hcode⟩ := hr
      obtain ⟨k1, k2, k3, k4, k5⟩ := key code ct hct hcode
      exact ⟨code, ct, hct, hcode, k1, Or.inl ⟨Or.inr rfl, by simp [qAssertBlock, hlen]⟩, k2, k3, k4, k5⟩
    | frameStart code =>
      obtain ⟨hlen, ct, hct, hcode⟩ := hr
      obtain ⟨k1, k2, k3, k4, k5⟩ := key code ct hct hcode
      exact ⟨code, ct, hct, hcode, k1, Or.inr ⟨Or.inl rfl, by simp [qAssertBlock, hlen]⟩, k2, k3, k4, k5⟩
    | frameEnd code =>
      obtain ⟨hlen, ct, hct, hcode⟩ := hr
      obtain ⟨k1, k2, k3, k4, k5⟩ := key code ct hct hcode
      exact ⟨code, ct, hct, hcode, k1, Or.inr ⟨Or.inr rfl, by simp [qAssertBlock, hlen]⟩, k2, k3, k4, k5⟩
    | _ => exact absurd hr (by simp [Res])
  · intro e path i hmem
    have hr := hres _ hmem
    cases e with
    | loopStart cat names =>
      obtain ⟨l, hl, h1, h2⟩ := hr
      exact ⟨cat, names, l, Or.inl rfl, by simp [qLoopCategory, hl, h1], by simp [qLoopNames, hl, h2], hl, by simp [qLoopPackets, hl]⟩
    | loopEnd cat names =>
      obtain ⟨l, hl, h1, h2⟩ := hr
      exact ⟨cat, names, l, Or.inr rfl, by simp [qLoopCategory, hl, h1], by simp [qLoopNames, hl, h2], hl, by simp [qLoopPackets, hl]⟩
    | _ => exact absurd hr (by simp [Res])
  · intro e path i j hmem
    have hr := hres _ hmem
    cases e with
    | pktStart pk =>
      obtain ⟨l, hl, h1⟩ := hr
      exact ⟨l, pk, hl, h1, Or.inl rfl, by simp [qLoopCategory, hl], by simp [qLoopNames, hl]⟩
    | pktEnd pk =>
      obtain ⟨l, hl, h1⟩ := hr
      exact ⟨l, pk, hl, h1, Or.inr rfl, by simp [qLoopCategory, hl], by simp [qLoopNames, hl]⟩
    | _ => exact absurd hr (by simp [Res])
  · intro e path i j k hmem
    have hr := hres _ hmem
    cases e with
    | item nm v =>
      obtain ⟨l, pk, hl, h1, h2⟩ := hr
      exact ⟨l, pk, nm, v, hl, h1, h2, rfl, by simp [qLoopCategory, hl], by simp [qLoopNames, hl]⟩
    | _ => exact absurd hr (by simp [Res])

-- non-vacuity: the demo CIF delivers container, loop, packet and item handles; the frame's handle is the path [0, 0]
example : ((walkH allCont C14_demo).1.map (·.2)).contains (.cont [0, 0]) = true
    ∧ ((walkH allCont C14_demo).1.map (·.2)).contains (.loop [0] 0) = true
    ∧ ((walkH allCont C14_demo).1.map (·.2)).contains (.item [0] 0 1 1) = true
    ∧ (walkH allCont C14_demo).1.length = 23 := by decide +kernel
example : qCode C14_demo [0, 0] = some (a!"f") ∧ qAssertBlock [0, 0] = ARGUMENT_ERROR ∧ qAssertBlock [1] = OK
    ∧ qGetFrame C14_demo [0] (a!"f") = some (.cont [0, 0]) ∧ qItemLoop C14_demo [0] (a!"_b") = some (.loop [0] 0) := by decide +kernel

-- non-vacuity of the positional statements: 23 positional entries on the demo CIF, delivered exactly under all-CONTINUE; two EQUAL
-- packets of one loop are two entries with different positions
example : (fullTraversalH C14_demo).length = 23 ∧ (walkH allCont C14_demo).1.map (·.2) = (fullTraversalH C14_demo).map (·.2) := by
  decide +kernel
example : noEmptyLoops C14_demo = true := by decide +kernel
example : (fullTraversalH [.mk (a!"b") [] [{ category := none, names := [(a!"_a")], packets := [[((a!"_a"), .unk)], [((a!"_a"), .unk)]] }]]).map (·.2)
    = [.cif, .cont [0], .loop [0] 0, .packet [0] 0 0, .item [0] 0 0 0, .packet [0] 0 0, .packet [0] 0 1, .item [0] 0 1 0,
       .packet [0] 0 1, .loop [0] 0, .cont [0], .cif] := by decide +kernel

end CifModel
