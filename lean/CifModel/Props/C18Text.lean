import CifModel.Props.C18
import CifModel.Props.C02
/-
  Property C18, continued — the text-field case of "the recommended delimiter reads back".  It lives in its own module
  because it uses `C02_analysis_facts` of Props/C02.lean, which itself builds on the theorems of Props/C18.lean.
-/
namespace CifModel
open Model Spec Lemmas.Analyze

/-- C18, read-back of a PLAIN text field (no fold / prefix protocol): when the text field is recommended for a CR-free string
    of CIF 2.0 characters, no line terminator in it is directly followed by `;` (`contains_text_delim = 0`) and the beginning
    does not look like a protocol marker (`has_reserved_start = 0`), then `;` + s + `⏎;` at the start of a line is scanned as
    one TVALUE token whose raw body is `s`, and `decode_text` (line unfolding and prefix removal enabled — the defaults) returns
    that body unchanged.  The protocol cases (`contains_text_delim` / `has_reserved_start` set, or lines longer than the limit)
    are the writer's: `C02_text_protocol`. -/
theorem C18_delim_reads_back_text (s ctx : Str) (unq tri : Bool) (limit line : Nat) (lt : TokType)
    (pol : Model.Lexer.Policy) (log : List Model.Lexer.Report)
    (hchars : Spec.Lexical.okUnits .cif2 none s = true)
    (hd : (analyze s unq tri limit).delimLength = 2)
    (hplain : (analyze s unq tri limit).containsTextDelim = false) (hres : (analyze s unq tri limit).hasReservedStart = false)
    (haw : Model.Lexer.afterWsOf lt = true)
    (hfit : Spec.Lexical.linesFit 0 (Spec.Lexical.renderValue .text s) = true)
    (hctx : Spec.Lexical.followOk .cif2 ctx = true) :
    (∃ l c, Model.Lexer.nextToken .cif2 ⟨(59 :: (s ++ [10, 59])) ++ ctx, line, 0, lt⟩ pol log
        = .ok (⟨.tvalue, s, l, c⟩, ⟨ctx, l, c, .tvalue⟩) log) ∧
    Model.Decode.decodeText true true s = s := by
  have hu := okUnits_units .cif2 s none hchars
  have h13 : (13 : CU) ∉ s := fun h => (hu 13 h).2 rfl
  constructor
  · have hadm : Spec.Lexical.admissible .cif2 .text s = true := by
      simp only [Spec.Lexical.admissible, Spec.Lexical.textOk, hchars, Bool.true_and]
      cases hL : splitLines s with
      | nil => exact absurd hL (splitLines_ne_nil s)
      | cons l0 ls =>
        obtain ⟨_, _, _, _, _, _, h7, _⟩ := counters_stats s l0 ls hL
        have : ls.any startsSemi = false := by rw [← h7]; exact hplain
        exact textBody_of s false l0 ls (fun c hc e => h13 (e ▸ hc)) hL (fun h => by cases h) this
    exact ⟨_, _, C01_lex_value .cif2 .text s ctx line 0 lt pol log haw hadm hfit rfl hctx⟩
  · have hA := C02_analysis_facts s unq tri limit h13
    exact Lemmas.DecodeMarker.decodeText_plain s h13 (hA.reserved hd hres)


open Spec.Lexical Model.Lexer Model.Writer Model.Decode in
/-- **C18_text_field_reads_back_all — EVERY text-field recommendation reads back**, composed with the writer's fold / prefix
    protocol.  For every string `s` of CIF 2.0 characters (`okUnits .cif2`: no CR, no NUL, no character outside the CIF 2.0 set —
    the only side condition; NOT assumed: plainness, line lengths, absence of `<LF>;`, absence of a reserved start) and EVERY
    argument triple `allow_unquoted`, `allow_triple_quoted`, `length_limit` for which `cif_analyze_string` recommends the text-field
    delimiter, let `a` be the analysis record and `(fold, prefix) = charFlags a` the two protocol flags `write_char` derives from
    `a` (line folding when the first line ≥ 2048, a line > 2048, a reserved start or a semicolon run ≥ 2047; prefixing when
    `<LF>;` occurs or folding meets a semicolon).  Then there is a body such that
    1. `write_text` with those flags emits exactly `<LF>;` body `<LF>;` in every context — it never fails —, and this IS what
       `write_char` (hence `cif_write`) emits for the value in CIF 2.0 mode when the triple is the one `write_char` passes
       (`!quoted`, `true`, `CIF_LINE_LENGTH`);
    2. `decode_text` (line unfolding and prefix removal enabled: the parser's defaults) maps the body back to exactly `s`;
    3. the scanner (`next_token`, model of parser.c) reads the emitted presentation — behind ANY admissible whitespace / comment
       run, at any line and column from which no over-long line arises, from any scanner state, followed by any admissible context,
       under every error-callback policy — as ONE `TVALUE` token whose text is that body, consuming exactly the presentation and
       reporting nothing (no over-long line, no disallowed character: the folded / prefixed body keeps every line within 2048).
    Items 2 + 3 are "read back by the CIF 2.0 parser as exactly that string" for the text-field case of property C18 in full:
    `C18_delim_reads_back_text` (the plain case) is the instance `fold = prefix = false`. -/
theorem C18_text_field_reads_back_all (s : Str) (unq tri : Bool) (limit : Nat)
    (hchars : okUnits .cif2 none s = true)
    (hd : (analyze s unq tri limit).delimLength = 2) :
    ∃ body : Str,
      (∀ c : Ctx, writeText c s (Lemmas.WriterChar.charFlags (analyze s unq tri limit)).1 (Lemmas.WriterChar.charFlags (analyze s unq tri limit)).2
          = .ok (a!"\n;" ++ body ++ a!"\n;", { c with lastColumn := 1 })) ∧
      (∀ (c : Ctx) (q : Bool), c.isCif1 = false → unq = (!q) → tri = true → limit = LINE → Model.hasDisallowed s = false →
          writeChar c s q true = .ok (a!"\n;" ++ body ++ a!"\n;", { c with lastColumn := 1 })) ∧
      decodeText true true body = s ∧
      (∀ (w0 : List WsAtom) (ctx : Str) (line col : Nat) (lt : TokType) (pol : Policy) (log : List Report),
        (∀ x ∈ w0, x.ok .cif2 = true) → (afterWsOf lt = true ∨ ∀ b rest, w0 ≠ WsAtom.comment b :: rest) →
        linesFit col (renderWs w0) = true → (posAfter line col (renderWs w0)).2 ≤ LINE → followOk .cif2 ctx = true →
        ∃ L C, nextToken .cif2 ⟨renderWs w0 ++ ((a!"\n;" ++ body ++ a!"\n;") ++ ctx), line, col, lt⟩ pol log
          = .ok (⟨.tvalue, body, L, C⟩, ⟨ctx, L, C, .tvalue⟩) log) := by
  have hcr : (13 : CU) ∉ s := Lemmas.WriterLex.okUnits_noCR _ s hchars
  have hA := C02_analysis_facts s unq tri limit hcr
  have hst := C18_stats_exact s unq tri limit
  generalize ha : analyze s unq tri limit = a at *
  have hflags := C02_flags_semis s a hA.semis
  unfold C02_flags at hflags
  -- the body exists: write_text cannot fail with these flags
  have hbody : ∃ body, Writer.textBody s (Lemmas.WriterChar.charFlags a).1 (Lemmas.WriterChar.charFlags a).2 = .ok body := by
    rcases hflags with h | h | h
    · exact ⟨s, by simp [Writer.textBody, h]⟩
    · exact C02_text_total s _ _ (Or.inl h)
    · exact C02_text_total s _ _ (Or.inr h)
  obtain ⟨body, hb⟩ := hbody
  -- what the flags imply when they are off
  have hfold_off : (Lemmas.WriterChar.charFlags a).1 = false →
      a.lengthFirst < LINE ∧ a.lengthMax ≤ LINE ∧ a.hasReservedStart = false ∧
      ((Lemmas.WriterChar.charFlags a).2 = true → a.lengthMax + PREFIX_LENGTH ≤ LINE) := by
    intro hf
    unfold Lemmas.WriterChar.charFlags at hf ⊢
    simp only at hf ⊢
    split at hf
    · cases hf
    · rename_i hnp
      simp only [Bool.or_eq_false_iff, decide_eq_false_iff_not, Nat.not_le, Nat.not_lt] at hf
      refine ⟨hf.1.1.1, hf.1.1.2, hf.1.2, ?_⟩
      intro hp
      simp only [hp, true_and, Nat.not_lt] at hnp
      exact hnp
  have hpre_off : (Lemmas.WriterChar.charFlags a).2 = false → a.containsTextDelim = false := by
    intro hp
    unfold Lemmas.WriterChar.charFlags at hp
    simp only [Bool.or_eq_false_iff] at hp
    exact hp.1
  have hlines : ∀ l ∈ Model.Writer.splitLines s, l.length ≤ a.lengthMax := by
    intro l hl
    rw [hst.2.2.2.2.1, Lemmas.WriterLexFits.splitLines_eq s hcr]
    exact Lemmas.WriterLex.le_maxLen _ _ hl
  have hfirst : ((Model.Writer.splitLines s).headD []).length = a.lengthFirst := by
    rw [hst.2.2.1, Lemmas.WriterLexFits.splitLines_eq s hcr]
  -- the side condition of the protocol theorem
  have hside : (Lemmas.WriterChar.charFlags a).1 = true ∨ (Lemmas.WriterChar.charFlags a).2 = true ∨ C02_plainAdmissible s := by
    by_cases hf : (Lemmas.WriterChar.charFlags a).1 = true
    · left; exact hf
    · by_cases hp : (Lemmas.WriterChar.charFlags a).2 = true
      · right; left; exact hp
      · right; right
        exact hA.reserved hd (hfold_off (by simpa using hf)).2.2.1
  have hdec : decodeText true true body = s := C02_text_protocol s _ _ body hcr hside hb
  have hwt : ∀ c : Ctx, writeText c s (Lemmas.WriterChar.charFlags a).1 (Lemmas.WriterChar.charFlags a).2
      = .ok (a!"\n;" ++ body ++ a!"\n;", { c with lastColumn := 1 }) := by
    intro c; simp [writeText, hb, TEXT_CLOSE]
  refine ⟨body, hwt, ?_, hdec, ?_⟩
  · intro c q hc2 hq ht hl hdis
    subst hq ht hl
    rw [Lemmas.WriterChar.writeChar_clean c s q true (Lemmas.WriterChar.strClean_of _ s hcr (fun _ => hdis))]
    have hv : ¬(c.isCif1 = true ∧ validate11 s = false) := by simp [hc2]
    have ha' : analyze s (!q) (!c.isCif1) LINE = a := by rw [hc2]; exact ha
    have hd' : (analyze s (!q) (!c.isCif1) LINE).delimLength = 2 := by rw [ha']; exact hd
    have hr : ¬((true : Bool) = false ∨ ((analyze s (!q) (!c.isCif1) LINE).containsTextDelim = true ∧ c.isCif1 = true)) := by
      simp [hc2]
    rw [Lemmas.WriterChar.writeChar_delim2 c s q true hv hd' hr, ha']
    exact hwt c
  · intro w0 ctx line col lt pol log hw0 hfirstw hfitw hcolw hctx
    -- admissible text-field body
    have hadm : admissible .cif2 .text body = true := by
      simp only [admissible, textOk, Bool.and_eq_true]
      refine ⟨Lemmas.WriterLexUnits.body_units _ s _ _ body hchars hb, ?_⟩
      apply Lemmas.WriterLexText.body_textBody s _ _ body hcr hb
      rcases hflags with hh | hh | hh
      · right; right
        refine ⟨hh.1, hh.2, ?_⟩
        apply Lemmas.WriterLexText.textBody_of_lines s false hcr
        · rw [← hst.2.2.2.2.2.2.1]; exact hpre_off hh.2
        · intro e; cases e
      · left; exact hh
      · right; left; exact hh
    -- no over-long line, from any column ≤ 2048
    have hfits : linesFit (posAfter line col (renderWs w0)).2 (10 :: renderValue .text body) = true := by
      apply Lemmas.WriterLexFits.text_out_fits s _ _ body hcr hb hflags ?_ _ hcolw
      by_cases hf : (Lemmas.WriterChar.charFlags a).1 = true
      · left; exact hf
      · right
        have hoff := hfold_off (by simpa using hf)
        constructor
        · intro l hl
          have := hlines l hl
          cases hp : (Lemmas.WriterChar.charFlags a).2
          · simp [Lemmas.WriterLexFits.pfxLen]; omega
          · have := hoff.2.2.2 hp
            simp [Lemmas.WriterLexFits.pfxLen, PREFIX_LENGTH] at *; omega
        · rw [hfirst]; omega
    -- the line break in front of the text field is one more whitespace atom
    have hrender : renderWs (w0 ++ [WsAtom.eol]) = renderWs w0 ++ [10] := by simp [renderWs]; rfl
    have hout : (a!"\n;" ++ body ++ a!"\n;") = [10] ++ renderValue .text body := by simp [renderValue]
    have hin : renderWs w0 ++ ((a!"\n;" ++ body ++ a!"\n;") ++ ctx) = renderWs (w0 ++ [WsAtom.eol]) ++ (renderValue .text body ++ ctx) := by
      rw [hrender, hout]; simp
    have hf2 : linesFit (posAfter line col (renderWs w0)).2 ([10] ++ renderValue .text body) = true := hfits
    rw [linesFit_append] at hf2
    simp only [Bool.and_eq_true] at hf2
    have hfitw' : linesFit col (renderWs (w0 ++ [WsAtom.eol])) = true := by
      rw [hrender, linesFit_append, hfitw, Bool.true_and]
      rw [posAfter_col_indep (renderWs w0) 0 line col]
      exact hf2.1
    have hcolEq : (posAfter line col (renderWs (w0 ++ [WsAtom.eol]))).2
        = (posAfter 0 (posAfter line col (renderWs w0)).2 [10]).2 := by
      rw [hrender, posAfter_append]
      exact posAfter_col_indep _ _ _ _
    have hfitv : linesFit (posAfter line col (renderWs (w0 ++ [WsAtom.eol]))).2 (renderValue .text body) = true := by
      rw [hcolEq]; exact hf2.2
    have hstart : Spec.Lexical.startOk .text body (posAfter line col (renderWs (w0 ++ [WsAtom.eol]))).2 = true := by
      rw [hcolEq]; simp [Spec.Lexical.startOk, posAfter]
    have hatoms : ∀ x ∈ w0 ++ [WsAtom.eol], x.ok .cif2 = true := by
      intro x hx
      rcases List.mem_append.mp hx with h1 | h1
      · exact hw0 x h1
      · simp at h1; subst h1; rfl
    have hfirst' : afterWsOf lt = true ∨ ∀ b rest, w0 ++ [WsAtom.eol] ≠ WsAtom.comment b :: rest := by
      rcases hfirstw with h1 | h1
      · left; exact h1
      · right
        intro b rest
        cases w0 with
        | nil => simp
        | cons x r =>
          intro e
          simp only [List.cons_append, List.cons.injEq] at e
          exact h1 b r (by rw [e.1])
    have hws' : (afterWsOf lt || !(w0 ++ [WsAtom.eol]).isEmpty) = true := by
      cases afterWsOf lt <;> simp
    refine ⟨(posAfter line col (renderWs (w0 ++ [WsAtom.eol]) ++ renderValue .text body)).1,
      (posAfter line col (renderWs (w0 ++ [WsAtom.eol]) ++ renderValue .text body)).2, ?_⟩
    rw [hin]
    exact C01_lex_value_after_ws .cif2 (w0 ++ [WsAtom.eol]) .text body ctx line col lt pol log hatoms hfirst' hws' hfitw'
      hadm hfitv hstart hctx

-- non-vacuity ------------------------------------------------------------------------------------------------------------
/-- a text-field recommendation that NEEDS the prefix protocol (`<LF>;` inside, both triple delimiters present): the hypotheses of
    `C18_text_field_reads_back_all` hold with the very arguments `write_char` passes, and the emitted body is the prefixed one -/
example : (analyze (a!"'''\"\"\"\n;x") true true Model.Writer.LINE).delimLength = 2 ∧
    (analyze (a!"'''\"\"\"\n;x") true true Model.Writer.LINE).containsTextDelim = true ∧
    Spec.Lexical.okUnits .cif2 none (a!"'''\"\"\"\n;x") = true := by decide
example : ∃ body, Model.Writer.writeChar {} (a!"'''\"\"\"\n;x") false true = .ok (a!"\n;" ++ body ++ a!"\n;", { lastColumn := 1 }) ∧
    Model.Decode.decodeText true true body = (a!"'''\"\"\"\n;x") := by
  obtain ⟨body, _, h2, h3, _⟩ := C18_text_field_reads_back_all (a!"'''\"\"\"\n;x") true true Model.Writer.LINE (by decide) (by decide)
  exact ⟨body, h2 {} false rfl rfl rfl rfl (by decide), h3⟩
example : Model.Writer.textBody (a!"'''\"\"\"\n;x") false true = .ok (a!"> \\\n> '''\"\"\"\n> ;x") := by rfl
/-- a reserved start (first line ends in a backslash): folding is switched on -/
example : (analyze (a!"ab\\\ncd") true false 2048).delimLength = 2 ∧ (analyze (a!"ab\\\ncd") true false 2048).hasReservedStart = true := by decide


end CifModel
