import CifModel.Props.C18
import CifModel.Props.C02
/-
  Property C18, continued — the text-field case of "the recommended delimiter reads back".  It lives in its own module
  because it uses `C02_analysis_facts` of Props/C02.lean, which itself builds on the theorems of Props/C18.lean.
-/
namespace CifModel
open Model Spec Lemmas.Analyze

/-- C18, read-back of a PLAIN text field (no fold / prefix protocol): when the text field is recommended for a CR-free string
    of CIF 2.0 characters, no line terminator in it is directly followed by `;` (`contains_text_delim = 0`) and the beginning
    does not look like a protocol marker (`has_reserved_start = 0`), then `;` + s + `⏎;` at the start of a line is scanned as
    one TVALUE token whose raw body is `s`, and `decode_text` (line unfolding and prefix removal enabled — the defaults) returns
    that body unchanged.  The protocol cases (`contains_text_delim` / `has_reserved_start` set, or lines longer than the limit)
    are the writer's: `C02_text_protocol`. -/
theorem C18_delim_reads_back_text (s ctx : Str) (unq tri : Bool) (limit line : Nat) (lt : TokType)
    (pol : Model.Lexer.Policy) (log : List Model.Lexer.Report)
    (hchars : Spec.Lexical.okUnits .cif2 none s = true)
    (hd : (analyze s unq tri limit).delimLength = 2)
    (hplain : (analyze s unq tri limit).containsTextDelim = false) (hres : (analyze s unq tri limit).hasReservedStart = false)
    (haw : Model.Lexer.afterWsOf lt = true)
    (hfit : Spec.Lexical.linesFit 0 (Spec.Lexical.renderValue .text s) = true)
    (hctx : Spec.Lexical.followOk .cif2 ctx = true) :
    (∃ l c, Model.Lexer.nextToken .cif2 ⟨(59 :: (s ++ [10, 59])) ++ ctx, line, 0, lt⟩ pol log
        = .ok (⟨.tvalue, s, l, c⟩, ⟨ctx, l, c, .tvalue⟩) log) ∧
    Model.Decode.decodeText true true s = s := by
  have hu := okUnits_units .cif2 s none hchars
  have h13 : (13 : CU) ∉ s := fun h => (hu 13 h).2 rfl
  constructor
  · have hadm : Spec.Lexical.admissible .cif2 .text s = true := by
      simp only [Spec.Lexical.admissible, Spec.Lexical.textOk, hchars, Bool.true_and]
      cases hL : splitLines s with
      | nil => exact absurd hL (splitLines_ne_nil s)
      | cons l0 ls =>
        obtain ⟨_, _, _, _, _, _, h7, _⟩ := counters_stats s l0 ls hL
        have : ls.any startsSemi = false := by rw [← h7]; exact hplain
        exact textBody_of s false l0 ls (fun c hc e => h13 (e ▸ hc)) hL (fun h => by cases h) this
    exact ⟨_, _, C01_lex_value .cif2 .text s ctx line 0 lt pol log haw hadm hfit rfl hctx⟩
  · have hA := C02_analysis_facts s unq tri limit h13
    exact Lemmas.DecodeMarker.decodeText_plain s h13 (hA.reserved hd hres)

-- non-vacuity ------------------------------------------------------------------------------------------------------------

end CifModel
