import CifModel.Lemmas.ParseCBDupX
import CifModel.Lemmas.ParseCBDupPlain
import CifModel.Lemmas.ParseCBDupCut
import CifModel.Lemmas.ParseCBDupSub
import CifModel.Lemmas.ParseCBRecX
import CifModel.Lemmas.ParseCBLayoutRec
import CifModel.Props.C15Layout
import CifModel.Props.C15
import CifModel.Lemmas.ParseCBFuel
/-
  Property C15, duplicates under ARBITRARY handler programs (model `parseCBD`, Model/ParseCBDup.lean: the DUP_* diagnostics with an
  accepting error callback).

    * C15_dup_structural_any — inside the model's domain (`hdom`: no loop header loses ALL its names), for EVERY well-formed document (block codes, frame codes, scalar names and loop-header names may
      repeat in any way; no distinctness hypothesis), EVERY handler program (skips, END, error codes) and both modes: what the parse
      of `tokensOf d` returns, logs and stores is what the structural interpreter `xDocD` returns, logs and stores — the handler steps
      of parser.c and its duplicate checks applied to the document tree, threading the scanner state and the content each container
      holds at that moment; no tokens, no fuel.  What counts as a duplicate is decided against what was STORED: a first occurrence
      that was skipped does not count.
    * C15_dup_header_dropped_column — duplicate loop-header names, all-continue handlers: the error callback follows the data-name
      callback of every duplicate; loop_start gets the retained names; the values of a dropped column are parsed WITHOUT item handler
      and are not part of the packet passed to packet_end nor of the stored loop.
-/
namespace CifModel
open ParseCB Lemmas.ParseCB Spec.Doc
open CifModel.Gen.ErrCodes (CIF_DUP_ITEMNAME)

/-- helper (not a property statement): the token-level model of a well-formed document is the structural interpreter, with no
    domain restriction — outside the domain of `C15_dup_structural_any` this is a fact about the MODEL only -/
theorem parseCBD_is_xDocD (p : Prog) (norm : Str → Str) (storing : Bool) (d : Doc) (hw : wfDoc d = true) :
    parseCBD p norm storing (tokensOf d)
      = ((xDocD p norm storing d (St.init [])).2.1.log.reverse, (xDocD p norm storing d (St.init [])).1,
         (xDocD p norm storing d (St.init [])).2.2) := by
  obtain ⟨h1, h2, h3⟩ := docD_x p norm storing d (fuelFor (tokensOf d)) hw (fuelFor_enough d)
  unfold parseCBD
  rw [h1, h2, h3]

/-- **Duplicates under every program: the parse is the structural interpreter.**
    DOMAIN (review rA, A.8 — now in the statement): `hdom`, the parse does not answer `MALFORMED` (1000).  On a well-formed document the
    model answers 1000 exactly when a handler answers 1000 itself or a loop header met during the parse loses ALL its names to the
    duplicate check (`data_b _a 1 loop_ _A 2`): there parser.c carries on (parse_loop 1391-1430: `name_count` counts the dropped names
    too; loop_start with an empty name list; `cif_container_create_loop` answers CIF_NULL_LOOP, "tolerable": no loop is created; every
    packet gets packet_start / packet_end with an empty packet, its values are parsed without item handler; loop_end with a NULL
    loop) while the model stops — the model is NOT the C's there and the correspondence generator does not produce such documents.
    `hdom` is decidable (an integer inequality on the model's output) and is the same hypothesis as in
    `C15_dup_stop_semantics_store`. -/
theorem C15_dup_structural_any (p : Prog) (norm : Str → Str) (storing : Bool) (d : Doc) (hw : wfDoc d = true)
    (hdom : (parseCBD p norm storing (tokensOf d)).2.1 ≠ MALFORMED) :
    parseCBD p norm storing (tokensOf d)
      = ((xDocD p norm storing d (St.init [])).2.1.log.reverse, (xDocD p norm storing d (St.init [])).1,
         (xDocD p norm storing d (St.init [])).2.2) :=
  parseCBD_is_xDocD p norm storing d hw

/-- **The model the correspondence run executes is the model of the theorems.**  The `pcb` driver runs `parseCBR` (Model/ParseCBRec.lean:
    `parseCBD` plus the recovery paths for truncated packets, empty / null loops, missing and unexpected values).  On the token sequence
    of every WELL-FORMED document — with any duplicates, for every handler program, in both modes — no recovery path is taken:
    `parseCBR = parseCBD` (both are the structural interpreter `xDocD`). -/
theorem parseCBR_is_parseCBD (p : Prog) (norm : Str → Str) (storing : Bool) (d : Doc) (hw : wfDoc d = true) :
    parseCBR p norm storing (tokensOf d) = parseCBD p norm storing (tokensOf d) := by
  obtain ⟨h1, h2, h3⟩ := docR_x p norm storing d (fuelFor (tokensOf d)) hw (fuelFor_enough d)
  rw [parseCBD_is_xDocD p norm storing d hw]
  unfold parseCBR
  rw [h1, h2, h3]

/-- the statement, with the domain of the model in it (`hdom`: see `C15_dup_structural_any`; where a loop header loses all its names
    both models answer 1000 and neither is the C's run) -/
theorem C15_rec_is_dup_on_wellformed (p : Prog) (norm : Str → Str) (storing : Bool) (d : Doc) (hw : wfDoc d = true)
    (hdom : (parseCBD p norm storing (tokensOf d)).2.1 ≠ MALFORMED) :
    parseCBR p norm storing (tokensOf d) = parseCBD p norm storing (tokensOf d) :=
  parseCBR_is_parseCBD p norm storing d hw

/-- … and with ANY layout in front of the tokens (the requests of the correspondence run carry the layout of the rendered text): the
    result, the stored CIF and the callbacks other than whitespace callbacks of `parseCBR` on the laid-out tokens are those of
    `parseCBD` on `tokensOf d` — the object of `C15_dup_structural_any`, `C15_dup_stop_semantics_store`, `C15_dup_events_sublist` and,
    on duplicate-free documents, of every theorem about `parseCB` -/
theorem C15_rec_is_dup_on_wellformed_layout (p : Prog) (norm : Str → Str) (storing : Bool) (d : Doc) (hw : wfDoc d = true)
    (hdom : (parseCBD p norm storing (tokensOf d)).2.1 ≠ MALFORMED)
    (toks : List Tok) (h : SkelL (tokensOf d) toks) :
    (parseCBR p norm storing toks).2.1 = (parseCBD p norm storing (tokensOf d)).2.1
    ∧ (parseCBR p norm storing toks).2.2 = (parseCBD p norm storing (tokensOf d)).2.2
    ∧ C15_structOf (parseCBR p norm storing toks).1 = C15_structOf (parseCBD p norm storing (tokensOf d)).1 := by
  have hf : fuelFor toks = fuelFor (tokensOf d) := by unfold fuelFor; rw [h.length]
  obtain ⟨a, b, c⟩ := cifR_layout p norm 1 storing (fuelFor (tokensOf d)) h
  rw [← parseCBR_is_parseCBD p norm storing d hw]
  unfold parseCBR C15_structOf
  rw [hf]
  exact ⟨a, b, c⟩

/-- **Duplicate loop-header names: the dropped columns.**  parse_loop (after the `loop_` keyword) at depth 0 with a container holding
    `c`, all-continue handlers, on the tokens of a header `names` and rectangular packets `pks` followed by a token `t` that ends the
    loop: with `slots` = the header checked against `c` and against itself (`slotsOf`: `none` for a name the container already holds
    or an earlier name of the header repeats, after normalisation) and at least one name retained, the callbacks are, in order:
    for every name its data-name callback, followed by the error callback CIF_DUP_ITEMNAME if it is dropped (`hdrEvs`); loop_start
    with the RETAINED names; for every packet packet_start, the item callbacks of the retained columns only (`itemEvsD`), packet_end
    with the retained items; loop_end.  The result is CIF_OK, exactly the loop's tokens are consumed, and the loop stored has the
    retained names and, per packet, the retained values (`keptD`). -/
theorem C15_dup_header_dropped_column (norm : Str → Str) (c : Content) (names : List Str) (pks : List (List V))
    (t : Tok) (rest : List Tok) (s : St) (b : Bool) (fuel : Nat)
    (h0 : s.skip = 0) (hpre : t.pre = []) (hst : isStopper t.ty = true)
    (hw : wfElem true (.loop names pks) = true)
    (hk : ((slotsOf norm c names []).filterMap id).isEmpty = false)
    (hf1 : names.length + 1 ≤ fuel) (hf2 : sumSz pks + totLen pks + 1 ≤ fuel) :
    parseLoopD allContP norm fuel true c (atb s (names.map (fun n => plain .name n) ++ ((pks.map valuesToks).flatten ++ t :: rest)) b)
      = (OK,
         atb (adv s (hdrEvs norm c names [] ++ (Ev.loopStart ((slotsOf norm c names []).filterMap id)
            :: ((pks.map (pktEvsD (slotsOf norm c names []))).flatten
              ++ [Ev.loopEnd (some ((slotsOf norm c names []).filterMap id))])))) (t :: rest) true,
         some { category := none, names := (slotsOf norm c names []).filterMap id,
                packets := pks.map (keptD (slotsOf norm c names []) 0) }) := by
  obtain ⟨hn, hpk, hall⟩ := loop_wf_all names pks hw
  obtain ⟨t', b', e1, e2⟩ := loop_xD allContP norm true c names pks (sumSz pks) t rest s b fuel hpre hst hn hpk hall hf1 hf2
  have hx := xLoopD_allCont norm c names pks s h0 hk
  rw [hx] at e1 e2
  obtain ⟨rfl, rfl⟩ := e2 rfl
  exact e1

/-- **Without duplicates the duplicate diagnostics never fire — whatever the program.**  For every well-formed document whose block
    codes, frame codes (per block) and data names (per container) are pairwise distinct after normalisation, EVERY handler program and
    both modes, the parser model with the duplicate diagnostics is the plain model: same callbacks, same result, same stored CIF.
    (A check could only fire against content that is stored; whatever a program skips or stores, the content of a container is made
    of names / codes of the document, which are distinct.)  So every document-level theorem about `parseCB` (Props/C15.lean,
    C15Layout.lean, C15Events.lean) is a theorem about `parseCBD` on such documents. -/
theorem C15_dup_is_plain_without_duplicates (p : Prog) (norm : Str → Str) (storing : Bool) (d : Doc) (hwn : wfDocN norm d = true) :
    parseCBD p norm storing (tokensOf d) = parseCB p storing (tokensOf d) := by
  have hw : wfDoc d = true := wfDocN_wf hwn
  have hd : distinctDoc norm d = true := by simp only [wfDocN, Bool.and_eq_true] at hwn; exact hwn.2
  rw [parseCBD_is_xDocD p norm storing d hw, C15_stored_is_structural_any p storing norm d hwn, xDocD_plain p norm storing d _ hw hd]

/-- … for instance the stop semantics of the store, for the model with the diagnostics -/
theorem C15_dup_stop_semantics_without_duplicates (p : Prog) (norm : Str → Str) (d : Doc) (hwn : wfDocN norm d = true) :
    (parseCBD p norm true (tokensOf d)).2.2 = denote (cutDoc p true d).kept
    ∧ (parseCBD p norm true (tokensOf d)).2.1 = cutResult p true (cutDoc p true d) := by
  rw [C15_dup_is_plain_without_duplicates p norm true d hwn]
  exact C15_stop_semantics_store p norm d hwn

/-- **Stop semantics of the store with duplicates — EVERY program.**  For every well-formed document in which block codes, frame codes,
    scalar names and loop-header names may repeat in any way, and every handler program (any mixture of CONTINUE, SKIP_CURRENT,
    SKIP_SIBLINGS, END and error codes), with an accepting error callback: the CIF stored by the parse of `tokensOf d` is
    `(cDocD p norm d).cif` and the return value is `cResultD p (cDocD p norm d)` (Spec/TraversalDupCut.lean: the document walked in
    document order, threading the number of handler callbacks delivered AND the content the container in progress holds — a name /
    code is a duplicate of what is STORED at that moment, so a first occurrence the program skipped does not count; a duplicate scalar
    gets no item handler and is not stored; the dropped columns of a loop header vanish from the loop the handlers see and the store
    gets; a repeated frame / block code reopens the existing container, which is pruned again when it reaches its end with CIF_OK).
    `hdom`: the model does not leave its domain — no loop header met during the parse loses ALL its names (ASSUMPTIONS of C15; the
    model then answers MALFORMED). -/
theorem C15_dup_stop_semantics_store (p : Prog) (norm : Str → Str) (d : Doc) (hw : wfDoc d = true)
    (hdom : (parseCBD p norm true (tokensOf d)).2.1 ≠ MALFORMED) :
    (parseCBD p norm true (tokensOf d)).2.2 = (cDocD p norm d).cif
    ∧ (parseCBD p norm true (tokensOf d)).2.1 = cResultD p (cDocD p norm d) := by
  rw [parseCBD_is_xDocD p norm true d hw] at hdom ⊢
  obtain ⟨h1, h2⟩ := xDocD_c p norm d hw hdom
  exact ⟨h2, h1⟩

/-- **The callbacks delivered are callbacks the document owes, in document order — with duplicates, for EVERY program.**  For every
    well-formed document (any repetition of codes and names), every handler program and an accepting error callback: set the error
    callbacks aside and abstract from the payload that duplicates can change (`absEv`: the code of a container handle — a reopened
    container carries its first spelling —, the names of a loop handle and the items of packet_end — a loop that lost columns carries
    fewer): what remains of the callbacks of the parse is a sublist of the document's callbacks `docEvents true d`, abstracted the same
    way.  Item and data-name callbacks are compared with their names and values: a program and the duplicate recovery only ever make
    the parser LEAVE OUT callbacks; nothing is reordered, repeated or invented.  `hdom`: the domain of the model, as in
    `C15_dup_structural_any` (no loop header loses all its names); storing mode only. -/
theorem C15_dup_events_sublist (p : Prog) (norm : Str → Str) (d : Doc) (hw : wfDoc d = true)
    (hdom : (parseCBD p norm true (tokensOf d)).2.1 ≠ MALFORMED) :
    (view (parseCBD p norm true (tokensOf d)).1).Sublist ((docEvents true d).map absEv) := by
  rw [parseCBD_is_xDocD p norm true d hw, ← docA_eq d hw]
  exact xDocD_subA p norm true d

/-- the two descriptions agree where both apply: with all-continue handlers the specification for every program stores `dupDenote` -/
theorem C15_dup_cut_extends_mirror (norm : Str → Str) (d : Doc) (hok : okDoc norm d = true) (hw : wfDoc d = true) :
    (cDocD allContP norm d).cif = dupDenote norm d := by
  have hm := C15_dup_all_continue_mirror norm d hok
  have hdom : (parseCBD allContP norm true (tokensOf d)).2.1 ≠ MALFORMED := by
    rw [hm]; show OK ≠ MALFORMED; decide
  rw [← (C15_dup_stop_semantics_store allContP norm d hw hdom).1, hm]

-- ---- non-vacuity / sanity -----------------------------------------------------------------------------------------------------

def C15d_lower (s : Str) : Str := s.map fun c => if 65 ≤ c ∧ c ≤ 90 then c + 32 else c

/-- `data_b _a 1 loop_ _x _A _y _X  1 2 3 4  5 6 7 8  _a 9`: the header repeats `_a` of the block (as `_A`) and its own `_x` (as `_X`);
    the second `_a` is a duplicate scalar -/
def C15d_doc : Doc :=
  [{ code := (a!"b"), body := [.item (a!"_a") (.chr false (a!"1")),
      .loop [(a!"_x"), (a!"_A"), (a!"_y"), (a!"_X")]
        [[.chr false (a!"1"), .chr false (a!"2"), .chr false (a!"3"), .chr false (a!"4")],
         [.chr false (a!"5"), .chr false (a!"6"), .chr false (a!"7"), .chr false (a!"8")]],
      .item (a!"_a") (.chr false (a!"9"))] }]

example : wfDoc C15d_doc = true := by decide +kernel
-- all continue: three error callbacks (two dropped header names, the duplicate scalar); the loop is stored with `_x _y` and two
-- packets of two values; result CIF_OK
example : ((parseCBD allContP C15d_lower true (tokensOf C15d_doc)).1.filter (fun e => match e with | .keyword (0 :: _) => true | _ => false)).length = 3
    ∧ (parseCBD allContP C15d_lower true (tokensOf C15d_doc)).2.1 = 0
    ∧ (parseCBD allContP C15d_lower true (tokensOf C15d_doc)).2.2.map (fun ct => ct.loops.map (fun l => (l.names, l.packets.map List.length)))
        = [[([(a!"_a")], [1]), ([(a!"_x"), (a!"_y")], [2, 2])]] := by decide +kernel
-- the first `_a` answers SKIP_CURRENT (handler invocation 2): it is not stored, so `_A` in the header is NOT a duplicate any more
-- (it is retained: three columns) and the second `_a` now duplicates the loop's `_A`: what counts as a duplicate depends on the program
example : ((parseCBD (fun k _ => if k = 2 then -1 else 0) C15d_lower true (tokensOf C15d_doc)).1.filter
      (fun e => match e with | .keyword (0 :: _) => true | _ => false)).length = 2
    ∧ (parseCBD (fun k _ => if k = 2 then -1 else 0) C15d_lower true (tokensOf C15d_doc)).2.2.map
        (fun ct => ct.loops.map (fun l => l.names)) = [[[(a!"_x"), (a!"_A"), (a!"_y")]]] := by decide +kernel
-- the hypotheses of the dropped-column theorem on this header against a block holding `_a`
example : slotsOf C15d_lower ⟨[], [{ category := some [], names := [(a!"_a")], packets := [[.unk]] }]⟩
    [(a!"_x"), (a!"_A"), (a!"_y"), (a!"_X")] [] = [some (a!"_x"), none, some (a!"_y"), none] := by decide +kernel

-- the store specification on the document above, kernel-evaluated (the theorem covers every program): two deviations
def C15d_storeOK (p : Prog) (d : Doc) : Bool :=
  C15_contsBeq (parseCBD p C15d_lower true (tokensOf d)).2.2 (cDocD p C15d_lower d).cif
    && decide ((parseCBD p C15d_lower true (tokensOf d)).2.1 = cResultD p (cDocD p C15d_lower d))
example : (parseCBD (C15_dev2 2 (-1) 9 7) C15d_lower true (tokensOf C15d_doc)).2.1 ≠ MALFORMED
    ∧ C15d_storeOK (C15_dev2 2 (-1) 9 7) C15d_doc = true ∧ C15d_storeOK (C15_dev2 4 (-2) 10 END) C15d_doc = true := by decide +kernel
-- the reopened frame and block of `C15_dupDoc` (Props/C15.lean) under a skipping and a stopping program
example : C15d_storeOK (C15_dev2 3 (-1) 8 (-2)) C15_dupDoc = true ∧ C15d_storeOK (C15_dev1 6 7) C15_dupDoc = true := by decide +kernel

-- the events theorem on the document above: three error callbacks are set aside; what remains is shorter than the document's
-- callbacks (the duplicate scalar has no item handler, the dropped columns no item callbacks)
example : (view (parseCBD allContP C15d_lower true (tokensOf C15d_doc)).1).length + 3 = (parseCBD allContP C15d_lower true (tokensOf C15d_doc)).1.length
    ∧ (view (parseCBD allContP C15d_lower true (tokensOf C15d_doc)).1).length < ((docEvents true C15d_doc).map absEv).length := by
  decide +kernel

end CifModel
