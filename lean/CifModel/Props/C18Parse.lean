import CifModel.Props.C18Text
import CifModel.Props.C01parse
/-
  Property C18, continued — read-back lifted from the token level to the VALUE the parser builds (`parse_value` of parser.c, model of
  group gJ: Model/Parser.lean `parseValue`, with the `cif_value_set_quoted` coercion of whitespace-delimited tokens).
-/
namespace CifModel
open Model Spec Lemmas.Analyze

/-- **C18, read-back at the level of the parsed value.**  Under the hypotheses of `C18_delim_reads_back`, the parser's value
    production on the recommended presentation `δ s δ` (behind any whitespace / comments, under every callback policy, in CIF 2.0
    mode) reports nothing, consumes exactly the presentation and yields the CHARACTER value with text exactly `s`, marked
    quoted iff a delimiter was used: `.chr (δ ≠ none) s`.
    NB: the parser never creates a value of number kind — a whitespace-delimited digit string comes back as the UNQUOTED
    character value with those digits, which the library interprets as a number on demand (cif_value_get_number); `?` and `.`
    are never recommended whitespace-delimited (`C18_delim_admissible`), so they come back as the quoted strings they are. -/
theorem C18_delim_reads_back_value (s ctx : Str) (unq tri : Bool) (limit : Nat) (w : List Spec.Lexical.WsAtom) (line col : Nat)
    (lt : TokType) (pol : Model.Lexer.Policy) (o : Model.Parser.Opts) (W : Model.Parser.W) (fuel : Nat)
    (hdia : o.dia = .cif2)
    (hchars : Spec.Lexical.okUnits .cif2 none s = true) (hnt : recommend s unq tri limit ≠ .text)
    (hok : ∀ a ∈ w, a.ok .cif2 = true)
    (hfirst : Model.Lexer.afterWsOf lt = true ∨ ∀ b rest, w ≠ Spec.Lexical.WsAtom.comment b :: rest)
    (hws : (Model.Lexer.afterWsOf lt || !w.isEmpty) = true)
    (hfitw : Spec.Lexical.linesFit col (Spec.Lexical.renderWs w) = true)
    (hfit : Spec.Lexical.linesFit (Spec.Lexical.posAfter line col (Spec.Lexical.renderWs w)).2
              ((recommend s unq tri limit).units ++ s ++ (recommend s unq tri limit).units) = true)
    (hctx : Spec.Lexical.followOk .cif2 ctx = true) :
    ∃ ps', Model.Parser.parseValue o (fuel + 1)
        ⟨⟨Spec.Lexical.renderWs w ++ (((recommend s unq tri limit).units ++ s ++ (recommend s unq tri limit).units) ++ ctx), line, col, lt⟩, none⟩
        pol W = .ok (.chr (decide (recommend s unq tri limit ≠ .none)) s, ps') W
      ∧ ps'.tok = none ∧ ps'.scan.rest = ctx := by
  have hu := okUnits_units .cif2 s none hchars
  have h0 : (0 : CU) ∉ s := fun h => (hu 0 h).1 rfl
  have hcs : Model.Parser.cstr s = s := C01_cstr_id s (fun x hx e => h0 (e ▸ hx))
  obtain ⟨L, C, hn⟩ := C18_delim_reads_back s ctx unq tri limit w line col lt pol W.log hchars hnt hok hfirst hws hfitw hfit hctx
  by_cases hnone : recommend s unq tri limit = .none
  · -- whitespace-delimited: the parser's coercion (set_quoted) accepts it and leaves an unquoted string
    obtain ⟨hnd, hnr, hne, _, hq, hd, hone, _⟩ := (C18_delim_admissible s unq tri limit h0).1 hnone
    have hterm := counters_one_line s hone
    have hws2 : cif2WsDelimitable s := by
      refine ⟨hne, fun c hc hl => hnr (Or.inl ⟨c, hc, hl⟩), ?_, fun h => hnr (Or.inr h)⟩
      intro c hc hw
      have a := hnd c hc; have b := hterm c hc
      rcases hw with h | h | h | h | h | h | h | h
      · exact a.1 h
      · exact a.2.1 h
      · exact b.1 h
      · exact b.2 h
      · exact a.2.2.1 h
      · exact a.2.2.2.1 h
      · exact a.2.2.2.2.1 h
      · exact a.2.2.2.2.2 h
    have hset := (C18_set_unquoted_iff s h0).2.2.1 hq hd hws2
    have hbv : Model.Parser.bareValue o.dia s = some (.chr false s) := by
      simp only [Model.Parser.bareValue, hq, hd, if_false, hdia, hcs]
      have : ((Dialect.cif2 == Dialect.cif1) : Bool) = false := rfl
      rw [this, hset]
    simp only [hnone, if_true, Delim.units, List.nil_append, List.append_nil] at hn
    have hnt' : Model.Parser.nextTok o ⟨⟨Spec.Lexical.renderWs w ++ (s ++ ctx), line, col, lt⟩, none⟩ pol W
        = .ok (⟨.value, s, L, C⟩, ⟨⟨ctx, L, C, .value⟩, some ⟨.value, s, L, C⟩⟩) W := by
      simp only [Model.Parser.nextTok, bind, Model.Parser.P.bind, Model.Parser.liftL, hdia, hn, pure, Model.Parser.P.pure]
    refine ⟨⟨⟨ctx, L, C, .value⟩, none⟩, ?_, rfl, rfl⟩
    simp only [hnone, Delim.units, List.nil_append, List.append_nil, ne_eq, not_true_eq_false, decide_false]
    simp only [Model.Parser.parseValue, bind, Model.Parser.P.bind, hnt', hbv, pure, Model.Parser.P.pure, Model.Parser.consume]
  · simp only [hnone, if_false] at hn
    have hnt' : Model.Parser.nextTok o
        ⟨⟨Spec.Lexical.renderWs w ++ (((recommend s unq tri limit).units ++ s ++ (recommend s unq tri limit).units) ++ ctx), line, col, lt⟩, none⟩ pol W
        = .ok (⟨.qvalue, s, L, C⟩, ⟨⟨ctx, L, C, .qvalue⟩, some ⟨.qvalue, s, L, C⟩⟩) W := by
      simp only [Model.Parser.nextTok, bind, Model.Parser.P.bind, Model.Parser.liftL, hdia, hn, pure, Model.Parser.P.pure]
    refine ⟨⟨⟨ctx, L, C, .qvalue⟩, none⟩, ?_, rfl, rfl⟩
    simp only [ne_eq, hnone, not_false_eq_true, decide_true]
    simp only [Model.Parser.parseValue, bind, Model.Parser.P.bind, hnt', hcs, pure, Model.Parser.P.pure, Model.Parser.consume]

open Spec.Lexical Model.Lexer Model.Parser Model.Writer in
/-- **C18, text fields at the level of the parsed value.**  For every string of CIF 2.0 characters for which the text-field
    delimiter is recommended (any flags, any limit), the presentation `write_text` emits with the protocol flags derived from the
    analysis (`C18_text_field_reads_back_all`: this is what `write_char` / `cif_write` emits) is turned by the parser's value production —
    `parse_value` with line unfolding and prefix removal enabled, CIF 2.0 mode, behind any admissible whitespace, under every callback
    policy — into the QUOTED CHARACTER value with text exactly `s`; nothing is reported, exactly the presentation is consumed. -/
theorem C18_text_field_reads_back_value (s : Str) (unq tri : Bool) (limit : Nat)
    (hchars : okUnits .cif2 none s = true) (hd : (analyze s unq tri limit).delimLength = 2)
    (o : Opts) (hdia : o.dia = .cif2) (hunf : o.unfold = true) (hprem : o.prem = true) :
    ∃ body : Str,
      (∀ c : Ctx, writeText c s (Lemmas.WriterChar.charFlags (analyze s unq tri limit)).1 (Lemmas.WriterChar.charFlags (analyze s unq tri limit)).2
          = .ok (a!"\n;" ++ body ++ a!"\n;", { c with lastColumn := 1 })) ∧
      (∀ (w0 : List WsAtom) (ctx : Str) (line col : Nat) (lt : TokType) (pol : Policy) (W : Model.Parser.W) (fuel : Nat),
        (∀ x ∈ w0, x.ok .cif2 = true) → (afterWsOf lt = true ∨ ∀ b rest, w0 ≠ WsAtom.comment b :: rest) →
        linesFit col (renderWs w0) = true → (posAfter line col (renderWs w0)).2 ≤ LINE → followOk .cif2 ctx = true →
        ∃ ps', parseValue o (fuel + 1) ⟨⟨renderWs w0 ++ ((a!"\n;" ++ body ++ a!"\n;") ++ ctx), line, col, lt⟩, none⟩ pol W
            = .ok (.chr true s, ps') W ∧ ps'.tok = none ∧ ps'.scan.rest = ctx) := by
  obtain ⟨body, hw, _, hdec, hlex⟩ := C18_text_field_reads_back_all s unq tri limit hchars hd
  refine ⟨body, hw, ?_⟩
  intro w0 ctx line col lt pol W fuel hw0 hfirst hfitw hcolw hctx
  have hu := okUnits_units .cif2 s none hchars
  have h0 : (0 : CU) ∉ s := fun h => (hu 0 h).1 rfl
  have hcs : cstr s = s := C01_cstr_id s (fun x hx e => h0 (e ▸ hx))
  obtain ⟨L, C, hn⟩ := hlex w0 ctx line col lt pol W.log hw0 hfirst hfitw hcolw hctx
  have hnt : nextTok o ⟨⟨renderWs w0 ++ ((a!"\n;" ++ body ++ a!"\n;") ++ ctx), line, col, lt⟩, none⟩ pol W
      = .ok (⟨.tvalue, body, L, C⟩, ⟨⟨ctx, L, C, .tvalue⟩, some ⟨.tvalue, body, L, C⟩⟩) W := by
    simp only [nextTok, bind, P.bind, liftL, hdia, hn, pure, P.pure]
  refine ⟨⟨⟨ctx, L, C, .tvalue⟩, none⟩, ?_, rfl, rfl⟩
  simp only [parseValue, bind, P.bind, hnt, hunf, hprem, hdec, hcs, pure, P.pure, consume]


open Spec.Lexical Model.Lexer Model.Parser in
/-- **C18, embedding behind a data name (non-text delimiters).**  Under the hypotheses of `C18_delim_reads_back_value`, the parser's
    ITEM production (`parse_item`, entered behind the data name `name` of the container at `path`) on the recommended presentation
    reports nothing and performs exactly `cif_container_set_value(name, .chr (δ ≠ none) s)`, leaving the scanner behind the value:
    the recommended presentation is read back as exactly that string also as part of a data item of a document. -/
theorem C18_delim_reads_back_item (s ctx : Str) (unq tri : Bool) (limit : Nat) (w : List WsAtom) (line col : Nat)
    (lt : TokType) (pol : Policy) (o : Opts) (W : Model.Parser.W) (fuel : Nat) (path : Path) (name : Str)
    (hdia : o.dia = .cif2)
    (hchars : okUnits .cif2 none s = true) (hnt : recommend s unq tri limit ≠ .text)
    (hok : ∀ a ∈ w, a.ok .cif2 = true)
    (hfirst : afterWsOf lt = true ∨ ∀ b rest, w ≠ WsAtom.comment b :: rest)
    (hws : (afterWsOf lt || !w.isEmpty) = true)
    (hfitw : linesFit col (renderWs w) = true)
    (hfit : linesFit (posAfter line col (renderWs w)).2
              ((recommend s unq tri limit).units ++ s ++ (recommend s unq tri limit).units) = true)
    (hctx : followOk .cif2 ctx = true) :
    ∃ ps', parseItem o (fuel + 1)
        ⟨⟨renderWs w ++ (((recommend s unq tri limit).units ++ s ++ (recommend s unq tri limit).units) ++ ctx), line, col, lt⟩, none⟩
        (some path) (some name) pol W
        = P.bind (setValue o path name (.chr (decide (recommend s unq tri limit ≠ .none)) s)) (fun _ => P.pure ps') pol W
      ∧ ps'.tok = none ∧ ps'.scan.rest = ctx := by
  have hu := okUnits_units .cif2 s none hchars
  have h0 : (0 : CU) ∉ s := fun h => (hu 0 h).1 rfl
  have hcs : cstr s = s := C01_cstr_id s (fun x hx e => h0 (e ▸ hx))
  obtain ⟨L, C, hn⟩ := C18_delim_reads_back s ctx unq tri limit w line col lt pol W.log hchars hnt hok hfirst hws hfitw hfit hctx
  by_cases hnone : recommend s unq tri limit = .none
  · obtain ⟨hnd, hnr, hne, _, hq, hd, hone, _⟩ := (C18_delim_admissible s unq tri limit h0).1 hnone
    have hterm := counters_one_line s hone
    have hws2 : cif2WsDelimitable s := by
      refine ⟨hne, fun c hc hl => hnr (Or.inl ⟨c, hc, hl⟩), ?_, fun h => hnr (Or.inr h)⟩
      intro c hc hw
      have a := hnd c hc; have b := hterm c hc
      rcases hw with h | h | h | h | h | h | h | h
      · exact a.1 h
      · exact a.2.1 h
      · exact b.1 h
      · exact b.2 h
      · exact a.2.2.1 h
      · exact a.2.2.2.1 h
      · exact a.2.2.2.2.1 h
      · exact a.2.2.2.2.2 h
    have hset := (C18_set_unquoted_iff s h0).2.2.1 hq hd hws2
    have hbv : bareValue .cif2 s = some (.chr false s) := by
      simp only [bareValue, hq, hd, if_false, hcs]
      have : ((Dialect.cif2 == Dialect.cif1) : Bool) = false := rfl
      rw [this, hset]
    simp only [hnone, if_true, Delim.units, List.nil_append, List.append_nil] at hn
    refine ⟨⟨⟨ctx, L, C, .value⟩, none⟩, ?_, rfl, rfl⟩
    simp only [hnone, Delim.units, List.nil_append, List.append_nil, ne_eq, not_true_eq_false, decide_false]
    simp only [parseItem, parseValue, bind, P.bind, nextTok, liftL, hdia, hn, isKeyTok, isValueStart, hbv, pure, P.pure,
      consume, Bool.false_eq_true, ↓reduceIte]
  · simp only [hnone, if_false] at hn
    refine ⟨⟨⟨ctx, L, C, .qvalue⟩, none⟩, ?_, rfl, rfl⟩
    simp only [ne_eq, hnone, not_false_eq_true, decide_true]
    simp only [parseItem, parseValue, bind, P.bind, nextTok, liftL, hdia, hn, isKeyTok, isValueStart, hcs, pure, P.pure,
      consume, Bool.false_eq_true, ↓reduceIte]

open Spec.Lexical Model.Lexer Model.Parser Model.Writer in
/-- **C18, embedding behind a data name (text fields).**  As `C18_text_field_reads_back_value`, one level up: `parse_item` behind a
    data name on the emitted text field performs exactly `cif_container_set_value(name, .chr true s)`. -/
theorem C18_text_field_reads_back_item (s : Str) (unq tri : Bool) (limit : Nat)
    (hchars : okUnits .cif2 none s = true) (hd : (analyze s unq tri limit).delimLength = 2)
    (o : Opts) (hdia : o.dia = .cif2) (hunf : o.unfold = true) (hprem : o.prem = true) :
    ∃ body : Str,
      (∀ c : Ctx, writeText c s (Lemmas.WriterChar.charFlags (analyze s unq tri limit)).1 (Lemmas.WriterChar.charFlags (analyze s unq tri limit)).2
          = .ok (a!"\n;" ++ body ++ a!"\n;", { c with lastColumn := 1 })) ∧
      (∀ (w0 : List WsAtom) (ctx : Str) (line col : Nat) (lt : TokType) (pol : Policy) (W : Model.Parser.W) (fuel : Nat)
          (path : Path) (name : Str),
        (∀ x ∈ w0, x.ok .cif2 = true) → (afterWsOf lt = true ∨ ∀ b rest, w0 ≠ WsAtom.comment b :: rest) →
        linesFit col (renderWs w0) = true → (posAfter line col (renderWs w0)).2 ≤ LINE → followOk .cif2 ctx = true →
        ∃ ps', parseItem o (fuel + 1) ⟨⟨renderWs w0 ++ ((a!"\n;" ++ body ++ a!"\n;") ++ ctx), line, col, lt⟩, none⟩
              (some path) (some name) pol W
            = P.bind (setValue o path name (.chr true s)) (fun _ => P.pure ps') pol W ∧ ps'.tok = none ∧ ps'.scan.rest = ctx) := by
  obtain ⟨body, hw, _, hdec, hlex⟩ := C18_text_field_reads_back_all s unq tri limit hchars hd
  refine ⟨body, hw, ?_⟩
  intro w0 ctx line col lt pol W fuel path name hw0 hfirst hfitw hcolw hctx
  have hu := okUnits_units .cif2 s none hchars
  have h0 : (0 : CU) ∉ s := fun h => (hu 0 h).1 rfl
  have hcs : cstr s = s := C01_cstr_id s (fun x hx e => h0 (e ▸ hx))
  obtain ⟨L, C, hn⟩ := hlex w0 ctx line col lt pol W.log hw0 hfirst hfitw hcolw hctx
  refine ⟨⟨⟨ctx, L, C, .tvalue⟩, none⟩, ?_, rfl, rfl⟩
  simp only [parseItem, parseValue, bind, P.bind, nextTok, liftL, hdia, hn, isKeyTok, isValueStart, hunf, hprem,
    hdec, hcs, pure, P.pure, consume, Bool.false_eq_true, ↓reduceIte]


-- every hypothesis instantiated: the digit string `12` is recommended whitespace-delimited and comes back from parse_value as the
-- UNQUOTED CHARACTER value `12` (not a number object); `a b` comes back as the quoted character value
example (pol : Model.Lexer.Policy) : ∃ ps', Model.Parser.parseValue C01parse.opts2 3
    ⟨⟨[32] ++ ((a!"12") ++ [10]), 1, 2, .name⟩, none⟩ pol { log := [], cif := [] } = .ok (.chr false (a!"12"), ps') { log := [], cif := [] }
      ∧ ps'.tok = none ∧ ps'.scan.rest = [10] := by
  have h := C18_delim_reads_back_value (a!"12") [10] true true 2048 [.blank 32] 1 2 .name pol C01parse.opts2 { log := [], cif := [] } 2 rfl
    (by decide) (by decide) (by decide) (Or.inr (by intro b r h; cases h)) (by decide) (by decide) (by decide) (by decide)
  have hr : recommend (a!"12") true true 2048 = .none := by decide
  rw [hr] at h
  simpa [Delim.units, Spec.Lexical.renderWs, Spec.Lexical.WsAtom.render] using h

/-- the hypotheses of the text-field theorems at parser level hold for the CIF 2.0 default options and a string that needs the prefix
    protocol; the item is stored as the quoted character value -/
example : ∃ body : Str, ∀ (pol : Model.Lexer.Policy), ∃ ps', Model.Parser.parseItem C01parse.opts2 3
    ⟨⟨[32] ++ ((a!"\n;" ++ body ++ a!"\n;") ++ [10]), 1, 3, .name⟩, none⟩ (some []) (some (a!"_x")) pol { log := [], cif := [] }
      = Model.Parser.P.bind (Model.Parser.setValue C01parse.opts2 [] (a!"_x") (.chr true (a!"'''\"\"\"\n;x"))) (fun _ => Model.Parser.P.pure ps') pol { log := [], cif := [] }
      ∧ ps'.tok = none ∧ ps'.scan.rest = [10] := by
  obtain ⟨body, _, h⟩ := C18_text_field_reads_back_item (a!"'''\"\"\"\n;x") false true 2048 (by decide) (by decide) C01parse.opts2 rfl rfl rfl
  refine ⟨body, fun pol => ?_⟩
  have := h [.blank 32] [10] 1 3 .name pol { log := [], cif := [] } 2 [] (a!"_x") (by decide) (Or.inr (by intro b r h; cases h)) (by decide) (by decide) (by decide)
  simpa [Spec.Lexical.renderWs, Spec.Lexical.WsAtom.render] using this

end CifModel
