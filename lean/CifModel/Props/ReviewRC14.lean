import CifModel.Props.C14
/-
  Review rA, part C14 (handles): instances for `C14_handles_refine`, `C14_handles_are_elements`, `C14_handle_queries`.

  The CIF `cif2` is chosen to be awkward for a statement that identifies an element by its CONTENT:
    * two data blocks, each with a save frame of the SAME code `f` (legal: frame codes are unique per container only);
    * the two frames hold an identical loop `_s`, and that loop has two IDENTICAL packets;
    * block b2 also holds a packet-less loop `_e` (no `noEmptyLoops` hypothesis in the handle theorems).
  Programs: all-continue (runs into the packet-less loop: CIF_EMPTY_LOOP), and a program that skips, then answers an error code.
-/
namespace CifModel.ReviewRC14
open CifModel Walk Lemmas.Walk Lemmas.WalkH

private def b1 := a!"b1"
private def b2 := a!"b2"
private def f := a!"f"
private def _s := a!"_s"
private def _e := a!"_e"

def pkt : List (Str × V) := [(_s, .unk)]
def loopS : WLoop := { category := none, names := [_s], packets := [pkt, pkt] }
def emptyL : WLoop := { category := some (a!"e"), names := [_e], packets := [] }
def cif2 : WCif := [.mk b1 [.mk f [] [loopS]] [], .mk b2 [.mk f [] [loopS]] [emptyL]]

/-- SKIP_CURRENT at invocation 2 (frame_start f of b1), error code 7 at invocation 8 (first item of b2/f) -/
def prog : Prog := fun k _ => if k = 2 then SKIP_CURRENT else if k = 8 then 7 else 0

-- ---- C14_handles_refine: applied; the conclusion transports concrete facts from walkH to walk ------------------------------------

-- all-continue runs into the packet-less loop of b2: CIF_EMPTY_LOOP (36), after 25 callbacks — obtained for `walk` THROUGH the theorem
example : (walk allCont cif2).2 = 36 :=
  (C14_handles_refine allCont cif2).2 ▸ (by decide +kernel : (walkH allCont cif2).2 = 36)
example : (walk allCont cif2).1.length = 25 := by
  rw [← (C14_handles_refine allCont cif2).1, List.length_map]; decide +kernel
-- a program that skips and then errors: 9 callbacks, result 7
example : (walk prog cif2).2 = 7 ∧ (walk prog cif2).1.length = 9 := by
  rw [← (C14_handles_refine prog cif2).1, ← (C14_handles_refine prog cif2).2, List.length_map]; decide +kernel
-- the handles of that walk: b1, its frame (skipped), b1 again (block_end), b2, its frame [1,0], loop 0 of it, packet 0, item 0
example : (walkH prog cif2).1.map (·.2) =
    [.cif, .cont [0], .cont [0, 0], .cont [0], .cont [1], .cont [1, 0], .loop [1, 0] 0, .packet [1, 0] 0 0, .item [1, 0] 0 0 0] := by
  decide +kernel

-- ---- C14_handles_are_elements: applied to single callbacks of concrete walks ---------------------------------------------------------

-- invocation 14 of the all-continue walk is frame_start f of block b2, with the handle [1,0]
theorem ac14 : (walkH allCont cif2).1[14]? = some (.frameStart f, .cont [1, 0]) := by rfl
example : Res cif2 (.frameStart f, .cont [1, 0]) :=
  (C14_handles_are_elements allCont cif2).2.2.2.2.2 _ (List.mem_of_getElem? ac14)
-- … which unfolds to: not a data block, and the path denotes a container of code f
example : [1, 0].length ≠ 1 ∧ ∃ ct, lookup cif2 [1, 0] = some ct ∧ ct.code = f :=
  (C14_handles_are_elements allCont cif2).2.2.2.2.2 _ (List.mem_of_getElem? ac14)

-- ---- C14_handle_queries: applied -------------------------------------------------------------------------------------------------------

-- through the handle given to that frame_start: cif_container_get_code answers f, assert_block CIF_ARGUMENT_ERROR, 0 frames, 1 loop
example : qCode cif2 [1, 0] = some f ∧ qAssertBlock [1, 0] = ARGUMENT_ERROR ∧ qNumLoops cif2 [1, 0] = some 1 := by
  obtain ⟨code, ct, hlk, _, hq, hk, _, hnl, _, _⟩ :=
    (C14_handle_queries allCont cif2).1 _ _ (List.mem_of_getElem? ac14)
  rcases hk with ⟨hb | hb, _⟩ | ⟨hf | hf, hab⟩
  · cases hb
  · cases hb
  · cases hf
    have : ct.loops.length = 1 := by
      have h2 : lookup cif2 [1, 0] = some (.mk f [] [loopS]) := rfl
      rw [h2] at hlk; cases hlk; rfl
    exact ⟨hq, hab, by rw [hnl, this]⟩
  · cases hf

-- the packet-less loop: loop_start is delivered with the handle (container [1], loop 0); a handler's own pass over the packets through
-- it sees 0 packets (the driver prints ` i:36:0:0:-1`), category and names are the announced ones.  No `noEmptyLoops` hypothesis.
theorem ac24 : (walkH allCont cif2).1[24]? = some (.loopStart (some (a!"e")) [_e], .loop [1] 0) := by rfl
theorem ac_last : (walkH allCont cif2).1.length = 24 + 1 ∧ (walkH allCont cif2).2 = EMPTY_LOOP := by decide +kernel
example : qLoopCategory cif2 [1] 0 = some (some (a!"e")) ∧ qLoopNames cif2 [1] 0 = some [_e] ∧ qLoopPackets cif2 [1] 0 = some 0 := by
  obtain ⟨cat, names, l, he, hc, hn, hl, hp⟩ := (C14_handle_queries allCont cif2).2.1 _ _ _ (List.mem_of_getElem? ac24)
  have h2 : lookupLoop cif2 [1] 0 = some emptyL := rfl
  rw [h2] at hl; cases hl
  rcases he with he | he <;> cases he
  exact ⟨hc, hn, hp⟩

-- an item callback after a skip, in the walk that ends with the error code 7: handle (container [1,0], loop 0, packet 0, item 0);
-- the theorem gives the item announced = the item at that position of the CIF
theorem pr8 : (walkH prog cif2).1[8]? = some (.item _s .unk, .item [1, 0] 0 0 0) := by rfl
example : ∃ l pk, lookupLoop cif2 [1, 0] 0 = some l ∧ l.packets[0]? = some pk ∧ pk[0]? = some (_s, V.unk) := by
  obtain ⟨l, pk, nm, v, hl, hp, hi, he, _, _⟩ := (C14_handle_queries prog cif2).2.2.2 _ _ _ _ _ (List.mem_of_getElem? pr8)
  cases he
  exact ⟨l, pk, hl, hp, hi⟩

-- ---- what `Res` (the conclusion of C14_handles_are_elements) does NOT pin down -------------------------------------------------------

/-- the first 12 callbacks of the all-continue walk of `cif2` (cif_start, block b1, its frame f with the loop `_s` and its two
    packets, frame_end), but with INCONSISTENT handles: frame_start f of block b1 gets the handle of the frame f of block b2, loop_start
    the loop of that other frame, the first packet_start the position of the SECOND packet, its packet_end another position than its
    packet_start, the item a third place, and the same packet position is handed out twice -/
def fakeLog : List (Ev × Handle) :=
  [(.cifStart, .cif), (.blockStart b1, .cont [0]),
   (.frameStart f, .cont [1, 0]),                       -- the frame of the OTHER block
   (.loopStart none [_s], .loop [1, 0] 0),              -- the loop of the other frame
   (.pktStart pkt, .packet [0, 0] 0 1),                 -- first packet announced, position of the second
   (.item _s .unk, .item [1, 0] 0 1 0),                 -- an item of a packet of the other loop
   (.pktEnd pkt, .packet [0, 0] 0 0),                   -- packet_end with another handle than its packet_start
   (.pktStart pkt, .packet [0, 0] 0 1),                 -- the same position a second time
   (.item _s .unk, .item [0, 0] 0 0 0),
   (.pktEnd pkt, .packet [1, 0] 0 1),
   (.loopEnd none [_s], .loop [0, 0] 0),                -- loop_end with another handle than loop_start
   (.frameEnd f, .cont [0, 0])]                         -- frame_end with another handle than frame_start

/-- every entry of the inconsistent log satisfies `Res`: the predicate relates ONE callback to ONE handle by content (code / category,
    names / packet content / item) and says nothing about WHICH of several equal elements is being walked, nor that start and end
    callback of an element carry the same handle, nor that a position is handed out once -/
theorem fake_allres : ∀ x ∈ fakeLog, Res cif2 x := by
  intro x hx
  simp only [fakeLog, List.mem_cons, List.not_mem_nil, or_false] at hx
  rcases hx with rfl | rfl | rfl | rfl | rfl | rfl | rfl | rfl | rfl | rfl | rfl | rfl
  · trivial
  · exact ⟨rfl, _, rfl, rfl⟩
  · exact ⟨by decide, _, rfl, rfl⟩
  · exact ⟨_, rfl, rfl, rfl⟩
  · exact ⟨_, rfl, rfl⟩
  · exact ⟨_, _, rfl, rfl, rfl⟩
  · exact ⟨_, rfl, rfl⟩
  · exact ⟨_, rfl, rfl⟩
  · exact ⟨_, _, rfl, rfl, rfl⟩
  · exact ⟨_, rfl, rfl⟩
  · exact ⟨_, rfl, rfl, rfl⟩
  · exact ⟨by decide, _, rfl, rfl⟩

-- the callbacks of `fakeLog` are those of the real walk …
example : fakeLog.map (·.1) = ((walkH allCont cif2).1.take 12).map (·.1) := by rfl
-- … whose handles are the consistent ones (this is a fact about the MODEL `walkH`, visible to the correspondence run, but it is not
-- what the theorem states)
example : ((walkH allCont cif2).1.take 12).map (·.2) =
    [.cif, .cont [0], .cont [0, 0], .loop [0, 0] 0, .packet [0, 0] 0 0, .item [0, 0] 0 0 0, .packet [0, 0] 0 0,
     .packet [0, 0] 0 1, .item [0, 0] 0 1 0, .packet [0, 0] 0 1, .loop [0, 0] 0, .cont [0, 0]] := by decide +kernel
example : fakeLog.map (·.2) ≠ ((walkH allCont cif2).1.take 12).map (·.2) := by decide +kernel

-- the fourth conjunct of C14_handle_queries, read on the fake entry `(.item _s .unk, .item [1,0] 0 1 0)`, is satisfied as well: its
-- conclusion only asks that SOME loop / packet / item at the handle's position has the announced content
example : ∃ l pk nm v, lookupLoop cif2 [1, 0] 0 = some l ∧ l.packets[1]? = some pk ∧ pk[0]? = some (nm, v)
    ∧ (Ev.item _s .unk) = .item nm v ∧ qLoopCategory cif2 [1, 0] 0 = some l.category ∧ qLoopNames cif2 [1, 0] 0 = some l.names :=
  ⟨_, _, _, _, rfl, rfl, rfl, rfl, rfl, rfl⟩

-- ---- after the repair (gQ2): the restated `C14_handles_are_elements` refutes `fakeLog` ------------------------------------------------
-- conjunct 1 (Sublist of the positional traversal): the handles of `fakeLog` are not even a sublist of the positions of `cif2` …
example : ¬ (fakeLog.map (·.2)).Sublist ((Spec.TraversalPos.fullTraversalH cif2).map (·.2)) := by decide +kernel
theorem fake_not_positional : ¬ fakeLog.Sublist (Spec.TraversalPos.fullTraversalH cif2) := by
  intro h
  exact absurd (h.map (·.2)) (by decide +kernel)
-- … and conjunct 4 (no (kind, position) twice among the delivered callbacks): `fakeLog` hands out packet position [0,0] 0 1 twice
example : ¬ (fakeLog.map (fun x => (Spec.TraversalPos.kind x.1, x.2))).Nodup := by decide +kernel
-- so `fakeLog` is not the log of any walk of `cif2`
example (p : Prog) : (walkH p cif2).1 ≠ fakeLog := by
  intro h
  exact fake_not_positional (h ▸ (C14_handles_are_elements p cif2).1)

end CifModel.ReviewRC14
