import CifModel.Lemmas.ParserLines
/-
  Props/C03Extra — theorems of property C03 proved outside group gJ's files (group gC), about gJ's integrated parser model
  `Model.Parser.parse`:

    C03_callback_lines  — every report delivered to the error callback carries a line number ≥ 1 (lines are 1-based;
                          columns are 0-based naturals, so "column ≥ 0" holds by typing).
-/
namespace CifModel
open CifModel.Model CifModel.Model.Lexer CifModel.Model.Parser

/-- from ANY scanner state on line ≥ n, next_token only ever reports on lines ≥ n and leaves the scanner on a line ≥ n
    (HANDLE_EOL only increments) -/
theorem C03_scanner_lines_monotone (n : Nat) (dia : Dialect) (s : Scan) (h : n ≤ s.line) (pol : Policy) (log : List Report)
    (hlog : ∀ r ∈ log, n ≤ r.line) :
    match nextToken dia s pol log with
    | .ok a l => (n ≤ a.1.line ∧ n ≤ a.2.line) ∧ ∀ r ∈ l, n ≤ r.line
    | .abort _ l => ∀ r ∈ l, n ≤ r.line := by
  have h1 := linv_nextToken n dia s h pol log hlog
  cases hr : nextToken dia s pol log with
  | ok a l => rw [hr] at h1; exact h1
  | abort rv l => rw [hr] at h1; exact h1

/-- **C03_callback_lines**: for every option record, every callback policy, every initial target content and every input,
    every report delivered to the error callback — by the scanner or by a production, whether the parse completes or is
    aborted by the callback — carries a line number ≥ 1.  (INIT_V2_SCANNER sets `line = 1`; HANDLE_EOL only increments;
    every call site passes `scanner->line`, or the literal 1 at start-up.) -/
theorem C03_callback_lines (o : Opts) (pol : Policy) (pre : Cif) (units : Str) :
    ∀ r ∈ (parse o pol pre units).log, 1 ≤ r.line ∧ 0 ≤ r.col := by
  intro r hr
  refine ⟨?_, Nat.zero_le _⟩
  have h := parseInternal_lines o (fuelFor units) units pol { log := [], cif := pre } (by intro x hx; cases hx)
  unfold parse run at hr
  cases hp : parseInternal o (fuelFor units) units pol { log := [], cif := pre } with
  | ok a w =>
    rw [hp] at h hr
    simp only [List.mem_reverse] at hr
    exact h.2 r hr
  | abort rv w =>
    rw [hp] at h hr
    simp only [List.mem_reverse] at hr
    exact h r hr

-- non-vacuity: a parse that reports on lines 1 and 2
example : ((parse ⟨.cif2, 1, true, true, false, false, id, id⟩ acceptAll [] (a!"x\n'")).log.map (·.line)).length ≥ 2 := by
  decide +kernel

end CifModel
