import CifModel.Lemmas.ParserLines
import CifModel.Lemmas.ParserFuel
/-
  Props/C03Extra — theorems of property C03 proved outside group gJ's files (group gC), about gJ's integrated parser model
  `Model.Parser.parse`:

    C03_fuel_suffices   — the fuel `2·|input| + 16` that `parse` passes to the productions is never exhausted: the out-of-fuel
                          marker NOFUEL (1001) is the result of a parse only if the callback itself answered 1001.
    C03_callback_lines  — every report delivered to the error callback carries a line number ≥ 1 (lines are 1-based;
                          columns are 0-based naturals, so "column ≥ 0" holds by typing).
-/
namespace CifModel
open CifModel.Model CifModel.Model.Lexer CifModel.Model.Parser

/-- from ANY scanner state on line ≥ n, next_token only ever reports on lines ≥ n and leaves the scanner on a line ≥ n
    (HANDLE_EOL only increments) -/
theorem C03_scanner_lines_monotone (n : Nat) (dia : Dialect) (s : Scan) (h : n ≤ s.line) (pol : Policy) (log : List Report)
    (hlog : ∀ r ∈ log, n ≤ r.line) :
    match nextToken dia s pol log with
    | .ok a l => (n ≤ a.1.line ∧ n ≤ a.2.line) ∧ ∀ r ∈ l, n ≤ r.line
    | .abort _ l => ∀ r ∈ l, n ≤ r.line := by
  have h1 := linv_nextToken n dia s h pol log hlog
  cases hr : nextToken dia s pol log with
  | ok a l => rw [hr] at h1; exact h1
  | abort rv l => rw [hr] at h1; exact h1

/-- **C03_callback_lines**: for every option record, every callback policy, every initial target content and every input,
    every report delivered to the error callback — by the scanner or by a production, whether the parse completes or is
    aborted by the callback — carries a line number ≥ 1.  (INIT_V2_SCANNER sets `line = 1`; HANDLE_EOL only increments;
    every call site passes `scanner->line`, or the literal 1 at start-up.) -/
theorem C03_callback_lines (o : Opts) (pol : Policy) (pre : Cif) (units : Str) :
    ∀ r ∈ (parse o pol pre units).log, 1 ≤ r.line ∧ 0 ≤ r.col := by
  intro r hr
  refine ⟨?_, Nat.zero_le _⟩
  have h := parseInternal_lines o (fuelFor units) units pol { log := [], cif := pre } (by intro x hx; cases hx)
  unfold parse run at hr
  cases hp : parseInternal o (fuelFor units) units pol { log := [], cif := pre } with
  | ok a w =>
    rw [hp] at h hr
    simp only [List.mem_reverse] at hr
    exact h.2 r hr
  | abort rv w =>
    rw [hp] at h hr
    simp only [List.mem_reverse] at hr
    exact h r hr

/-- **C03_fuel_suffices**: for every option record, every initial target content, every input and every callback policy that
    never answers the marker value itself, the parse does not end with the out-of-fuel marker — the productions never reach
    their `fuel = 0` branch with the fuel `fuelFor units = 2·|units| + 16`.  (Potential argument, Lemmas/ParserFuel: the units
    still to be scanned plus the weight of the pending token never grow, every consumed token lowers them, and each
    production nests at most two calls per unit of potential plus a constant ≤ 4.)  With this, `C03_total` needs no caveat:
    the outcome `parse` computes is the outcome of the unbounded recursion. -/
theorem C03_fuel_suffices (o : Opts) (pol : Policy) (pre : Cif) (units : Str) (hpol : ∀ i r, pol i r ≠ NOFUEL) :
    (parse o pol pre units).rc ≠ NOFUEL := by
  have h := fok_parseInternal o units pol { log := [], cif := pre } hpol
  unfold parse run
  cases hp : parseInternal o (fuelFor units) units pol { log := [], cif := pre } with
  | ok a w => simp only; decide
  | abort rv w => rw [hp] at h; exact h

/-- the same, read the other way: a parse that returns 1001 was told so by the callback -/
theorem C03_nofuel_only_from_callback (o : Opts) (pol : Policy) (pre : Cif) (units : Str)
    (h : (parse o pol pre units).rc = NOFUEL) : ∃ i r, pol i r = NOFUEL := by
  apply Classical.byContradiction
  intro hne
  exact C03_fuel_suffices o pol pre units (fun i r hh => hne ⟨i, r, hh⟩) h

/-- in particular under accept-all -/
theorem C03_fuel_suffices_accept_all (o : Opts) (pre : Cif) (units : Str) : (parse o acceptAll pre units).rc ≠ NOFUEL :=
  C03_fuel_suffices o acceptAll pre units (fun _ _ => by show (0 : Int) ≠ NOFUEL; decide)

-- non-vacuity: a parse that reports on lines 1 and 2
example : ((parse ⟨.cif2, 1, true, true, false, false, id, id⟩ acceptAll [] (a!"x\n'")).log.map (·.line)).length ≥ 2 := by
  decide +kernel

end CifModel
